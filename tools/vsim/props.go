package main

// The property table: which world decides which property, with which budgets.
// Budgets are rapid checks per worker process; 16 workers run in parallel.
var props = []propCfg{
	{
		ID: "C07", World: "stream", Pkg: "worlds/stream", Test: "TestStream", Level: "exploration",
		Variants: []variant{{Name: "plain", Quick: 250000, Thorough: 6000000, Workers: 16, QuickS: 900, ThoroughS: 3 * 3600}},
		Rule: "one run = one drawn streaming key configuration (algorithm, level subtle/keyset, key sizes, hashes, tag size, segment size, first-segment offset, keyset size and position of the matching key), " +
			"one plaintext length chosen relative to the format's segment boundaries, one write history (chunking, zero-length writes, calls after Close), one read history (buffer sizes) over a source with scripted short reads/(0,nil)/EOF styles, " +
			"and one fault family (F0 none … F8 other key) placed at a drawn, format-aware position; all drawn by rapid from the worker seed. " +
			"A run is non-trivial if a fault fired or any write/read/source chunking was in effect; two runs are distinct if their signature " +
			"(algorithm, level, #segments class, plaintext-boundary class, write-pattern class, read-pattern class, short-read class, fault kind, fault-position class) differs.",
		Assume: []string{"the injected persistent I/O error is a sentinel distinct from io.EOF/io.ErrUnexpectedEOF", "forging a ≥10-byte tag by a single manipulation has negligible probability",
			"reference codec refimpl/streamref is correct (it is cross-checked in both directions against Tink in every fault-free run)"},
	},
	{
		ID: "C11", World: "manager", Pkg: "worlds/manager", Test: "TestManager", Level: "exploration",
		Variants: []variant{{Name: "plain", Quick: 50000, Thorough: 1500000, Workers: 16, QuickS: 900, ThoroughS: 3 * 3600}},
		Rule: "one run = one drawn history (1..60 operations quick, 1..300 thorough) over Add / AddKey / AddNewKeyFromParameters / SetPrimary / Enable / Disable / Delete / Handle / NewManagerFromHandle(earlier handle) / re-inspection, " +
			"started from an empty manager or from a handle parsed from a stored keyset with DISABLED and DESTROYED keys; key-ID draws are served from a script (live ID, deleted/burned ID, 0, 2^32-1) through the RNG seam so the re-draw loop runs; " +
			"after every operation the keyset is compared with a reference model. Non-trivial = at least two distinct (operation kind, outcome) pairs occurred; distinct = signature (start kind, set of (op kind, ok/err) pairs, scripted live-ID collisions class, max live keys class, branches class).",
		Assume: []string{"key.Equal of the key types used (AES-GCM, ChaCha20-Poly1305, HMAC, Ed25519, ECDSA) distinguishes different key material", "histories up to the stated length; at most ~12 live keys"},
	},
	{
		ID: "C18", World: "sched", Pkg: "worlds/sched", Test: "TestSched", Level: "exploration", Instr: true,
		Variants: []variant{
			{Name: "plain", Quick: 2500, Thorough: 60000, Workers: 10, CPU: 4, QuickS: 1500, ThoroughS: 4 * 3600},
			{Name: "race", Race: true, Quick: 500, Thorough: 12000, Workers: 6, CPU: 4, QuickS: 1500, ThoroughS: 4 * 3600},
		},
		Rule: "one run = one shared object (factory primitive over a 1..3-key keyset of a drawn class and key types from the catalog, a legacy-adapter MAC over a stub key manager, or a handle with its read operations, primitive construction, registry lookups and key generation), " +
			"2..4 tasks (6 thorough) of 1..3 operations each on inputs that are overlapping sub-slices of one shared read-only arena, and one drawn plan of baton passes placed at yield points inserted before every statement of tink's sources. " +
			"Each run is executed first task-by-task alone (sequential oracle, per-task RNG lanes), then under the plan; the race variant runs the same seeds under ThreadSanitizer, which sees no synchronisation between tasks except tink's own. " +
			"Non-trivial = at least one preemption inside a tink call; distinct = signature (scenario, class, key type, op kinds, #tasks, preemption-count class, 16-bit hash of the (task, site) pass sequence).",
		Assume: []string{"yield points exist in tink code only: the standard library, x/crypto and protobuf run atomically between them", "ThreadSanitizer's bounded access history", "amd64 store ordering for the norace baton",
			"randomness drawn inside the standard library without a reader (ML-KEM) is checked semantically (recipient decrypts) instead of byte-for-byte"},
	},
	{
		ID: "C05", World: "rotation", Pkg: "worlds/rotation", Test: "TestRotation", Level: "exploration",
		Variants: []variant{{Name: "plain", Quick: 2000, Thorough: 100000, Workers: 16, QuickS: 1500, ThoroughS: 4 * 3600}},
		Rule: "TODO",
		Assume: []string{"TODO"},
	},
	{
		ID: "C09", World: "jwtclock", Pkg: "worlds/jwtclock", Test: "TestJWTClock", Level: "exploration",
		Variants: []variant{{Name: "plain", Quick: 500, Thorough: 30000, Workers: 16, QuickS: 1500, ThoroughS: 4 * 3600}},
		Rule: "TODO",
		Assume: []string{"TODO"},
	},
	{
		ID: "C14", World: "atrest", Pkg: "worlds/atrest", Test: "TestAtRest", Level: "exploration",
		Variants: []variant{{Name: "plain", Quick: 5000, Thorough: 300000, Workers: 16, QuickS: 1500, ThoroughS: 4 * 3600}},
		Rule: "TODO",
		Assume: []string{"TODO"},
	},
	{
		ID: "C19", World: "memory", Pkg: "worlds/memory", Test: "TestMemory", Level: "exploration",
		Variants: []variant{{Name: "plain", Quick: 1000, Thorough: 60000, Workers: 16, QuickS: 1500, ThoroughS: 4 * 3600}},
		Rule: "TODO",
		Assume: []string{"TODO"},
	},
	{
		ID: "C20", World: "entropy", Pkg: "worlds/entropy", Test: "TestEntropy", Level: "exploration",
		Variants: []variant{{Name: "plain", Quick: 1000, Thorough: 60000, Workers: 16, QuickS: 1500, ThoroughS: 4 * 3600}},
		Rule: "TODO",
		Assume: []string{"TODO"},
	},
}
