package main

// The property table: which world decides which property, with which budgets.
// Budgets are rapid checks per worker process; 16 workers run in parallel.
var props = []propCfg{
	{
		ID: "C07", World: "stream", Pkg: "worlds/stream", Test: "TestStream", Level: "exploration",
		Variants: []variant{{Name: "plain", Quick: 250000, Thorough: 6000000, Workers: 16, QuickS: 900, ThoroughS: 3 * 3600}},
		Rule: "one run = one drawn streaming key configuration (algorithm, level subtle/keyset, key sizes, hashes, tag size, segment size, first-segment offset, keyset size and position of the matching key), " +
			"one plaintext length chosen relative to the format's segment boundaries, one write history (chunking, zero-length writes, calls after Close), one read history (buffer sizes) over a source with scripted short reads/(0,nil)/EOF styles, " +
			"and one fault family (F0 none … F8 other key) placed at a drawn, format-aware position; all drawn by rapid from the worker seed. " +
			"A run is non-trivial if a fault fired or any write/read/source chunking was in effect; two runs are distinct if their signature " +
			"(algorithm, level, #segments class, plaintext-boundary class, write-pattern class, read-pattern class, short-read class, fault kind, fault-position class) differs.",
		Assume: []string{"the injected persistent I/O error is a sentinel distinct from io.EOF/io.ErrUnexpectedEOF", "forging a ≥10-byte tag by a single manipulation has negligible probability",
			"reference codec refimpl/streamref is correct (it is cross-checked in both directions against Tink in every fault-free run)"},
	},
	{
		ID: "C11", World: "manager", Pkg: "worlds/manager", Test: "TestManager", Level: "exploration",
		Variants: []variant{{Name: "plain", Quick: 50000, Thorough: 400000, Workers: 16, QuickS: 900, ThoroughS: 3 * 3600}},
		Rule: "one run = one drawn history (1..60 operations quick, 1..300 thorough) over Add / AddKey / AddNewKeyFromParameters / SetPrimary / Enable / Disable / Delete / Handle / NewManagerFromHandle(earlier handle) / re-inspection, " +
			"started from an empty manager or from a handle parsed from a stored keyset with DISABLED and DESTROYED keys; key-ID draws are served from a script (live ID, deleted/burned ID, 0, 2^32-1) through the RNG seam so the re-draw loop runs; " +
			"after every operation the keyset is compared with a reference model. Non-trivial = at least two distinct (operation kind, outcome) pairs occurred; distinct = signature (start kind, set of (op kind, ok/err) pairs, scripted live-ID collisions class, max live keys class, branches class).",
		Assume: []string{"key.Equal of the key types used (AES-GCM, ChaCha20-Poly1305, HMAC, Ed25519, ECDSA) distinguishes different key material", "histories up to the stated length; at most ~12 live keys"},
	},
	{
		ID: "C18", World: "sched", Pkg: "worlds/sched", Test: "TestSched", Level: "exploration", Instr: true,
		Variants: []variant{
			{Name: "plain", Quick: 2500, Thorough: 25000, Workers: 10, CPU: 1, QuickS: 1500, ThoroughS: 4 * 3600},
			{Name: "race", Race: true, Quick: 500, Thorough: 5000, Workers: 6, CPU: 1, QuickS: 1500, ThoroughS: 4 * 3600},
		},
		Rule: "one run = one shared object (factory primitive over a 1..3-key keyset of a drawn class and key types from the catalog, a legacy-adapter MAC over a stub key manager, or a handle with its read operations, primitive construction, registry lookups and key generation), " +
			"2..4 tasks (6 thorough) of 1..3 operations each on inputs that are overlapping sub-slices of one shared read-only arena, and one drawn plan of baton passes placed at yield points inserted before every statement of tink's sources. " +
			"Each run is executed first task-by-task alone (sequential oracle, per-task RNG lanes), then under the plan; the race variant runs the same seeds under ThreadSanitizer, which sees no synchronisation between tasks except tink's own. " +
			"Non-trivial = at least one preemption inside a tink call; distinct = signature (scenario, class, key type, op kinds, #tasks, preemption-count class, 16-bit hash of the (task, site) pass sequence).",
		Assume: []string{"yield points exist in tink code only: the standard library, x/crypto and protobuf run atomically between them", "ThreadSanitizer's bounded access history", "amd64 store ordering for the norace baton",
			"randomness drawn inside the standard library without a reader (ML-KEM) is checked semantically (recipient decrypts) instead of byte-for-byte"},
	},
	{
		ID: "C05", World: "rotation", Pkg: "worlds/rotation", Test: "TestRotation", Level: "exploration",
		Variants: []variant{{Name: "plain", Quick: 20000, Thorough: 50000, Workers: 16, QuickS: 1500, ThoroughS: 4 * 3600}},
		Rule:     "one run = one rapid bit stream: a primitive class (aead, daead, mac, signature, hybrid, jwtmac, jwtsig, streamingaead, prf), monitoring on/off, a palette of 1..4 catalogue entries (mixed key types and variants, plus stub custom key types), a start state (empty manager or a parsed keyset with DISABLED/DESTROYED keys) and up to 40 (thorough 120) steps of administrator (real keyset.Manager ops, key IDs scripted through the RNG seam to 0, 2^32-1, live, near-live, deleted and foreign IDs), producer, consumer, network (late, duplicated, reordered delivery; version skew) and foreign-administrator actions. Non-trivial = at least one delivery had an expected outcome other than 'accepted under the consumer's primary'; distinct = signature (class, monitoring, start, live-key bucket, set of outcome classes, set of producer/consumer version relations).",
		Assume:   []string{"equal key material under different parameters never occurs in a run", "forging across distinct key materials is negligible", "handle entries (ID, status, primary) are taken as the keyset — manager correctness is C11", "error texts, order of trial decryption and Enable on DESTROYED are not asserted", "ML-KEM randomness is fixed by cryptotest.SetGlobalRandom; JWT and randomized outputs enter the digest only by length and decision"},
	},
	{
		ID: "C09", World: "jwtclock", Pkg: "worlds/jwtclock", Test: "TestJWTClock", Level: "exploration",
		Variants: []variant{{Name: "plain", Quick: 2500, Thorough: 30000, Workers: 16, QuickS: 1500, ThoroughS: 4 * 3600}},
		Rule:     "one run = one keyset (MAC or signature class; 1..5 keys over 1..3 materials of HS/ES/RS/PS/ML-DSA, each key with its own algorithm and kid strategy, some disabled, verifier side direct or through a JWK set), 1..4 validators (typ/iss/aud expected|none|ignored, AllowMissingExpiration, ExpectIssuedInThePast, clock skew from {0, 1ns, 1s, 10min, ...}), 1..8 tokens issued inside a testing/synctest bubble with a drawn issuer clock error, each with one drawn manipulation of known effect (or none), network delays and duplicate deliveries. Every token is verified by the real code at its deliveries and at exp+skew / nbf-skew / iat-skew +- {0, 1ns, 1s}, once through time.Now (the bubble clock) and once through FixedNow, and compared with refimpl/jwtref. Non-trivial = a manipulation fired, or a time rule was evaluated within 1ns of its boundary, or the keyset went through JWK; distinct = signature (class, transport, key-family set, kid-rule set, first token's manipulation, which time claims were hit at a boundary, outcomes seen).",
		Assume:   []string{"the synctest bubble clock starts at 2000-01-01T00:00:00Z and advances only by time.Sleep (asserted every run)", "a bit-flipped, truncated, extended, all-zero or foreign-key signature is not valid (negligible forgery probability); ECDSA (r, n-s) malleability is not generated", "iss/aud/typ follow the expected-vs-present matrix of the property; a missing iat fails ExpectIssuedInThePast", "registered claims of wrong type or outside [0, 253402300799] invalidate the token", "the standard-library signers are an independent oracle for HS/ES/RS/PS; ML-DSA re-signing uses tink's raw ML-DSA primitive", "tokens whose meaning the reference model is not certain about (non-string kid/typ, fractional times, duplicate JSON members) are not generated"},
	},
	{
		ID: "C14", World: "atrest", Pkg: "worlds/atrest", Test: "TestAtRest", Level: "exploration",
		Variants: []variant{{Name: "plain", Quick: 20000, Thorough: 150000, Workers: 16, QuickS: 1500, ThoroughS: 4 * 3600}},
		Rule:     "each rapid run draws (format binary/JSON, protection cleartext/encrypted under a real AES-GCM KEK with associated data/public-only, 1..5 catalogue keys of one or mixed classes, optionally a stub custom key and an unknown-type-URL key, ENABLED/DISABLED/DESTROYED mix), writes it once with the real writer to a simulated device, then runs 1..6 (thorough 1..12) storage experiments on that image — each one evaluation: none; 1..3 medium faults placed field-aware by walking the protobuf/JSON layout (bit flip, byte substitution, block duplicated/dropped/swapped, splice with a second keyset, zero/garbage tail, empty, random, flips in keyset_info vs ciphertext of the encrypted wrapper); cut at every level-1/level-2 field boundary; torn write through the device; 12 proto-level edits; wrong reader; 39 hand-built below-minimum-strength keys — read back through a short-reading / failing source. Non-trivial = a medium, struct, weak-key or reader-side fault fired or a special key is present; distinct = signature (format, key-type set, protection, fault kind@target class, outcome).",
		Assume:   []string{"storage faults act on bytes the real writers produced, plus the listed proto edits, weak protos and random garbage; arbitrary in-memory Keyset mutation is not enumerated", "the harness classifier uses the same protobuf library as tink", "strength thresholds are exactly those in the property text, read through public accessors", "SLH-DSA primaries are excepted from self-consistency as the property says", "ML-DSA WITH_ID_REQUIREMENT keys and RSA-PSS salt-length-0 keys are excluded because their own images cannot be written/read back (a C12 matter)"},
	},
	{
		ID: "C19", World: "memory", Pkg: "worlds/memory", Test: "TestMemory", Level: "exploration",
		Variants: []variant{
			{Name: "plain", Quick: 10000, Thorough: 60000, Workers: 10, QuickS: 1500, ThoroughS: 4 * 3600},
			// same world built through the yield-point overlay: caller buffers are also checked before every statement tink executes
			{Name: "watch", Instr: true, Quick: 5000, Thorough: 30000, Workers: 6, QuickS: 1500, ThoroughS: 4 * 3600},
		},
		Rule:   "one run = one drawn entry (a catalogue key type x variant, a stub legacy key type x prefix, or a subtle constructor), one drawn history of up to 10 steps (accessor sweep found by reflection, public constructors fed from arena buffers, serialize/parse, handles through manager / MemReaderWriter / binary / JSON / encrypted readers, exports, factory primitives and their operations on arena-backed inputs) and one drawn fault plan (which earlier input or returned value is flipped, after which step, which byte, whole value or not, data or spare capacity). The history is executed in a pristine and a faulted world with identical RNG streams. Non-trivial = at least one flip fired; distinct = signature (class/key type/variant, set of step groups, set of flip kinds fired, outcome).",
		Assume: []string{"Go's collector does not move heap objects and every compared address range is kept referenced", "the simrng and cryptotest seams reproduce all randomness; a non-reproducible operation is detected, counted and compared semantically", "key.Equal plus accessor values distinguish key material", "stub key-manager primitives are themselves copy-clean", "KMS envelope AEAD and the hybrid/subtle curve helpers are not reached (listed in the byte-api set of the evidence)"},
	},
	{
		ID: "C20", World: "entropy", Pkg: "worlds/entropy", Test: "TestEntropy", Level: "exploration",
		Variants: []variant{{Name: "plain", Quick: 4000, Thorough: 8000, Workers: 16, QuickS: 1500, ThoroughS: 4 * 3600}},
		Rule:     "each run draws 1..4 keys over all randomized catalogue key types and variants (AEAD, streaming AEAD, hybrid HPKE/ECIES, signatures, JWT signatures) plus an interleaved history of 1..24 (thorough 50) produce / new-primitive / key-generation / manager-add calls with the RNG behind the simrng seam; legal short reads of the RNG (max 2..7 bytes) are on in 70% of runs and key-ID collisions are scripted. Per call: provenance (the random field equals a contiguous range issued during this very call, windows disjoint and advancing), sensitivity (re-run with one consumed byte XOR 0xFF: the output must change), independent crypto/ecdh recomputation of ephemerals, pairwise no-repeat sets, and SetGlobalRandom-differential for ML-KEM. Non-trivial = an oracle ran and a fault fired or more than 3 calls were made; distinct = signature (first key class/type/variant, #keys, set of oracles exercised, fault kinds fired, call-count class).",
		Assume:   []string{"simrng's stream is collision-free over a run", "Go 1.26.8 with GODEBUG cryptocustomrand=1 (harness go.mod says go 1.25.0): the reader tink passes to ecdsa/rsa/ecdh is honoured", "randomness drawn inside the standard library without a reader is reachable only through testing/cryptotest.SetGlobalRandom", "statistical quality of the OS RNG is out of scope: identity with the RNG's bytes is what is decided", "rejection sampling never discards more than (consumed - scheme length) bytes"},
	},
}
