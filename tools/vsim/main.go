// vsim is the orchestrator of the tink-go simulation checks.
//
//	vsim check <ID> [--tier quick|thorough] [--seed N] [--workers N] [--checks N]
//	vsim replay <replay.json>
//	vsim selftest [ID...]            determinism self-test
//	vsim mutants [--seeded] [--benign] [--checks N] [ID...]   sensitivity (mutants, archived seeded changes) / silence (archived property-preserving changes)
//	vsim list
//
// Exit codes: 0 property held on everything explored; 1 violation (a line
// "VIOLATION property=<id> replay=<path>" is printed); 2 infrastructure trouble
// (build failure, watchdog, harness failure, nondeterminism) — never reported
// as a violation.
package main

import (
	"encoding/json"
	"flag"
	"fmt"
	"os"
	"os/exec"
	"path/filepath"
	"sort"
	"strconv"
	"strings"
	"sync"
	"syscall"
	"time"
)

const goBin = "go1.26.8"

// verifDir is the tree this binary belongs to (<verifDir>/bin/vsim): /verif for the registered checks, a snapshot
// directory for background runs started with `vp run`.
var verifDir, simDir = locate()

func locate() (string, string) {
	d := "/verif"
	if exe, err := os.Executable(); err == nil {
		if r, err := filepath.EvalSymlinks(exe); err == nil {
			exe = r
		}
		if c := filepath.Dir(filepath.Dir(exe)); fileExists(filepath.Join(c, "sim", "go.mod")) {
			d = c
		}
	}
	return d, filepath.Join(d, "sim")
}

func fileExists(p string) bool { _, err := os.Stat(p); return err == nil }

// repoDir is /repo for every registered check. VSIM_REPO_DIR points the build
// at a scratch worktree instead (used only to try seeded breaking changes
// without touching /repo); the evidence then says so.
var repoDir = envOr("VSIM_REPO_DIR", "/repo")

type variant struct {
	Name      string
	Race      bool
	Instr     bool // build this variant through the yield-point overlay (tag instr)
	Quick     int  // rapid checks per worker
	Thorough  int
	Workers   int
	CPU       int // -test.cpu
	EnvExtra  []string
	QuickS    int // watchdog seconds
	ThoroughS int
}

type propCfg struct {
	ID       string
	World    string
	Pkg      string // package dir under /verif/sim
	Test     string
	Instr    bool // build through the yield-point overlay
	Variants []variant
	Level    string
	Rule     string
	Assume   []string
}

func env() []string {
	e := os.Environ()
	e = append(e, "GOFLAGS=-mod=mod", "GOPROXY=off", "GOSUMDB=off", "GOTOOLCHAIN=local")
	// The RNG seam needs the reader tink passes to crypto/ecdsa, crypto/rsa and crypto/ecdh to be honoured (Go 1.26's
	// cryptocustomrand=1; implied by the harness go.mod's "go 1.25.0", forced here so that a GODEBUG inherited from the
	// caller cannot switch it off).
	gd := "cryptocustomrand=1"
	for _, kv := range e {
		if strings.HasPrefix(kv, "GODEBUG=") && len(kv) > 8 {
			var keep []string
			for _, f := range strings.Split(kv[8:], ",") {
				if !strings.HasPrefix(f, "cryptocustomrand=") && f != "" {
					keep = append(keep, f)
				}
			}
			gd = strings.Join(append(keep, gd), ",")
		}
	}
	e = append(e, "GODEBUG="+gd)
	return e
}

func splitmix(x uint64) uint64 {
	x += 0x9e3779b97f4a7c15
	x = (x ^ (x >> 30)) * 0xbf58476d1ce4e5b9
	x = (x ^ (x >> 27)) * 0x94d049bb133111eb
	return x ^ (x >> 31)
}

func workerSeed(verifSeed uint64, prop string, variantIdx, worker int) uint64 {
	h := verifSeed
	for _, c := range []byte(prop) {
		h = splitmix(h ^ uint64(c))
	}
	// variants of one property share seeds on purpose (same schedules under -race)
	_ = variantIdx
	h = splitmix(h ^ uint64(worker+1)*0x1000193)
	h &= (1 << 62) - 1
	if h == 0 {
		h = 1
	}
	return h
}

func die(code int, format string, a ...any) {
	fmt.Fprintf(os.Stderr, "vsim: "+format+"\n", a...)
	os.Exit(code)
}

func main() {
	if len(os.Args) < 2 {
		die(2, "usage: vsim check|replay|selftest|list ...")
	}
	switch os.Args[1] {
	case "check":
		os.Exit(cmdCheck(os.Args[2:]))
	case "replay":
		os.Exit(cmdReplay(os.Args[2:]))
	case "selftest":
		os.Exit(cmdSelftest(os.Args[2:]))
	case "mutants":
		os.Exit(cmdMutants(os.Args[2:]))
	case "list":
		for _, p := range props {
			fmt.Printf("%s %s %s\n", p.ID, p.World, p.Pkg)
		}
	default:
		die(2, "unknown command %q", os.Args[1])
	}
}

func findProp(id string) *propCfg {
	for i := range props {
		if props[i].ID == id || props[i].World == id {
			return &props[i]
		}
	}
	return nil
}

// ---------------------------------------------------------------------------
// building

type built struct {
	dir  string            // scratch directory (removed by caller)
	bins map[string]string // variant name -> test binary
}

func repoDescribe() string {
	out, _ := exec.Command("git", "-C", repoDir, "describe", "--always", "--dirty").Output()
	tree, _ := exec.Command("sh", "-c", "cd "+repoDir+" && git diff HEAD | sha256sum | cut -c1-16").Output()
	return strings.TrimSpace(string(out)) + " diff:" + strings.TrimSpace(string(tree))
}

func build(p *propCfg, only string) (*built, error) {
	dir, err := os.MkdirTemp("", "vsim-"+p.ID+"-")
	if err != nil {
		return nil, err
	}
	b := &built{dir: dir, bins: map[string]string{}}
	overlay := ""
	needInstr := p.Instr
	for _, v := range p.Variants {
		if v.Instr && (only == "" || only == v.Name) {
			needInstr = true
		}
	}
	instrument := func(locks bool) error {
		cmd := exec.Command(filepath.Join(verifDir, "bin", "instr"), "-repo", repoDir, "-out", filepath.Join(dir, "instr"), "-overlay", overlay, "-sites", filepath.Join(dir, "sites.tsv"), fmt.Sprintf("-locks=%v", locks))
		cmd.Env = env()
		if out, err := cmd.CombinedOutput(); err != nil {
			return fmt.Errorf("instrumenter failed: %v\n%s", err, out)
		}
		return nil
	}
	locksRewritten := true
	if needInstr {
		overlay = filepath.Join(dir, "overlay.json")
		if err := instrument(true); err != nil {
			return b, err
		}
	}
	if _, err := os.Stat(filepath.Join(simDir, "go.sum")); err != nil {
		if data, err := os.ReadFile(filepath.Join(repoDir, "go.sum")); err == nil {
			_ = os.WriteFile(filepath.Join(simDir, "go.sum"), data, 0o644)
		}
	}
	modfile := ""
	if repoDir != "/repo" {
		// same harness, other tink tree: a scratch go.mod whose replace points there
		gm, err := os.ReadFile(filepath.Join(simDir, "go.mod"))
		if err != nil {
			return b, err
		}
		modfile = filepath.Join(dir, "alt.mod")
		_ = os.WriteFile(modfile, []byte(strings.Replace(string(gm), "=> /repo", "=> "+repoDir, 1)), 0o644)
		if gs, err := os.ReadFile(filepath.Join(simDir, "go.sum")); err == nil {
			_ = os.WriteFile(filepath.Join(dir, "alt.sum"), gs, 0o644)
		}
	}
	for _, v := range p.Variants {
		if only != "" && v.Name != only {
			continue
		}
		bin := filepath.Join(dir, p.World+"-"+v.Name+".test")
		args := []string{"test", "-c", "-vet=off", "-o", bin}
		if modfile != "" {
			args = append(args, "-modfile", modfile)
		}
		if v.Race {
			args = append(args, "-race")
		}
		if overlay != "" && (p.Instr || v.Instr) {
			args = append(args, "-overlay", overlay, "-tags", "instr")
		}
		args = append(args, "./"+p.Pkg)
		cmd := exec.Command(goBin, args...)
		cmd.Dir = simDir
		cmd.Env = env()
		out, err := cmd.CombinedOutput()
		if err != nil && overlay != "" && (p.Instr || v.Instr) && locksRewritten {
			// most likely the tree has a Lock()/RLock()/Do() statement that the rewriting does not fit (types are not known
			// to the instrumenter: a receiver without TryLock/TryRLock, an operand whose address cannot be taken):
			// instrument again without the lock rewriting and keep the stall watchdog as the only answer to a task blocking
			// while it holds the baton; if that build fails too, that is the error reported
			fmt.Fprintf(os.Stderr, "vsim: instrumented build failed with lock statements rewritten; instrumenting without:\n%s\n", tail(string(out), 6))
			locksRewritten = false
			if ierr := instrument(false); ierr != nil {
				return b, ierr
			}
			cmd = exec.Command(goBin, args...)
			cmd.Dir = simDir
			cmd.Env = env()
			out, err = cmd.CombinedOutput()
		}
		if err != nil {
			return b, fmt.Errorf("build of %s (%s) failed: %v\n%s", p.ID, v.Name, err, out)
		}
		b.bins[v.Name] = bin
	}
	return b, nil
}

// ---------------------------------------------------------------------------
// running workers

type coverage struct {
	Property    string              `json:"property"`
	World       string              `json:"world"`
	Tier        string              `json:"tier"`
	Evaluations int64               `json:"evaluations"`
	Nontrivial  int64               `json:"nontrivial_runs"`
	Signatures  []string            `json:"signatures"`
	SigExamples []string            `json:"signature_examples"`
	Faults      map[string]int64    `json:"faults_fired"`
	Probes      map[string]int64    `json:"probes_hit"`
	Counters    map[string]int64    `json:"counters"`
	Sets        map[string][]string `json:"sets"`
	Samples     []json.RawMessage   `json:"samples"`
	Digest      string              `json:"digest"`
	KnownHits   map[string]int64    `json:"known_hits"`
	Violations  int64               `json:"violations"`
	SimNanos    int64               `json:"simulated_ns"`
	WallS       float64             `json:"wall_s"`
	Components  map[string]string   `json:"components"`
}

type violation struct {
	Property string   `json:"property"`
	Key      string   `json:"key"`
	Detail   string   `json:"detail"`
	Trace    []string `json:"trace"`
}

type workerResult struct {
	variant  string
	idx      int
	seed     uint64
	exit     int
	timedOut bool
	out      string
	cov      *coverage
	viol     *violation
	failfile string
	wall     float64
	checks   int
}

func runWorker(p *propCfg, v variant, bin, dir string, idx int, seed uint64, checks int, tier string, timeout time.Duration, extraArgs []string, extraEnv []string) workerResult {
	res := workerResult{variant: v.Name, idx: idx, seed: seed, checks: checks}
	wdir := filepath.Join(dir, fmt.Sprintf("w-%s-%d", v.Name, idx))
	_ = os.MkdirAll(wdir, 0o755)
	outDir := filepath.Join(wdir, "out")
	shrink := "30s"
	if tier == "thorough" {
		shrink = "3m"
	}
	cpu := v.CPU
	if cpu == 0 {
		cpu = 1
	}
	args := []string{"-test.run", "^" + p.Test + "$", "-test.timeout", "0", "-test.cpu", strconv.Itoa(cpu),
		"-rapid.checks", strconv.Itoa(checks), "-rapid.seed", strconv.FormatUint(seed, 10), "-rapid.shrinktime", shrink}
	args = append(args, extraArgs...)
	cmd := exec.Command(bin, args...)
	cmd.Dir = wdir
	cmd.Env = append(env(), "VSIM_OUT="+outDir, "VSIM_TIER="+tier, "VSIM_KNOWN="+envOr("VSIM_KNOWN_FILE", filepath.Join(verifDir, "known_findings.json")),
		"VSIM_PROPERTY="+p.ID, "VSIM_REPO="+repoDir, "VSIM_WORKER="+strconv.Itoa(idx), "GORACE=halt_on_error=0 exitcode=0 history_size=7 suppress_equal_stacks=0 suppress_equal_addresses=0 log_path="+filepath.Join(wdir, "race"))
	cmd.Env = append(cmd.Env, "VSIM_SITES="+filepath.Join(dir, "sites.tsv"), "VSIM_RACE_LOG="+filepath.Join(wdir, "race"))
	cmd.Env = append(cmd.Env, v.EnvExtra...)
	cmd.Env = append(cmd.Env, extraEnv...)
	cmd.SysProcAttr = &syscall.SysProcAttr{Setpgid: true}
	var buf strings.Builder
	cmd.Stdout = &buf
	cmd.Stderr = &buf
	start := time.Now()
	if err := cmd.Start(); err != nil {
		res.exit = 2
		res.out = err.Error()
		return res
	}
	done := make(chan error, 1)
	go func() { done <- cmd.Wait() }()
	select {
	case err := <-done:
		if err != nil {
			if ee, ok := err.(*exec.ExitError); ok {
				res.exit = ee.ExitCode()
			} else {
				res.exit = 2
			}
		}
	case <-time.After(timeout):
		_ = syscall.Kill(-cmd.Process.Pid, syscall.SIGKILL)
		<-done
		res.timedOut = true
		res.exit = 2
	}
	res.wall = time.Since(start).Seconds()
	res.out = buf.String()
	if b, err := os.ReadFile(filepath.Join(outDir, "coverage.json")); err == nil {
		var c coverage
		if json.Unmarshal(b, &c) == nil {
			res.cov = &c
		}
	}
	if b, err := os.ReadFile(filepath.Join(outDir, "violation.json")); err == nil {
		var vv violation
		if json.Unmarshal(b, &vv) == nil {
			res.viol = &vv
		}
	}
	if m, _ := filepath.Glob(filepath.Join(wdir, "testdata", "rapid", "*", "*.fail")); len(m) > 0 {
		sort.Strings(m)
		if b, err := os.ReadFile(m[len(m)-1]); err == nil {
			res.failfile = string(b)
		}
	}
	return res
}

type replayFile struct {
	Property  string   `json:"property"`
	Key       string   `json:"key"`
	Detail    string   `json:"detail"`
	Tier      string   `json:"tier"`
	VerifSeed uint64   `json:"verif_seed"`
	Variant   string   `json:"variant"`
	Worker    int      `json:"worker"`
	RapidSeed uint64   `json:"rapid_seed"`
	Checks    int      `json:"rapid_checks"` // budget of the worker that found it (a replay without a fail file re-runs that many)
	Test      string   `json:"test"`
	Pkg       string   `json:"pkg"`
	FailFile  string   `json:"rapid_failfile"`
	Trace     []string `json:"minimised_trace"`
	Repo      string   `json:"repo"`
	Toolchain string   `json:"toolchain"`
	How       string   `json:"how_to_replay"`
}

func sanitize(s string) string {
	var b strings.Builder
	for _, r := range s {
		if (r >= 'a' && r <= 'z') || (r >= 'A' && r <= 'Z') || (r >= '0' && r <= '9') || r == '-' || r == '_' || r == '.' {
			b.WriteRune(r)
		} else {
			b.WriteByte('_')
		}
	}
	out := b.String()
	if len(out) > 80 {
		out = out[:80]
	}
	return out
}

func cmdCheck(args []string) int {
	fs := flag.NewFlagSet("check", flag.ExitOnError)
	tier := fs.String("tier", envOr("VERIF_TIER", "quick"), "quick|thorough")
	seedS := fs.String("seed", envOr("VERIF_SEED", "1"), "VERIF_SEED")
	workersOverride := fs.Int("workers", 0, "override worker count")
	checksOverride := fs.Int("checks", 0, "override rapid checks per worker")
	onlyVariant := fs.String("variant", "", "run only this build variant")
	if len(args) < 1 {
		die(2, "usage: vsim check <ID> [flags]")
	}
	id := args[0]
	_ = fs.Parse(args[1:])
	p := findProp(id)
	if p == nil {
		die(2, "unknown property %q", id)
	}
	if *tier != "quick" && *tier != "thorough" {
		*tier = "quick"
	}
	verifSeed, err := strconv.ParseUint(strings.TrimPrefix(*seedS, "-"), 10, 64)
	if err != nil {
		verifSeed = 1
	}
	start := time.Now()
	b, err := build(p, *onlyVariant)
	if b != nil {
		defer os.RemoveAll(b.dir)
	}
	if err != nil {
		fmt.Fprintf(os.Stderr, "vsim: %v\n", err)
		return 2
	}
	buildS := time.Since(start).Seconds()

	var results []workerResult
	var mu sync.Mutex
	var wg sync.WaitGroup
	sem := make(chan struct{}, 16)
	for vi, v := range p.Variants {
		if *onlyVariant != "" && v.Name != *onlyVariant {
			continue
		}
		n := v.Workers
		if *workersOverride > 0 {
			n = *workersOverride
		}
		checks := v.Quick
		wd := v.QuickS
		if *tier == "thorough" {
			checks = v.Thorough
			wd = v.ThoroughS
		}
		if *checksOverride > 0 {
			checks = *checksOverride
		}
		if wd == 0 {
			wd = 1800
		}
		for i := 0; i < n; i++ {
			wg.Add(1)
			go func(vi int, v variant, i, checks, wd int) {
				defer wg.Done()
				sem <- struct{}{}
				defer func() { <-sem }()
				r := runWorker(p, v, b.bins[v.Name], b.dir, i, workerSeed(verifSeed, p.ID, vi, i), checks, *tier, time.Duration(wd)*time.Second, nil, nil)
				mu.Lock()
				results = append(results, r)
				mu.Unlock()
			}(vi, v, i, checks, wd)
		}
	}
	wg.Wait()
	sort.Slice(results, func(i, j int) bool {
		if results[i].variant != results[j].variant {
			return results[i].variant < results[j].variant
		}
		return results[i].idx < results[j].idx
	})

	// ---- classify
	infra := false
	var viols []workerResult
	for _, r := range results {
		switch {
		case r.timedOut:
			fmt.Fprintf(os.Stderr, "vsim: worker %s/%d exceeded its watchdog; output tail:\n%s\n", r.variant, r.idx, tail(r.out, 30))
			infra = true
		case r.exit != 0 && r.viol != nil && strings.Contains(r.out, "[rapid] flaky test, can not reproduce") && !strings.HasPrefix(r.viol.Key, "C18/race:") && !strings.HasPrefix(r.viol.Key, "C18/deadlock:") && !seedDeterministic(p, b, r, *tier):
			// (a ThreadSanitizer report with frames inside the tink tree is physical evidence of two unsynchronised
			// accesses and stays a violation even if — e.g. with sync.Pool involved — it does not recur on re-execution;
			// after an established deadlock the process is left with locks held, so the world skips every later run of
			// that process, including rapid's confirming one: the replay re-runs the worker from its seed in a fresh process)
			// the failing run did not fail again when rapid re-executed the very same draws in the same process, AND a
			// fresh process given the same worker seed did not arrive at the same failure either: one seed must be one
			// execution, so this is a nondeterminism alarm (infrastructure), never a violation. (A failure that depends on
			// state the library keeps across calls — a pool, a cache, a counter — does not repeat inside the process but is
			// still a function of the seed: seedDeterministic re-runs the worker from its seed, and such a failure is
			// reported, with a replay that re-runs the worker.)
			fmt.Fprintf(os.Stderr, "vsim: worker %s/%d: a failure (%s) did not repeat on immediate re-execution of the same draws — nondeterminism outside the simulator's control; not reported as a violation. Output tail:\n%s\n", r.variant, r.idx, r.viol.Key, tail(r.out, 25))
			infra = true
		case r.exit != 0 && r.viol != nil:
			if strings.HasPrefix(r.viol.Key, "C18/deadlock:") || strings.Contains(r.out, "[rapid] flaky test, can not reproduce") {
				// the fail file (if any) records rapid's confirming re-run, which this process could not execute faithfully
				// any more; the replay re-runs the worker from its seed
				r.failfile = ""
			}
			viols = append(viols, r)
		case r.exit != 0:
			fmt.Fprintf(os.Stderr, "vsim: worker %s/%d failed without a violation record (harness trouble), exit %d; output tail:\n%s\n", r.variant, r.idx, r.exit, tail(r.out, 60))
			infra = true
		case r.cov == nil:
			fmt.Fprintf(os.Stderr, "vsim: worker %s/%d wrote no coverage record\n%s\n", r.variant, r.idx, tail(r.out, 20))
			infra = true
		}
	}

	// ---- replay files
	seenKey := map[string]bool{}
	var violLines []string
	_ = os.MkdirAll(filepath.Join(verifDir, "replays"), 0o755)
	for _, r := range viols {
		if seenKey[r.viol.Key] {
			continue
		}
		seenKey[r.viol.Key] = true
		rf := replayFile{Property: p.ID, Key: r.viol.Key, Detail: r.viol.Detail, Tier: *tier, VerifSeed: verifSeed, Variant: r.variant,
			Worker: r.idx, RapidSeed: r.seed, Checks: r.checks, Test: p.Test, Pkg: p.Pkg, FailFile: r.failfile, Trace: r.viol.Trace,
			Repo: repoDescribe(), Toolchain: goBin, How: "/verif/bin/vsim replay <this file>"}
		path := filepath.Join(verifDir, "replays", fmt.Sprintf("%s-%s-seed%d-w%d.json", p.ID, sanitize(r.viol.Key), verifSeed, r.idx))
		data, _ := json.MarshalIndent(&rf, "", " ")
		_ = os.WriteFile(path, data, 0o644)
		if r.failfile == "" {
			fmt.Fprintf(os.Stderr, "vsim: warning: worker %s/%d produced no rapid fail file; replay will re-run from the seed\n", r.variant, r.idx)
		}
		violLines = append(violLines, fmt.Sprintf("VIOLATION property=%s replay=%s", p.ID, path))
		fmt.Printf("violation key=%s\n  %s\n", r.viol.Key, r.viol.Detail)
	}

	// ---- evidence
	wall := time.Since(start).Seconds()
	ev := mergeEvidence(p, *tier, verifSeed, results, wall, buildS, len(violLines))
	evDir := filepath.Join(verifDir, "evidence")
	if repoDir != "/repo" {
		evDir = filepath.Join(os.TempDir(), "vsim-alt-evidence") // never mix runs against a scratch tree into the evidence
	}
	_ = os.MkdirAll(evDir, 0o755)
	data, _ := json.MarshalIndent(ev, "", " ")
	if err := os.WriteFile(filepath.Join(evDir, p.ID+".json"), data, 0o644); err != nil {
		fmt.Fprintf(os.Stderr, "vsim: cannot write evidence: %v\n", err)
		infra = true
	}

	// ---- known findings
	known := map[string]int64{}
	for _, r := range results {
		if r.cov != nil {
			for k, n := range r.cov.KnownHits {
				known[k] += n
			}
		}
	}
	// every listed (status known) finding of this property is printed on every run, hit or not
	for _, f := range listedKnown(p.ID) {
		if _, ok := known[f.Key]; !ok {
			known[f.Key] = 0
		}
	}
	for _, k := range sortedKeys(known) {
		hit := fmt.Sprintf("hit %d times in this run", known[k])
		if known[k] == 0 {
			hit = "listed; not reached by this run's budget"
		}
		fmt.Printf("KNOWN-FINDING: property=%s %s (%s)\n", p.ID, knownText(p.ID, k), hit)
	}

	cov := ev["coverage"].(map[string]any)
	fmt.Printf("%s %s seed=%d: %v runs, %v distinct non-trivial signatures, %d violation(s), %.1fs (build %.1fs)\n",
		p.ID, *tier, verifSeed, cov["evaluations"], cov["distinct_nontrivial"], len(violLines), wall, buildS)
	if zp, ok := cov["probes_never_hit"].([]string); ok && len(zp) > 0 {
		fmt.Printf("warning: probes never hit: %s\n", strings.Join(zp, ", "))
	}
	if zf, ok := cov["fault_kinds_never_fired"].([]string); ok && len(zf) > 0 {
		fmt.Printf("warning: fault kinds never fired: %s\n", strings.Join(zf, ", "))
	}
	if cs, ok := cov["counters"].(map[string]int64); ok {
		for _, k := range []string{"unreproducible-mismatch", "free-run-fallback"} {
			if cs[k] > 0 {
				fmt.Printf("warning: %d run(s) counted under %q were dropped unjudged (see DESIGN.md)\n", cs[k], k)
			}
		}
	}
	for _, l := range violLines {
		fmt.Println(l)
	}
	if len(violLines) > 0 {
		return 1
	}
	if infra {
		return 2
	}
	return 0
}

type knownEntry struct{ Property, Key, Status, What string }

func listedKnown(prop string) []knownEntry {
	b, err := os.ReadFile(envOr("VSIM_KNOWN_FILE", filepath.Join(verifDir, "known_findings.json")))
	if err != nil {
		return nil
	}
	var fs struct {
		Findings []knownEntry `json:"findings"`
	}
	if json.Unmarshal(b, &fs) != nil {
		return nil
	}
	var out []knownEntry
	for _, f := range fs.Findings {
		if f.Property == prop && f.Status == "known" {
			out = append(out, f)
		}
	}
	return out
}

func knownText(prop, key string) string {
	b, err := os.ReadFile(filepath.Join(verifDir, "known_findings.json"))
	if err != nil {
		return key
	}
	var fs struct {
		Findings []struct {
			Property, Key, Status, What string
		} `json:"findings"`
	}
	if json.Unmarshal(b, &fs) != nil {
		return key
	}
	for _, f := range fs.Findings {
		if f.Property == prop && f.Key == key {
			return key + " — " + f.What
		}
	}
	return key
}

func envOr(k, d string) string {
	if v := os.Getenv(k); v != "" {
		return v
	}
	return d
}

func tail(s string, n int) string {
	lines := strings.Split(strings.TrimRight(s, "\n"), "\n")
	if len(lines) > n {
		lines = lines[len(lines)-n:]
	}
	return strings.Join(lines, "\n")
}

func sortedKeys[V any](m map[string]V) []string {
	ks := make([]string, 0, len(m))
	for k := range m {
		ks = append(ks, k)
	}
	sort.Strings(ks)
	return ks
}

func mergeEvidence(p *propCfg, tier string, seed uint64, results []workerResult, wall, buildS float64, nviol int) map[string]any {
	sigs := map[string]struct{}{}
	faults := map[string]int64{}
	probes := map[string]int64{}
	counters := map[string]int64{}
	sets := map[string]map[string]struct{}{}
	var evals, nontriv, simNs int64
	var samples []json.RawMessage
	var sigExamples []string
	var seeds []string
	comps := map[string]string{}
	digests := map[string]string{}
	perVariant := map[string]int64{}
	for _, r := range results {
		seeds = append(seeds, fmt.Sprintf("%s/%d:%d", r.variant, r.idx, r.seed))
		if r.cov == nil {
			continue
		}
		evals += r.cov.Evaluations
		perVariant[r.variant] += r.cov.Evaluations
		nontriv += r.cov.Nontrivial
		simNs += r.cov.SimNanos
		for _, s := range r.cov.Signatures {
			sigs[s] = struct{}{}
		}
		for k, v := range r.cov.Faults {
			faults[k] += v
		}
		for k, v := range r.cov.Probes {
			probes[k] += v
		}
		for k, v := range r.cov.Counters {
			counters[k] += v
		}
		for name, l := range r.cov.Sets {
			if sets[name] == nil {
				sets[name] = map[string]struct{}{}
			}
			for _, e := range l {
				sets[name][e] = struct{}{}
			}
		}
		if len(samples) < 4 && len(r.cov.Samples) > 0 {
			samples = append(samples, r.cov.Samples[0])
		}
		if len(sigExamples) < 10 {
			for _, s := range r.cov.SigExamples {
				if len(sigExamples) < 10 {
					sigExamples = append(sigExamples, s)
				}
			}
		}
		for k, v := range r.cov.Components {
			comps[k] = v
		}
		digests[fmt.Sprintf("%s/%d", r.variant, r.idx)] = r.cov.Digest
	}
	var zeroProbes, zeroFaults []string
	for _, k := range sortedKeys(probes) {
		if probes[k] == 0 {
			zeroProbes = append(zeroProbes, k)
		}
	}
	for _, k := range sortedKeys(faults) {
		if faults[k] == 0 {
			zeroFaults = append(zeroFaults, k)
		}
	}
	setSizes := map[string]int{}
	setSamples := map[string][]string{}
	for name, s := range sets {
		setSizes[name] = len(s)
		ks := sortedKeys(s)
		if len(ks) > 40 {
			ks = ks[:40]
		}
		setSamples[name] = ks
	}
	if len(samples) == 0 {
		samples = append(samples, json.RawMessage(`"no run completed"`))
	}
	distinct := len(sigs)
	cov := map[string]any{
		"evaluations":             evals,
		"distinct_nontrivial":     distinct,
		"nontrivial_runs":         nontriv,
		"rule":                    p.Rule,
		"samples":                 samples,
		"signature_examples":      sigExamples,
		"fault_kinds_fired":       faults,
		"fault_kinds_never_fired": zeroFaults,
		"probes_hit":              probes,
		"probes_never_hit":        zeroProbes,
		"counters":                counters,
		"distinct_sets":           setSizes,
		"distinct_set_examples":   setSamples,
		"runs_per_hour":           int64(float64(evals) / (wall - buildS + 0.001) * 3600),
		"seeds_per_hour":          int64(float64(len(results)) / (wall + 0.001) * 3600),
		"simulated_seconds":       float64(simNs) / 1e9,
		"worker_seeds":            seeds,
		"worker_digests":          digests,
		"runs_per_variant":        perVariant,
		"components":              comps,
		"build_s":                 buildS,
		"repo":                    repoDescribe(),
		"exhaustive":              false,
	}
	return map[string]any{
		"property_id": p.ID,
		"tier":        tier,
		"seed":        int64(seed & (1<<62 - 1)),
		"level":       p.Level,
		"coverage":    cov,
		"assumptions": p.Assume,
		"wall_s":      wall,
		"violations":  nviol,
	}
}

// ---------------------------------------------------------------------------
// replay

func cmdReplay(args []string) int {
	if len(args) < 1 {
		die(2, "usage: vsim replay <file>")
	}
	data, err := os.ReadFile(args[0])
	if err != nil {
		die(2, "%v", err)
	}
	var rf replayFile
	if err := json.Unmarshal(data, &rf); err != nil {
		die(2, "bad replay file: %v", err)
	}
	p := findProp(rf.Property)
	if p == nil {
		die(2, "replay file names unknown property %q", rf.Property)
	}
	var v *variant
	for i := range p.Variants {
		if p.Variants[i].Name == rf.Variant {
			v = &p.Variants[i]
		}
	}
	if v == nil {
		v = &p.Variants[0]
	}
	b, err := build(p, v.Name)
	if b != nil {
		defer os.RemoveAll(b.dir)
	}
	if err != nil {
		fmt.Fprintf(os.Stderr, "vsim: %v\n", err)
		return 2
	}
	var extra []string
	seed := rf.RapidSeed
	checks := 1
	if rf.FailFile != "" {
		ff := filepath.Join(b.dir, "replay.fail")
		_ = os.WriteFile(ff, []byte(rf.FailFile), 0o644)
		extra = []string{"-rapid.failfile", ff, "-rapid.nofailfile"}
	} else {
		// re-run the worker from its seed: same draws, so it fails again at the same run if the tree still has the fault;
		// bounded by the budget the worker had
		checks = rf.Checks
		if checks <= 0 {
			checks = v.Quick
			if rf.Tier == "thorough" {
				checks = v.Thorough
			}
		}
	}
	r := runWorker(p, *v, b.bins[v.Name], b.dir, rf.Worker, seed, checks, rf.Tier, 30*time.Minute, extra, []string{"VSIM_TRACE=1"})
	if r.exit == 0 {
		fmt.Printf("NOT-REPRODUCED property=%s key=%s: the recorded run passes on the current tree\n", rf.Property, rf.Key)
		return 0
	}
	if r.viol == nil {
		fmt.Fprintf(os.Stderr, "vsim: replay failed without a violation record:\n%s\n", tail(r.out, 60))
		return 2
	}
	fmt.Printf("replayed key=%s\n  %s\n", r.viol.Key, r.viol.Detail)
	for _, l := range r.viol.Trace {
		fmt.Println("  | " + l)
	}
	if r.viol.Key != rf.Key {
		fmt.Printf("note: recorded key was %s\n", rf.Key)
	} else {
		fmt.Println("REPRODUCED")
	}
	fmt.Printf("VIOLATION property=%s replay=%s\n", rf.Property, args[0])
	return 1
}

// seedDeterministic re-runs a worker whose failure rapid could not repeat in-process, in a fresh process from the same
// seed and budget, and says whether it fails again under the same violation key.
func seedDeterministic(p *propCfg, b *built, r workerResult, tier string) bool {
	var v *variant
	for i := range p.Variants {
		if p.Variants[i].Name == r.variant {
			v = &p.Variants[i]
		}
	}
	if v == nil || r.viol == nil {
		return false
	}
	r2 := runWorker(p, *v, b.bins[v.Name], filepath.Join(b.dir, "confirm"), r.idx, r.seed, r.checks, tier, 30*time.Minute, nil, nil)
	same := r2.exit != 0 && r2.viol != nil && r2.viol.Key == r.viol.Key
	fmt.Fprintf(os.Stderr, "vsim: worker %s/%d: %s did not repeat in-process; fresh process from the same seed: repeats=%v\n", r.variant, r.idx, r.viol.Key, same)
	return same
}

// ---------------------------------------------------------------------------
// determinism self-test

func cmdSelftest(args []string) int {
	fs := flag.NewFlagSet("selftest", flag.ExitOnError)
	nseeds := fs.Int("seeds", 14, "seeds per world")
	checks := fs.Int("checks", 0, "rapid checks per process (0 = quick/20)")
	_ = fs.Parse(args)
	ids := fs.Args()
	if len(ids) == 0 {
		for _, p := range props {
			ids = append(ids, p.ID)
		}
	}
	bad := false
	for _, id := range ids {
		p := findProp(id)
		if p == nil {
			die(2, "unknown property %q", id)
		}
		b, err := build(p, "")
		if err != nil {
			fmt.Fprintf(os.Stderr, "vsim: %v\n", err)
			if b != nil {
				os.RemoveAll(b.dir)
			}
			return 2
		}
		type job struct {
			v    variant
			seed uint64
			gmp  int
			k    int
		}
		var jobs []job
		for _, v := range p.Variants {
			for s := 0; s < *nseeds; s++ {
				for k, gmp := range []int{1, 4, 16} {
					jobs = append(jobs, job{v, workerSeed(uint64(1000+s), p.ID, 0, s), gmp, k})
				}
			}
		}
		type key struct {
			variant string
			seed    uint64
		}
		digests := map[key]map[string]int{}
		var mu sync.Mutex
		var wg sync.WaitGroup
		sem := make(chan struct{}, 16)
		for ji, j := range jobs {
			wg.Add(1)
			go func(ji int, j job) {
				defer wg.Done()
				sem <- struct{}{}
				defer func() { <-sem }()
				n := *checks
				if n == 0 {
					n = j.v.Quick / 20
					if n < 20 {
						n = 20
					}
				}
				vv := j.v
				if !p.Instr {
					vv.CPU = j.gmp
				}
				r := runWorker(p, vv, b.bins[j.v.Name], b.dir, ji, j.seed, n, "quick", 20*time.Minute, nil, []string{fmt.Sprintf("GOMAXPROCS=%d", j.gmp)})
				mu.Lock()
				defer mu.Unlock()
				k := key{j.v.Name, j.seed}
				if digests[k] == nil {
					digests[k] = map[string]int{}
				}
				d := "no-coverage"
				if r.cov != nil {
					d = r.cov.Digest + fmt.Sprintf("/%d", r.cov.Evaluations)
				}
				if r.exit != 0 {
					d += fmt.Sprintf("/exit%d", r.exit)
					fmt.Fprintf(os.Stderr, "vsim: selftest worker failed:\n%s\n", tail(r.out, 30))
				}
				digests[k][d]++
			}(ji, j)
		}
		wg.Wait()
		os.RemoveAll(b.dir)
		nd := 0
		for k, m := range digests {
			if len(m) != 1 {
				nd++
				fmt.Printf("NONDETERMINISM %s variant=%s seed=%d digests=%v\n", p.ID, k.variant, k.seed, m)
			}
		}
		fmt.Printf("selftest %s: %d (variant,seed) pairs × 3 processes (GOMAXPROCS 1/4/16), %d diverged\n", p.ID, len(digests), nd)
		if nd > 0 {
			bad = true
		}
	}
	if bad {
		return 2
	}
	return 0
}

// ---------------------------------------------------------------------------
// sensitivity: every patch under /verif/mutants/<ID>/ must make the check of <ID> fail

func cmdMutants(args []string) int {
	fs := flag.NewFlagSet("mutants", flag.ExitOnError)
	checks := fs.Int("checks", 0, "rapid checks per worker (0 = the quick budget)")
	withTests := fs.Bool("with-tests", false, "also run tink's own tests of the touched packages on the mutant")
	benign := fs.Bool("benign", false, "instead of mutants, run the property-PRESERVING changes archived under seeded/benign/<ID>[wN]-b<i>/ and seeded/benign/X-b<i>/ (cross-cutting, run for every ID): each must leave the check silent")
	seeded := fs.Bool("seeded", false, "also run the seeded changes archived under seeded/<ID>[wN]-m<i>/ whose recorded outcome is 'caught' by this property's check")
	_ = fs.Parse(args)
	ids := fs.Args()
	if len(ids) == 0 {
		for _, p := range props {
			ids = append(ids, p.ID)
		}
	}
	wt, err := os.MkdirTemp("", "vsim-mutants-")
	if err != nil {
		die(2, "%v", err)
	}
	os.Remove(wt)
	if out, err := exec.Command("git", "-C", "/repo", "worktree", "add", "--detach", wt, "HEAD").CombinedOutput(); err != nil {
		die(2, "cannot create scratch worktree: %v\n%s", err, out)
	}
	defer func() {
		exec.Command("git", "-C", "/repo", "worktree", "remove", "--force", wt).Run()
		os.RemoveAll(wt)
	}()
	self, _ := os.Executable()
	survivors := 0
	for _, id := range ids {
		patches, _ := filepath.Glob(filepath.Join(verifDir, "mutants", id, "*.patch"))
		sort.Strings(patches)
		if *benign {
			patches = nil
			for _, pat := range []string{id + "*-b*", "X*-b*"} {
				dirs, _ := filepath.Glob(filepath.Join(verifDir, "seeded", "benign", pat))
				sort.Strings(dirs)
				for _, d := range dirs {
					patches = append(patches, filepath.Join(d, "patch.diff"))
				}
			}
		}
		if *seeded && !*benign {
			dirs, _ := filepath.Glob(filepath.Join(verifDir, "seeded", id+"*-m*"))
			sort.Strings(dirs)
			for _, d := range dirs {
				var meta struct {
					Lead struct {
						Outcome string `json:"check_outcome"`
					} `json:"confirmed_by_lead"`
				}
				if data, err := os.ReadFile(filepath.Join(d, "meta.json")); err == nil && json.Unmarshal(data, &meta) == nil && meta.Lead.Outcome == "caught" {
					patches = append(patches, filepath.Join(d, "patch.diff"))
				}
			}
		}
		for _, patch := range patches {
			name := strings.TrimSuffix(filepath.Base(patch), ".patch")
			if filepath.Base(patch) == "patch.diff" {
				name = "seeded/" + filepath.Base(filepath.Dir(patch))
				if *benign {
					name = "benign/" + filepath.Base(filepath.Dir(patch))
				}
			}
			exec.Command("git", "-C", wt, "checkout", "--", ".").Run()
			if out, err := exec.Command("git", "-C", wt, "apply", patch).CombinedOutput(); err != nil {
				fmt.Printf("%s %-50s PATCH-DOES-NOT-APPLY %s\n", id, name, strings.TrimSpace(string(out)))
				survivors++
				continue
			}
			testNote := ""
			if *withTests {
				out, _ := exec.Command("git", "-C", wt, "diff", "--name-only").Output()
				pkgs := map[string]bool{}
				for _, f := range strings.Fields(string(out)) {
					pkgs["./"+filepath.Dir(f)+"/..."] = true
				}
				targs := []string{"test", "-count=1", "-vet=off"}
				for _, k := range sortedKeys(pkgs) {
					targs = append(targs, k)
				}
				c := exec.Command("go", targs...)
				c.Dir = wt
				c.Env = append(os.Environ(), "GOFLAGS=-mod=mod", "GOPROXY=off", "GOSUMDB=off")
				if o, err := c.CombinedOutput(); err != nil {
					testNote = " (tink's own tests FAIL on this mutant: " + tail(string(o), 3) + ")"
				} else {
					testNote = " (tink's own tests pass)"
				}
				exec.Command("git", "-C", wt, "checkout", "--", "go.sum").Run()
			}
			cargs := []string{"check", id}
			if *checks > 0 {
				cargs = append(cargs, "--checks", strconv.Itoa(*checks))
			}
			c := exec.Command(self, cargs...)
			c.Env = append(os.Environ(), "VSIM_REPO_DIR="+wt)
			start := time.Now()
			out, err := c.CombinedOutput()
			code := 0
			if ee, ok := err.(*exec.ExitError); ok {
				code = ee.ExitCode()
			}
			key := ""
			for _, l := range strings.Split(string(out), "\n") {
				if strings.HasPrefix(l, "violation key=") && key == "" {
					key = strings.TrimPrefix(l, "violation key=")
				}
			}
			if *benign {
				switch code {
				case 0:
					fmt.Printf("%s %-50s SILENT   %5.1fs\n", id, name, time.Since(start).Seconds())
				case 1:
					fmt.Printf("%s %-50s FALSE-ALARM %5.1fs %s\n", id, name, time.Since(start).Seconds(), key)
					survivors++
				default:
					fmt.Printf("%s %-50s INFRA(exit %d) %s\n", id, name, code, tail(string(out), 5))
					survivors++
				}
				continue
			}
			switch code {
			case 1:
				fmt.Printf("%s %-50s CAUGHT   %5.1fs %s%s\n", id, name, time.Since(start).Seconds(), key, testNote)
			case 0:
				fmt.Printf("%s %-50s SURVIVED %5.1fs%s\n", id, name, time.Since(start).Seconds(), testNote)
				survivors++
			default:
				fmt.Printf("%s %-50s INFRA(exit %d) %s%s\n", id, name, code, tail(string(out), 5), testNote)
				survivors++
			}
		}
	}
	if survivors > 0 && *benign {
		fmt.Printf("%d property-preserving change(s) not silent\n", survivors)
		return 1
	}
	if survivors > 0 {
		fmt.Printf("%d mutant(s) not caught\n", survivors)
		return 1
	}
	return 0
}
