// instr inserts scheduler yield points into copies of tink-go's sources.
//
// For every non-test .go file of the repository (minus generated protos and
// test-support packages) it writes a copy in which `simhook_.Yield(<site>); `
// precedes every statement of every block and case body, and emits the
// `go build -overlay` JSON that substitutes the copies for the originals and
// adds the tiny internal/simhook package virtually inside the tink module.
// /repo is never modified. Text is inserted at statement offsets found with
// go/ast (not re-printed), so every original line number is preserved and race
// reports / traces point at real /repo lines.
package main

import (
	"encoding/json"
	"flag"
	"fmt"
	"go/ast"
	"go/parser"
	"go/token"
	"os"
	"path/filepath"
	"sort"
	"strings"
)

const simhookSrc = `// Package simhook is injected by /verif/tools/instr through -overlay; it does not exist in the repository.
package simhook

import (
	"runtime"
	"sync"
	"unsafe"
)

// Hook is nil outside a simulation.
var Hook func(site int)

// BlockedHook, if set, is called by a task that found a lock taken (see Blocked).
var BlockedHook func(site int)

// Sim reports whether a simulation is running. Under a simulation, "X.Lock()" statements of instrumented code run as
// "for !X.TryLock() { simhook_.Blocked(site) }": a task that finds the lock taken hands the baton on instead of
// blocking in the runtime while it holds it. Outside a simulation the original statement runs.
//
//go:norace
func Sim() bool { return Hook != nil }

// AcquiredHook, if set, is told about every lock acquisition of instrumented code (the simulator notes where in a
// task's execution its critical sections begin, and likes to preempt around those places).
var AcquiredHook func(site int)

// Acquired is called right after a TryLock loop succeeded.
//
//go:norace
func Acquired(site int) {
	if h := AcquiredHook; h != nil {
		h(site)
	}
}

// OnceDo runs a statement of the form "X.Do(f)" (do = func() { X.Do(f) }, p = &X). If X is a sync.Once and a
// simulation is running, a task that arrives while another (parked) task is inside f does not block in the Once's
// mutex while it holds the baton: it calls Blocked until the first caller is through. The table is plain memory on
// purpose (no synchronisation that ThreadSanitizer could take for an edge between tasks); only the baton holder
// touches it, and a stale entry merely means the real Do is called.
//
//go:norace
func OnceDo(site int, p any, do func()) {
	var o *sync.Once
	switch v := p.(type) {
	case *sync.Once:
		o = v
	case **sync.Once:
		o = *v
	}
	if o == nil || Hook == nil || BlockedHook == nil {
		do()
		return
	}
	key := uintptr(unsafe.Pointer(o))
	for {
		i, free := int(key>>4)%len(onceTab), -1
		found := -1
		for n := 0; n < 16; n++ {
			j := (i + n) % len(onceTab)
			if onceTab[j].key == key {
				found = j
				break
			}
			if onceTab[j].key == 0 && free < 0 {
				free = j
			}
		}
		switch {
		case found >= 0 && onceTab[found].state == 2, found < 0 && free < 0:
			do() // done before (returns at once), or no room to track it
			return
		case found < 0:
			onceTab[free].key, onceTab[free].state = key, 1
			func() {
				defer func() { onceTab[free].state = 2 }()
				do()
			}()
			return
		default:
			Blocked(site) // another task is inside f
		}
	}
}

var onceTab [512]struct {
	key   uintptr
	state uint8 // 1 = a task is inside Do, 2 = done
}

// ResetOnce forgets all tracked Once objects (called at the start of every simulation).
//
//go:norace
func ResetOnce() { onceTab = [512]struct { key uintptr; state uint8 }{} }

// Blocked is called in the TryLock loop each time the lock was found taken.
//
//go:norace
func Blocked(site int) {
	if h := BlockedHook; h != nil {
		h(site)
		return
	}
	runtime.Gosched()
}

// Yield is called before every statement of instrumented code.
//
//go:norace
func Yield(site int) {
	if h := Hook; h != nil {
		h(site)
	}
}
`

var skipDirs = map[string]bool{"proto": true, "testutil": true, "testing": true, "kokoro": true, "docs": true, "testdata": true, ".git": true, "testkeyset": false}

type insertion struct {
	off  int
	text string
}

// lockStmt recognises the statement forms "X.Lock()" and "X.RLock()" and returns the name of the matching Try method
// and X. Types are not known here: a receiver without that method makes the instrumented build fail, and vsim then
// instruments again with -locks=false.
func lockStmt(s ast.Stmt) (string, ast.Expr) {
	es, ok := s.(*ast.ExprStmt)
	if !ok {
		return "", nil
	}
	call, ok := es.X.(*ast.CallExpr)
	if !ok || len(call.Args) != 0 {
		return "", nil
	}
	sel, ok := call.Fun.(*ast.SelectorExpr)
	if !ok {
		return "", nil
	}
	switch sel.Sel.Name {
	case "Lock":
		return "TryLock", sel.X
	case "RLock":
		return "TryRLock", sel.X
	}
	return "", nil
}

// onceStmt recognises the statement form "X.Do(arg)" (one argument, result unused) and returns X. Whether X is a
// sync.Once is decided at run time by simhook.OnceDo; "&(X)" must compile (else vsim falls back to -locks=false).
func onceStmt(s ast.Stmt) ast.Expr {
	es, ok := s.(*ast.ExprStmt)
	if !ok {
		return nil
	}
	call, ok := es.X.(*ast.CallExpr)
	if !ok || len(call.Args) != 1 || call.Ellipsis.IsValid() {
		return nil
	}
	sel, ok := call.Fun.(*ast.SelectorExpr)
	if !ok || sel.Sel.Name != "Do" {
		return nil
	}
	switch sel.X.(type) {
	case *ast.Ident, *ast.SelectorExpr, *ast.StarExpr, *ast.IndexExpr, *ast.ParenExpr:
		return sel.X
	}
	return nil
}

func main() {
	repo := flag.String("repo", "/repo", "tink-go tree")
	out := flag.String("out", "", "directory for instrumented copies")
	overlayPath := flag.String("overlay", "", "overlay JSON to write")
	sitesPath := flag.String("sites", "", "site table (TSV) to write")
	locks := flag.Bool("locks", true, "run X.Lock()/X.RLock() statements as TryLock loops under a simulation")
	flag.Parse()
	if *out == "" || *overlayPath == "" {
		fmt.Fprintln(os.Stderr, "instr: -out and -overlay are required")
		os.Exit(2)
	}
	if err := os.MkdirAll(*out, 0o755); err != nil {
		fail(err)
	}
	var files []string
	err := filepath.Walk(*repo, func(p string, info os.FileInfo, err error) error {
		if err != nil {
			return err
		}
		rel, _ := filepath.Rel(*repo, p)
		if info.IsDir() {
			top := strings.Split(rel, string(filepath.Separator))[0]
			if skipDirs[top] || (strings.HasPrefix(info.Name(), ".") && rel != ".") {
				return filepath.SkipDir
			}
			return nil
		}
		if strings.HasSuffix(p, ".go") && !strings.HasSuffix(p, "_test.go") {
			files = append(files, p)
		}
		return nil
	})
	if err != nil {
		fail(err)
	}
	sort.Strings(files)

	overlay := map[string]string{}
	var sites []string
	siteID := 0
	nFiles := 0
	nLocks := 0
	for _, f := range files {
		src, err := os.ReadFile(f)
		if err != nil {
			fail(err)
		}
		fset := token.NewFileSet()
		af, err := parser.ParseFile(fset, f, src, parser.ParseComments|parser.SkipObjectResolution)
		if err != nil {
			fail(fmt.Errorf("%s: %v", f, err))
		}
		if af.Name.Name == "main" {
			continue
		}
		var ins []insertion
		rel, _ := filepath.Rel(*repo, f)
		addStmt := func(s ast.Stmt) {
			switch s.(type) {
			case *ast.CaseClause, *ast.CommClause:
				return
			}
			pos := fset.Position(s.Pos())
			if try, recv := lockStmt(s); *locks && try != "" {
				x := string(src[fset.Position(recv.Pos()).Offset:fset.Position(recv.End()).Offset])
				ins = append(ins, insertion{off: pos.Offset, text: fmt.Sprintf("simhook_.Yield(%d); if simhook_.Sim() { for !(%s).%s() { simhook_.Blocked(%d) }; simhook_.Acquired(%d) } else { ", siteID, x, try, siteID, siteID)})
				ins = append(ins, insertion{off: fset.Position(s.End()).Offset, text: " }"})
				sites = append(sites, fmt.Sprintf("%d\t%s:%d", siteID, rel, pos.Line))
				siteID++
				nLocks++
				return
			}
			if recv := onceStmt(s); *locks && recv != nil {
				x := string(src[fset.Position(recv.Pos()).Offset:fset.Position(recv.End()).Offset])
				ins = append(ins, insertion{off: pos.Offset, text: fmt.Sprintf("simhook_.Yield(%d); simhook_.OnceDo(%d, &(%s), func() { ", siteID, siteID, x)})
				ins = append(ins, insertion{off: fset.Position(s.End()).Offset, text: " })"})
				sites = append(sites, fmt.Sprintf("%d\t%s:%d", siteID, rel, pos.Line))
				siteID++
				nLocks++
				return
			}
			ins = append(ins, insertion{off: pos.Offset, text: fmt.Sprintf("simhook_.Yield(%d); ", siteID)})
			sites = append(sites, fmt.Sprintf("%d\t%s:%d", siteID, rel, pos.Line))
			siteID++
		}
		var walkBody func(n ast.Node)
		walkBody = func(n ast.Node) {
			ast.Inspect(n, func(x ast.Node) bool {
				switch b := x.(type) {
				case *ast.BlockStmt:
					for _, s := range b.List {
						addStmt(s)
					}
				case *ast.CaseClause:
					for _, s := range b.Body {
						addStmt(s)
					}
				case *ast.CommClause:
					for _, s := range b.Body {
						addStmt(s)
					}
				}
				return true
			})
		}
		for _, d := range af.Decls {
			fd, ok := d.(*ast.FuncDecl)
			if !ok {
				// package-level var initialisers may hold function literals
				if gd, ok := d.(*ast.GenDecl); ok && gd.Tok == token.VAR {
					walkBody(gd)
				}
				continue
			}
			if fd.Body == nil || (fd.Recv == nil && fd.Name.Name == "init") {
				continue
			}
			walkBody(fd.Body)
		}
		if len(ins) == 0 {
			continue
		}
		// the import goes right after the package name, on the same line
		ins = append(ins, insertion{off: fset.Position(af.Name.End()).Offset, text: `; import simhook_ "github.com/tink-crypto/tink-go/v2/internal/simhook"`})
		sort.SliceStable(ins, func(i, j int) bool { return ins[i].off < ins[j].off })
		var sb strings.Builder
		last := 0
		for _, in := range ins {
			sb.Write(src[last:in.off])
			sb.WriteString(in.text)
			last = in.off
		}
		sb.Write(src[last:])
		dst := filepath.Join(*out, strings.ReplaceAll(rel, string(filepath.Separator), "__"))
		if err := os.WriteFile(dst, []byte(sb.String()), 0o644); err != nil {
			fail(err)
		}
		overlay[f] = dst
		nFiles++
	}
	hookFile := filepath.Join(*out, "simhook.go")
	if err := os.WriteFile(hookFile, []byte(simhookSrc), 0o644); err != nil {
		fail(err)
	}
	overlay[filepath.Join(*repo, "internal", "simhook", "simhook.go")] = hookFile
	data, _ := json.MarshalIndent(map[string]any{"Replace": overlay}, "", " ")
	if err := os.WriteFile(*overlayPath, data, 0o644); err != nil {
		fail(err)
	}
	if *sitesPath != "" {
		if err := os.WriteFile(*sitesPath, []byte(strings.Join(sites, "\n")+"\n"), 0o644); err != nil {
			fail(err)
		}
	}
	fmt.Printf("instr: %d files, %d yield sites, %d lock statements as TryLock loops\n", nFiles, siteID, nLocks)
}

func fail(err error) {
	fmt.Fprintf(os.Stderr, "instr: %v\n", err)
	os.Exit(2)
}
