module verif/tools

go 1.25.0
