package rotation

import (
	"encoding/binary"
	"fmt"
	"sort"
	"strings"
	"sync"

	"github.com/tink-crypto/tink-go/v2/internal/protoserialization"
	"github.com/tink-crypto/tink-go/v2/key"
	"github.com/tink-crypto/tink-go/v2/monitoring"
	tinkpb "github.com/tink-crypto/tink-go/v2/proto/tink_go_proto"
	"github.com/tink-crypto/tink-go/v2/verifsim/catalog"
	"github.com/tink-crypto/tink-go/v2/verifsim/classes"
)

// ---------------------------------------------------------------------------
// the rule the property states, written down independently of tink
//
// expectedPrefix is the output prefix a key of (variant, id) puts in front of
// what it produces.

func expectedPrefix(variant string, id uint32) []byte {
	var start byte
	switch variant {
	case catalog.VTink:
		start = 0x01
	case catalog.VCrunchy, catalog.VLegacy:
		start = 0x00
	default: // RAW, NONE, RAW_PREHASH_ID and both JWT kid strategies: no binary prefix
		return nil
	}
	p := make([]byte, 5)
	p[0] = start
	binary.BigEndian.PutUint32(p[1:], id)
	return p
}

func noPrefix(variant string) bool {
	switch variant {
	case catalog.VRaw, catalog.VNone, catalog.VRawPrehashID, catalog.KIDIgnored:
		return true
	}
	return false
}

// ident is one key as it sits in a keyset: which material, under which
// variant and which ID. Two entries are "the same key" for the purposes of
// C05 when the predicate entryAccepts below says so.
type ident struct {
	mat     int    // generation event of the key material (unique per run, both administrators)
	base    string // catalog entry name without the variant, or "stub/<class>"
	variant string
	id      uint32 // key ID in the keyset (for prefixed variants also the ID inside the prefix)
	keyType string
	stub    bool
	foreign bool
	key     key.Key // as handed out by the published handle (private or symmetric key)
}

func (a *ident) String() string {
	return fmt.Sprintf("mat%d/%s/%s/id=%d", a.mat, a.base, a.variant, a.id)
}

// producedBy describes the key that produced a message.
type producedBy struct {
	mat     int
	base    string
	variant string
	id      uint32
}

// entryAccepts: would an ENABLED keyset entry e accept an output produced by p?
func entryAccepts(class string, e *ident, p producedBy) bool {
	if e.mat != p.mat || e.base != p.base {
		return false
	}
	if class == classes.JWTMAC || class == classes.JWTSignature {
		// a key that ignores the kid header takes any token signed with its material;
		// a key that writes kid = base64(id) wants exactly that header back
		if e.variant == catalog.KIDIgnored {
			return true
		}
		return p.variant == catalog.KIDBase64 && e.id == p.id
	}
	if noPrefix(e.variant) {
		return noPrefix(p.variant)
	}
	return e.variant == p.variant && e.id == p.id
}

// ---------------------------------------------------------------------------
// catalog views

type classPool struct {
	keyTypes []string                   // in catalog order
	fast     map[string][]catalog.Entry // key type -> entries with Cost <= 1
	slow     map[string][]catalog.Entry // key type -> entries with Cost == 2 (thorough tier only)
}

var (
	poolOnce  sync.Once
	pools     map[string]*classPool
	familyOf  map[string][]catalog.Entry // base -> entries of every variant
	simClass  = []string{classes.AEAD, classes.DAEAD, classes.MAC, classes.Signature, classes.Hybrid, classes.JWTMAC, classes.JWTSignature, classes.StreamingAEAD, classes.PRF}
	drawClass = []string{classes.AEAD, classes.MAC, classes.DAEAD, classes.Signature, classes.Hybrid, classes.PRF, classes.StreamingAEAD, classes.JWTMAC, classes.JWTSignature,
		classes.AEAD, classes.MAC, classes.DAEAD, classes.Signature, classes.Hybrid}
)

func baseOf(e catalog.Entry) string { return strings.TrimSuffix(e.Name, "/"+e.Variant) }

func ensurePools() {
	poolOnce.Do(func() {
		pools = map[string]*classPool{}
		familyOf = map[string][]catalog.Entry{}
		for _, c := range simClass {
			p := &classPool{fast: map[string][]catalog.Entry{}, slow: map[string][]catalog.Entry{}}
			for _, e := range catalog.ByClass(catalog.Class(c)) {
				familyOf[baseOf(e)] = append(familyOf[baseOf(e)], e)
				if _, ok := p.fast[e.KeyType]; !ok {
					if _, ok2 := p.slow[e.KeyType]; !ok2 {
						p.keyTypes = append(p.keyTypes, e.KeyType)
					}
				}
				if e.Cost <= 1 && !catalog.Pooled(e) {
					p.fast[e.KeyType] = append(p.fast[e.KeyType], e)
				} else {
					p.slow[e.KeyType] = append(p.slow[e.KeyType], e)
				}
			}
			pools[c] = p
		}
	})
}

func prefixTypeOf(variant string) tinkpb.OutputPrefixType {
	switch variant {
	case catalog.VTink, catalog.KIDBase64:
		return tinkpb.OutputPrefixType_TINK
	case catalog.VCrunchy:
		return tinkpb.OutputPrefixType_CRUNCHY
	case catalog.VLegacy:
		return tinkpb.OutputPrefixType_LEGACY
	case catalog.VRawPrehashID:
		return tinkpb.OutputPrefixType_WITH_ID_REQUIREMENT
	}
	return tinkpb.OutputPrefixType_RAW
}

// rekey puts the material of k under another output prefix type / ID (what an
// administrator does who imports the same key bytes a second time).
func rekey(k key.Key, pt tinkpb.OutputPrefixType, id uint32) (key.Key, error) {
	ks, err := protoserialization.SerializeKey(k)
	if err != nil {
		return nil, err
	}
	if pt == tinkpb.OutputPrefixType_RAW {
		id = 0
	}
	ks2, err := protoserialization.NewKeySerialization(ks.KeyData(), pt, id)
	if err != nil {
		return nil, err
	}
	return protoserialization.ParseKey(ks2)
}

// stubVariants: the stub primitives of aead/daead/hybrid get no LEGACY variant
// (their adapters treat LEGACY exactly like CRUNCHY, and no in-tree key type of
// those classes has LEGACY); mac and signature stubs get all four.
func stubVariants(class string) []string {
	switch class {
	case classes.MAC, classes.Signature:
		return []string{catalog.VTink, catalog.VLegacy, catalog.VCrunchy, catalog.VRaw}
	case classes.AEAD, classes.DAEAD, classes.Hybrid:
		return []string{catalog.VTink, catalog.VCrunchy, catalog.VRaw}
	}
	return nil
}

func stubBase(class string) string { return "stub/" + class }

// ---------------------------------------------------------------------------
// monitoring client (deterministic: one slice, appended on the driving goroutine)

type monEvent struct {
	prim, api string
	kind      byte // 'L' success, 'F' failure, 'X' key export
	keyID     uint32
}

type simMon struct {
	mu     sync.Mutex
	events []monEvent
}

var mon = &simMon{}

type simLogger struct {
	c   *simMon
	ctx *monitoring.Context
}

func (c *simMon) NewLogger(ctx *monitoring.Context) (monitoring.Logger, error) {
	return &simLogger{c: c, ctx: ctx}, nil
}

func (l *simLogger) add(kind byte, id uint32) {
	l.c.mu.Lock()
	l.c.events = append(l.c.events, monEvent{prim: l.ctx.Primitive, api: l.ctx.APIFunction, kind: kind, keyID: id})
	l.c.mu.Unlock()
}
func (l *simLogger) Log(keyID uint32, numBytes int) { l.add('L', keyID) }
func (l *simLogger) LogFailure()                    { l.add('F', 0) }
func (l *simLogger) LogKeyExport(keyID uint32)      { l.add('X', keyID) }

func (c *simMon) reset() { c.mu.Lock(); c.events = c.events[:0]; c.mu.Unlock() }
func (c *simMon) mark() int {
	c.mu.Lock()
	defer c.mu.Unlock()
	return len(c.events)
}

// usage returns the success / failure events of primitives logged since mark
// (key-export events of the handle are not usage of a primitive).
func (c *simMon) usage(mark int) (ok []monEvent, fail int) {
	c.mu.Lock()
	defer c.mu.Unlock()
	for _, e := range c.events[mark:] {
		switch e.kind {
		case 'L':
			ok = append(ok, e)
		case 'F':
			fail++
		}
	}
	return ok, fail
}

// ---------------------------------------------------------------------------
// small helpers

func sortedU32(m map[uint32]bool) []uint32 {
	out := make([]uint32, 0, len(m))
	for k := range m {
		out = append(out, k)
	}
	sort.Slice(out, func(i, j int) bool { return out[i] < out[j] })
	return out
}

func statusLetter(s fmt.Stringer) string {
	str := s.String()
	if len(str) == 0 {
		return "?"
	}
	return str[:2]
}
