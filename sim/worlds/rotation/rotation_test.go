// Package rotation is the C05 world: a key-rotation rollout. One administrator
// drives a real keyset.Manager and publishes a keyset version after each
// successful step; producers and consumers hold versions that lag arbitrarily;
// a simulated network delivers messages late, duplicated and out of order; a
// second administrator runs a foreign keyset whose key IDs are scripted through
// the RNG seam to collide with the first one's and injects its messages. A
// reference model of the selection rule ("primary produces, any enabled key
// with the message's identity accepts") decides every delivery.
package rotation

import (
	"bytes"
	"crypto/rand"
	"encoding/base64"
	"encoding/binary"
	"encoding/hex"
	"encoding/json"
	"fmt"
	"io"
	"sort"
	"strings"
	"testing"
	"testing/cryptotest"

	"github.com/tink-crypto/tink-go/v2/hybrid"
	"github.com/tink-crypto/tink-go/v2/insecurecleartextkeyset"
	"github.com/tink-crypto/tink-go/v2/internal/internalregistry"
	"github.com/tink-crypto/tink-go/v2/internal/protoserialization"
	"github.com/tink-crypto/tink-go/v2/jwt"
	"github.com/tink-crypto/tink-go/v2/key"
	"github.com/tink-crypto/tink-go/v2/keyset"
	"github.com/tink-crypto/tink-go/v2/prf"
	tinkpb "github.com/tink-crypto/tink-go/v2/proto/tink_go_proto"
	"github.com/tink-crypto/tink-go/v2/signature"
	"github.com/tink-crypto/tink-go/v2/verifsim/catalog"
	"github.com/tink-crypto/tink-go/v2/verifsim/classes"
	"github.com/tink-crypto/tink-go/v2/verifsim/core"
	"github.com/tink-crypto/tink-go/v2/verifsim/simrng"
	"github.com/tink-crypto/tink-go/v2/verifsim/stubkm"
	"pgregory.net/rapid"
)

const prop = "C05"

func TestMain(m *testing.M) {
	stubkm.Register()
	if err := internalregistry.RegisterMonitoringClient(mon); err != nil {
		panic("rotation: " + err.Error())
	}
	core.DeclareFaults("msg-late", "msg-dup", "msg-reorder", "keyset-skew-consumer-older", "keyset-skew-consumer-newer",
		"foreign-inject", "foreign-prefix-collision", "foreign-id-collision", "rng-id-zero", "rng-id-max", "rng-id-redraw", "rng-id-adjacent",
		"same-material-twice", "same-material-other-id", "raw-output-looks-prefixed", "readd-deleted-id-other-material")
	core.DeclareProbes("legacy-wire-prefix-on-a-key-type-without-legacy-variant", "start-parsed-with-dead-keys", "id-zero-live", "id-max-live", "mixed-key-types", "mixed-variants", "primary-not-first",
		"crunchy-and-legacy-in-keyset", "stub-legacy-adapter-produce", "stub-legacy-adapter-accept", "manager-reloaded",
		"accept-primary", "accept-nonprimary", "accept-noprefix", "accept-noprefix-looks-prefixed", "accept-any-of-several",
		"reject-disabled", "reject-destroyed", "reject-removed", "reject-not-yet", "reject-same-material-other-id", "reject-foreign",
		"reject-foreign-same-prefix", "reject-foreign-crunchy-vs-legacy", "jwt-ignored-kid-accepts-kid-token",
		"deterministic-equals-primary-alone", "valid-under-primary-alone", "prf-set-checked", "prf-set-has-nonenabled-key",
		"monitoring-success-checked", "monitoring-failure-checked", "monitoring-failure-event-for-rejected-input", "addkey-id-refused", "op-refused")
	core.Main(m, prop, "rotation", map[string]string{
		"keyset.Manager / keyset.Handle / Handle.Public":                                                  "real",
		"aead, daead, mac, signature, hybrid, jwt, streamingaead, prf factories (wrappers, full*Adapter)": "real",
		"internal/prefixmap, internal/factoryutil, core/cryptofmt, internal/outputprefix":                 "real",
		"all key types' primitives, proto serialization (Public(), parsed start keyset)":                  "real",
		"crypto/rand":         "stub (simrng; key-ID draws scripted)",
		"network":             "stub (message pool: late, duplicated, reordered delivery)",
		"monitoring client":   "stub (in-memory event list registered via internalregistry)",
		"custom key managers": "stub (stubkm: RAW primitives so the legacy full*Adapter paths run)",
		"selection rule":      "oracle only (entryAccepts / expectedPrefix)"})
}

func TestRotation(t *testing.T) {
	// randomness the standard library draws without a reader parameter (ML-KEM encapsulation)
	cryptotest.SetGlobalRandom(t, 0x5eed)
	ensurePools()
	rapid.Check(t, runRotation)
}

// ---------------------------------------------------------------------------
// state

type vent struct {
	*ident
	status  keyset.KeyStatus
	primary bool
}

type version struct {
	side       *side
	idx        int
	h          *keyset.Handle
	ents       []vent
	prod       *classes.Producer
	acc        *classes.Acceptor
	prfChecked bool
}

func (v *version) primary() *vent {
	for i := range v.ents {
		if v.ents[i].primary {
			return &v.ents[i]
		}
	}
	return nil
}

func (v *version) String() string {
	var sb strings.Builder
	for _, e := range v.ents {
		p := ""
		if e.primary {
			p = "*"
		}
		fmt.Fprintf(&sb, "[%d%s %s mat%d %s] ", e.id, p, e.variant, e.mat, statusLetter(e.status))
	}
	return sb.String()
}

type side struct {
	name       string
	foreign    bool
	mgr        *keyset.Manager
	live       map[uint32]*ident
	order      []uint32 // key IDs in keyset order
	dead       []*ident
	all        []*ident
	versions   []*version
	hasPrimary bool
}

type message struct {
	seq     int
	by      producedBy
	from    *version
	msg     []byte
	aux     []byte
	out     []byte
	foreign bool
	count   int
	seenBy  map[int]bool
}

type actor struct {
	ver    int
	maxSeq int
}

type single struct {
	prod *classes.Producer
	acc  *classes.Acceptor
}

type world struct {
	r       *core.Run
	t       *rapid.T
	g       *simrng.RNG
	class   string
	mon     bool
	quiet   bool
	stop    bool // a known finding blocks this run from going on
	own     *side
	foreign *side
	palette []catalog.Entry
	nextMat int
	net     []*message
	prods   []*actor
	cons    []*actor
	singles map[*ident]*single
	slots   map[string]string

	outcomes   map[string]bool
	relations  map[string]bool
	maxLive    int
	startKind  string
	deliveries int
}

var annotations = map[string]string{"world": "rotation"}

// guard runs f; a panic inside tink is a violation. It returns false when f
// panicked and the panic is a known finding (the run then winds down).
func (w *world) guard(where string, f func()) (ok bool) {
	defer func() {
		if p := recover(); p != nil {
			s := fmt.Sprintf("%T", p)
			if s == "rapid.stopTest" || s == "rapid.invalidData" {
				panic(p)
			}
			w.r.Violation("C05/panic:"+w.class+"/"+where, fmt.Sprintf("%v", p))
			w.stop = true
			ok = false
		}
	}()
	f()
	return true
}

func (w *world) other(s *side) *side {
	if s.foreign {
		return w.own
	}
	return w.foreign
}

func (w *world) newManager(s *side, from *keyset.Handle) {
	if from == nil {
		s.mgr = keyset.NewManager()
	} else {
		w.guard("NewManagerFromHandle", func() { s.mgr = keyset.NewManagerFromHandle(from) })
	}
	if w.mon {
		if err := s.mgr.SetAnnotations(annotations); err != nil {
			w.t.Fatalf("harness: SetAnnotations: %v", err)
		}
	}
}

// ---------------------------------------------------------------------------
// the run

func runRotation(t *rapid.T) {
	r := core.Begin(t)
	g := simrng.New(rapid.Uint64().Draw(t, "rngSeed"))
	defer simrng.Install(g)()
	mon.reset()
	w := &world{r: r, t: t, g: g, singles: map[*ident]*single{}, slots: map[string]string{}, outcomes: map[string]bool{}, relations: map[string]bool{}}
	w.class = rapid.SampledFrom(drawClass).Draw(t, "class")
	w.mon = rapid.Bool().Draw(t, "monitoring")
	w.own = &side{name: "own", live: map[uint32]*ident{}}
	w.foreign = &side{name: "foreign", foreign: true, live: map[uint32]*ident{}}
	nPal := rapid.IntRange(1, 4).Draw(t, "paletteSize")
	for i := 0; i < nPal; i++ {
		w.palette = append(w.palette, w.drawEntry("pal"))
	}
	r.ObsS("config", fmt.Sprintf("%s mon=%v", w.class, w.mon))
	if r.Tracing() {
		var names []string
		for _, e := range w.palette {
			names = append(names, e.Name)
		}
		r.Logf("palette: %s", strings.Join(names, ", "))
	}

	w.newManager(w.foreign, nil)
	w.startKind = "empty"
	if rapid.Bool().Draw(t, "startParsed") {
		w.startParsed()
	} else {
		w.newManager(w.own, nil)
	}

	for i, n := 0, rapid.IntRange(1, 3).Draw(t, "producers"); i < n; i++ {
		w.prods = append(w.prods, &actor{ver: -1, maxSeq: -1})
	}
	for i, n := 0, rapid.IntRange(1, 4).Draw(t, "consumers"); i < n; i++ {
		w.cons = append(w.cons, &actor{ver: -1, maxSeq: -1})
	}

	maxSteps := 40
	if core.Thorough() {
		maxSteps = 120
	}
	steps := []string{"add", "add", "add", "promote", "promote", "disable", "disable", "enable", "delete", "reload", "reimport",
		"produce", "produce", "produce", "produce", "deliver", "deliver", "deliver", "deliver", "deliver", "deliver",
		"advance-producer", "advance-consumer", "advance-consumer", "foreign-add", "foreign-add", "foreign-produce", "foreign-produce"}
	nSteps := rapid.IntRange(1, maxSteps).Draw(t, "nSteps")
	for i := 0; i < nSteps && !w.stop; i++ {
		w.step(rapid.SampledFrom(steps).Draw(t, "step"))
		if n := len(w.own.order); n > w.maxLive {
			w.maxLive = n
		}
	}
	// every message reaches somebody holding whatever version, and then the one
	// consumer who has meanwhile received the newest keyset
	if len(w.own.versions) > 0 && !w.stop {
		for _, m := range w.net {
			if m.count == 0 && w.deliveries < 90 {
				w.deliver(m, rapid.IntRange(0, len(w.cons)-1).Draw(t, "sweepTo"))
			}
		}
		w.cons[0].ver = len(w.own.versions) - 1
		for _, m := range w.net {
			if w.deliveries < 90 {
				w.deliver(m, 0)
			}
		}
	}
	g.ClearScript()

	ml := fmt.Sprint(w.maxLive)
	if w.maxLive > 4 {
		ml = "5+"
	}
	nontrivial := false
	for o := range w.outcomes {
		if o != "accept-primary" {
			nontrivial = true
		}
	}
	r.End(fmt.Sprintf("%s|mon=%v|%s|live%s|%s|%s", w.class, w.mon, w.startKind, ml,
		strings.Join(core.SortedKeys(w.outcomes), ","), strings.Join(core.SortedKeys(w.relations), ",")), nontrivial)
}

func (w *world) step(kind string) {
	t := w.t
	switch kind {
	case "add":
		if len(w.own.order) >= 6 {
			w.keyOp(w.own, "delete")
			return
		}
		w.opAdd(w.own)
	case "promote", "disable", "enable", "delete":
		w.keyOp(w.own, kind)
	case "reload":
		s := w.own
		if len(s.versions) == 0 {
			return
		}
		w.newManager(s, s.versions[len(s.versions)-1].h)
		w.r.Probe("manager-reloaded")
		w.r.Logf("own: manager reloaded from version %d", len(s.versions)-1)
	case "reimport":
		w.reimport()
	case "produce":
		if len(w.own.versions) == 0 || len(w.net) >= 24 {
			return
		}
		p := w.prods[rapid.IntRange(0, len(w.prods)-1).Draw(t, "producer")]
		w.ensureVer(p)
		w.produce(w.own.versions[p.ver], rapid.Bool().Draw(t, "grind"))
	case "deliver":
		if len(w.net) == 0 || len(w.own.versions) == 0 || w.deliveries >= 90 {
			return
		}
		m := w.net[rapid.IntRange(0, len(w.net)-1).Draw(t, "msg")]
		w.deliver(m, rapid.IntRange(0, len(w.cons)-1).Draw(t, "consumer"))
	case "advance-producer", "advance-consumer":
		if len(w.own.versions) == 0 {
			return
		}
		l := w.cons
		if kind == "advance-producer" {
			l = w.prods
		}
		a := l[rapid.IntRange(0, len(l)-1).Draw(t, "actor")]
		if a.ver < 0 {
			w.ensureVer(a)
			return
		}
		// mostly to the newest version, sometimes part of the way
		latest := len(w.own.versions) - 1
		if rapid.Bool().Draw(t, "toLatest") {
			a.ver = latest
		} else {
			a.ver = rapid.IntRange(a.ver, latest).Draw(t, "toVersion")
		}
	case "foreign-add":
		if len(w.foreign.order) >= 4 {
			w.keyOp(w.foreign, "delete")
			return
		}
		w.opAdd(w.foreign)
	case "foreign-produce":
		if len(w.foreign.versions) == 0 || len(w.net) >= 24 {
			return
		}
		w.produce(w.foreign.versions[len(w.foreign.versions)-1], false)
	}
}

func (w *world) ensureVer(a *actor) {
	if a.ver < 0 {
		a.ver = rapid.IntRange(0, len(w.own.versions)-1).Draw(w.t, "firstVersion")
	}
}

// ---------------------------------------------------------------------------
// choosing keys

func (w *world) drawEntry(label string) catalog.Entry {
	p := pools[w.class]
	var kts []string
	for _, kt := range p.keyTypes {
		if len(p.fast[kt]) > 0 || core.Thorough() {
			kts = append(kts, kt)
		}
	}
	kt := rapid.SampledFrom(kts).Draw(w.t, label+"KeyType")
	list := p.fast[kt]
	if core.Thorough() && len(p.slow[kt]) > 0 && (len(list) == 0 || rapid.IntRange(0, 5).Draw(w.t, label+"Slow") == 5) {
		list = p.slow[kt]
	}
	return list[rapid.IntRange(0, len(list)-1).Draw(w.t, label+"Idx")]
}

func (w *world) newMat() int { w.nextMat++; return w.nextMat }

// newKeyObject builds a fresh key of entry e under the given ID (outside any manager).
func (w *world) newKeyObject(e catalog.Entry, id uint32) (key.Key, bool) {
	w.g.ClearScript()
	if catalog.Pooled(e) {
		// one pool slot may serve one base only within a run, so that equal material always means equal parameters
		n := catalog.PoolSize(e)
		for i := 0; i < n; i++ {
			slot := fmt.Sprintf("%s#%d", e.KeyType, i)
			if w.slots[slot] != "" {
				continue
			}
			w.slots[slot] = baseOf(e)
			k, _, err := catalog.PoolKey(e, i, id)
			if err != nil {
				w.t.Fatalf("harness: %v", err)
			}
			return k, true
		}
		return nil, false
	}
	k, err := catalog.NewKey(e)
	if err != nil {
		w.t.Fatalf("harness: %v", err)
	}
	if e.HasIDReq {
		k, err = rekey(k, prefixTypeOf(e.Variant), id)
		if err != nil {
			w.t.Fatalf("harness: rekey %s: %v", e.Name, err)
		}
	}
	if !k.Parameters().Equal(e.Params) {
		w.t.Fatalf("harness: fresh key of %s has other parameters", e.Name)
	}
	return k, true
}

// idPlan draws what the next key-ID draw(s) of a manager will see. pref is a
// variant that makes the ID collide on the wire with something that exists.
func (w *world) idPlan(s *side) (script []uint32, kind string, pref string) {
	t := w.t
	o := w.other(s)
	kinds := []string{"random", "random", "zero", "max"}
	if len(s.order) > 0 {
		kinds = append(kinds, "redraw", "adjacent-low", "adjacent-high")
	}
	if len(s.dead) > 0 {
		kinds = append(kinds, "dead")
	}
	if len(o.all) > 0 {
		kinds = append(kinds, "other")
		if s.foreign {
			kinds = append(kinds, "other", "other", "other", "other")
		}
	}
	rawMsg := w.rawLooksPrefixed(s)
	if rawMsg != nil {
		kinds = append(kinds, "match-raw", "match-raw", "match-raw", "match-raw", "match-raw", "match-raw")
	}
	kind = rapid.SampledFrom(kinds).Draw(t, "idPlan")
	pick := func(l []uint32) uint32 { return l[rapid.IntRange(0, len(l)-1).Draw(t, "idOf")] }
	switch kind {
	case "zero":
		script = []uint32{0}
	case "max":
		script = []uint32{0xffffffff}
	case "redraw":
		x := []uint32{0, 0xffffffff, pick(s.order) ^ 1, rapid.Uint32().Draw(t, "redrawTo")}[rapid.IntRange(0, 3).Draw(t, "redrawKind")]
		script = []uint32{pick(s.order), x}
	case "adjacent-low":
		script = []uint32{pick(s.order) ^ 1}
	case "adjacent-high":
		script = []uint32{pick(s.order) ^ 0x01000000}
	case "dead":
		d := s.dead[rapid.IntRange(0, len(s.dead)-1).Draw(t, "deadIdx")]
		script, pref = []uint32{d.id}, d.variant
	case "other":
		a := o.all[rapid.IntRange(0, len(o.all)-1).Draw(t, "otherIdx")]
		script, pref = []uint32{a.id}, a.variant
	case "match-raw":
		script = []uint32{binary.BigEndian.Uint32(rawMsg.out[1:5])}
		pref = catalog.VCrunchy
		if rawMsg.out[0] == 1 {
			pref = catalog.VTink
		}
	}
	return script, kind, pref
}

// rawLooksPrefixed finds a message of side s produced by a prefix-less key whose
// first byte makes it look like a prefixed output.
func (w *world) rawLooksPrefixed(s *side) *message {
	if s.foreign || !grindClass(w.class) {
		// other classes' output bytes may depend on randomness outside the run's seed
		// (ML-KEM / X-Wing encapsulation), and a choice list must be a function of the draws alone
		return nil
	}
	for _, m := range w.net {
		if !m.foreign && noPrefix(m.by.variant) && len(m.out) >= 5 && m.out[0] <= 1 {
			if _, taken := s.live[binary.BigEndian.Uint32(m.out[1:5])]; !taken {
				return m
			}
		}
	}
	return nil
}

func (w *world) chooseVariant(family []string, pref string) string {
	has := func(v string) bool {
		for _, f := range family {
			if f == v {
				return true
			}
		}
		return false
	}
	if pref == catalog.VCrunchy || pref == catalog.VLegacy {
		// both put 0x00 in front of the ID
		if has(catalog.VCrunchy) && has(catalog.VLegacy) {
			return []string{catalog.VCrunchy, catalog.VLegacy}[rapid.IntRange(0, 1).Draw(w.t, "crunchyOrLegacy")]
		}
		if has(catalog.VLegacy) {
			return catalog.VLegacy
		}
	}
	if pref != "" && has(pref) {
		return pref
	}
	return family[rapid.IntRange(0, len(family)-1).Draw(w.t, "variant")]
}

func familyVariants(base string) []string {
	var vs []string
	for _, e := range familyOf[base] {
		vs = append(vs, e.Variant)
	}
	return vs
}

func familyEntry(base, variant string) catalog.Entry {
	for _, e := range familyOf[base] {
		if e.Variant == variant {
			return e
		}
	}
	panic("rotation: no entry " + base + "/" + variant)
}

// opAdd: one key joins the keyset of side s through Add / AddNewKeyFromParameters / AddKey.
func (w *world) opAdd(s *side) {
	t, r := w.t, w.r
	kinds := []string{"template", "params", "addkey-fresh"}
	var withKey []*ident
	for _, a := range s.all {
		if a.key != nil {
			withKey = append(withKey, a)
		}
	}
	if len(withKey) > 0 {
		kinds = append(kinds, "addkey-rekeyed", "addkey-rekeyed", "addkey-again")
	}
	stubURL, hasStub := stubkm.ClassURL(w.class)
	if hasStub {
		kinds = append(kinds, "stub-key", "stub-template")
	}
	kind := rapid.SampledFrom(kinds).Draw(t, "addKind")

	var base, keyType string
	var src *ident
	var family []string
	stub := false
	switch kind {
	case "template", "params", "addkey-fresh":
		e := w.palette[rapid.IntRange(0, len(w.palette)-1).Draw(t, "palIdx")]
		base, keyType, family = baseOf(e), e.KeyType, familyVariants(baseOf(e))
		if catalog.Pooled(e) {
			kind = "addkey-fresh" // generating RSA / SLH-DSA keys inside a run is too slow
		}
	case "addkey-rekeyed", "addkey-again":
		src = withKey[rapid.IntRange(0, len(withKey)-1).Draw(t, "srcIdx")]
		base, keyType, stub = src.base, src.keyType, src.stub
		if stub {
			family = stubVariants(w.class)
		} else {
			family = familyVariants(base)
		}
	case "stub-key", "stub-template":
		base, keyType, stub, family = stubBase(w.class), "stubkm", true, stubVariants(w.class)
	}
	if w.quiet {
		// keyset.Validate refuses the WITH_ID_REQUIREMENT prefix type, so such a key cannot be in a parsed start keyset
		var f []string
		for _, v := range family {
			if v != catalog.VRawPrehashID {
				f = append(f, v)
			}
		}
		family = f
	}
	script, plan, pref := w.idPlan(s)
	variant := w.chooseVariant(family, pref)
	if kind == "addkey-again" {
		variant = src.variant
	}
	targetID := uint32(0)
	if len(script) > 0 {
		targetID = script[len(script)-1]
	} else if strings.HasPrefix(kind, "addkey") || kind == "stub-key" {
		targetID = rapid.Uint32().Draw(t, "keyID")
	}

	mat := 0
	var id uint32
	var err error
	var k key.Key
	w.g.ClearScript()
	switch kind {
	case "template", "params":
		e := familyEntry(base, variant)
		kt, serr := protoserialization.SerializeParameters(e.Params)
		if serr != nil {
			t.Fatalf("harness: %v", serr)
		}
		w.g.Script4(script...)
		w.guard("Manager.Add", func() {
			if kind == "template" {
				id, err = s.mgr.Add(kt)
			} else {
				id, err = s.mgr.AddNewKeyFromParameters(e.Params)
			}
		})
		if err != nil {
			t.Fatalf("harness: manager refuses catalog entry %s: %v", e.Name, err)
		}
		mat = w.newMat()
	case "stub-template":
		w.g.Script4(script...)
		w.guard("Manager.Add", func() {
			id, err = s.mgr.Add(&tinkpb.KeyTemplate{TypeUrl: stubURL, OutputPrefixType: stubkm.PrefixType(variant)})
		})
		if err != nil {
			t.Fatalf("harness: manager refuses stub template: %v", err)
		}
		mat = w.newMat()
	case "addkey-fresh":
		ok := false
		k, ok = w.newKeyObject(familyEntry(base, variant), targetID)
		if !ok {
			r.Logf("%s: no pool slot left for %s", s.name, base)
			return
		}
		mat = w.newMat()
	case "stub-key":
		kb := make([]byte, 32)
		if _, rerr := io.ReadFull(rand.Reader, kb); rerr != nil {
			t.Fatalf("harness: %v", rerr)
		}
		pk := stubkm.ProtoKey(stubURL, kb, variant, targetID, tinkpb.KeyStatusType_ENABLED)
		idReq := targetID
		if variant == catalog.VRaw {
			idReq = 0
		}
		ser, serr := protoserialization.NewKeySerialization(pk.KeyData, pk.OutputPrefixType, idReq)
		if serr == nil {
			k, serr = protoserialization.ParseKey(ser)
		}
		if serr != nil {
			t.Fatalf("harness: stub key: %v", serr)
		}
		mat = w.newMat()
	case "addkey-rekeyed":
		var rerr error
		pt := prefixTypeOf(variant)
		if stub {
			pt = stubkm.PrefixType(variant)
		}
		// The wire format knows a fourth prefix type, LEGACY (prefix 0x00 || ID like CRUNCHY), which the key types without
		// a LEGACY variant of their own may still meet in a stored keyset: for those the material is sometimes filed under
		// LEGACY. A key type that refuses the type altogether gets CRUNCHY after all; one that takes it must behave like
		// a key with the 0x00 || ID prefix whatever its parser made of it.
		legacyProto := false
		if !stub && pt == tinkpb.OutputPrefixType_CRUNCHY && rapid.IntRange(0, 1).Draw(t, "legacyOnTheWire") == 1 {
			hasLegacy := false
			for _, fe := range familyOf[base] {
				if fe.Variant == catalog.VLegacy {
					hasLegacy = true
				}
			}
			if !hasLegacy {
				if lk, lerr := rekey(src.key, tinkpb.OutputPrefixType_LEGACY, targetID); lerr == nil {
					k, legacyProto = lk, true
					r.Probe("legacy-wire-prefix-on-a-key-type-without-legacy-variant")
				}
			}
		}
		if !legacyProto {
			k, rerr = rekey(src.key, pt, targetID)
		}
		if rerr != nil {
			if catalog.Pooled(familyEntry(base, src.variant)) {
				// RSA-SSA-PSS keys with salt length 0 cannot be serialized by the library
				core.CountGlobal("rekey-not-possible")
				return
			}
			t.Fatalf("harness: rekey %s to %s: %v", src, variant, rerr)
		}
		if legacyProto && !k.Parameters().Equal(familyEntry(base, variant).Params) {
			core.CountGlobal("legacy-wire-prefix-parsed-into-other-parameters")
		}
		if !stub && !legacyProto && !k.Parameters().Equal(familyEntry(base, variant).Params) {
			t.Fatalf("harness: rekey %s to %s gave other parameters", src, variant)
		}
		mat = src.mat
	case "addkey-again":
		k, mat = src.key, src.mat
	}
	if k != nil {
		w.g.Script4(script...) // only read when the key carries no ID requirement
		w.guard("Manager.AddKey", func() { id, err = s.mgr.AddKey(k) })
	}
	w.g.ClearScript()
	if w.stop {
		return
	}
	r.ObsErr(s.name+".add", err)
	r.Logf("%s: %s %s/%s idPlan=%s%v -> id=%d err=%v", s.name, kind, base, variant, plan, script, id, err)
	if err != nil {
		// the only legitimate refusal: the key's ID requirement is taken
		r.Probe("addkey-id-refused")
		return
	}
	if s.live[id] != nil {
		core.CountGlobal("keyset-malformed-by-manager(C11)")
		t.Skip("keyset malformed by the manager: C11's question, not this world's")
	}
	a := &ident{mat: mat, base: base, variant: variant, id: id, keyType: keyType, stub: stub, foreign: s.foreign, key: k}
	s.live[id] = a
	s.order = append(s.order, id)
	s.all = append(s.all, a)
	r.ObsI(s.name+".newid", int64(id))

	// what actually happened, for the fault counters
	if len(script) > 0 {
		switch {
		case plan == "zero" && id == 0:
			r.Fault("rng-id-zero")
		case plan == "max" && id == 0xffffffff:
			r.Fault("rng-id-max")
		case plan == "redraw" && id != script[0]:
			r.Fault("rng-id-redraw")
		case strings.HasPrefix(plan, "adjacent") && id == script[0]:
			r.Fault("rng-id-adjacent")
		}
	}
	for _, b := range w.other(s).all {
		if b.id == id {
			r.Fault("foreign-id-collision")
			break
		}
	}
	for _, d := range s.dead {
		if d.id == id && d.mat != mat {
			r.Fault("readd-deleted-id-other-material")
			break
		}
	}
	for _, id2 := range s.order {
		if b := s.live[id2]; b != a && b.mat == mat {
			if noPrefix(b.variant) && noPrefix(a.variant) {
				r.Fault("same-material-twice")
			} else {
				r.Fault("same-material-other-id")
			}
			break
		}
	}

	promote := !s.hasPrimary || s.foreign || rapid.IntRange(0, 2).Draw(t, "promoteNow") == 2
	if promote {
		w.guard("Manager.SetPrimary", func() { err = s.mgr.SetPrimary(id) })
		if err != nil {
			t.Fatalf("harness: SetPrimary of a fresh enabled key failed: %v", err)
		}
		s.hasPrimary = true
	}
	w.publish(s)
}

// keyOp: SetPrimary / Disable / Enable / Delete on a key of the keyset.
func (w *world) keyOp(s *side, op string) {
	if len(s.order) == 0 {
		return
	}
	// mostly the oldest or the newest key, as in a rotation
	var idx int
	switch rapid.IntRange(0, 3).Draw(w.t, "which") {
	case 0:
		idx = len(s.order) - 1
	case 1:
		idx = 0
	case 2:
		// the key whose message is still travelling (retiring a key too early)
		idx = len(s.order) - 1
		for i := len(w.net) - 1; i >= 0; i-- {
			if m := w.net[i]; m.foreign == s.foreign {
				if j := indexOf(s.order, m.by.id); j >= 0 && s.live[m.by.id].mat == m.by.mat {
					idx = j
					break
				}
			}
		}
	default:
		idx = rapid.IntRange(0, len(s.order)-1).Draw(w.t, "keyIdx")
	}
	id := s.order[idx]
	var err error
	w.guard("Manager."+op, func() {
		switch op {
		case "promote":
			err = s.mgr.SetPrimary(id)
		case "disable":
			err = s.mgr.Disable(id)
		case "enable":
			err = s.mgr.Enable(id)
		case "delete":
			err = s.mgr.Delete(id)
		}
	})
	if w.stop {
		return
	}
	w.r.ObsErr(s.name+"."+op, err)
	w.r.Logf("%s: %s(%d) -> %v", s.name, op, id, err)
	if err != nil {
		w.r.Probe("op-refused")
		return
	}
	switch op {
	case "promote":
		s.hasPrimary = true
	case "delete":
		s.dead = append(s.dead, s.live[id])
		delete(s.live, id)
		s.order = append(s.order[:idx:idx], s.order[idx+1:]...)
	}
	w.publish(s)
}

func indexOf(l []uint32, v uint32) int {
	for i, x := range l {
		if x == v {
			return i
		}
	}
	return -1
}

// reimport: the stored keyset comes back from storage with statuses edited by
// another tool (DISABLED / DESTROYED non-primary keys); the administrator goes on from there.
func (w *world) reimport() {
	t, s := w.t, w.own
	if len(s.versions) == 0 {
		return
	}
	for _, id := range s.order {
		if s.live[id].variant == catalog.VRawPrehashID {
			return // keyset.Validate refuses that prefix type
		}
	}
	last := s.versions[len(s.versions)-1]
	ks := insecurecleartextkeyset.KeysetMaterial(last.h)
	if ks == nil {
		core.CountGlobal("keyset-not-serializable")
		return
	}
	for _, k := range ks.Key {
		if k.KeyId == ks.PrimaryKeyId {
			continue
		}
		switch rapid.IntRange(0, 3).Draw(t, "newStatus") {
		case 1:
			k.Status = tinkpb.KeyStatusType_DISABLED
		case 2:
			k.Status = tinkpb.KeyStatusType_DESTROYED
		case 3:
			k.Status = tinkpb.KeyStatusType_ENABLED
		}
	}
	var opts []keyset.Option
	if w.mon {
		opts = append(opts, keyset.WithAnnotations(annotations))
	}
	var h *keyset.Handle
	var err error
	w.guard("insecurecleartextkeyset.Read", func() { h, err = insecurecleartextkeyset.Read(&keyset.MemReaderWriter{Keyset: ks}, opts...) })
	if err != nil {
		t.Fatalf("harness: stored keyset does not parse: %v", err)
	}
	if h == nil {
		w.stop = true
		return
	}
	w.r.Logf("own: keyset re-imported from storage with edited statuses")
	w.publishHandle(s, h)
	w.newManager(s, h)
}

// publish: the administrator hands out the current keyset.
func (w *world) publish(s *side) {
	if w.quiet {
		return
	}
	var h *keyset.Handle
	var err error
	w.guard("Manager.Handle", func() { h, err = s.mgr.Handle() })
	if err != nil {
		if s.hasPrimary {
			w.t.Fatalf("harness: Manager.Handle failed although a primary is set: %v", err)
		}
		return
	}
	if h == nil {
		w.stop = true // Handle() panicked and the panic is a known finding
		return
	}
	w.publishHandle(s, h)
}

func (w *world) publishHandle(s *side, h *keyset.Handle) {
	r := w.r
	v := &version{side: s, idx: len(s.versions), h: h}
	if h.Len() != len(s.order) {
		core.CountGlobal("keyset-malformed-by-manager(C11)")
		w.t.Skip("keyset malformed by the manager: C11's question, not this world's")
	}
	kts, vars := map[string]bool{}, map[string]bool{}
	for i := 0; i < h.Len(); i++ {
		e, err := h.Entry(i)
		if err != nil {
			w.t.Fatalf("harness: Entry(%d): %v", i, err)
		}
		a := s.live[e.KeyID()]
		if a == nil {
			core.CountGlobal("keyset-malformed-by-manager(C11)")
			w.t.Skip("keyset malformed by the manager: C11's question, not this world's")
		}
		if a.key == nil {
			a.key = e.Key()
		}
		if e.IsPrimary() && e.KeyStatus() != keyset.Enabled {
			core.CountGlobal("keyset-malformed-by-manager(C11)")
			w.t.Skip("keyset malformed by the manager: C11's question, not this world's")
		}
		v.ents = append(v.ents, vent{ident: a, status: e.KeyStatus(), primary: e.IsPrimary()})
		kts[a.keyType], vars[a.variant] = true, true
		if e.KeyStatus() == keyset.Enabled && !s.foreign {
			if a.id == 0 {
				r.Probe("id-zero-live")
			}
			if a.id == 0xffffffff {
				r.Probe("id-max-live")
			}
		}
	}
	if v.primary() == nil {
		core.CountGlobal("keyset-malformed-by-manager(C11)")
		w.t.Skip("keyset malformed by the manager: C11's question, not this world's")
	}
	s.versions = append(s.versions, v)
	if !s.foreign {
		if len(kts) > 1 {
			r.Probe("mixed-key-types")
		}
		if len(vars) > 1 {
			r.Probe("mixed-variants")
		}
		if vars[catalog.VCrunchy] && vars[catalog.VLegacy] {
			r.Probe("crunchy-and-legacy-in-keyset")
		}
		if !v.ents[0].primary {
			r.Probe("primary-not-first")
		}
	}
	r.ObsS(s.name+".version", v.String())
}

// startParsed: the administrator starts from a stored keyset that already
// holds DISABLED / DESTROYED keys (and keys under the boundary IDs).
func (w *world) startParsed() {
	t, s := w.t, w.own
	w.quiet = true
	w.newManager(s, nil)
	for i, n := 0, rapid.IntRange(1, 4).Draw(t, "startKeys"); i < n; i++ {
		w.opAdd(s)
	}
	w.quiet = false
	if len(s.order) == 0 {
		return
	}
	prim := s.order[rapid.IntRange(0, len(s.order)-1).Draw(t, "startPrimary")]
	if err := s.mgr.SetPrimary(prim); err != nil {
		t.Fatalf("harness: start keyset: %v", err)
	}
	var h0 *keyset.Handle
	var err error
	w.guard("Manager.Handle", func() { h0, err = s.mgr.Handle() })
	if err != nil {
		t.Fatalf("harness: start keyset: %v", err)
	}
	if h0 == nil {
		w.stop = true
		return
	}
	ks := insecurecleartextkeyset.KeysetMaterial(h0)
	if ks == nil {
		// a key the library cannot serialize (RSA-SSA-PSS with salt length 0): start unparsed
		core.CountGlobal("keyset-not-serializable")
		w.startKind = "unparsed"
		s.hasPrimary = true
		w.publishHandle(s, h0)
		return
	}
	dead := 0
	for _, k := range ks.Key {
		if k.KeyId == prim {
			continue
		}
		switch rapid.IntRange(0, 2).Draw(t, "startStatus") {
		case 1:
			k.Status = tinkpb.KeyStatusType_DISABLED
			dead++
		case 2:
			k.Status = tinkpb.KeyStatusType_DESTROYED
			dead++
		}
	}
	var opts []keyset.Option
	if w.mon {
		opts = append(opts, keyset.WithAnnotations(annotations))
	}
	var h *keyset.Handle
	w.guard("insecurecleartextkeyset.Read", func() { h, err = insecurecleartextkeyset.Read(&keyset.MemReaderWriter{Keyset: ks}, opts...) })
	if err != nil {
		// the start keyset is the export of a handle the manager just handed out (plus status edits that keep it
		// well-formed): if the reader refuses it, the manager built a malformed keyset
		core.CountGlobal("keyset-malformed-by-manager(C11)")
		t.Skip("keyset malformed by the manager: C11's question, not this world's")
	}
	if h == nil {
		w.stop = true
		return
	}
	// the model's key objects are the parsed ones from now on
	for _, a := range s.all {
		a.key = nil
	}
	s.hasPrimary = true
	w.startKind = "parsed"
	if dead > 0 {
		w.startKind = "parsed-dead"
		w.r.Probe("start-parsed-with-dead-keys")
	}
	w.publishHandle(s, h)
	w.newManager(s, h)
}

// ---------------------------------------------------------------------------
// primitives of a version

func (w *world) publicHandle(v *version) *keyset.Handle {
	var pub *keyset.Handle
	var err error
	w.guard("Handle.Public", func() { pub, err = v.h.Public() })
	if err != nil || pub == nil {
		w.r.Violation("C05/factory-refused:"+w.class+"/Public", fmt.Sprintf("Public() of version %s: %v", v, err))
		return nil
	}
	if w.mon {
		// Public() drops the annotations; a verifying / encrypting party that wants monitoring sets its own
		m := keyset.NewManagerFromHandle(pub)
		if err := m.SetAnnotations(annotations); err != nil {
			w.t.Fatalf("harness: %v", err)
		}
		pub = nil
		w.guard("Manager.Handle", func() { pub, err = m.Handle() })
		if err != nil {
			w.t.Fatalf("harness: re-annotating the public handle: %v", err)
		}
	}
	return pub
}

func (w *world) producerFor(h *keyset.Handle, v *version) (*classes.Producer, error) {
	if w.class == classes.Hybrid && v != nil {
		pub := w.publicHandle(v)
		if pub == nil {
			return nil, fmt.Errorf("no public handle")
		}
		e, err := hybrid.NewHybridEncrypt(pub)
		if err != nil {
			return nil, err
		}
		return &classes.Producer{Class: w.class, Raw: e, Produce: func(msg, aux []byte) ([]byte, error) { return e.Encrypt(msg, aux) }}, nil
	}
	return classes.NewProducer(w.class, h)
}

func subjectOf(msg []byte) string { return "m" + hex.EncodeToString(msg) }

func (w *world) acceptorFor(h *keyset.Handle, v *version) (*classes.Acceptor, error) {
	if v != nil {
		switch w.class {
		case classes.Signature:
			pub := w.publicHandle(v)
			if pub == nil {
				return nil, fmt.Errorf("no public handle")
			}
			vf, err := signature.NewVerifier(pub)
			if err != nil {
				return nil, err
			}
			return &classes.Acceptor{Class: w.class, Raw: vf, Accept: func(out, msg, aux []byte) error { return vf.Verify(out, msg) }}, nil
		case classes.JWTSignature:
			pub := w.publicHandle(v)
			if pub == nil {
				return nil, fmt.Errorf("no public handle")
			}
			vf, err := jwt.NewVerifier(pub)
			if err != nil {
				return nil, err
			}
			return &classes.Acceptor{Class: w.class, Raw: vf, Accept: func(out, msg, aux []byte) error {
				val, err := jwt.NewValidator(&jwt.ValidatorOpts{AllowMissingExpiration: true})
				if err != nil {
					return err
				}
				tok, err := vf.VerifyAndDecode(string(out), val)
				if err != nil {
					return err
				}
				if sub, err := tok.Subject(); err != nil || sub != subjectOf(msg) {
					return classes.ErrWrongContent
				}
				return nil
			}}, nil
		}
	}
	return classes.NewAcceptor(w.class, h)
}

func (w *world) producer(v *version) *classes.Producer {
	if v.prod == nil {
		var err error
		if !w.guard("NewProducer", func() { v.prod, err = w.producerFor(v.h, v) }) || w.stop {
			v.prod = nil
			return nil
		}
		if err != nil || v.prod == nil {
			w.r.Violation("C05/factory-refused:"+w.class+"/produce", fmt.Sprintf("version %s: %v", v, err))
			return nil
		}
		if w.class == classes.PRF {
			w.checkPRFSet(v, v.prod.Raw.(*prf.Set))
		}
	}
	return v.prod
}

func (w *world) acceptor(v *version) *classes.Acceptor {
	if v.acc == nil {
		var err error
		if !w.guard("NewAcceptor", func() { v.acc, err = w.acceptorFor(v.h, v) }) || w.stop {
			v.acc = nil
			return nil
		}
		if err != nil || v.acc == nil {
			w.r.Violation("C05/factory-refused:"+w.class+"/accept", fmt.Sprintf("version %s: %v", v, err))
			return nil
		}
		if w.class == classes.PRF {
			w.checkPRFSet(v, v.acc.Raw.(*prf.Set))
		}
	}
	return v.acc
}

// single returns the primitives of a keyset holding nothing but key a.
func (w *world) single(a *ident) *single {
	if sg := w.singles[a]; sg != nil {
		return sg
	}
	w.g.ClearScript()
	h, err := catalog.HandleOf(a.key)
	if err != nil {
		w.t.Fatalf("harness: one-key handle of %s: %v", a, err)
	}
	sg := &single{}
	w.guard("single/NewProducer", func() { sg.prod, err = classes.NewProducer(w.class, h) })
	if err != nil {
		w.t.Fatalf("harness: one-key producer of %s: %v", a, err)
	}
	w.guard("single/NewAcceptor", func() { sg.acc, err = classes.NewAcceptor(w.class, h) })
	if err != nil {
		w.t.Fatalf("harness: one-key acceptor of %s: %v", a, err)
	}
	w.singles[a] = sg
	return sg
}

// checkPRFSet: PrimaryID and the ID set of a PRF set equal the enabled entries,
// and every ID leads to the key that sits under that ID.
func (w *world) checkPRFSet(v *version, set *prf.Set) {
	if v.prfChecked {
		return
	}
	v.prfChecked = true
	r := w.r
	want := map[uint32]*ident{}
	nonEnabled := false
	for _, e := range v.ents {
		if e.status == keyset.Enabled {
			want[e.id] = e.ident
		} else {
			nonEnabled = true
		}
	}
	if nonEnabled {
		r.Probe("prf-set-has-nonenabled-key")
	}
	if set.PrimaryID != v.primary().id {
		r.Violation("C05/prf-primary-id", fmt.Sprintf("PrimaryID=%d, primary of version %s", set.PrimaryID, v))
	}
	got := map[uint32]bool{}
	for id := range set.PRFs {
		got[id] = true
	}
	for _, id := range sortedU32(got) {
		if want[id] == nil {
			r.Violation("C05/prf-set-exposes-nonenabled-key", fmt.Sprintf("PRFs has ID %d which is not an enabled entry of version %s", id, v))
		}
	}
	if len(got) != len(want) {
		r.Violation("C05/prf-set-misses-enabled-key", fmt.Sprintf("PRFs has IDs %v, version %s", sortedU32(got), v))
	}
	input := []byte("prf-set-check")
	for _, id := range sortedU32(got) {
		mark := mon.mark()
		var out []byte
		var err error
		if !w.guard("PRFs[id].ComputePRF", func() { out, err = set.PRFs[id].ComputePRF(input, 16) }) {
			return
		}
		if want[id] == nil {
			continue
		}
		ref, rerr := w.single(want[id]).prod.Produce(input, nil)
		if rerr != nil {
			w.t.Fatalf("harness: %v", rerr)
		}
		if err != nil || !bytes.Equal(out, ref) {
			r.Violation("C05/prf-id-leads-to-other-key", fmt.Sprintf("PRFs[%d] of version %s: err=%v out=%x, key alone gives %x", id, v, err, out, ref))
		}
		if w.mon {
			// the one sentence C05 has on monitoring: each logged success names the key that did the work
			ok, _ := mon.usage(mark)
			for _, e := range ok {
				if e.keyID != id {
					r.Violation("C05/monitoring-wrong-key:prf", fmt.Sprintf("PRFs[%d].ComputePRF logged a success for key ID %d", id, e.keyID))
				}
			}
			if len(ok) == 0 {
				r.Count("monitoring-no-success-event-for-successful-call", 1)
			}
			r.Probe("monitoring-success-checked")
		}
	}
	r.Probe("prf-set-checked")
	r.ObsI("prfset", int64(len(got)))
}

// ---------------------------------------------------------------------------
// producing

func (w *world) drawBytes(label string, max int) []byte {
	n := rapid.IntRange(0, max).Draw(w.t, label+"Len")
	tag := rapid.IntRange(0, 7).Draw(w.t, label+"Tag")
	return w.g.Bytes(13, uint64(tag)*64, n)
}

func (w *world) produce(v *version, grind bool) {
	prod := w.producer(v)
	if prod == nil {
		return
	}
	prim := v.primary()
	msg := w.drawBytes("msg", 24)
	aux := w.drawBytes("aux", 6)
	tries := 1
	if grind && !v.side.foreign && noPrefix(prim.variant) && grindClass(w.class) {
		// look for an output of a prefix-less key that starts like a prefixed one
		tries = 400
	}
	var out []byte
	base := msg
	for i := 0; i < tries; i++ {
		if i > 0 {
			msg = append(bytes.Clone(base), byte(i), byte(i>>8))
		}
		out = w.produceOnce(v, prod, prim, msg, aux)
		if out == nil {
			return
		}
		if len(out) >= 5 && out[0] <= 1 {
			break
		}
	}
	m := &message{seq: len(w.net), by: producedBy{mat: prim.mat, base: prim.base, variant: prim.variant, id: prim.id}, from: v,
		msg: msg, aux: aux, out: out, foreign: v.side.foreign, seenBy: map[int]bool{}}
	w.net = append(w.net, m)
	if m.foreign {
		w.r.Fault("foreign-inject")
	}
	if !m.foreign && noPrefix(prim.variant) && len(out) >= 5 && out[0] <= 1 && grindClass(w.class) {
		w.r.Fault("raw-output-looks-prefixed")
	}
	w.r.Logf("%s: message #%d from version %d by %s: %s", v.side.name, m.seq, v.idx, prim.ident, core.Hex(out, 12))
}

// grindClass: classes whose outputs depend on nothing but the run's own RNG
// stream and are cheap enough to retry.
func grindClass(c string) bool { return c == classes.MAC || c == classes.DAEAD || c == classes.AEAD }

func prefixClass(c string) bool {
	switch c {
	case classes.AEAD, classes.DAEAD, classes.MAC, classes.Signature, classes.Hybrid:
		return true
	}
	return false
}

func isJWT(c string) bool { return c == classes.JWTMAC || c == classes.JWTSignature }

// produceOnce: one call of the version's producing primitive, with every check
// C05 makes about outputs.
func (w *world) produceOnce(v *version, prod *classes.Producer, prim *vent, msg, aux []byte) []byte {
	r, class := w.r, w.class
	mark := mon.mark()
	var out []byte
	var err error
	if !w.guard("produce", func() { out, err = prod.Produce(msg, aux) }) {
		return nil
	}
	if err != nil {
		r.Violation("C05/produce-failed:"+class, fmt.Sprintf("version %s: %v", v, err))
		return nil
	}
	if prod.Deterministic && !isJWT(class) {
		r.Obs("out", out)
	} else {
		r.ObsI("outlen", int64(len(out)))
	}
	if prim.stub && (prim.variant == catalog.VLegacy || prim.variant == catalog.VCrunchy || prim.variant == catalog.VTink) {
		r.Probe("stub-legacy-adapter-produce")
	}
	// monitoring: the success names the primary
	if w.mon && class != classes.StreamingAEAD {
		// (how many events a call logs, and whether failures are logged at all, is not C05's business)
		ok, fail := mon.usage(mark)
		if len(ok) == 0 {
			r.Count("monitoring-no-success-event-for-successful-call", 1)
		}
		if fail != 0 {
			r.Count("monitoring-failure-event-around-successful-call", 1)
		}
		for _, e := range ok {
			if e.keyID != prim.id {
				r.Violation("C05/monitoring-wrong-key:"+class+"/produce", fmt.Sprintf("produce with primary %d logged key ID %d (%s/%s); version %s", prim.id, e.keyID, e.prim, e.api, v))
			}
		}
		r.Probe("monitoring-success-checked")
	}
	// the output carries exactly the primary's prefix
	if want := expectedPrefix(prim.variant, prim.id); !bytes.HasPrefix(out, want) {
		r.Violation("C05/wrong-output-prefix:"+class, fmt.Sprintf("primary %s, output starts %s, want prefix %x; version %s", prim.ident, core.Hex(out, 8), want, v))
	}
	if isJWT(class) {
		kid, has, ok := kidOf(out)
		wantKID := base64.RawURLEncoding.EncodeToString(binary.BigEndian.AppendUint32(nil, prim.id))
		if !ok || has != (prim.variant == catalog.KIDBase64) || (has && kid != wantKID) {
			r.Violation("C05/wrong-kid-header:"+class, fmt.Sprintf("primary %s, token header kid=%q present=%v parsed=%v, want %q", prim.ident, kid, has, ok, wantKID))
		}
	}
	// ... and is the primary key's work
	sg := w.single(prim.ident)
	if prod.Deterministic {
		ref, rerr := sg.prod.Produce(msg, aux)
		if rerr != nil {
			w.t.Fatalf("harness: one-key producer of %s: %v", prim.ident, rerr)
		}
		if !bytes.Equal(ref, out) {
			r.Violation("C05/output-differs-from-primary-alone:"+class, fmt.Sprintf("primary %s: keyset gives %s, the key alone %s; version %s", prim.ident, core.Hex(out, 24), core.Hex(ref, 24), v))
		}
		r.Probe("deterministic-equals-primary-alone")
	} else {
		var aerr error
		if !w.guard("single/accept", func() { aerr = sg.acc.Accept(out, msg, aux) }) {
			return nil
		}
		if aerr != nil {
			r.Violation("C05/output-not-valid-under-primary-alone:"+class, fmt.Sprintf("primary %s: %v; version %s", prim.ident, aerr, v))
		}
		r.Probe("valid-under-primary-alone")
	}
	return out
}

// kidOf extracts the kid header of a compact JWT.
func kidOf(tok []byte) (kid string, has bool, ok bool) {
	parts := strings.SplitN(string(tok), ".", 3)
	if len(parts) != 3 {
		return "", false, false
	}
	hb, err := base64.RawURLEncoding.DecodeString(parts[0])
	if err != nil {
		return "", false, false
	}
	var hdr map[string]any
	if err := json.Unmarshal(hb, &hdr); err != nil {
		return "", false, false
	}
	k, has := hdr["kid"]
	if !has {
		return "", false, true
	}
	s, isStr := k.(string)
	return s, true, isStr
}

// ---------------------------------------------------------------------------
// delivering

func (w *world) deliver(m *message, ci int) {
	r, class := w.r, w.class
	c := w.cons[ci]
	w.ensureVer(c)
	v := w.own.versions[c.ver]
	acc := w.acceptor(v)
	if acc == nil {
		return
	}
	w.deliveries++

	// what the rule says
	want := false
	okIDs := map[uint32]bool{}
	var matched *vent
	sawDisabled, sawDestroyed, sawOtherForm, sawIgnoredKID := false, false, false, false
	for i := range v.ents {
		e := &v.ents[i]
		if entryAccepts(class, e.ident, m.by) {
			switch e.status {
			case keyset.Enabled:
				want = true
				okIDs[e.id] = true
				if matched == nil || e.primary {
					matched = e
				}
				if isJWT(class) && e.variant == catalog.KIDIgnored && m.by.variant == catalog.KIDBase64 {
					sawIgnoredKID = true
				}
			case keyset.Disabled:
				sawDisabled = true
			default:
				sawDestroyed = true
			}
		} else if e.mat == m.by.mat {
			sawOtherForm = true
		}
	}
	samePrefix, crunchyLegacy := false, false
	for i := range v.ents {
		e := &v.ents[i]
		if e.status != keyset.Enabled || e.mat == m.by.mat {
			continue
		}
		if isJWT(class) {
			if e.variant == catalog.KIDBase64 && m.by.variant == catalog.KIDBase64 && e.id == m.by.id {
				samePrefix = true
			}
			continue
		}
		if p := expectedPrefix(e.variant, e.id); p != nil && bytes.HasPrefix(m.out, p) {
			samePrefix = true
			if e.variant != m.by.variant && !noPrefix(m.by.variant) {
				crunchyLegacy = true
			}
		}
	}
	var outcome string
	switch {
	case want && len(okIDs) > 1:
		outcome = "accept-any-of-several"
	case want && noPrefix(matched.variant) && !isJWT(class) && samePrefix:
		outcome = "accept-noprefix-looks-prefixed"
	case want && noPrefix(matched.variant) && prefixClass(class):
		outcome = "accept-noprefix"
	case want && matched.primary:
		outcome = "accept-primary"
	case want:
		outcome = "accept-nonprimary"
	case sawDisabled:
		outcome = "reject-disabled"
	case sawDestroyed:
		outcome = "reject-destroyed"
	case sawOtherForm:
		outcome = "reject-same-material-other-id"
	case m.foreign && samePrefix:
		outcome = "reject-foreign-same-prefix"
	case m.foreign:
		outcome = "reject-foreign"
	case m.from.idx < v.idx:
		outcome = "reject-removed"
	default:
		outcome = "reject-not-yet"
	}
	rel := "foreign"
	if !m.foreign {
		switch {
		case v.idx < m.from.idx:
			rel = "consumer-older"
			r.Fault("keyset-skew-consumer-older")
		case v.idx > m.from.idx:
			rel = "consumer-newer"
			r.Fault("keyset-skew-consumer-newer")
		default:
			rel = "same"
		}
		if m.from.idx < len(w.own.versions)-1 {
			r.Fault("msg-late")
		}
	}
	if m.seenBy[ci] {
		r.Fault("msg-dup")
	}
	if m.seq < c.maxSeq {
		r.Fault("msg-reorder")
	}
	if m.seq > c.maxSeq {
		c.maxSeq = m.seq
	}
	m.seenBy[ci] = true
	m.count++
	if m.foreign && samePrefix {
		r.Fault("foreign-prefix-collision")
		if crunchyLegacy {
			r.Probe("reject-foreign-crunchy-vs-legacy")
		}
	}

	// what tink does
	mark := mon.mark()
	var err error
	if !w.guard("accept", func() { err = acc.Accept(m.out, m.msg, m.aux) }) {
		return
	}
	got := err == nil
	r.ObsS("deliver", fmt.Sprintf("#%d->v%d %v", m.seq, v.idx, got))
	r.Logf("deliver #%d (by mat%d/%s/id=%d from v%d) to consumer %d at v%d %s: want %s, got err=%v", m.seq, m.by.mat, m.by.variant, m.by.id, m.from.idx, ci, v.idx, v, outcome, err)
	detail := fmt.Sprintf("message by mat%d/%s/%s/id=%d (%s) at consumer version %s: expected %s, got err=%v", m.by.mat, m.by.base, m.by.variant, m.by.id, core.Hex(m.out, 10), v, outcome, err)
	if err == classes.ErrWrongContent {
		r.Violation("C05/accepted-with-wrong-content:"+class, detail)
		return
	}
	if got && !want {
		r.Violation("C05/accepted:"+class+":"+outcome, detail)
		return
	}
	if !got && want {
		r.Violation("C05/rejected:"+class+":"+outcome, detail)
		return
	}
	r.Probe(outcome)
	if sawIgnoredKID && want {
		r.Probe("jwt-ignored-kid-accepts-kid-token")
	}
	if want && matched.stub && !noPrefix(matched.variant) {
		r.Probe("stub-legacy-adapter-accept")
	}
	w.outcomes[outcome] = true
	w.relations[rel] = true

	// monitoring: each logged success names a key that could do the work
	if w.mon && class != classes.StreamingAEAD && class != classes.PRF {
		ok, fail := mon.usage(mark)
		if want {
			if len(ok) == 0 {
				r.Count("monitoring-no-success-event-for-successful-call", 1)
			}
			if fail != 0 {
				r.Count("monitoring-failure-event-around-successful-call", 1)
			}
			for _, e := range ok {
				if !okIDs[e.keyID] {
					r.Violation("C05/monitoring-wrong-key:"+class+"/accept", fmt.Sprintf("logged key ID %d (%s/%s), the work was done by one of %v; %s", e.keyID, e.prim, e.api, sortedU32(okIDs), detail))
				}
			}
			r.Probe("monitoring-success-checked")
		} else {
			// a success logged for a rejected input names a key that did no work
			if len(ok) != 0 {
				r.Violation("C05/monitoring-success-for-rejected-input:"+class+"/accept", fmt.Sprintf("rejected input logged successes %v; %s", ok, detail))
			}
			if fail == 0 {
				r.Count("monitoring-no-failure-event-for-rejected-input", 1)
			} else {
				r.Probe("monitoring-failure-event-for-rejected-input")
			}
			r.Probe("monitoring-failure-checked")
		}
	}

	r.SetAdd("delivery", w.deliverySig(v, rel, outcome))
}

// deliverySig is the per-delivery signature DESIGN.md §3 C05 names.
func (w *world) deliverySig(v *version, rel, outcome string) string {
	var parts []string
	kts := map[string]bool{}
	for _, e := range v.ents {
		kts[e.keyType] = true
		parts = append(parts, e.variant[:2]+statusLetter(e.status)[:1])
	}
	sort.Strings(parts)
	return fmt.Sprintf("%s|%s|kt%d|%s|%s|mon=%v", w.class, strings.Join(parts, ","), len(kts), rel, outcome, w.mon)
}
