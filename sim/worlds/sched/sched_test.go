//go:build instr

// Package sched is the C18 world: several tasks use one shared primitive /
// handle / registry concurrently; the interleaving is decided by the seeded
// scheduler at yield points inserted into tink's own sources, and the same
// schedules run under the race detector.
package sched

import (
	"bytes"
	"context"
	"fmt"
	"os"
	"regexp"
	"sort"
	"strings"
	"testing"
	"testing/cryptotest"

	"google.golang.org/protobuf/proto"

	"github.com/tink-crypto/tink-go/v2/aead"
	"github.com/tink-crypto/tink-go/v2/core/registry"
	"github.com/tink-crypto/tink-go/v2/insecurecleartextkeyset"
	"github.com/tink-crypto/tink-go/v2/internal/protoserialization"
	"github.com/tink-crypto/tink-go/v2/key"
	"github.com/tink-crypto/tink-go/v2/keyset"
	tinkpb "github.com/tink-crypto/tink-go/v2/proto/tink_go_proto"
	"github.com/tink-crypto/tink-go/v2/verifsim/catalog"
	"github.com/tink-crypto/tink-go/v2/verifsim/classes"
	"github.com/tink-crypto/tink-go/v2/verifsim/core"
	"github.com/tink-crypto/tink-go/v2/verifsim/kmsfake"
	"github.com/tink-crypto/tink-go/v2/verifsim/simmon"
	"github.com/tink-crypto/tink-go/v2/verifsim/simrng"
	"github.com/tink-crypto/tink-go/v2/verifsim/simsched"
	"github.com/tink-crypto/tink-go/v2/verifsim/stubkm"
	"pgregory.net/rapid"
)

const prop = "C18"

var sites []string // site id -> file:line

func TestMain(m *testing.M) {
	if p := os.Getenv("VSIM_SITES"); p != "" {
		if b, err := os.ReadFile(p); err == nil {
			for _, l := range strings.Split(strings.TrimSpace(string(b)), "\n") {
				if i := strings.IndexByte(l, '\t'); i >= 0 {
					sites = append(sites, l[i+1:])
				}
			}
		}
	}
	core.DeclareFaults("preemption", "preemption-inside-tink-call", "task-finished-handover", "free-run-fallback", "blocked-on-lock-handover")
	core.DeclareProbes("globally-sourced-randomness(semantic oracle)", "legacy-adapter", "kms-envelope-aead", "kms-envelope-aead-with-context", "multi-key-keyset", "handle-reads", "construct-under-schedule",
		"registry-lookup", "keygen-under-schedule", "accept-rejects-corrupted", "race-build", "monitored-handle", "monitoring-events-compared", "round-robin-plan", "site-targeted-plan", "process-cold-start", "reparse-construct-under-schedule", "prehash-signing-path")
	// "keygen-not-a-function-of-the-reader(semantic oracle)" is not declared: it cannot occur while GODEBUG
	// cryptocustomrand=1 holds (the orchestrator forces it) and every tink key generator reads crypto/rand.Reader
	stubkm.Register()
	kmsfake.Register()
	core.Main(m, prop, "sched", map[string]string{"everything in /repo": "real (instrumented copies via -overlay: yield call before every statement, semantics unchanged)",
		"goroutine scheduling": "stub (simsched baton, plan drawn by rapid)", "crypto/rand": "stub (simrng, one lane per task)",
		"standard library, x/crypto, protobuf": "real, not instrumented (atomic between yield points)", "custom key manager": "stub (stubkm)"})
}

func TestSched(t *testing.T) {
	// randomness the standard library draws without a reader (ML-KEM encapsulation) comes from this seeded
	// source, consumed in schedule order — which the simulator decides — so it is reproducible too
	cryptotest.SetGlobalRandom(t, 0x5eed)
	rapid.Check(t, runSched)
}

// ---------------------------------------------------------------------------

type result struct {
	out []byte
	err bool
}

type op struct {
	name string
	run  func(sh *shared) ([]byte, error)
	// semantic: byte equality with the sequential result is not required (randomness the harness cannot key by task);
	// check validates the concurrent result instead.
	check func(sh *shared, out []byte) error
	// soft: for operations whose result legitimately depends on randomness (encryption, randomized signing, key
	// generation) a result that differs from the run-alone result is not yet a finding — the library may hand the
	// tasks their random bytes from a shared, correctly synchronised pool, so that which task gets which bytes depends
	// on the schedule. soft then decides: the result must still be a right one (the recipient accepts it and recovers
	// the input; the generated key is well formed).
	soft func(sh *shared, out []byte) error
}

type shared struct {
	// mk, if set, builds the producing and accepting side afresh without a handle (a primitive that is constructed
	// directly, e.g. the context-aware KMS-envelope AEAD); used for the shared object and for its cold twin
	mk        func() (*classes.Producer, *classes.Acceptor, error)
	class     string
	entry     catalog.Entry
	h         *keyset.Handle
	prod      *classes.Producer
	acc       *classes.Acceptor
	semantic  bool
	monitored bool
	prehash   bool
	outputs   [][3][]byte // pre-produced (out, msg, aux)
}

var arena []byte
var arenaSum uint64

//go:norace
func sumArena() uint64 {
	h := uint64(14695981039346656037)
	for _, b := range arena {
		h ^= uint64(b)
		h *= 1099511628211
	}
	return h
}

var arenaDirtyAt = -1

func slice(t *rapid.T, label string) []byte {
	n := rapid.SampledFrom([]int{0, 1, 15, 16, 17, 33, 64, 200}).Draw(t, label+"Len")
	o := rapid.IntRange(0, len(arena)-n-64).Draw(t, label+"Off")
	return arena[o : o+n : o+n+rapid.IntRange(0, 64).Draw(t, label+"Spare")]
}

func keyFor(e catalog.Entry, i int) (key.Key, error) {
	if catalog.Pooled(e) {
		id := uint32(0)
		if e.HasIDReq {
			id = 0x01020300 + uint32(i)
		}
		k, ok, err := catalog.PoolKey(e, i, id)
		if err != nil || ok {
			return k, err
		}
	}
	return catalog.NewKey(e)
}

func buildHandle(es []catalog.Entry, prim int, monitored bool) (*keyset.Handle, error) {
	m := keyset.NewManager()
	if monitored {
		if err := m.SetAnnotations(map[string]string{"sim": "sched"}); err != nil {
			return nil, err
		}
	}
	var ids []uint32
	for i, e := range es {
		k, err := keyFor(e, i)
		if err != nil {
			return nil, fmt.Errorf("%s: %v", e.Name, err)
		}
		id, err := m.AddKey(k)
		if err != nil {
			return nil, err
		}
		ids = append(ids, id)
	}
	if err := m.SetPrimary(ids[prim]); err != nil {
		return nil, err
	}
	return m.Handle()
}

var workClasses = []string{classes.AEAD, classes.AEAD, classes.DAEAD, classes.MAC, classes.MAC, classes.Signature, classes.Signature, classes.Hybrid, classes.Hybrid,
	classes.PRF, classes.JWTMAC, classes.JWTSignature, classes.StreamingAEAD, classes.KeyDerivation}

func maxCost() int {
	if core.Thorough() {
		return 2
	}
	return 1
}

// focus (env VSIM_FOCUS, e.g. "signature/mldsa") restricts the drawn class and key types: used for targeted
// exploration; the registered checks leave it unset.
var focus = os.Getenv("VSIM_FOCUS")

func drawEntry(t *rapid.T, class string, label string) catalog.Entry {
	all := catalog.ByClass(catalog.Class(class))
	// key type first, then an entry of that key type: rare key types (few catalogue entries) are drawn as often as
	// the ones with many parameter combinations
	byType := map[string][]catalog.Entry{}
	var types []string
	for _, e := range all {
		// RSA-based entries are "Cost 2" only because of key generation; their keys come from the pool, and
		// signing/verifying is cheap, so they take part in the quick tier too
		if (e.Cost <= maxCost() || e.RSABased()) && (focus == "" || strings.HasPrefix(e.Name, focus)) && catalog.Quirk(e) == "" {
			if _, ok := byType[e.KeyType]; !ok {
				types = append(types, e.KeyType)
			}
			byType[e.KeyType] = append(byType[e.KeyType], e)
		}
	}
	if len(types) == 0 {
		t.Skip("focus excludes this class")
	}
	sort.Strings(types)
	es := byType[types[rapid.IntRange(0, len(types)-1).Draw(t, label+".type")]]
	return es[rapid.IntRange(0, len(es)-1).Draw(t, label)]
}

func runSched(t *rapid.T) {
	if lockPoisoned {
		// an earlier run of this process ended in an established deadlock: nothing this process observes from now on is
		// about the library (and a skipped candidate keeps rapid from "shrinking" towards runs that only fail because
		// of the leftover locks)
		t.Skip("an earlier deadlock left locks held in this process")
	}
	r := core.Begin(t)
	g := simrng.New(rapid.Uint64().Draw(t, "rngSeed"))
	restore := simrng.Install(g)
	defer restore()
	lane := 14
	g.SetLaneFunc(func() int { return lane })

	if arena == nil {
		arena = simrng.New(99).Bytes(0, 0, 2048)
		arenaSum = sumArena()
	}
	arenaDirtyAt = -1

	// ---- the shared object
	scenario := rapid.SampledFrom([]string{"primitive", "primitive", "primitive", "primitive", "primitive", "primitive", "legacy", "legacy", "handle", "handle", "kms-envelope"}).Draw(t, "scenario")
	if forced := os.Getenv("VSIM_SCENARIO"); forced != "" {
		scenario = forced // targeted runs only; the registered commands never set it
	}
	sh := &shared{}
	var es []catalog.Entry
	monitored := false
	mon := simmon.Global()
	mon.SetLaneFunc(nil)
	mon.Reset()
	switch scenario {
	case "kms-envelope":
		// one KMS-envelope AEAD (remote key material: every call wraps / unwraps a fresh DEK through the KEK AEAD of
		// tink's in-tree fake KMS and builds the DEK primitive through the registry) shared by the tasks
		r.Probe("kms-envelope-aead")
		sh.class = classes.AEAD
		dek := rapid.SampledFrom([]func() *tinkpb.KeyTemplate{aead.AES128GCMKeyTemplate, aead.AES256GCMKeyTemplate, aead.AES128CTRHMACSHA256KeyTemplate,
			aead.ChaCha20Poly1305KeyTemplate, aead.XChaCha20Poly1305KeyTemplate, aead.AES256GCMSIVKeyTemplate}).Draw(t, "kmsDek")()
		pfx := rapid.SampledFrom([]tinkpb.OutputPrefixType{tinkpb.OutputPrefixType_RAW, tinkpb.OutputPrefixType_TINK}).Draw(t, "kmsPrefix")
		h, err := kmsfake.Handle(dek, 0x0a0b0c0e, pfx)
		if err != nil {
			t.Fatalf("harness: KMS-envelope keyset: %v", err)
		}
		sh.h = h
		sh.entry = catalog.Entry{Name: "aead/kmsenvelope/" + strings.TrimPrefix(dek.TypeUrl, "type.googleapis.com/google.crypto.tink."), KeyType: "kmsenvelope"}
		if rapid.Bool().Draw(t, "kmsWithContext") {
			// the context-aware variant is constructed directly over a context-aware KEK; every call gets a context of
			// its own (a fresh child of Background carrying a per-call value), as callers do
			r.Probe("kms-envelope-aead-with-context")
			sh.entry.KeyType = "kmsenvelope-withcontext"
			sh.mk = func() (*classes.Producer, *classes.Acceptor, error) {
				kek, err := kmsfake.KEKWithContext()
				if err != nil {
					return nil, nil, err
				}
				a, err := aead.NewKMSEnvelopeAEADWithContext(dek, kek)
				if err != nil {
					return nil, nil, err
				}
				type ctxKey struct{}
				newCtx := func() context.Context { return context.WithValue(context.Background(), ctxKey{}, new(int)) } // no shared harness state
				p := &classes.Producer{Class: classes.AEAD, Raw: a, Produce: func(msg, aux []byte) ([]byte, error) { return a.EncryptWithContext(newCtx(), msg, aux) }}
				c := &classes.Acceptor{Class: classes.AEAD, Raw: a, Accept: func(out, msg, aux []byte) error {
					pt, err := a.DecryptWithContext(newCtx(), out, aux)
					if err != nil {
						return err
					}
					if !bytes.Equal(pt, msg) {
						return fmt.Errorf("decrypts to another plaintext")
					}
					return nil
				}}
				return p, c, nil
			}
		}
	case "legacy":
		r.Probe("legacy-adapter")
		sh.class = rapid.SampledFrom([]string{classes.MAC, classes.AEAD, classes.DAEAD, classes.Signature, classes.Hybrid}).Draw(t, "stubClass")
		url, _ := stubkm.ClassURL(sh.class)
		pfx := rapid.SampledFrom([]string{"TINK", "LEGACY", "RAW", "CRUNCHY"}).Draw(t, "stubPrefix")
		h, err := stubkm.Handle(url, bytes.Repeat([]byte{0x42}, 32), pfx, 0x0a0b0c0d)
		if err != nil {
			t.Fatalf("harness: stub keyset: %v", err)
		}
		sh.h = h
		sh.entry = catalog.Entry{Name: sh.class + "/stubkm/" + pfx, KeyType: "stubkm"}
	default:
		sh.class = rapid.SampledFrom(workClasses).Draw(t, "class")
		if focus != "" {
			sh.class = strings.SplitN(focus, "/", 2)[0]
		}
		nKeys := rapid.IntRange(1, 3).Draw(t, "nKeys")
		for i := 0; i < nKeys; i++ {
			es = append(es, drawEntry(t, sh.class, fmt.Sprintf("entry%d", i)))
		}
		prim := rapid.IntRange(0, nKeys-1).Draw(t, "primary")
		sh.entry = es[prim]
		if nKeys > 1 {
			r.Probe("multi-key-keyset")
		}
		monitored = rapid.Bool().Draw(t, "monitored")
		if monitored {
			r.Probe("monitored-handle")
		}
		sh.monitored = monitored
		h, err := buildHandle(es, prim, monitored)
		if err != nil {
			r.Logf("keyset refused: %v", err)
			core.CountGlobal("keyset-refused")
			t.Skip("keyset refused")
		}
		sh.h = h
	}
	var err error
	if sh.mk != nil {
		sh.prod, sh.acc, err = sh.mk()
		if err != nil {
			t.Fatalf("harness: %s: %v", sh.entry.Name, err)
		}
	} else {
		sh.prod, err = classes.NewProducer(sh.class, sh.h)
	}
	if err == nil && sh.class == classes.Signature && sh.entry.KeyType == "mldsa" && rapid.Bool().Draw(t, "prehashPath") {
		// the two-step external-mu signing path (signprehash) of the same key; refused for variants without an ID
		if p, perr := classes.NewPrehashProducer(sh.h); perr == nil {
			sh.prod, sh.prehash = p, true
			r.Probe("prehash-signing-path")
		}
	}
	if err != nil {
		r.Logf("producer refused: %v", err)
		core.CountGlobal("primitive-refused:" + sh.entry.KeyType)
		t.Skip("primitive refused")
	}
	if sh.class != classes.KeyDerivation && sh.mk == nil {
		sh.acc, err = classes.NewAcceptor(sh.class, sh.h)
		if err != nil {
			t.Fatalf("harness: acceptor for %s: %v", sh.entry.Name, err)
		}
	}
	r.Logf("scenario=%s class=%s primary=%s keys=%d", scenario, sh.class, sh.entry.Name, len(es))

	// ---- process cold start: package-level lazily initialised state (a cache filled on first use, a table built by
	// the first caller) is cold exactly once per process and key type — and everything below (pre-produced outputs, the
	// run-alone phase) would warm it up. So the very first time this worker process meets a (class, key type), and then
	// one run in sixteen, 2..4 tasks make their first "produce" calls under a round-robin plan before anything else has
	// used the freshly built primitives; afterwards the same calls are made alone and compared.
	ckey := sh.class + "/" + sh.entry.KeyType + "/" + scenario
	// (everything the cold start needs is drawn in every run, whether it takes place or not: what a run draws must not
	// depend on what the process has seen before, or a re-execution of the same draws would be another run)
	cp := drawColdPlan(t)
	if sh.acc != nil && (!coldSeen[ckey] || cp.again) {
		coldSeen[ckey] = true
		if key, detail := coldStart(cp, r, g, sh, &lane); key != "" {
			r.Violation(key, detail)
			return
		}
	}

	// pre-produced valid outputs for accept operations; also find out whether the producer is a function of its RNG lane
	for i := 0; i < 2; i++ {
		msg, aux := slice(t, fmt.Sprintf("pre%d.msg", i)), slice(t, fmt.Sprintf("pre%d.aux", i))
		// each pre-produced output gets its own stretch of the RNG lane (two outputs made from the same random bytes would
		// share their nonce — or, with a KMS-envelope AEAD, their wrapped DEK — which no two real outputs do)
		g.SetOffset(lane, 1000+uint64(i)*(1<<20))
		out, err := sh.prod.Produce(msg, aux)
		if err != nil {
			t.Fatalf("harness: %s: produce failed: %v", sh.entry.Name, err)
		}
		g.SetOffset(lane, 1000+uint64(i)*(1<<20))
		out2, _ := sh.prod.Produce(msg, aux)
		if !bytes.Equal(out, out2) {
			sh.semantic = true
		}
		sh.outputs = append(sh.outputs, [3][]byte{out, msg, aux})
	}
	if sh.semantic {
		r.Probe("globally-sourced-randomness(semantic oracle)")
	}

	// ---- tasks
	maxTasks := 4
	if core.Thorough() {
		maxTasks = 6
	}
	nTasks := rapid.IntRange(2, maxTasks).Draw(t, "nTasks")
	tasks := make([][]op, nTasks)
	var opNames []string
	for i := range tasks {
		nOps := rapid.IntRange(1, 3).Draw(t, fmt.Sprintf("t%d.nOps", i))
		for j := 0; j < nOps; j++ {
			o := drawOp(t, r, g, sh, scenario, fmt.Sprintf("t%d.op%d.", i, j))
			tasks[i] = append(tasks[i], o)
			opNames = append(opNames, o.name)
		}
	}

	var plan []simsched.Step
	// ---- concurrent phase: on a COLD twin of the shared object — the keyset re-read from its serialized form and
	// primitives nobody has used yet — so that lazily initialised state is first touched under the schedule, not
	// warmed up by the sequential oracle
	concurrentOnce := func() (*simsched.Sched, [][]result, [][]simmon.Event, int) {
		cold, err := coldTwin(sh, monitored)
		if err != nil {
			t.Fatalf("harness: cannot build the cold twin of %s: %v", sh.entry.Name, err)
		}
		got := make([][]result, nTasks)
		fns := make([]func(), nTasks)
		for i := range tasks {
			i := i
			g.SetOffset(i, 0)
			got[i] = make([]result, 0, len(tasks[i]))
			fns[i] = func() {
				for _, o := range tasks[i] {
					out, err := o.run(cold)
					got[i] = append(got[i], result{out, err != nil})
				}
			}
		}
		s := simsched.New(plan)
		mon.Reset()
		mon.SetLaneFunc(s.Current)
		g.SetLaneFunc(s.Current)
		s.OnPass = onPass
		discardRaceLog() // reports of runs that were dropped unjudged must not key the next genuine race
		before := raceErrors()
		s.Run(fns)
		races := raceErrors() - before
		lane = 14
		g.SetLaneFunc(func() int { return lane })
		ev := make([][]simmon.Event, nTasks)
		for i := range ev {
			ev[i] = append([]simmon.Event{}, mon.Events[i]...)
		}
		return s, got, ev, races
	}
	// ---- sequential oracle: every task alone, on its own RNG lane
	expected := make([][]result, nTasks)
	expectedEvents := make([][]simmon.Event, nTasks)
	firsts := make([][]uint32, nTasks)  // per task: yield indices at which a site is reached for the first time, ascending
	lockAts := make([][]uint32, nTasks) // per task: yield indices of its lock acquisitions when run alone
	var seqYields uint64
	mon.SetLaneFunc(func() int { return lane })
	for i := range tasks {
		lane = i
		mon.Reset()
		g.SetOffset(i, 0)
		s1 := simsched.New(nil)
		s1.First = make([]int32, nSites())
		for k := range s1.First {
			s1.First[k] = -1
		}
		s1.Run([]func(){func() {
			for _, o := range tasks[i] {
				out, err := o.run(sh)
				expected[i] = append(expected[i], result{out, err != nil})
			}
		}})
		seqYields += s1.Yields
		for _, f := range s1.First {
			if f >= 0 {
				firsts[i] = append(firsts[i], uint32(f))
			}
		}
		sort.Slice(firsts[i], func(a, b int) bool { return firsts[i][a] < firsts[i][b] })
		lockAts[i] = append([]uint32{}, s1.LockAt...)
		r.Count("distinct-sites-per-task", int64(len(firsts[i])))
		expectedEvents[i] = append([]simmon.Event{}, mon.Events[i]...)
		if len(s1.Panics) > 0 {
			// a task that panics when run ALONE shows a deterministic defect of some other property (or of the harness),
			// nothing about concurrent use: counted, never reported under C18
			r.Logf("task %d panicked when run alone: %v", i, s1.Panics[0])
			core.CountGlobal("panic-when-run-alone:" + sh.entry.KeyType)
			t.Skip("a task panics when run alone")
		}
	}
	if sumArena() != arenaSum {
		arena = nil // rebuilt by the next run
		r.Violation("C18/caller-buffer-written:"+sh.class+"/"+sh.entry.KeyType, "the shared read-only input arena changed during the sequential phase")
		return
	}

	// ---- the plan
	maxSteps := 24
	if core.Thorough() {
		maxSteps = 64
	}
	nSteps := rapid.IntRange(1, maxSteps).Draw(t, "nSteps")
	plan = make([]simsched.Step, nSteps)
	// run lengths are log-uniform: every scale — the first statements of a call as well as the deep interior of a
	// multi-million-statement signature — is equally likely to receive a preemption
	maxExp := 1
	for (uint64(1) << maxExp) < seqYields+2 {
		maxExp++
	}
	logUniform := func(label string) uint32 {
		e := rapid.IntRange(0, maxExp).Draw(t, label+"Exp")
		lo, hi := uint32(0), uint32(1)
		if e > 0 {
			lo, hi = uint32(1)<<(e-1), uint32(1)<<e
		}
		return rapid.Uint32Range(lo, hi).Draw(t, label)
	}
	planKind := rapid.SampledFrom([]string{"independent", "independent", "round-robin", "site-targeted", "site-targeted"}).Draw(t, "planKind")
	if planKind == "site-targeted" {
		// Park task a right after it reaches some statement for the first time (drawn uniformly over the DISTINCT
		// statements of its sequential execution, so a three-statement window inside a million-statement call is as
		// likely as any other place), let task b run — to completion or up to one of its own first-reached statements —
		// and continue from there with an independent plan. A parked task keeps its recent access history, which is
		// what ThreadSanitizer needs to report a conflict with what it did just before being parked.
		a := rapid.IntRange(0, nTasks-1).Draw(t, "parkTask")
		b := rapid.IntRange(0, nTasks-2).Draw(t, "thenTask") // index among the others, in index order
		at := uint32(0)
		if len(firsts[a]) > 0 {
			at = firsts[a][rapid.IntRange(0, len(firsts[a])-1).Draw(t, "parkSite")] + uint32(rapid.IntRange(0, 2).Draw(t, "parkDelta"))
		}
		if len(lockAts[a]) > 0 && rapid.Bool().Draw(t, "parkAroundLock") {
			// where the task's critical sections begin is where check-then-act across two of them, or a critical section
			// that is too small, shows: park the task just before a lock acquisition or within the next few statements
			// after it (the section and the statements that follow it in the caller)
			l := int64(lockAts[a][rapid.IntRange(0, len(lockAts[a])-1).Draw(t, "parkLock")]) + int64(rapid.IntRange(-1, 8).Draw(t, "parkLockDelta"))
			if l < 0 {
				l = 0
			}
			at = uint32(l)
			r.Probe("parked-around-a-lock-acquisition")
		}
		plan[0] = simsched.Step{RunFor: at, SwitchTo: uint8(a)}
		if nSteps > 1 {
			bTask := b
			if bTask >= a {
				bTask++
			}
			run := uint32(1) << 30
			if rapid.Bool().Draw(t, "thenToSite") && len(firsts[bTask]) > 0 {
				run = firsts[bTask][rapid.IntRange(0, len(firsts[bTask])-1).Draw(t, "thenSite")] + uint32(rapid.IntRange(0, 2).Draw(t, "thenDelta"))
			}
			plan[1] = simsched.Step{RunFor: run, SwitchTo: uint8(b)}
		}
		for i := 2; i < len(plan); i++ {
			plan[i] = simsched.Step{RunFor: logUniform("runFor"), SwitchTo: uint8(rapid.IntRange(0, nTasks-1).Draw(t, "switchTo"))}
		}
		r.Probe("site-targeted-plan")
	} else if planKind == "round-robin" {
		// all tasks advance in lock step with one quantum: whatever a call does in its first q statements
		// (lazy initialisation, check-then-act) overlaps with the same phase of every other task
		q := logUniform("quantum")
		for i := range plan {
			plan[i] = simsched.Step{RunFor: q, SwitchTo: simsched.Next}
		}
		r.Probe("round-robin-plan")
	} else {
		for i := range plan {
			plan[i] = simsched.Step{RunFor: logUniform("runFor"), SwitchTo: uint8(rapid.IntRange(0, nTasks-1).Draw(t, "switchTo"))}
		}
	}

	monitoringDiffers := false
	softDiffers := false
	// judge compares one concurrent execution with the sequential oracle; "" = agrees
	judge := func(s *simsched.Sched, got [][]result, ev [][]simmon.Event) (string, string) {
		kt := sh.class + "/" + sh.entry.KeyType
		if s.Deadlock {
			// every unfinished task was waiting for a lock and nothing moved for DeadlockGrace: calls that return when run
			// alone never return under this schedule
			var at []string
			for i, site := range s.DeadlockAt {
				if site >= 0 {
					at = append(at, fmt.Sprintf("task %d at %s", i, siteName(site)))
				}
			}
			return "C18/deadlock:" + kt, "under the schedule every unfinished task waits for a lock that none of them can release: " + strings.Join(at, ", ")
		}
		if len(s.Panics) > 0 {
			return "C18/panic:" + kt, fmt.Sprintf("a task panicked under the schedule (not when run alone): %v", s.Panics[0])
		}
		for i := range tasks {
			for j, o := range tasks[i] {
				if j >= len(got[i]) {
					return "C18/task-incomplete", fmt.Sprintf("task %d stopped after %d of %d operations", i, len(got[i]), len(tasks[i]))
				}
				e, c := expected[i][j], got[i][j]
				if e.err != c.err {
					return "C18/result-differs:" + kt + ":" + opClass(o.name), fmt.Sprintf("task %d op %s: error=%v when run alone, error=%v under the schedule", i, o.name, e.err, c.err)
				}
				if o.check != nil {
					if !c.err {
						if err := o.check(sh, c.out); err != nil {
							return "C18/result-invalid:" + kt + ":" + opClass(o.name), fmt.Sprintf("task %d op %s: concurrent result is not accepted by the recipient: %v", i, o.name, err)
						}
					}
					continue
				}
				if !bytes.Equal(e.out, c.out) && o.soft != nil && !c.err {
					if err := o.soft(sh, c.out); err != nil {
						return "C18/result-invalid:" + kt + ":" + opClass(o.name), fmt.Sprintf("task %d op %s: the result under the schedule differs from the result when run alone and is not accepted by the recipient: %v", i, o.name, err)
					}
					softDiffers = true
					continue
				}
				if !bytes.Equal(e.out, c.out) {
					return "C18/result-differs:" + kt + ":" + opClass(o.name), fmt.Sprintf("task %d op %s: result under the schedule differs from the result when run alone (%s vs %s)", i, o.name, core.Hex(c.out, 24), core.Hex(e.out, 24))
				}
			}
		}
		for i := range tasks {
			if !sh.semantic && fmt.Sprint(ev[i]) != fmt.Sprint(expectedEvents[i]) {
				// C18 speaks of what calls return and of data races; what the monitoring client sees is compared for the
				// record only (a library that logs from a helper goroutine or in batches conforms)
				monitoringDiffers = true
			}
		}
		return "", ""
	}
	skipIfAborted := func(s *simsched.Sched) {
		if s.Aborted {
			// The scheduler had to let the tasks run freely (a task blocked in a real synchronisation primitive while
			// holding the baton, or the machine starved the process for half a minute). Task identity — hence RNG lanes
			// and per-task monitoring — is meaningless for such a run, so it is counted and judged by nothing.
			core.CountGlobal("free-run-fallback")
			t.Skip("free-run fallback")
		}
	}

	s, got, events, races := concurrentOnce()
	if s.Deadlock {
		// The tasks were unwound while they held locks, some of which may be process-wide: from here on library code
		// can block for ever in this process, also outside a simulation. The verdict needs no confirmation run (every
		// unfinished task failed TryLock a thousand times over DeadlockGrace); it is recorded at once, and every later
		// run of this process — rapid's shrinking candidates and its confirming re-run included — is skipped (see the
		// top of runSched). The replay re-runs the worker from its seed in a fresh process.
		lockPoisoned = true
		key, detail := judge(s, got, events)
		r.Violation(key, detail)
		t.Skip("deadlock listed as a known finding")
	}
	racesBefore, racesAfter := 0, races

	// ---- oracles
	inside := 0
	for _, p := range s.Trace {
		if p.Blocked {
			r.Fault("blocked-on-lock-handover")
		}
		if p.Site >= 0 {
			r.Fault("preemption")
			inside++
		} else {
			r.Fault("task-finished-handover")
		}
		if r.Tracing() {
			r.Logf("  pass %d -> %d at %s", p.From, p.To, siteName(p.Site))
		}
		r.ObsI("pass", int64(p.From)<<40|int64(p.To)<<32|int64(uint32(p.Site)))
	}
	if inside > 0 {
		r.Fault("preemption-inside-tink-call")
	}
	skipIfAborted(s)
	r.Count("yields", int64(s.Yields))
	for i := 0; i+1 < len(s.Trace); i++ {
		r.SetAdd("site-pairs", fmt.Sprintf("%d>%d", s.Trace[i].Site, s.Trace[i+1].Site))
	}
	if arenaDirtyAt >= 0 || sumArena() != arenaSum {
		arena = nil // rebuilt by the next run
		r.Violation("C18/caller-buffer-written:"+sh.class+"/"+sh.entry.KeyType, fmt.Sprintf("the shared read-only input arena changed during the concurrent phase (first seen at baton pass %d)", arenaDirtyAt))
		return
	}
	for i := range tasks {
		for j, o := range tasks[i] {
			if j < len(got[i]) && o.check == nil {
				r.Obs(fmt.Sprintf("t%d.%s", i, o.name), got[i][j].out)
			}
		}
	}
	if key, detail := judge(s, got, events); key != "" {
		// The simulator decides the schedule, so a genuine schedule-dependent failure repeats exactly when the same
		// plan runs again on a fresh cold twin. A mismatch that does not repeat comes from outside the simulation
		// (one such event was seen in ~10^6 runs, on a machine five times oversubscribed); it is counted, never reported.
		s2, got2, events2, _ := concurrentOnce()
		skipIfAborted(s2)
		if key2, _ := judge(s2, got2, events2); key2 == key {
			r.Violation(key, detail)
			return
		}
		core.CountGlobal("unreproducible-mismatch")
		r.Logf("mismatch %s did not repeat under the same plan: %s", key, detail)
		t.Skip("mismatch did not repeat under the same schedule")
	}
	for i := range tasks {
		if monitored && len(events[i]) > 0 {
			r.Probe("monitoring-events-compared")
		}
	}
	if monitoringDiffers {
		r.Count("monitoring-events-differ-under-schedule", 1)
	}
	if softDiffers {
		r.Count("randomized-result-differs-from-run-alone(recipient accepts)", 1)
	}
	if racesAfter > racesBefore {
		loc, text := lastRaceReport()
		for _, l := range strings.Split(text, "\n") {
			r.Logf("  %s", l)
		}
		if loc == "unlocated" || strings.HasPrefix(loc, "unknown") {
			t.Fatalf("harness: the race detector reported a race with no frame inside the tink tree (harness race?): %s\n%s", loc, text)
		}
		r.Violation("C18/race:"+loc, fmt.Sprintf("the race detector reported %d data race(s) during this schedule (class %s, key type %s)", racesAfter-racesBefore, sh.class, sh.entry.KeyType))
		return
	}
	if raceEnabled {
		r.Probe("race-build")
	}

	sort.Strings(opNames)
	var hsh uint64 = 1469598103934665603
	for _, p := range s.Trace {
		hsh = (hsh ^ uint64(p.From)<<20 ^ uint64(uint32(p.Site))) * 1099511628211
	}
	passClass := "0"
	switch {
	case inside >= 8:
		passClass = "8+"
	case inside >= 3:
		passClass = "3-7"
	case inside >= 1:
		passClass = "1-2"
	}
	r.End(fmt.Sprintf("%s|%s|%s|ops:%s|tasks%d|pre%s|%x", scenario, sh.class, sh.entry.KeyType, strings.Join(uniq(opNames), ","), nTasks, passClass, hsh&0xffff), inside > 0)
}

// coldSeen: the (class, key type, scenario) combinations this process has already put through a cold start.
var coldSeen = map[string]bool{}

// coldStart runs 2..4 tasks, one "produce" each, under a round-robin plan on the not yet used primitives of sh, then
// makes the same calls alone and compares ("" = nothing to report). A violation found here depends on state that is
// cold only once per process, so it is confirmed by the orchestrator's fresh-process re-run, not in-process.
type coldPlan struct {
	again    bool
	n        int
	q        uint32
	msg, aux [4][]byte
}

func drawColdPlan(t *rapid.T) coldPlan {
	cp := coldPlan{again: rapid.IntRange(0, 15).Draw(t, "coldStartAgain") == 0, n: rapid.IntRange(2, 4).Draw(t, "coldTasks"),
		q: uint32(rapid.SampledFrom([]int{1, 1, 2, 3, 5, 8, 20, 60}).Draw(t, "coldQuantum"))}
	for i := 0; i < 4; i++ {
		cp.msg[i], cp.aux[i] = slice(t, fmt.Sprintf("cold%d.msg", i)), slice(t, fmt.Sprintf("cold%d.aux", i))
	}
	return cp
}

func coldStart(cp coldPlan, r *core.Run, g *simrng.RNG, sh *shared, lane *int) (string, string) {
	n, q := cp.n, cp.q
	type call struct {
		msg, aux, out []byte
		err           error
	}
	calls := make([]*call, n)
	fns := make([]func(), n)
	for i := range calls {
		c := &call{msg: cp.msg[i], aux: cp.aux[i]}
		calls[i] = c
		g.SetOffset(i, 1<<30)
		fns[i] = func() { c.out, c.err = sh.prod.Produce(c.msg, c.aux) }
	}
	plan := make([]simsched.Step, 256)
	for i := range plan {
		plan[i] = simsched.Step{RunFor: q, SwitchTo: simsched.Next}
	}
	s := simsched.New(plan)
	g.SetLaneFunc(s.Current)
	discardRaceLog()
	before := raceErrors()
	s.Run(fns)
	races := raceErrors() - before
	*lane = 14
	g.SetLaneFunc(func() int { return *lane })
	r.Probe("process-cold-start")
	kt := sh.class + "/" + sh.entry.KeyType
	if s.Aborted {
		core.CountGlobal("free-run-fallback")
		return "", ""
	}
	if s.Deadlock {
		lockPoisoned = true
		return "C18/deadlock:" + kt, "cold start: every task waits for a lock that none of them can release"
	}
	if len(s.Panics) > 0 {
		// does the call also panic alone? then it is not about concurrency
		alone := func() (p any) {
			defer func() { p = recover() }()
			_, _ = sh.prod.Produce(calls[0].msg, calls[0].aux)
			return nil
		}()
		if alone == nil {
			return "C18/panic:" + kt, fmt.Sprintf("cold start: a first produce call panicked under the schedule (not when run alone): %v", s.Panics[0])
		}
		core.CountGlobal("panic-when-run-alone:" + sh.entry.KeyType)
		return "", ""
	}
	for i, c := range calls {
		*lane = i
		g.SetOffset(i, 1<<30)
		out, err := sh.prod.Produce(c.msg, c.aux)
		*lane = 14
		if (err != nil) != (c.err != nil) {
			return "C18/result-differs:" + kt + ":produce", fmt.Sprintf("cold start: task %d produce: error=%v when run alone, error=%v under the schedule", i, err != nil, c.err != nil)
		}
		if err != nil || bytes.Equal(out, c.out) {
			continue
		}
		if sh.prod.Deterministic {
			return "C18/result-differs:" + kt + ":produce", fmt.Sprintf("cold start: task %d: the deterministic result under the schedule differs from the result when run alone", i)
		}
		if aerr := sh.acc.Accept(c.out, c.msg, c.aux); aerr != nil {
			return "C18/result-invalid:" + kt + ":produce", fmt.Sprintf("cold start: task %d: the result under the schedule is not accepted by the recipient: %v", i, aerr)
		}
	}
	if races > 0 {
		loc, text := lastRaceReport()
		for _, l := range strings.Split(text, "\n") {
			r.Logf("  %s", l)
		}
		if loc != "unlocated" && !strings.HasPrefix(loc, "unknown") {
			return "C18/race:" + loc, fmt.Sprintf("the race detector reported %d data race(s) during the cold start of %s", races, kt)
		}
	}
	return "", ""
}

// lockPoisoned: a run of this process ended in a deadlock (see runSched).
var lockPoisoned bool

func coldTwin(sh *shared, monitored bool) (*shared, error) {
	ks := insecurecleartextkeyset.KeysetMaterial(sh.h)
	var opts []keyset.Option
	if monitored {
		opts = append(opts, keyset.WithAnnotations(map[string]string{"sim": "sched"}))
	}
	h, err := insecurecleartextkeyset.Read(&keyset.MemReaderWriter{Keyset: ks}, opts...)
	if err != nil {
		// some keysets cannot be re-read from their own serialization (today: ML-DSA keys of the
		// WITH_ID_REQUIREMENT variant, which keyset validation refuses); then only the primitives are cold
		core.CountGlobal("cold-twin-shares-handle:" + sh.entry.KeyType)
		h = sh.h
	}
	c := &shared{class: sh.class, entry: sh.entry, h: h, semantic: sh.semantic, outputs: sh.outputs, monitored: monitored, mk: sh.mk}
	if sh.mk != nil {
		c.prod, c.acc, err = sh.mk()
		return c, err
	}
	if sh.prehash {
		c.prod, err = classes.NewPrehashProducer(h)
		c.prehash = true
	} else {
		c.prod, err = classes.NewProducer(c.class, h)
	}
	if err != nil {
		return nil, err
	}
	if sh.acc != nil {
		if c.acc, err = classes.NewAcceptor(c.class, h); err != nil {
			return nil, err
		}
	}
	return c, nil
}

//go:norace
func onPass(from, to, site int) {
	if arenaDirtyAt < 0 && sumArena() != arenaSum {
		arenaDirtyAt = passCounter
	}
	passCounter++
}

var passCounter int

func nSites() int {
	if len(sites) > 0 {
		return len(sites)
	}
	return 40000
}

func siteName(id int) string {
	if id < 0 {
		return "(task finished)"
	}
	if id < len(sites) {
		return sites[id]
	}
	return fmt.Sprintf("site#%d", id)
}

func uniq(l []string) []string {
	var o []string
	for i, s := range l {
		if i == 0 || s != l[i-1] {
			o = append(o, opClass(s))
		}
	}
	sort.Strings(o)
	var u []string
	for i, s := range o {
		if i == 0 || s != o[i-1] {
			u = append(u, s)
		}
	}
	return u
}

func opClass(name string) string {
	if i := strings.IndexByte(name, '#'); i >= 0 {
		return name[:i]
	}
	return name
}

// drawOp draws one operation of a task.
func drawOp(t *rapid.T, r *core.Run, g *simrng.RNG, sh *shared, scenario, label string) op {
	kinds := []string{"produce", "produce", "accept", "accept-corrupted"}
	if sh.acc == nil {
		kinds = []string{"produce"}
	}
	if scenario == "handle" {
		kinds = []string{"produce", "accept", "keysetinfo", "string", "entries", "public", "construct", "construct", "reparse-construct", "reparse-construct", "registry", "serialize-parse", "keygen"}
		if sh.acc == nil {
			kinds = kinds[2:]
			kinds[0] = "produce"
		}
		r.Probe("handle-reads")
	}
	k := rapid.SampledFrom(kinds).Draw(t, label+"kind")
	switch k {
	case "produce":
		msg, aux := slice(t, label+"msg"), slice(t, label+"aux")
		o := op{name: "produce", run: func(sh *shared) ([]byte, error) { return sh.prod.Produce(msg, aux) }}
		if sh.semantic {
			o.check = func(sh *shared, out []byte) error { return sh.acc.Accept(out, msg, aux) }
		} else if !sh.prod.Deterministic && sh.acc != nil {
			o.soft = func(sh *shared, out []byte) error { return sh.acc.Accept(out, msg, aux) }
		}
		return o
	case "accept":
		i := rapid.IntRange(0, len(sh.outputs)-1).Draw(t, label+"which")
		pre := sh.outputs[i]
		return op{name: "accept", run: func(sh *shared) ([]byte, error) { return nil, sh.acc.Accept(pre[0], pre[1], pre[2]) }}
	case "accept-corrupted":
		r.Probe("accept-rejects-corrupted")
		i := rapid.IntRange(0, len(sh.outputs)-1).Draw(t, label+"which")
		pre := sh.outputs[i]
		bad := append([]byte{}, pre[0]...)
		if len(bad) > 0 {
			bad[rapid.IntRange(0, len(bad)-1).Draw(t, label+"pos")] ^= 0x20
		}
		return op{name: "accept-corrupted", run: func(sh *shared) ([]byte, error) { return nil, sh.acc.Accept(bad, pre[1], pre[2]) }}
	case "keysetinfo":
		return op{name: "keysetinfo", run: func(sh *shared) ([]byte, error) {
			return proto.MarshalOptions{Deterministic: true}.Marshal(sh.h.KeysetInfo())
		}}
	case "string":
		return op{name: "string", run: func(sh *shared) ([]byte, error) { return []byte(sh.h.String()), nil }}
	case "entries":
		return op{name: "entries", run: func(sh *shared) ([]byte, error) {
			var sb strings.Builder
			p, err := sh.h.Primary()
			if err != nil {
				return nil, err
			}
			fmt.Fprintf(&sb, "primary=%d len=%d", p.KeyID(), sh.h.Len())
			for i := 0; i < sh.h.Len(); i++ {
				e, err := sh.h.Entry(i)
				if err != nil {
					return nil, err
				}
				k := e.Key()
				id, has := k.IDRequirement()
				fmt.Fprintf(&sb, " %d:%v:%v:%v/%d:%v", e.KeyID(), e.KeyStatus(), e.IsPrimary(), has, id, k.Equal(k) && k.Parameters().Equal(k.Parameters()))
			}
			return []byte(sb.String()), nil
		}}
	case "public":
		return op{name: "public", run: func(sh *shared) ([]byte, error) {
			pub, err := sh.h.Public()
			if err != nil {
				return nil, err
			}
			return proto.MarshalOptions{Deterministic: true}.Marshal(pub.KeysetInfo())
		}}
	case "construct":
		r.Probe("construct-under-schedule")
		msg, aux := slice(t, label+"msg"), slice(t, label+"aux")
		pre := sh.outputs[0]
		var softC func(sh *shared, out []byte) error
		if !sh.semantic && !sh.prod.Deterministic && sh.acc != nil {
			softC = func(sh *shared, out []byte) error { return sh.acc.Accept(out, msg, aux) }
		}
		return op{name: "construct", soft: softC, run: func(sh *shared) ([]byte, error) {
			if sh.acc != nil {
				a, err := classes.NewAcceptor(sh.class, sh.h)
				if err != nil {
					return nil, err
				}
				if err := a.Accept(pre[0], pre[1], pre[2]); err != nil {
					return nil, err
				}
			}
			p, err := classes.NewProducer(sh.class, sh.h)
			if err != nil {
				return nil, err
			}
			if sh.semantic {
				return nil, nil
			}
			return p.Produce(msg, aux)
		}}
	case "reparse-construct":
		// every task obtains its OWN handle (the stored keyset parsed again, annotated like the shared one) and builds
		// and uses primitives from it: handle construction, factories and whatever process-wide state they touch
		// (registries, monitoring set-up) run concurrently on distinct handles
		r.Probe("reparse-construct-under-schedule")
		msg, aux := slice(t, label+"msg"), slice(t, label+"aux")
		pre := sh.outputs[0]
		var softR func(sh *shared, out []byte) error
		if !sh.semantic && !sh.prod.Deterministic && sh.acc != nil {
			softR = func(sh *shared, out []byte) error { return sh.acc.Accept(out, msg, aux) }
		}
		return op{name: "reparse-construct", soft: softR, run: func(sh *shared) ([]byte, error) {
			var opts []keyset.Option
			if sh.monitored {
				opts = append(opts, keyset.WithAnnotations(map[string]string{"sim": "sched"}))
			}
			ks := insecurecleartextkeyset.KeysetMaterial(sh.h)
			h, err := insecurecleartextkeyset.Read(&keyset.MemReaderWriter{Keyset: ks}, opts...)
			if err != nil {
				return nil, nil // keysets that cannot be re-read from their own serialization (see coldTwin)
			}
			if sh.acc != nil {
				a, err := classes.NewAcceptor(sh.class, h)
				if err != nil {
					return nil, err
				}
				if err := a.Accept(pre[0], pre[1], pre[2]); err != nil {
					return nil, err
				}
			}
			p, err := classes.NewProducer(sh.class, h)
			if err != nil {
				return nil, err
			}
			if sh.semantic {
				return []byte(h.String()), nil
			}
			return p.Produce(msg, aux)
		}}
	case "registry":
		r.Probe("registry-lookup")
		return op{name: "registry", run: func(sh *shared) ([]byte, error) {
			var sb strings.Builder
			ks := insecurecleartextkeyset.KeysetMaterial(sh.h)
			for i, ki := range sh.h.KeysetInfo().GetKeyInfo() {
				km, err := registry.GetKeyManager(ki.GetTypeUrl())
				if err != nil {
					fmt.Fprintf(&sb, "%s:err;", ki.GetTypeUrl())
					continue
				}
				fmt.Fprintf(&sb, "%s:%v;", km.TypeURL(), km.DoesSupport(ki.GetTypeUrl()))
				if ks != nil && i < len(ks.GetKey()) {
					// the legacy read paths of the global registry: key data -> primitive, and public key data of private keys
					kd := ks.GetKey()[i].GetKeyData()
					p, err := registry.PrimitiveFromKeyData(kd)
					fmt.Fprintf(&sb, "prim:%v/%v;", p != nil, err == nil)
					if pkm, ok := km.(registry.PrivateKeyManager); ok && kd.GetKeyMaterialType() == tinkpb.KeyData_ASYMMETRIC_PRIVATE {
						pub, err := pkm.PublicKeyData(kd.GetValue())
						fmt.Fprintf(&sb, "pub:%d/%v;", len(pub.GetValue()), err == nil)
					}
				}
				// parameters <-> template through the serialization registry
				if i < sh.h.Len() {
					if e, err := sh.h.Entry(i); err == nil {
						if tpl, err := protoserialization.SerializeParameters(e.Key().Parameters()); err == nil {
							back, err := protoserialization.ParseParameters(tpl)
							fmt.Fprintf(&sb, "params:%v;", err == nil && back.Equal(e.Key().Parameters()))
						} else {
							sb.WriteString("params:unserializable;")
						}
					}
				}
			}
			return []byte(sb.String()), nil
		}}
	case "serialize-parse":
		return op{name: "serialize-parse", run: func(sh *shared) ([]byte, error) {
			var all []byte
			for i := 0; i < sh.h.Len(); i++ {
				e, _ := sh.h.Entry(i)
				ser, err := protoserialization.SerializeKey(e.Key())
				if err != nil {
					return nil, err
				}
				back, err := protoserialization.ParseKey(ser)
				if err != nil {
					return nil, err
				}
				if !back.Equal(e.Key()) {
					return nil, fmt.Errorf("parsed key differs")
				}
				all = append(all, ser.KeyData().GetValue()...)
			}
			return all, nil
		}}
	case "keygen":
		r.Probe("keygen-under-schedule")
		e := drawEntry(t, sh.class, label+"genEntry")
		if e.Cost > 0 {
			e = sh.entry
		}
		if catalog.Pooled(e) || e.Name == "" {
			return op{name: "string", run: func(sh *shared) ([]byte, error) { return []byte(sh.h.String()), nil }}
		}
		gen := func(sh *shared) ([]byte, error) {
			m := keyset.NewManager()
			id, err := m.AddNewKeyFromParameters(e.Params)
			if err != nil {
				return nil, err
			}
			if err := m.SetPrimary(id); err != nil {
				return nil, err
			}
			h, err := m.Handle()
			if err != nil {
				return nil, err
			}
			en, _ := h.Entry(0)
			ser, err := protoserialization.SerializeKey(en.Key())
			if err != nil {
				return nil, err
			}
			return append([]byte(fmt.Sprintf("%d:", id)), ser.KeyData().GetValue()...), nil
		}
		o := op{name: "keygen", run: gen}
		// is this key type's generation a function of the reader bytes? (a library may legitimately generate keys from
		// randomness the harness cannot key by task, e.g. reader-less standard-library generators)
		off := g.Offset(14)
		g.SetOffset(14, off+5000)
		a, errA := gen(sh)
		g.SetOffset(14, off+5000)
		b, errB := gen(sh)
		g.SetOffset(14, off)
		wellFormed := func(sh *shared, out []byte) error {
			if i := bytes.IndexByte(out, ':'); i <= 0 || len(out) <= i+1 {
				return fmt.Errorf("generated key is empty")
			}
			return nil
		}
		if errA != nil || errB != nil || !bytes.Equal(a, b) {
			r.Probe("keygen-not-a-function-of-the-reader(semantic oracle)")
			o.check = wellFormed
		} else {
			o.soft = wellFormed
		}
		return o
	}
	panic("unreachable")
}

// ---------------------------------------------------------------------------
// race reports

var raceLogOff int64

// discardRaceLog forgets whatever ThreadSanitizer has written so far.
func discardRaceLog() {
	path := os.Getenv("VSIM_RACE_LOG")
	if path == "" {
		return
	}
	if fi, err := os.Stat(fmt.Sprintf("%s.%d", path, os.Getpid())); err == nil {
		raceLogOff = fi.Size()
	}
}

var frameRe = regexp.MustCompile(`^\s+(/\S+\.go):(\d+)`)

// lastRaceReport reads what ThreadSanitizer appended to its log since the last
// call and derives the finding key: the first /repo frame of each of the two
// stacks of the first report.
func lastRaceReport() (string, string) {
	path := os.Getenv("VSIM_RACE_LOG")
	if path == "" {
		return "unknown(no race log)", ""
	}
	path = fmt.Sprintf("%s.%d", path, os.Getpid())
	b, err := os.ReadFile(path)
	if err != nil {
		return "unknown(" + err.Error() + ")", ""
	}
	if raceLogOff > int64(len(b)) {
		raceLogOff = 0
	}
	text := string(b[raceLogOff:])
	raceLogOff = int64(len(b))
	repo := os.Getenv("VSIM_REPO")
	if repo == "" {
		repo = "/repo"
	}
	var locs []string
	inStack, found := false, false
	for _, l := range strings.Split(text, "\n") {
		if strings.HasPrefix(l, "==================") && len(locs) >= 2 {
			break
		}
		switch {
		case strings.Contains(l, " by goroutine ") || strings.Contains(l, " by main goroutine"):
			if strings.HasPrefix(l, "Goroutine") {
				inStack = false // creation stacks do not identify the access
				continue
			}
			inStack, found = true, false
		case strings.HasPrefix(l, "Goroutine "):
			inStack = false
		case inStack && !found:
			if m := frameRe.FindStringSubmatch(l); m != nil && strings.HasPrefix(m[1], repo+"/") {
				locs = append(locs, strings.TrimPrefix(m[1], repo+"/")+":"+m[2])
				found = true
			}
		}
	}
	if len(locs) > 2 {
		locs = locs[:2]
	}
	sort.Strings(locs)
	if len(locs) == 0 {
		return "unlocated", text
	}
	if len(text) > 6000 {
		text = text[:6000]
	}
	return strings.Join(locs, "<->"), text
}
