//go:build instr && race

package sched

import "runtime"

const raceEnabled = true

func raceErrors() int { return runtime.RaceErrors() }
