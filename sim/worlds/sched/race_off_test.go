//go:build instr && !race

package sched

const raceEnabled = false

func raceErrors() int { return 0 }
