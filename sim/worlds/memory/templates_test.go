package memory

// Byte-slice APIs that are neither keys nor primitives:
//
//   - key templates: every exported `*KeyTemplate()`-style function hands out a proto whose Value bytes the caller
//     may keep and change. Two results must not share memory (address ranges incl. capacity), and overwriting one
//     result (world B) must not change what the function, or keyset.NewHandle over its result, gives later. The two
//     template combinators (KMS envelope, PRF-based derivation) take templates whose bytes are caller memory;
//   - package-level helper functions of subtle and hybrid/subtle taking or returning byte slices: inputs are caller
//     buffers (canaries, spare capacity), results are returned values.
//
// One "misc" run calls a drawn handful of each; there is no key history in such a run.

import (
	"crypto/elliptic"
	"fmt"

	"google.golang.org/protobuf/proto"

	"github.com/tink-crypto/tink-go/v2/aead"
	"github.com/tink-crypto/tink-go/v2/daead"
	"github.com/tink-crypto/tink-go/v2/hybrid"
	hybridsubtle "github.com/tink-crypto/tink-go/v2/hybrid/subtle"
	"github.com/tink-crypto/tink-go/v2/jwt"
	"github.com/tink-crypto/tink-go/v2/keyderivation"
	"github.com/tink-crypto/tink-go/v2/keyset"
	"github.com/tink-crypto/tink-go/v2/mac"
	"github.com/tink-crypto/tink-go/v2/prf"
	tinkpb "github.com/tink-crypto/tink-go/v2/proto/tink_go_proto"
	"github.com/tink-crypto/tink-go/v2/signature"
	"github.com/tink-crypto/tink-go/v2/streamingaead"
	tsubtle "github.com/tink-crypto/tink-go/v2/subtle"
)

type templateFn struct {
	name string
	f    func() *tinkpb.KeyTemplate
	slow bool // generating a key from it takes long (RSA): the template itself is checked, no handle is made
}

var templateFns = []templateFn{
	{"aead.AES128GCMKeyTemplate", aead.AES128GCMKeyTemplate, false},
	{"aead.AES256GCMKeyTemplate", aead.AES256GCMKeyTemplate, false},
	{"aead.AES256GCMNoPrefixKeyTemplate", aead.AES256GCMNoPrefixKeyTemplate, false},
	{"aead.XAES256GCM192BitNonceKeyTemplate", aead.XAES256GCM192BitNonceKeyTemplate, false},
	{"aead.XAES256GCM192BitNonceNoPrefixKeyTemplate", aead.XAES256GCM192BitNonceNoPrefixKeyTemplate, false},
	{"aead.XAES256GCM160BitNonceKeyTemplate", aead.XAES256GCM160BitNonceKeyTemplate, false},
	{"aead.XAES256GCM160BitNonceNoPrefixKeyTemplate", aead.XAES256GCM160BitNonceNoPrefixKeyTemplate, false},
	{"aead.AES128GCMSIVKeyTemplate", aead.AES128GCMSIVKeyTemplate, false},
	{"aead.AES256GCMSIVKeyTemplate", aead.AES256GCMSIVKeyTemplate, false},
	{"aead.AES256GCMSIVNoPrefixKeyTemplate", aead.AES256GCMSIVNoPrefixKeyTemplate, false},
	{"aead.AES128CTRHMACSHA256KeyTemplate", aead.AES128CTRHMACSHA256KeyTemplate, false},
	{"aead.AES256CTRHMACSHA256KeyTemplate", aead.AES256CTRHMACSHA256KeyTemplate, false},
	{"aead.ChaCha20Poly1305KeyTemplate", aead.ChaCha20Poly1305KeyTemplate, false},
	{"aead.XChaCha20Poly1305KeyTemplate", aead.XChaCha20Poly1305KeyTemplate, false},
	{"daead.AESSIVKeyTemplate", daead.AESSIVKeyTemplate, false},
	{"mac.HMACSHA256Tag128KeyTemplate", mac.HMACSHA256Tag128KeyTemplate, false},
	{"mac.HMACSHA256Tag256KeyTemplate", mac.HMACSHA256Tag256KeyTemplate, false},
	{"mac.HMACSHA512Tag256KeyTemplate", mac.HMACSHA512Tag256KeyTemplate, false},
	{"mac.HMACSHA512Tag512KeyTemplate", mac.HMACSHA512Tag512KeyTemplate, false},
	{"mac.AESCMACTag128KeyTemplate", mac.AESCMACTag128KeyTemplate, false},
	{"prf.HMACSHA256PRFKeyTemplate", prf.HMACSHA256PRFKeyTemplate, false},
	{"prf.HMACSHA512PRFKeyTemplate", prf.HMACSHA512PRFKeyTemplate, false},
	{"prf.HKDFSHA256PRFKeyTemplate", prf.HKDFSHA256PRFKeyTemplate, false},
	{"prf.AESCMACPRFKeyTemplate", prf.AESCMACPRFKeyTemplate, false},
	{"signature.ECDSAP256KeyTemplate", signature.ECDSAP256KeyTemplate, false},
	{"signature.ECDSAP256KeyWithoutPrefixTemplate", signature.ECDSAP256KeyWithoutPrefixTemplate, false},
	{"signature.ECDSAP256RawKeyTemplate", signature.ECDSAP256RawKeyTemplate, false},
	{"signature.ECDSAP384SHA384KeyTemplate", signature.ECDSAP384SHA384KeyTemplate, false},
	{"signature.ECDSAP384SHA384KeyWithoutPrefixTemplate", signature.ECDSAP384SHA384KeyWithoutPrefixTemplate, false},
	{"signature.ECDSAP384SHA512KeyTemplate", signature.ECDSAP384SHA512KeyTemplate, false},
	{"signature.ECDSAP384KeyWithoutPrefixTemplate", signature.ECDSAP384KeyWithoutPrefixTemplate, false},
	{"signature.ECDSAP521KeyTemplate", signature.ECDSAP521KeyTemplate, false},
	{"signature.ECDSAP521KeyWithoutPrefixTemplate", signature.ECDSAP521KeyWithoutPrefixTemplate, false},
	{"signature.ED25519KeyTemplate", signature.ED25519KeyTemplate, false},
	{"signature.ED25519KeyWithoutPrefixTemplate", signature.ED25519KeyWithoutPrefixTemplate, false},
	{"signature.RSA_SSA_PKCS1_3072_SHA256_F4_Key_Template", signature.RSA_SSA_PKCS1_3072_SHA256_F4_Key_Template, true},
	{"signature.RSA_SSA_PKCS1_3072_SHA256_F4_RAW_Key_Template", signature.RSA_SSA_PKCS1_3072_SHA256_F4_RAW_Key_Template, true},
	{"signature.RSA_SSA_PKCS1_4096_SHA512_F4_Key_Template", signature.RSA_SSA_PKCS1_4096_SHA512_F4_Key_Template, true},
	{"signature.RSA_SSA_PKCS1_4096_SHA512_F4_RAW_Key_Template", signature.RSA_SSA_PKCS1_4096_SHA512_F4_RAW_Key_Template, true},
	{"signature.RSA_SSA_PSS_3072_SHA256_32_F4_Key_Template", signature.RSA_SSA_PSS_3072_SHA256_32_F4_Key_Template, true},
	{"signature.RSA_SSA_PSS_3072_SHA256_32_F4_Raw_Key_Template", signature.RSA_SSA_PSS_3072_SHA256_32_F4_Raw_Key_Template, true},
	{"signature.RSA_SSA_PSS_4096_SHA512_64_F4_Key_Template", signature.RSA_SSA_PSS_4096_SHA512_64_F4_Key_Template, true},
	{"signature.RSA_SSA_PSS_4096_SHA512_64_F4_Raw_Key_Template", signature.RSA_SSA_PSS_4096_SHA512_64_F4_Raw_Key_Template, true},
	{"hybrid.DHKEM_P256_HKDF_SHA256_HKDF_SHA256_AES_128_GCM_Key_Template", hybrid.DHKEM_P256_HKDF_SHA256_HKDF_SHA256_AES_128_GCM_Key_Template, false},
	{"hybrid.DHKEM_P256_HKDF_SHA256_HKDF_SHA256_AES_128_GCM_Raw_Key_Template", hybrid.DHKEM_P256_HKDF_SHA256_HKDF_SHA256_AES_128_GCM_Raw_Key_Template, false},
	{"hybrid.DHKEM_P256_HKDF_SHA256_HKDF_SHA256_AES_256_GCM_Key_Template", hybrid.DHKEM_P256_HKDF_SHA256_HKDF_SHA256_AES_256_GCM_Key_Template, false},
	{"hybrid.DHKEM_P256_HKDF_SHA256_HKDF_SHA256_AES_256_GCM_Raw_Key_Template", hybrid.DHKEM_P256_HKDF_SHA256_HKDF_SHA256_AES_256_GCM_Raw_Key_Template, false},
	{"hybrid.DHKEM_X25519_HKDF_SHA256_HKDF_SHA256_AES_128_GCM_Key_Template", hybrid.DHKEM_X25519_HKDF_SHA256_HKDF_SHA256_AES_128_GCM_Key_Template, false},
	{"hybrid.DHKEM_X25519_HKDF_SHA256_HKDF_SHA256_AES_128_GCM_Raw_Key_Template", hybrid.DHKEM_X25519_HKDF_SHA256_HKDF_SHA256_AES_128_GCM_Raw_Key_Template, false},
	{"hybrid.DHKEM_X25519_HKDF_SHA256_HKDF_SHA256_AES_256_GCM_Key_Template", hybrid.DHKEM_X25519_HKDF_SHA256_HKDF_SHA256_AES_256_GCM_Key_Template, false},
	{"hybrid.DHKEM_X25519_HKDF_SHA256_HKDF_SHA256_AES_256_GCM_Raw_Key_Template", hybrid.DHKEM_X25519_HKDF_SHA256_HKDF_SHA256_AES_256_GCM_Raw_Key_Template, false},
	{"hybrid.DHKEM_X25519_HKDF_SHA256_HKDF_SHA256_CHACHA20_POLY1305_Key_Template", hybrid.DHKEM_X25519_HKDF_SHA256_HKDF_SHA256_CHACHA20_POLY1305_Key_Template, false},
	{"hybrid.DHKEM_X25519_HKDF_SHA256_HKDF_SHA256_CHACHA20_POLY1305_Raw_Key_Template", hybrid.DHKEM_X25519_HKDF_SHA256_HKDF_SHA256_CHACHA20_POLY1305_Raw_Key_Template, false},
	{"hybrid.ECIESHKDFAES128GCMKeyTemplate", hybrid.ECIESHKDFAES128GCMKeyTemplate, false},
	{"hybrid.ECIESHKDFAES128CTRHMACSHA256KeyTemplate", hybrid.ECIESHKDFAES128CTRHMACSHA256KeyTemplate, false},
	{"streamingaead.AES128GCMHKDF4KBKeyTemplate", streamingaead.AES128GCMHKDF4KBKeyTemplate, false},
	{"streamingaead.AES128GCMHKDF1MBKeyTemplate", streamingaead.AES128GCMHKDF1MBKeyTemplate, false},
	{"streamingaead.AES256GCMHKDF4KBKeyTemplate", streamingaead.AES256GCMHKDF4KBKeyTemplate, false},
	{"streamingaead.AES256GCMHKDF1MBKeyTemplate", streamingaead.AES256GCMHKDF1MBKeyTemplate, false},
	{"streamingaead.AES128CTRHMACSHA256Segment4KBKeyTemplate", streamingaead.AES128CTRHMACSHA256Segment4KBKeyTemplate, false},
	{"streamingaead.AES128CTRHMACSHA256Segment1MBKeyTemplate", streamingaead.AES128CTRHMACSHA256Segment1MBKeyTemplate, false},
	{"streamingaead.AES256CTRHMACSHA256Segment4KBKeyTemplate", streamingaead.AES256CTRHMACSHA256Segment4KBKeyTemplate, false},
	{"streamingaead.AES256CTRHMACSHA256Segment1MBKeyTemplate", streamingaead.AES256CTRHMACSHA256Segment1MBKeyTemplate, false},
	{"jwt.HS256Template", jwt.HS256Template, false},
	{"jwt.RawHS256Template", jwt.RawHS256Template, false},
	{"jwt.HS384Template", jwt.HS384Template, false},
	{"jwt.RawHS384Template", jwt.RawHS384Template, false},
	{"jwt.HS512Template", jwt.HS512Template, false},
	{"jwt.RawHS512Template", jwt.RawHS512Template, false},
	{"jwt.ES256Template", jwt.ES256Template, false},
	{"jwt.RawES256Template", jwt.RawES256Template, false},
	{"jwt.ES384Template", jwt.ES384Template, false},
	{"jwt.RawES384Template", jwt.RawES384Template, false},
	{"jwt.ES512Template", jwt.ES512Template, false},
	{"jwt.RawES512Template", jwt.RawES512Template, false},
	{"jwt.RS256_2048_F4_Key_Template", jwt.RS256_2048_F4_Key_Template, true},
	{"jwt.RawRS256_2048_F4_Key_Template", jwt.RawRS256_2048_F4_Key_Template, true},
	{"jwt.RS256_3072_F4_Key_Template", jwt.RS256_3072_F4_Key_Template, true},
	{"jwt.RawRS256_3072_F4_Key_Template", jwt.RawRS256_3072_F4_Key_Template, true},
	{"jwt.RS384_3072_F4_Key_Template", jwt.RS384_3072_F4_Key_Template, true},
	{"jwt.RawRS384_3072_F4_Key_Template", jwt.RawRS384_3072_F4_Key_Template, true},
	{"jwt.RS512_4096_F4_Key_Template", jwt.RS512_4096_F4_Key_Template, true},
	{"jwt.RawRS512_4096_F4_Key_Template", jwt.RawRS512_4096_F4_Key_Template, true},
	{"jwt.PS256_2048_F4_Key_Template", jwt.PS256_2048_F4_Key_Template, true},
	{"jwt.RawPS256_2048_F4_Key_Template", jwt.RawPS256_2048_F4_Key_Template, true},
	{"jwt.PS256_3072_F4_Key_Template", jwt.PS256_3072_F4_Key_Template, true},
	{"jwt.RawPS256_3072_F4_Key_Template", jwt.RawPS256_3072_F4_Key_Template, true},
	{"jwt.PS384_3072_F4_Key_Template", jwt.PS384_3072_F4_Key_Template, true},
	{"jwt.RawPS384_3072_F4_Key_Template", jwt.RawPS384_3072_F4_Key_Template, true},
	{"jwt.PS512_4096_F4_Key_Template", jwt.PS512_4096_F4_Key_Template, true},
	{"jwt.RawPS512_4096_F4_Key_Template", jwt.RawPS512_4096_F4_Key_Template, true},
}

// templateOnce: one template function, three calls.
func (w *world) templateOnce(tf templateFn) {
	op := tf.name
	w.mark()
	var t1, t2, t3 *tinkpb.KeyTemplate
	func() {
		defer w.catch(op)
		t1 = tf.f()
		t2 = tf.f()
	}()
	if t1 == nil || t2 == nil {
		w.obsS(op, "result", "nil")
		return
	}
	w.setAdd("ops", op)
	c1, c2 := w.newCall(), w.newCall()
	w.msgPtr(op, c1, t1)
	w.msgPtr(op, c2, t2)
	w.out(op, c1, t1.GetValue(), false)
	w.out(op, c2, t2.GetValue(), false)
	w.obs(op, "first", marshal(t1))
	w.obs(op, "second", marshal(t2))
	// the caller overwrites what it was given (world B)
	seq := w.tgtSeq
	w.tgtSeq++
	tg := &target{culprit: op, kind: "proto-out", pm: t1, seq: seq, fired: true}
	w.targets = append(w.targets, tg)
	if w.faulted {
		v := t1.GetValue()
		x := w.pl.flipXor[seq%len(w.pl.flipXor)]
		xorAll(v, x)
		url, pt := t1.TypeUrl, t1.OutputPrefixType
		t1.TypeUrl += "x"
		t1.OutputPrefixType = tinkpb.OutputPrefixType_LEGACY
		tg.undo = func() { xorAll(v, x); t1.TypeUrl, t1.OutputPrefixType = url, pt }
		w.flips["flip-proto-out"]++
	}
	w.culprit = op
	defer func() { w.culprit = "" }()
	func() {
		defer w.catch(op)
		t3 = tf.f()
	}()
	if t3 == nil {
		w.obsS(op, "result", "nil")
		return
	}
	c3 := w.newCall()
	w.msgPtr(op, c3, t3)
	w.out(op, c3, t3.GetValue(), false)
	w.obs(op, "third", marshal(t3))
	w.obs(op, "second again", marshal(t2))
	if tf.slow {
		return
	}
	var err error
	var h *keyset.Handle
	func() {
		defer w.catch("keyset.NewHandle")
		h, err = keyset.NewHandle(t3)
	}()
	w.obsErr(op, "keyset.NewHandle", err)
	if err == nil && h != nil {
		info := h.KeysetInfo()
		if len(info.GetKeyInfo()) == 1 {
			w.obsS(op, "key type", info.GetKeyInfo()[0].GetTypeUrl()+" "+info.GetKeyInfo()[0].GetOutputPrefixType().String())
		}
	}
	w.r.Probe("template-checked")
}

// templateCombinators: functions that take templates (caller memory) and return one.
func (w *world) templateCombinators() {
	w.mark()
	{
		const op = "aead.CreateKMSEnvelopeAEADKeyTemplate"
		dek := proto.Clone(aead.AES256GCMKeyTemplate()).(*tinkpb.KeyTemplate)
		if lo, hi, ok := sliceRange(dek.GetValue()); ok {
			w.reg.Add(interval{lo: lo, hi: hi, kind: ivInput, call: -1, op: op, keep: dek.GetValue()})
		}
		pristine := marshal(dek)
		var t *tinkpb.KeyTemplate
		var err error
		func() {
			defer w.catch(op)
			t, err = aead.CreateKMSEnvelopeAEADKeyTemplate("fake-kms://memory-world", dek)
		}()
		w.obsErr(op, "err", err)
		w.obs(op, "input after the call", marshal(dek))
		if string(marshal(dek)) != string(pristine) {
			w.r.Violation("C19/write-input:"+op, "the DEK template passed to "+op+" was changed by the call")
			w.knownHits++
		}
		if err == nil && t != nil {
			c := w.newCall()
			w.out(op, c, t.GetValue(), false)
			before := marshal(t)
			w.obs(op, "result", before)
			w.culprit = op
			if w.faulted {
				v := dek.GetValue()
				xorAll(v, 0x5c)
				tg := &target{culprit: op, kind: "proto-in", pm: dek, seq: w.tgtSeq, fired: true, undo: func() { xorAll(v, 0x5c) }}
				w.targets = append(w.targets, tg)
				w.flips["flip-proto-in"]++
			} else {
				w.targets = append(w.targets, &target{culprit: op, kind: "proto-in", pm: dek, seq: w.tgtSeq, fired: true})
			}
			w.tgtSeq++
			w.obs(op, "result after the caller changed its input", marshal(t))
			w.culprit = ""
			w.setAdd("ops", op)
		}
	}
	{
		const op = "keyderivation.CreatePRFBasedKeyTemplate"
		prfT := proto.Clone(prf.HKDFSHA256PRFKeyTemplate()).(*tinkpb.KeyTemplate)
		der := proto.Clone(aead.AES128GCMKeyTemplate()).(*tinkpb.KeyTemplate)
		for _, in := range []*tinkpb.KeyTemplate{prfT, der} {
			if lo, hi, ok := sliceRange(in.GetValue()); ok {
				w.reg.Add(interval{lo: lo, hi: hi, kind: ivInput, call: -1, op: op, keep: in.GetValue()})
			}
		}
		p1, p2 := marshal(prfT), marshal(der)
		var t *tinkpb.KeyTemplate
		var err error
		func() {
			defer w.catch(op)
			t, err = keyderivation.CreatePRFBasedKeyTemplate(prfT, der)
		}()
		w.obsErr(op, "err", err)
		if string(marshal(prfT)) != string(p1) || string(marshal(der)) != string(p2) {
			w.r.Violation("C19/write-input:"+op, "a template passed to "+op+" was changed by the call")
			w.knownHits++
		}
		if err == nil && t != nil {
			c := w.newCall()
			w.out(op, c, t.GetValue(), false)
			w.culprit = op
			if w.faulted {
				v1, v2 := prfT.GetValue(), der.GetValue()
				xorAll(v1, 0x33)
				xorAll(v2, 0x33)
				w.targets = append(w.targets, &target{culprit: op, kind: "proto-in", pm: prfT, seq: w.tgtSeq, fired: true, undo: func() { xorAll(v1, 0x33); xorAll(v2, 0x33) }})
				w.flips["flip-proto-in"]++
			} else {
				w.targets = append(w.targets, &target{culprit: op, kind: "proto-in", pm: prfT, seq: w.tgtSeq, fired: true})
			}
			w.tgtSeq++
			w.obs(op, "result after the caller changed its inputs", marshal(t))
			w.culprit = ""
			w.setAdd("ops", op)
		}
	}
}

// helperFn is one package-level helper: it is called with caller buffers and may return byte slices.
type helperFn struct {
	name string
	call func(in func(role string, data []byte) []byte) ([][]byte, error)
}

func ff(n int) []byte {
	b := make([]byte, n)
	for i := range b {
		b[i] = 0xff
	}
	return b
}

var x25519Base = append([]byte{9}, make([]byte, 31)...)

var helperFns = []helperFn{
	{"subtle.ComputeSharedSecretX25519", func(in func(string, []byte) []byte) ([][]byte, error) {
		// an UNCLAMPED private key: an implementation that clamps in place shows
		r, err := tsubtle.ComputeSharedSecretX25519(in("private key", ff(32)), in("public value", x25519Base))
		return [][]byte{r}, err
	}},
	{"subtle.PublicFromPrivateX25519", func(in func(string, []byte) []byte) ([][]byte, error) {
		r, err := tsubtle.PublicFromPrivateX25519(in("private key", ff(32)))
		return [][]byte{r}, err
	}},
	{"subtle.ComputeHKDF", func(in func(string, []byte) []byte) ([][]byte, error) {
		r, err := tsubtle.ComputeHKDF("SHA256", in("key", ff(32)), in("salt", []byte("salt of the memory world")), in("info", []byte("info")), 42)
		return [][]byte{r}, err
	}},
	{"subtle.ComputeHKDF/nosalt", func(in func(string, []byte) []byte) ([][]byte, error) {
		r, err := tsubtle.ComputeHKDF("SHA512", in("key", ff(48)), in("salt", nil), in("info", nil), 64)
		return [][]byte{r}, err
	}},
	{"hybrid/subtle.GetECPrivateKey+PointEncode+PointDecode+ComputeSharedSecret", func(in func(string, []byte) []byte) ([][]byte, error) {
		d := ff(32)
		d[0] = 0x7f
		priv := hybridsubtle.GetECPrivateKey(elliptic.P256(), in("private key bytes", d))
		var outs [][]byte
		for _, f := range []string{"UNCOMPRESSED", "COMPRESSED", "DO_NOT_USE_CRUNCHY_UNCOMPRESSED"} {
			enc, err := hybridsubtle.PointEncode(elliptic.P256(), f, priv.PublicKey.Point)
			if err != nil {
				return outs, err
			}
			outs = append(outs, enc)
			pt, err := hybridsubtle.PointDecode(elliptic.P256(), f, in("encoded point "+f, enc))
			if err != nil {
				return outs, err
			}
			ss, err := hybridsubtle.ComputeSharedSecret(pt, priv)
			if err != nil {
				return outs, err
			}
			outs = append(outs, ss)
		}
		return outs, nil
	}},
}

func (w *world) helperOnce(hf helperFn) {
	op := hf.name
	w.mark()
	for round := 0; round < 2; round++ { // twice: two results of one function must not share memory either
		var bufs []*Buf
		in := func(role string, data []byte) []byte {
			b := w.in(op, role, data, w.nextSpare())
			bufs = append(bufs, b)
			return b.Slice()
		}
		var outs [][]byte
		var err error
		func() {
			defer w.catch(op)
			outs, err = hf.call(in)
		}()
		w.done(op)
		w.obsErr(op, "err", err)
		c := w.newCall()
		for i, o := range outs {
			w.out(op, c, o, true)
			w.obs(op, fmt.Sprint("result ", i), o)
		}
		for _, b := range bufs {
			w.newTarget(&target{culprit: op, kind: "input", buf: b})
		}
	}
	w.setAdd("ops", op)
	w.r.Probe("helper-checked")
}

// runMisc is the whole history of a "misc" run.
func (w *world) runMisc() {
	base := int(w.pl.dataSeed>>8&0xffff) + w.pl.poolIdx
	for i := 0; i < 4; i++ {
		w.templateOnce(templateFns[(base+i*17)%len(templateFns)])
		w.stepSeq++
		w.endStep("template")
	}
	// the seeded shape of bug: a handful of functions sharing one package-level slice — walk one package's neighbours too
	for i := 0; i < 3; i++ {
		w.templateOnce(templateFns[(base+1+i)%len(templateFns)])
	}
	w.templateCombinators()
	for i := 0; i < 2; i++ {
		w.helperOnce(helperFns[(base+i)%len(helperFns)])
		w.stepSeq++
		w.endStep("helper")
	}
	w.stepSeq++
	w.dueFlips(true)
	w.endStep("misc")
}

var _ = []any{daead.AESSIVKeyTemplate, mac.HMACSHA256Tag128KeyTemplate, signature.ED25519KeyTemplate, hybrid.ECIESHKDFAES128GCMKeyTemplate, streamingaead.AES128GCMHKDF4KBKeyTemplate, jwt.HS256Template}
