// Package memory is the C19 world: caller-owned memory is the faulty medium.
//
// Every byte slice that crosses tink's API is carved from simulator-owned buffers
// ([canary | data | patterned spare capacity | canary], simmem_test.go). One drawn history (obtain a key of a
// catalog entry or a stub legacy key type, call every accessor found by reflection, rebuild the key through its
// public constructors and through the parse path, obtain and export handles, build factory primitives and use
// them) is executed twice from the same seed with identical RNG streams: world A (pristine) and world B
// (faulted). In B the harness flips bytes in inputs of earlier calls and in values returned earlier.
//
// Oracles: (a) no caller buffer changes unless the harness changed it; (b) no returned slice shares an address
// range with a caller buffer or with a slice returned by another call; (c) every observation of B equals A's.
package memory

import (
	"bytes"
	"fmt"
	"reflect"
	"sort"
	"strings"
	"testing"
	"testing/cryptotest"

	"google.golang.org/protobuf/proto"

	"github.com/tink-crypto/tink-go/v2/aead/subtle"
	"github.com/tink-crypto/tink-go/v2/insecurecleartextkeyset"
	"github.com/tink-crypto/tink-go/v2/insecuresecretdataaccess"
	"github.com/tink-crypto/tink-go/v2/internal/internalapi"
	"github.com/tink-crypto/tink-go/v2/internal/protoserialization"
	"github.com/tink-crypto/tink-go/v2/key"
	"github.com/tink-crypto/tink-go/v2/keyset"
	tinkpb "github.com/tink-crypto/tink-go/v2/proto/tink_go_proto"
	"github.com/tink-crypto/tink-go/v2/secretdata"
	"github.com/tink-crypto/tink-go/v2/tink"
	"github.com/tink-crypto/tink-go/v2/verifsim/catalog"
	"github.com/tink-crypto/tink-go/v2/verifsim/classes"
	"github.com/tink-crypto/tink-go/v2/verifsim/core"
	"github.com/tink-crypto/tink-go/v2/verifsim/simrng"
	"github.com/tink-crypto/tink-go/v2/verifsim/stubkm"
	"pgregory.net/rapid"
)

const (
	prop       = "C19"
	tinkModule = "github.com/tink-crypto/tink-go/v2/"
)

var (
	outerT *testing.T
	tok    = insecuresecretdataaccess.Token{}
)

func TestMain(m *testing.M) {
	core.DeclareFaults("flip-input", "flip-input-spare", "flip-output", "flip-proto-in", "flip-proto-out", "flip-whole")
	core.DeclareProbes("zero-len-msg", "nil-aux", "zero-spare", "spare-fits-output", "zero-cap-output", "nested-object", "ctor-rebuilt", "params-rebuilt",
		"parse-rebuilt", "legacy-adapter", "second-key", "prim-built-after-flip", "handle-mem-read", "handle-binary", "handle-json",
		"handle-encrypted", "handle-public", "handle-nosecrets", "derived-handle", "old-output-reaccepted", "subtle-built",
		"odd-encoding", "odd-encoding-accepted", "odd-encoding-refused", "stream-aad-flipped-before-first-write", "stream-chunk-flipped-after-write",
		"stream-aad-flipped-before-first-read", "stream-readbuf-flipped-after-read", "read-short-buffer-big-spare", "read-zero-len-buffer", "write-zero-len-chunk",
		"replay-produce-after-overwrite", "replay-accept-after-overwrite", "replay-reference-checked", "prehash-primitives", "second-result-forced", "spare-larger-than-the-call", "template-checked", "helper-checked", "kek-returned-buffer",
		"stream-device-fault-fired", "stream-source-fault-fired", "stream-write-continued-after-io-error", "stream-read-continued-after-io-error")
	if core.Thorough() {
		core.DeclareProbes("pooled-key")
	} else {
		core.DeclareProbes("quick-slow-entry", "pooled-key")
	}
	core.Main(m, prop, "memory", map[string]string{
		"key / parameters constructors and accessors, protoserialization, keyset.Handle / Manager, readers and writers, factories, primitives": "real",
		"crypto/rand": "stub (simrng; same stream in both worlds)", "randomness inside the standard library": "seeded (testing/cryptotest), same in both worlds",
		"caller-owned memory": "stub (simmem arena with canaries, patterned spare capacity, scheduled byte flips)", "custom key managers": "stub (stubkm) so the legacy full*Adapter paths run"})
}

func TestMemory(t *testing.T) {
	outerT = t
	stubkm.Register()
	rapid.Check(t, run)
}

// ---------------------------------------------------------------------------
// entries: catalog entries plus stub (legacy adapter) pseudo entries

type entry struct {
	name    string
	class   string
	keyType string
	variant string
	cat     *catalog.Entry
	stubURL string
	sub     *subtleCase
}

var (
	entryList  []entry
	stubList   []entry
	subtleList []entry
	slowList   []entry // quick tier only: fast pooled Cost-2 entries admitted for a small share of runs
)

// quickSlow: Cost-2 entries whose pooled keys and operations are fast enough for a few percent of quick runs:
// SLH-DSA-128f (sign ~40 ms; not in the watch build, where every statement of the signature passes the hook),
// 2048-bit RSA signatures incl. JWT, composite ML-DSA with 3072-bit RSA.
func quickSlow(e catalog.Entry) int {
	switch e.KeyType {
	case "slhdsa":
		if strings.Contains(e.Name, "-128f/") && !watching {
			return 3 // weight
		}
	case "rsassapkcs1", "rsassapss", "jwtrsassapkcs1", "jwtrsassapss":
		if strings.Contains(e.Name, "n2048") {
			return 1
		}
	case "compositemldsa":
		if strings.Contains(e.Name, "RSA3072") {
			return 1
		}
	}
	return 0
}

func entries() ([]entry, []entry, []entry) {
	if entryList != nil {
		return entryList, stubList, subtleList
	}
	for i := range subtleCases {
		sc := &subtleCases[i]
		subtleList = append(subtleList, entry{name: "subtle/" + sc.op, class: "subtle", keyType: sc.op, variant: "RAW", sub: sc})
	}
	for _, e := range catalog.All() {
		c := e
		if !core.Thorough() && (e.Cost > 1 || catalog.Pooled(e)) {
			for i := quickSlow(e); i > 0; i-- {
				slowList = append(slowList, entry{name: e.Name, class: string(e.Class), keyType: e.KeyType, variant: e.Variant, cat: &c})
			}
			continue
		}
		entryList = append(entryList, entry{name: e.Name, class: string(e.Class), keyType: e.KeyType, variant: e.Variant, cat: &c})
	}
	for _, class := range []string{"mac", "aead", "daead", "signature", "hybrid"} {
		url, _ := stubkm.ClassURL(class)
		for _, v := range []string{"TINK", "CRUNCHY", "LEGACY", "RAW"} {
			stubList = append(stubList, entry{name: class + "/stubkm/" + v, class: class, keyType: "stubkm", variant: v, stubURL: url})
		}
	}
	return entryList, stubList, subtleList
}

// base is the stable prefix of primitive operation names.
func (e entry) base() string {
	if e.cat == nil {
		return e.class + "/stubkm/" + e.variant
	}
	return e.class + "/" + e.keyType
}

var opNames = map[string][2]string{
	"aead": {"Encrypt", "Decrypt"}, "daead": {"EncryptDeterministically", "DecryptDeterministically"}, "mac": {"ComputeMAC", "VerifyMAC"},
	"signature": {"Sign", "Verify"}, "hybrid": {"Encrypt", "Decrypt"}, "prf": {"ComputePrimaryPRF", "ComputePRF"},
	"streamingaead": {"NewEncryptingWriter", "NewDecryptingReader"}, "jwtmac": {"ComputeMACAndEncode", "VerifyMACAndDecode"},
	"jwtsig": {"SignAndEncode", "VerifyAndDecode"}, "keyderivation": {"DeriveKeyset", ""},
}

// ---------------------------------------------------------------------------
// plan: everything rapid decides, drawn before either world runs

const (
	sSweep = iota
	sCtor
	sParse
	sHandleMgr
	sHandleMem
	sHandleBin
	sHandleJSON
	sHandleEnc
	sHandlePub
	sPrims
	sOp
	sSecondKey
	sStream
	sReplay
	sCount
)

var stepNames = [sCount]string{"sweep", "ctor", "parse", "h-mgr", "h-mem", "h-bin", "h-json", "h-enc", "h-pub", "prims", "op", "key2", "stream", "replay"}

// step groups for the run signature
var stepGroup = [sCount]byte{'a', 'c', 'p', 'h', 'i', 'i', 'i', 'i', 'h', 'o', 'o', 'k', 's', 'o'}

type stepSpec struct{ kind, arg int }

type plan struct {
	ent      entry
	poolIdx  int
	idReq    uint32
	rngSeed  uint64
	dataSeed uint64
	steps    []stepSpec
	msgLens  []int
	auxLens  []int
	spares   []int
	// fault plan (cycled lists; used by world B only)
	flipOn    []bool
	flipDelay []int
	flipPos   []int
	flipXor   []byte
	flipWhole []bool
	flipSpare []bool
	slow      bool // a Cost-2 entry admitted to the quick tier
	// decided at genesis, before the worlds fork
	genKeys        []genKey // the run's generated keys as bytes
	perWorldKeygen bool     // a generated key has no serialization: each world generates its own
	stateful       bool     // the library keeps random bytes between calls
	// shapes of multi-step operations and of constructor inputs
	readLens []int // lengths of Write chunks and of caller-supplied Read buffers (cycled)
	ioFault  []int // per streaming phase: 0..2 the underlying writer / reader works, 3..6 it fails at a drawn position (cycled)
	perturb  []int // per constructor byte input: 0..10 as read from the key, 11.. an unusual encoding (cycled)
}

var lenChoices = []int{16, 0, 1, 15, 17, 33, 64, 100, 257, 1000, 4200}

// spare capacities behind caller slices; spareBig stands for "more than everything else in the call" (append- and
// bytes.Buffer-style bugs only write into a capacity that suffices)
const spareBig = -1

var spareChoices = []int{0, 1, 8, 40, 300, 6000, 3, 16, 64, spareBig}
var readLenChoices = []int{64, 0, 1, 7, 16, 48, 100, 300, 1024, 4096, 5000}

func drawPlan(t *rapid.T) *plan {
	cat, stubs, subs := entries()
	p := &plan{}
	slow := false
	switch k := rapid.IntRange(0, 39).Draw(t, "entryKind"); {
	case k >= 36:
		p.ent = stubs[rapid.IntRange(0, len(stubs)-1).Draw(t, "stub")]
	case k >= 32:
		p.ent = subs[rapid.IntRange(0, len(subs)-1).Draw(t, "subtle")]
	case k == 30:
		p.ent = entry{name: "misc/templates-and-helpers", class: "misc", keyType: "misc", variant: "NONE"}
	case k == 31 && len(slowList) > 0:
		p.ent = slowList[rapid.IntRange(0, len(slowList)-1).Draw(t, "slowEntry")]
		slow = true
	default:
		p.ent = cat[rapid.IntRange(0, len(cat)-1).Draw(t, "entry")]
	}
	p.poolIdx = rapid.IntRange(0, catalog.PoolKeysPerGroup-1).Draw(t, "poolIdx")
	p.idReq = rapid.Uint32().Draw(t, "idReq")
	p.rngSeed = rapid.Uint64().Draw(t, "rngSeed")
	p.dataSeed = rapid.Uint64().Draw(t, "dataSeed")
	n := rapid.IntRange(0, 10).Draw(t, "nSteps")
	for i := 0; i < n; i++ {
		p.steps = append(p.steps, stepSpec{kind: rapid.IntRange(0, sCount-1).Draw(t, "step"), arg: rapid.IntRange(0, 9).Draw(t, "arg")})
	}
	if slow && len(p.steps) > 2 {
		p.steps = p.steps[:2] // short histories keep these runs cheap
	}
	p.slow = slow
	p.msgLens = rapid.SliceOfN(rapid.SampledFrom(lenChoices), 1, 4).Draw(t, "msgLens")
	p.auxLens = rapid.SliceOfN(rapid.SampledFrom(lenChoices[:8]), 1, 3).Draw(t, "auxLens")
	p.spares = rapid.SliceOfN(rapid.SampledFrom(spareChoices), 1, 4).Draw(t, "spares")
	p.flipOn = rapid.SliceOfN(rapid.Bool(), 1, 6).Draw(t, "flipOn")
	p.flipDelay = rapid.SliceOfN(rapid.IntRange(0, 3), 1, 4).Draw(t, "flipDelay")
	p.flipPos = rapid.SliceOfN(rapid.IntRange(0, 1<<16), 1, 4).Draw(t, "flipPos")
	p.flipXor = rapid.SliceOfN(rapid.ByteRange(1, 255), 1, 4).Draw(t, "flipXor")
	p.flipWhole = rapid.SliceOfN(rapid.Bool(), 1, 3).Draw(t, "flipWhole")
	p.flipSpare = rapid.SliceOfN(rapid.Bool(), 1, 3).Draw(t, "flipSpare")
	p.readLens = rapid.SliceOfN(rapid.SampledFrom(readLenChoices), 1, 4).Draw(t, "readLens")
	p.perturb = rapid.SliceOfN(rapid.IntRange(0, 15), 1, 4).Draw(t, "perturb")
	p.ioFault = rapid.SliceOfN(rapid.IntRange(0, 6), 1, 3).Draw(t, "ioFault")
	return p
}

// ---------------------------------------------------------------------------
// world

type obj struct {
	v      any // key.Key or key.Parameters
	label  string
	origin string
	isKey  bool
	eqTo   int // object it must stay Equal to (-1: none)
	kids   map[string]int
}

type hnd struct {
	h      *keyset.Handle
	origin string
	public bool
}

type sample struct{ msg, aux, out []byte }

// prim is one primitive (pair): how to produce an output and how to accept it.
type prim struct {
	ent        entry
	opP, opA   string // stable operation names
	hidx       int
	det        bool                                      // equal inputs give equal outputs without the RNG
	produce    func(msg, aux []byte) ([]byte, error)     // Encrypt / ComputeMAC / Sign / ...
	decrypt    func(ct, aux []byte) ([]byte, error)      // accepting side of encrypting classes: returns the plaintext
	verify     func(out, msg, aux []byte) error          // accepting side of the other classes
	derive     func(salt []byte) (*keyset.Handle, error) // key derivation only
	fitMsg     func(n int) int                           // message lengths the primitive takes (nil: any)
	stream     streamer                                  // streaming primitives: the multi-step interface
	prep       func(msg []byte) []byte                   // turns a drawn message into the input the operation takes (nil: as drawn)
	softAccept bool                                      // whether the accepting side takes the output is an observation only
	noRef      bool                                      // not one of the classes.NewProducer primitives
	nOut       int                                       // results produced so far
	lenient    bool                                      // built from an unusual encoding: refusals are observations, not harness trouble
	samples    []sample
}

type target struct {
	culprit string
	kind    string // "input", "output", "proto-in", "proto-out"
	buf     *Buf
	out     []byte
	pm      proto.Message
	due     int
	fired   bool
	seq     int
	undo    func()
	// dataOnly: a flip made between two steps of one operation always hits the data the caller passed
	dataOnly bool
}

type rec struct {
	op, what string
	sum      uint64
	n        int
	head     []byte
}

type abortB struct{}

// callRec: the caller buffers of one primitive call.
type callRec struct{ ctB, msgB, auxB *Buf }

type msgRef struct {
	call int
	keep proto.Message
}

type world struct {
	r       *core.Run
	t       *rapid.T
	g       *simrng.RNG
	pl      *plan
	faulted bool
	twin    *world

	objs    []*obj
	byPtr   map[uintptr]int
	keys    []int // object indices of complete keys of the entry (root, second key, rebuilt, parsed, handle entries)
	handles []*hnd
	prims   []*prim
	bufs    []*Buf
	hot     []*Buf
	targets []*target
	reg     Registry
	msgPtrs map[uintptr]msgRef // proto message pointer -> call that handed it out (the message is kept alive: addresses of dead objects get reused)

	log     []rec
	marks   []int
	markN   int
	cursor  int
	skip    bool
	culprit string // set while a flip's effect is being looked for

	acc        uint64            // world A: running hash of all observations
	ctx        string            // which object / handle is being looked at (trace only)
	lastLogged map[string]uint64 // trace only

	calls     int
	stepSeq   int
	tgtSeq    int
	dataCtr   uint64
	shapeCtr  int
	master    tink.AEAD
	noHandles bool // the entry's keys cannot be serialized
	inStream  bool // a step-by-step streaming operation is in progress
	faultCtr  int  // indexes plan.ioFault
	keyCtr    int  // generated keys imported so far
	mgrCtr    int  // handles made through a manager so far
	pertCtr   int  // constructor byte inputs seen (indexes plan.perturb)
	readCtr   int  // indexes plan.readLens
	chainOdd  bool // an input of the constructor chain in progress was given an unusual encoding
	mayReject bool // the accept in progress is given altered content on purpose
	// buffers of the most recent produce / accept call (for the replay step)
	lastProduce, lastAccept *callRec
	tolerate                bool // an operation of a lenient primitive is in progress
	oddKeys                 bool // a key built from an unusual encoding joined the run's keys: refusals further down are observations

	// statistics
	flips     map[string]int
	groups    map[byte]bool
	knownHits int
	// set by the in-call watcher (instr build only): a caller buffer was seen modified while a call was in progress
	transient       string
	transientRegion string
	aborted         bool
	accSeen         map[string]bool
}

// oddInputsInPlay: this run feeds (or has built objects from) harness-perturbed, possibly illegal encodings. C19 says
// nothing about panics; a constructor or accessor that panics on such an input writes nowhere and shares nothing, so it
// is recorded like a panic of an operation on a lenient primitive.
func (w *world) oddInputsInPlay() bool { return w.chainOdd || w.oddKeys }

func (w *world) catch(op string) {
	if p := recover(); p != nil {
		if _, ok := p.(abortB); ok {
			panic(p)
		}
		s := fmt.Sprintf("%T", p)
		if s == "rapid.stopTest" || s == "rapid.invalidData" {
			panic(p)
		}
		if w.tolerate || w.oddInputsInPlay() {
			// An operation of a primitive whose constructor accepted an unusual (possibly illegal) encoding. That the
			// constructor did not refuse it, and that the operation panics instead of failing, is not what C19 is
			// about: recorded (both worlds must agree), listed in the evidence, not raised.
			w.obsS(op, "panic", "panic")
			w.r.Count("panic-after-odd-encoding", 1)
			w.setAdd("panic-after-odd-encoding", fmt.Sprintf("%s: %v", op, p))
			return
		}
		if w.faulted {
			// world A went through the same call without a panic
			w.mismatch(op, fmt.Sprintf("%s panicked in world B only: %v", op, p))
			return
		}
		w.r.Violation("C19/panic:"+op, fmt.Sprintf("%s panicked: %v", op, p))
	}
}

func (w *world) fatalf(format string, args ...any) {
	w.t.Fatalf("harness: "+format, args...)
}

func (w *world) setAdd(set, elem string) {
	if w.faulted {
		return
	}
	k := set + "\x00" + elem
	if !w.accSeen[k] {
		w.accSeen[k] = true
		w.r.SetAdd(set, elem)
	}
}

// ---------------------------------------------------------------------------
// caller buffers

// in copies data into a fresh caller buffer that is about to be passed to op.
func (w *world) in(op, role string, data []byte, spare int) *Buf {
	b := NewBuf(op, role, data, spare)
	w.bufs = append(w.bufs, b)
	w.hot = append(w.hot, b)
	lo, hi := b.Range()
	w.reg.Add(interval{lo: lo, hi: hi, kind: ivInput, call: -1, op: op, keep: b.full})
	if spare == 0 {
		w.r.Probe("zero-spare")
	}
	return b
}

func (w *world) nextSpare() int { return w.nextSpareFor(512) }

// nextSpareFor: the next drawn spare capacity; big is what "larger than everything else in the call" means here.
func (w *world) nextSpareFor(big int) int {
	w.shapeCtr++
	s := w.pl.spares[w.shapeCtr%len(w.pl.spares)]
	if s == spareBig {
		w.r.Probe("spare-larger-than-the-call")
		return max(big, 512)
	}
	return s
}

// checkBufs verifies invariant (a) for the given buffers, attributing damage to op.
func (w *world) checkBufs(op string, bufs []*Buf) {
	for _, b := range bufs {
		region, off := b.Check()
		if region == "" {
			continue
		}
		detail := fmt.Sprintf("%s: the %s buffer passed to %s (len %d, spare %d) changed in its %s region at offset %d; now %s want %s",
			op, b.Role, b.Op, b.n, b.spare, region, off, core.Hex(b.full, 96), core.Hex(b.want, 96))
		b.Heal()
		w.r.Violation("C19/write-"+region+":"+op, detail)
		w.knownHits++
	}
}

// done is called after every tink call that received caller buffers.
func (w *world) done(op string) {
	if w.transient != "" {
		// seen modified during the call; checkBufs below reports it if it is still modified, otherwise it was undone
		tr, region := w.transient, w.transientRegion
		w.transient = ""
		clean := true
		for _, b := range w.hot {
			if r, _ := b.Check(); r != "" {
				clean = false
			}
		}
		if clean {
			w.r.Probe("transient-write-seen")
			w.r.Violation("C19/write-transient-"+region+":"+op, op+": "+tr+"; the buffer was restored before the call returned")
			w.knownHits++
		}
	}
	w.checkBufs(op, w.hot)
	w.hot = w.hot[:0]
}

// ---------------------------------------------------------------------------
// returned slices

func (w *world) newCall() int { w.calls++; return w.calls }

// out registers a slice returned by tink (invariant (b)) and may schedule it for a flip.
func (w *world) out(op string, call int, b []byte, flippable bool) {
	lo, hi, ok := sliceRange(b)
	if !ok {
		w.r.Probe("zero-cap-output")
		return
	}
	var hitIn, hitOut *interval
	w.reg.Overlaps(lo, hi, func(iv *interval) {
		if iv.kind == ivInput && hitIn == nil {
			hitIn = iv
		}
		if iv.kind == ivOutput && iv.call != call && hitOut == nil {
			hitOut = iv
		}
	})
	if hitIn != nil {
		w.r.Violation("C19/alias-input:"+op, fmt.Sprintf("the slice returned by %s (len %d cap %d) shares memory with a caller buffer passed to %s", op, len(b), cap(b), hitIn.op))
		w.knownHits++
	}
	if hitOut != nil {
		w.r.Violation("C19/alias-out:"+op, fmt.Sprintf("the slice returned by %s (len %d cap %d) shares memory with the slice returned earlier by another call (%s)", op, len(b), cap(b), hitOut.op))
		w.knownHits++
	}
	w.reg.Add(interval{lo: lo, hi: hi, kind: ivOutput, call: call, op: op, keep: b})
	if flippable && len(b) > 0 {
		w.newTarget(&target{culprit: op, kind: "output", out: b})
	}
}

// msgPtr checks that a proto message handed out by tink is not handed out by another call as well.
func (w *world) msgPtr(op string, call int, m proto.Message) {
	rv := reflect.ValueOf(m)
	if rv.Kind() != reflect.Pointer || rv.IsNil() {
		return
	}
	p := rv.Pointer()
	if c, ok := w.msgPtrs[p]; ok && c.call != call {
		w.r.Violation("C19/alias-out:"+op, fmt.Sprintf("%s handed out the same %T message object as an earlier call", op, m))
		w.knownHits++
	}
	w.msgPtrs[p] = msgRef{call: call, keep: m}
}

// outKeyset registers the byte fields and message objects of a keyset proto returned by tink.
func (w *world) outKeyset(op string, call int, ks *tinkpb.Keyset, flippable bool) {
	if ks == nil {
		return
	}
	w.msgPtr(op, call, ks)
	for _, k := range ks.GetKey() {
		w.msgPtr(op, call, k)
		w.msgPtr(op, call, k.GetKeyData())
		w.out(op, call, k.GetKeyData().GetValue(), false)
	}
	if flippable {
		w.newTarget(&target{culprit: op, kind: "proto-out", pm: ks})
	}
}

// inKeyset registers a harness-owned keyset proto that is about to be passed to op.
func (w *world) inKeyset(op string, ks *tinkpb.Keyset) {
	for _, k := range ks.GetKey() {
		if lo, hi, ok := sliceRange(k.GetKeyData().GetValue()); ok {
			w.reg.Add(interval{lo: lo, hi: hi, kind: ivInput, call: -1, op: op, keep: k.GetKeyData().GetValue()})
		}
	}
	w.newTarget(&target{culprit: op, kind: "proto-in", pm: ks})
}

// ---------------------------------------------------------------------------
// fault plan

const maxFlips = 40

func (w *world) newTarget(tg *target) {
	tg.seq = w.tgtSeq
	w.tgtSeq++
	pl := w.pl
	if !pl.flipOn[tg.seq%len(pl.flipOn)] || len(w.targets) >= maxFlips {
		return
	}
	tg.due = w.stepSeq + pl.flipDelay[tg.seq%len(pl.flipDelay)]
	w.targets = append(w.targets, tg)
}

func xorAll(b []byte, x byte) {
	for i := range b {
		b[i] ^= x
	}
}

// mutateKeyset flips what a caller could reach in a keyset proto; returns the undo.
func mutateKeyset(ks *tinkpb.Keyset, pos int, x byte, whole bool) (undo func()) {
	var undos []func()
	for i, k := range ks.GetKey() {
		if i != pos%len(ks.GetKey()) && !whole {
			continue
		}
		k := k
		if v := k.GetKeyData().GetValue(); len(v) > 0 {
			if whole {
				xorAll(v, x)
				undos = append(undos, func() { xorAll(v, x) })
			} else {
				j := (pos / 7) % len(v)
				v[j] ^= x
				undos = append(undos, func() { v[j] ^= x })
			}
		}
		if whole {
			oid, ost, opt := k.KeyId, k.Status, k.OutputPrefixType
			var ourl string
			k.KeyId ^= uint32(x)
			if k.Status == tinkpb.KeyStatusType_ENABLED {
				k.Status = tinkpb.KeyStatusType_DISABLED
			} else {
				k.Status = tinkpb.KeyStatusType_ENABLED
			}
			if k.OutputPrefixType == tinkpb.OutputPrefixType_RAW {
				k.OutputPrefixType = tinkpb.OutputPrefixType_TINK
			} else {
				k.OutputPrefixType = tinkpb.OutputPrefixType_RAW
			}
			kd := k.GetKeyData()
			if kd != nil {
				ourl = kd.TypeUrl
				kd.TypeUrl += "x"
			}
			undos = append(undos, func() {
				k.KeyId, k.Status, k.OutputPrefixType = oid, ost, opt
				if kd != nil {
					kd.TypeUrl = ourl
				}
			})
		}
	}
	if whole {
		op := ks.PrimaryKeyId
		ks.PrimaryKeyId ^= uint32(x)
		undos = append(undos, func() { ks.PrimaryKeyId = op })
	}
	return func() {
		for i := len(undos) - 1; i >= 0; i-- {
			undos[i]()
		}
	}
}

func mutateMessage(m proto.Message, pos int, x byte, whole bool) (undo func()) {
	switch v := m.(type) {
	case *tinkpb.Keyset:
		return mutateKeyset(v, pos, x, whole)
	case *tinkpb.KeysetInfo:
		var undos []func()
		for i, k := range v.GetKeyInfo() {
			if i != pos%len(v.GetKeyInfo()) && !whole {
				continue
			}
			k := k
			oid, ourl, ost := k.KeyId, k.TypeUrl, k.Status
			k.KeyId ^= uint32(x)
			k.TypeUrl += "x"
			k.Status = tinkpb.KeyStatusType_DESTROYED
			undos = append(undos, func() { k.KeyId, k.TypeUrl, k.Status = oid, ourl, ost })
		}
		op := v.PrimaryKeyId
		v.PrimaryKeyId ^= uint32(x)
		undos = append(undos, func() { v.PrimaryKeyId = op })
		return func() {
			for _, u := range undos {
				u()
			}
		}
	case *tinkpb.KeyData:
		val := v.GetValue()
		ourl := v.TypeUrl
		if whole {
			xorAll(val, x)
			v.TypeUrl += "x"
			return func() { xorAll(val, x); v.TypeUrl = ourl }
		}
		if len(val) == 0 {
			v.TypeUrl += "x"
			return func() { v.TypeUrl = ourl }
		}
		j := pos % len(val)
		val[j] ^= x
		return func() { val[j] ^= x }
	case *tinkpb.EncryptedKeyset:
		val := v.GetEncryptedKeyset()
		if len(val) == 0 {
			return func() {}
		}
		if whole {
			xorAll(val, x)
			return func() { xorAll(val, x) }
		}
		j := pos % len(val)
		val[j] ^= x
		return func() { val[j] ^= x }
	}
	return func() {}
}

// apply changes the bytes of one target (world B only).
func (w *world) apply(tg *target) {
	pl := w.pl
	pos := pl.flipPos[tg.seq%len(pl.flipPos)]
	x := pl.flipXor[tg.seq%len(pl.flipXor)]
	whole := pl.flipWhole[tg.seq%len(pl.flipWhole)]
	switch tg.kind {
	case "input":
		spare := pl.flipSpare[tg.seq%len(pl.flipSpare)] && tg.buf.spare > 0 && !tg.dataOnly
		region := tg.buf.Data()
		if spare {
			region = tg.buf.SpareRegion()
		}
		if len(region) == 0 {
			return
		}
		b, n := tg.buf, len(region)
		if whole {
			for i := 0; i < n; i++ {
				b.Poke(spare, i, x)
			}
			tg.undo = func() {
				for i := 0; i < n; i++ {
					b.Poke(spare, i, x)
				}
			}
		} else {
			i := pos % n
			b.Poke(spare, i, x)
			tg.undo = func() { b.Poke(spare, i, x) }
		}
		if spare {
			w.flips["flip-input-spare"]++
		} else {
			w.flips["flip-input"]++
		}
	case "output":
		o := tg.out
		if len(o) == 0 {
			return
		}
		if whole {
			xorAll(o, x)
			tg.undo = func() { xorAll(o, x) }
		} else {
			i := pos % len(o)
			o[i] ^= x
			tg.undo = func() { o[i] ^= x }
		}
		w.flips["flip-output"]++
	case "proto-in", "proto-out":
		tg.undo = mutateMessage(tg.pm, pos, x, whole)
		w.flips["flip-"+tg.kind]++
	}
	if whole {
		w.flips["flip-whole"]++
	}
	w.r.Logf("B: flip %s of %s (seq %d, pos %d, xor %02x, whole %v)", tg.kind, tg.culprit, tg.seq, pos, x, whole)
}

// fire applies one scheduled flip. World A only pretends (so that both worlds make the same calls).
func (w *world) fire(tg *target) {
	tg.fired = true
	if w.faulted {
		w.apply(tg)
	}
	// look for an effect right away so that it can be attributed to this very flip
	w.culprit = tg.culprit
	w.sweep(false)
	if e := w.pl.ent; e.sub != nil || e.cat == nil || e.cat.Cost == 0 {
		w.usePrims()
	}
	w.culprit = ""
}

// dueFlips fires the flips scheduled up to the current step (all of them when final).
func (w *world) dueFlips(final bool) {
	for i := 0; i < len(w.targets); i++ { // targets may grow while sweeping
		tg := w.targets[i]
		if tg.fired || (!final && tg.due > w.stepSeq) {
			continue
		}
		w.fire(tg)
	}
}

func (w *world) undoAll() {
	for i := len(w.targets) - 1; i >= 0; i-- {
		if u := w.targets[i].undo; u != nil {
			u()
			w.targets[i].undo = nil
		}
	}
}

func equalObj(a, b any) bool {
	switch x := a.(type) {
	case key.Key:
		y, ok := b.(key.Key)
		return ok && x.Equal(y)
	case key.Parameters:
		y, ok := b.(key.Parameters)
		return ok && x.Equal(y)
	}
	return false
}

// ---------------------------------------------------------------------------
// observations (oracle (c))

func fnv(b []byte) uint64 {
	h := uint64(14695981039346656037)
	for _, c := range b {
		h ^= uint64(c)
		h *= 1099511628211
	}
	return h
}

// mark aligns B's reading position with A's log at the start of every step and sweep.
func (w *world) mark() {
	if !w.faulted {
		w.marks = append(w.marks, len(w.log))
		return
	}
	if w.markN < len(w.twin.marks) {
		w.cursor = w.twin.marks[w.markN]
	} else {
		w.cursor = len(w.twin.log)
	}
	w.markN++
	w.skip = false
}

// obs records (world A) or compares (world B) one observation. World A folds everything into one running hash
// that goes into the run's determinism digest at the end; the trace only gets a line when a value is new or has changed.
func (w *world) obs(op, what string, data []byte) { w.obsX(op, what, data, false) }

func (w *world) obsS(op, what, s string) { w.obsX(op, what, []byte(s), true) }

func (w *world) obsX(op, what string, data []byte, text bool) {
	sum := fnv(data)
	if !w.faulted {
		r := rec{op: op, what: what, sum: sum, n: len(data)}
		w.acc = (w.acc ^ sum ^ fnv([]byte(op)) ^ uint64(len(what))) * 1099511628211
		if w.r.Tracing() {
			r.head = bytes.Clone(data[:min(len(data), 24)])
			k := w.ctx + "|" + op + "|" + what
			if last, ok := w.lastLogged[k]; !ok || last != sum {
				w.lastLogged[k] = sum
				if text {
					w.r.Logf("A: %s %s %s = %s", w.ctx, op, what, data)
				} else {
					w.r.Logf("A: %s %s %s = %s", w.ctx, op, what, core.Hex(data, 40))
				}
			}
		}
		w.log = append(w.log, r)
		return
	}
	if w.skip {
		return
	}
	show := func(b []byte) string {
		if text {
			return string(b)
		}
		return core.Hex(b, 32)
	}
	a := w.twin.log
	if w.cursor >= len(a) {
		w.mismatch(op, fmt.Sprintf("world B observes %s %s = %s where world A had finished the step", op, what, show(data)))
		return
	}
	e := a[w.cursor]
	w.cursor++
	if e.op != op || e.what != what {
		w.mismatch(op, fmt.Sprintf("world B observes %s %s where world A observed %s %s (control flow differs)", op, what, e.op, e.what))
		return
	}
	if e.n != len(data) || e.sum != sum {
		w.mismatch(op, fmt.Sprintf("%s %s: world B has %s (%d bytes), world A had %s (%d bytes)", op, what, show(data), len(data), show(e.head), e.n))
	}
}

func (w *world) obsErr(op, what string, err error) {
	if err != nil {
		if w.r.Tracing() {
			w.r.Logf("%s: %s %s error: %v", w.name(), op, what, err)
		}
		w.obsS(op, what, "err")
		return
	}
	w.obsS(op, what, "ok")
}

// mismatch: an observation of B differs from A's.
func (w *world) mismatch(op, detail string) {
	culprit := w.culprit
	if culprit == "" {
		culprit = op
	} else {
		detail = "after flipping a byte of a value that went through " + culprit + ": " + detail
	}
	w.r.Violation("C19/mutation-visible:"+culprit, detail)
	// Only known findings come back here. From now on world B is a different world (objects differ, calls fail):
	// comparing it further with A would only echo this finding under other names, so B is abandoned; its flips
	// are undone by execute.
	w.knownHits++
	panic(abortB{})
}

// ---------------------------------------------------------------------------
// objects and reflective accessors

type mkind int

const (
	mScalar mkind = iota
	mBytes
	mSecret
	mNested
)

type minfo struct {
	idx  int
	name string
	kind mkind
	op   string
}

var (
	methodCache    = map[reflect.Type][]minfo{}
	pendingSkipped []string
	tBytes         = reflect.TypeOf([]byte(nil))
	tSecret        = reflect.TypeOf(secretdata.Bytes{})
	tKey           = reflect.TypeOf((*key.Key)(nil)).Elem()
	tParams        = reflect.TypeOf((*key.Parameters)(nil)).Elem()
	tErr           = reflect.TypeOf((*error)(nil)).Elem()
)

func typeLabel(t reflect.Type) string {
	ptr := false
	if t.Kind() == reflect.Pointer {
		ptr = true
		t = t.Elem()
	}
	pkg := strings.TrimPrefix(t.PkgPath(), tinkModule)
	if ptr {
		return pkg + ".(*" + t.Name() + ")"
	}
	return pkg + "." + t.Name()
}

func scalarKind(t reflect.Type) bool {
	switch t.Kind() {
	case reflect.Bool, reflect.Int, reflect.Int8, reflect.Int16, reflect.Int32, reflect.Int64,
		reflect.Uint, reflect.Uint8, reflect.Uint16, reflect.Uint32, reflect.Uint64, reflect.String:
		return true
	}
	return false
}

// methodsOf lists the exported zero-argument methods of a key / parameters type, classified by what they return.
func methodsOf(t reflect.Type) []minfo {
	if l, ok := methodCache[t]; ok {
		return l
	}
	label := typeLabel(t)
	var l []minfo
	for i := 0; i < t.NumMethod(); i++ {
		m := t.Method(i)
		mt := m.Type
		if mt.NumIn() != 1 || mt.NumOut() == 0 {
			continue
		}
		nout := mt.NumOut()
		if mt.Out(nout-1) == tErr {
			nout--
		}
		if nout == 0 {
			continue
		}
		mi := minfo{idx: i, name: m.Name, op: label + "." + m.Name}
		o := mt.Out(0)
		switch {
		case o == tBytes && nout == 1:
			mi.kind = mBytes
		case o == tSecret && nout == 1:
			mi.kind = mSecret
		case (o.Implements(tKey) || o.Implements(tParams)) && nout == 1:
			mi.kind = mNested
		default:
			ok := true
			for j := 0; j < nout; j++ {
				if !scalarKind(mt.Out(j)) {
					ok = false
				}
			}
			if !ok {
				pendingSkipped = append(pendingSkipped, mi.op+" returns "+o.String())
				continue
			}
			mi.kind = mScalar
		}
		l = append(l, mi)
	}
	methodCache[t] = l
	return l
}

func ptrOf(v any) uintptr {
	rv := reflect.ValueOf(v)
	if rv.Kind() == reflect.Pointer {
		return rv.Pointer()
	}
	return 0
}

// addObj registers a key / parameters object as live; objects already known (same pointer) are not added twice.
func (w *world) addObj(v any, origin string, eqTo int) int {
	p := ptrOf(v)
	if p != 0 {
		if i, ok := w.byPtr[p]; ok {
			return i
		}
	}
	_, isKey := v.(key.Key)
	o := &obj{v: v, label: typeLabel(reflect.TypeOf(v)), origin: origin, isKey: isKey, eqTo: eqTo, kids: map[string]int{}}
	w.objs = append(w.objs, o)
	i := len(w.objs) - 1
	if p != 0 {
		w.byPtr[p] = i
	}
	return i
}

const maxObjs = 64

// sweepObj calls every accessor of one object, checks (b) on what comes back and logs the values for (c).
func (w *world) sweepObj(i int, flippable bool) {
	o := w.objs[i]
	if w.r.Tracing() {
		w.ctx = fmt.Sprintf("obj%d(%s)", i, o.origin)
		defer func() { w.ctx = "" }()
	}
	// twin equality
	func() {
		defer w.catch(o.label + ".Equal")
		eq := true
		if w.faulted {
			if i < len(w.twin.objs) {
				eq = equalObj(o.v, w.twin.objs[i].v)
			}
		} else {
			eq = equalObj(o.v, o.v)
		}
		w.obsS(o.label+".Equal", "twin", fmt.Sprint(eq))
		if o.eqTo >= 0 {
			w.obsS(o.label+".Equal", "original", fmt.Sprint(equalObj(o.v, w.objs[o.eqTo].v)))
		}
	}()
	rv := reflect.ValueOf(o.v)
	for _, mi := range methodsOf(rv.Type()) {
		mi := mi
		func() {
			defer w.catch(mi.op)
			res := rv.Method(mi.idx).Call(nil)
			call := w.newCall()
			if n := len(res); res[n-1].Type() == tErr {
				if !res[n-1].IsNil() {
					w.obsS(mi.op, "err", "err")
					return
				}
				res = res[:n-1]
			}
			switch mi.kind {
			case mBytes:
				b := res[0].Bytes()
				w.out(mi.op, call, b, flippable)
				w.obs(mi.op, "val", b)
				w.setAdd("accessors", mi.op)
			case mSecret:
				sd := res[0].Interface().(secretdata.Bytes)
				b := sd.Data(tok)
				w.out(mi.op, call, b, flippable)
				w.obs(mi.op, "val", b)
				w.setAdd("accessors", mi.op)
			case mNested:
				if res[0].Kind() == reflect.Interface || res[0].Kind() == reflect.Pointer {
					if res[0].IsNil() {
						w.obsS(mi.op, "val", "nil")
						return
					}
				}
				x := res[0].Interface()
				if j, ok := o.kids[mi.name]; ok && ptrOf(x) != ptrOf(w.objs[j].v) {
					// a fresh object on every call: keep watching the first one, compare the new one with it
					w.obsS(mi.op, "same", fmt.Sprint(equalObj(x, w.objs[j].v)))
					return
				}
				if _, ok := o.kids[mi.name]; !ok && len(w.objs) < maxObjs {
					before := len(w.objs)
					j := w.addObj(x, mi.op, -1)
					o.kids[mi.name] = j
					if j == before {
						w.r.Probe("nested-object")
					}
				}
				w.setAdd("accessors", mi.op)
			case mScalar:
				var sb strings.Builder
				for _, r := range res {
					fmt.Fprint(&sb, r.Interface(), " ")
				}
				w.obsS(mi.op, "val", sb.String())
			}
		}()
	}
}

func marshal(m proto.Message) []byte {
	b, err := proto.MarshalOptions{Deterministic: true}.Marshal(m)
	if err != nil {
		return []byte("marshal error: " + err.Error())
	}
	return b
}

// sweepHandle exports a handle in every way and logs the results.
func (w *world) sweepHandle(i int, flippable bool) {
	h := w.handles[i]
	if w.r.Tracing() {
		w.ctx = fmt.Sprintf("handle%d(%s)", i, h.origin)
		defer func() { w.ctx = "" }()
	}
	const opInfo, opMat, opStr = "keyset.(*Handle).KeysetInfo", "insecurecleartextkeyset.KeysetMaterial", "keyset.(*Handle).String"
	func() {
		defer w.catch(opInfo)
		info := h.h.KeysetInfo()
		call := w.newCall()
		w.msgPtr(opInfo, call, info)
		for _, ki := range info.GetKeyInfo() {
			w.msgPtr(opInfo, call, ki)
		}
		w.obs(opInfo, "val", marshal(info))
		if flippable {
			w.newTarget(&target{culprit: opInfo, kind: "proto-out", pm: info})
		}
		w.setAdd("ops", opInfo)
	}()
	func() {
		defer w.catch(opMat)
		ks := insecurecleartextkeyset.KeysetMaterial(h.h)
		call := w.newCall()
		w.outKeyset(opMat, call, ks, flippable)
		w.obs(opMat, "val", marshal(ks))
		w.setAdd("ops", opMat)
	}()
	func() {
		defer w.catch(opStr)
		w.obsS(opStr, "val", h.h.String())
	}()
	func() {
		defer w.catch("keyset.(*Handle).Entry")
		for j := 0; j < h.h.Len(); j++ {
			e, err := h.h.Entry(j)
			if err != nil {
				w.obsS("keyset.(*Handle).Entry", "err", "err")
				continue
			}
			if len(w.objs) < maxObjs {
				before := len(w.objs)
				k := w.addObj(e.Key(), "keyset.(*Entry).Key", -1)
				if k == before && !h.public {
					w.keys = append(w.keys, k)
				}
			}
			w.obsS("keyset.(*Entry)", "meta", fmt.Sprint(e.KeyID(), e.IsPrimary(), e.KeyStatus()))
		}
	}()
}

// sweep: all accessors of all live objects, all exports of all handles.
func (w *world) sweep(flippable bool) {
	w.mark()
	for i := 0; i < len(w.objs); i++ {
		w.sweepObj(i, flippable)
	}
	for i := 0; i < len(w.handles); i++ {
		w.sweepHandle(i, flippable)
	}
}

// ---------------------------------------------------------------------------
// deterministic test data (not from the RNG seam: that stream belongs to tink)

func (w *world) data(n int) []byte {
	b := make([]byte, n)
	w.dataCtr++
	x := w.pl.dataSeed ^ (w.dataCtr * 0x9e3779b97f4a7c15)
	for i := range b {
		x ^= x << 13
		x ^= x >> 7
		x ^= x << 17
		b[i] = byte(x >> 24)
	}
	return b
}

// ---------------------------------------------------------------------------
// steps

func (w *world) pickKey(arg int) int {
	if len(w.keys) == 0 {
		return -1
	}
	return w.keys[arg%len(w.keys)]
}

func (w *world) newKey(first bool) {
	e := w.pl.ent
	if e.sub != nil {
		w.subtleBuild()
		return
	}
	if e.cat == nil {
		w.stubHandle()
		return
	}
	op := "catalog.NewKey"
	var k key.Key
	var err error
	func() {
		defer w.catch(op)
		if catalog.Pooled(*e.cat) {
			idx := w.pl.poolIdx
			if !first {
				idx++
			}
			k, _, err = catalog.PoolKey(*e.cat, idx, w.pl.idReq)
			w.r.Probe("pooled-key")
		} else if n := len(w.pl.genKeys); n > 0 {
			// generated once at genesis; this world's own objects are parsed from the same bytes
			k, err = importKey(w.pl.genKeys[w.keyCtr%n])
			w.keyCtr++
		} else {
			k, err = catalog.NewKey(*e.cat)
		}
	}()
	if err != nil || k == nil {
		w.fatalf("cannot obtain a key for %s: %v", e.name, err)
	}
	i := w.addObj(k, op, -1)
	w.keys = append(w.keys, i)
	if _, err := protoserialization.SerializeKey(k); err != nil {
		// e.g. RSA-SSA-PSS with salt length 0: the key works but has no serialization, so a handle holding it cannot
		// be exported (KeysetInfo panics). Nothing C19 talks about; such keys are exercised without handles.
		w.noHandles = true
		w.r.Count("unserializable-key", 1)
		w.setAdd("unserializable", e.name)
	}
}

// stubHandle builds a keyset proto of a stub key type (no key parser: tink wraps it into a fallback proto key) and reads it.
func (w *world) stubHandle() {
	e := w.pl.ent
	const op = "insecurecleartextkeyset.Read"
	id := w.pl.idReq | 1
	ks := &tinkpb.Keyset{PrimaryKeyId: id, Key: []*tinkpb.Keyset_Key{stubkm.ProtoKey(e.stubURL, w.data(32), e.variant, id, tinkpb.KeyStatusType_ENABLED)}}
	var h *keyset.Handle
	var err error
	func() {
		defer w.catch(op)
		h, err = insecurecleartextkeyset.Read(&keyset.MemReaderWriter{Keyset: ks})
	}()
	if err != nil {
		w.fatalf("cannot read the stub keyset %s: %v", e.name, err)
	}
	w.inKeyset(op, ks)
	w.addHandle(h, op, false)
	w.r.Probe("legacy-adapter")
	w.setAdd("ops", op)
}

func (w *world) addHandle(h *keyset.Handle, origin string, public bool) int {
	w.handles = append(w.handles, &hnd{h: h, origin: origin, public: public})
	i := len(w.handles) - 1
	w.sweepHandleKeys(i)
	return i
}

// sweepHandleKeys makes the keys held by a new handle live objects right away.
func (w *world) sweepHandleKeys(i int) {
	h := w.handles[i]
	defer w.catch("keyset.(*Handle).Entry")
	for j := 0; j < h.h.Len(); j++ {
		e, err := h.h.Entry(j)
		if err != nil {
			continue
		}
		if len(w.objs) < maxObjs {
			before := len(w.objs)
			k := w.addObj(e.Key(), "keyset.(*Entry).Key", -1)
			if k == before && !h.public {
				w.keys = append(w.keys, k)
			}
		}
	}
}

// anyHandle returns a handle holding secret (or symmetric) key material, making one if needed.
func (w *world) anyHandle(arg int) int {
	var cands []int
	for i, h := range w.handles {
		if !h.public {
			cands = append(cands, i)
		}
	}
	if len(cands) == 0 {
		return w.handleMgr(arg)
	}
	return cands[arg%len(cands)]
}

// mgrHandle wraps one key into a handle through a manager. The ID the manager would draw for a key without ID
// requirement is fixed by the plan: what a handle looks like does not depend on randomness.
func (w *world) mgrHandle(k key.Key) (*keyset.Handle, error) {
	m := keyset.NewManager()
	opts := []keyset.KeyOpts{keyset.AsPrimary()}
	if _, required := k.IDRequirement(); !required {
		w.mgrCtr++
		opts = append(opts, keyset.WithFixedID((w.pl.idReq^uint32(w.mgrCtr)*0x9e3779b9)|1))
	}
	if _, err := m.AddKeyWithOpts(k, internalapi.Token{}, opts...); err != nil {
		return nil, err
	}
	return m.Handle()
}

func (w *world) handleMgr(arg int) int {
	ki := w.pickKey(arg)
	if ki < 0 {
		w.fatalf("no key to make a handle from")
	}
	const op = "keyset.(*Manager).Handle"
	var h *keyset.Handle
	var err error
	func() {
		defer w.catch(op)
		h, err = w.mgrHandle(w.objs[ki].v.(key.Key))
	}()
	if (err != nil || h == nil) && w.oddKeys && ki != w.keys[0] {
		// a key rebuilt from an unusual encoding that the manager will not take: the run's first key always works
		w.obsErr(op, "odd key", err)
		func() {
			defer w.catch(op)
			h, err = w.mgrHandle(w.objs[w.keys[0]].v.(key.Key))
		}()
	}
	if err != nil || h == nil {
		w.fatalf("manager refuses key %s of %s: %v", w.objs[ki].label, w.pl.ent.name, err)
	}
	w.setAdd("ops", op)
	return w.addHandle(h, op, false)
}

func (w *world) stepHandleMem(arg int) {
	src := w.handles[w.anyHandle(arg)]
	const op = "insecurecleartextkeyset.Read"
	var ks *tinkpb.Keyset
	var h *keyset.Handle
	var err error
	func() {
		defer w.catch(op)
		ks = proto.Clone(insecurecleartextkeyset.KeysetMaterial(src.h)).(*tinkpb.Keyset)
		h, err = insecurecleartextkeyset.Read(&keyset.MemReaderWriter{Keyset: ks})
	}()
	w.obsErr(op, "mem", err)
	if err != nil {
		return
	}
	w.inKeyset(op, ks)
	w.addHandle(h, op, false)
	w.r.Probe("handle-mem-read")
	w.setAdd("ops", op)
}

func (w *world) stepHandleSerialized(arg int, json bool) {
	src := w.handles[w.anyHandle(arg)]
	opW, opR, probe := "keyset.(*BinaryWriter).Write", "keyset.(*BinaryReader).Read", "handle-binary"
	if json {
		opW, opR, probe = "keyset.(*JSONWriter).Write", "keyset.(*JSONReader).Read", "handle-json"
	}
	var buf bytes.Buffer
	var err error
	func() {
		defer w.catch(opW)
		if json {
			err = insecurecleartextkeyset.Write(src.h, keyset.NewJSONWriter(&buf))
		} else {
			err = insecurecleartextkeyset.Write(src.h, keyset.NewBinaryWriter(&buf))
		}
	}()
	w.obsErr(opW, "write", err)
	if err != nil {
		return
	}
	w.obs(opW, "bytes", buf.Bytes())
	w.setAdd("ops", opW)
	in := w.in(opR, "serialized keyset", buf.Bytes(), w.nextSpare())
	var h *keyset.Handle
	func() {
		defer w.catch(opR)
		rd := bytes.NewReader(in.Slice())
		if json {
			h, err = insecurecleartextkeyset.Read(keyset.NewJSONReader(rd))
		} else {
			h, err = insecurecleartextkeyset.Read(keyset.NewBinaryReader(rd))
		}
	}()
	w.done(opR)
	w.obsErr(opR, "read", err)
	if err != nil {
		return
	}
	w.newTarget(&target{culprit: opR, kind: "input", buf: in})
	w.addHandle(h, opR, false)
	w.r.Probe(probe)
	w.setAdd("ops", opR)
}

func (w *world) masterAEAD() tink.AEAD {
	if w.master == nil {
		a, err := subtle.NewAESGCM(bytes.Repeat([]byte{0x11}, 16))
		if err != nil {
			w.fatalf("master AEAD: %v", err)
		}
		w.master = a
	}
	return w.master
}

func (w *world) stepHandleEnc(arg int) {
	src := w.handles[w.anyHandle(arg)]
	const opW, opR = "keyset.(*Handle).WriteWithAssociatedData", "keyset.ReadWithAssociatedData"
	ad := w.data(w.pl.auxLens[arg%len(w.pl.auxLens)])
	adW := w.in(opW, "associated data", ad, w.nextSpare())
	mem := &keyset.MemReaderWriter{}
	var err error
	func() {
		defer w.catch(opW)
		err = src.h.WriteWithAssociatedData(mem, w.masterAEAD(), adW.Slice())
	}()
	w.done(opW)
	w.obsErr(opW, "write", err)
	if err != nil || mem.EncryptedKeyset == nil {
		return
	}
	w.newTarget(&target{culprit: opW, kind: "input", buf: adW})
	call := w.newCall()
	w.msgPtr(opW, call, mem.EncryptedKeyset)
	w.out(opW, call, mem.EncryptedKeyset.GetEncryptedKeyset(), false)
	w.obsRand(opW, "bytes", mem.EncryptedKeyset.GetEncryptedKeyset())
	w.newTarget(&target{culprit: opW, kind: "proto-out", pm: mem.EncryptedKeyset})
	w.setAdd("ops", opW)

	enc := proto.Clone(mem.EncryptedKeyset).(*tinkpb.EncryptedKeyset)
	adR := w.in(opR, "associated data", ad, w.nextSpare())
	var h *keyset.Handle
	func() {
		defer w.catch(opR)
		h, err = keyset.ReadWithAssociatedData(&keyset.MemReaderWriter{EncryptedKeyset: enc}, w.masterAEAD(), adR.Slice())
	}()
	w.done(opR)
	w.obsErr(opR, "read", err)
	if err != nil {
		return
	}
	w.newTarget(&target{culprit: opR, kind: "input", buf: adR})
	w.newTarget(&target{culprit: opR, kind: "proto-in", pm: enc})
	w.addHandle(h, opR, false)
	w.r.Probe("handle-encrypted")
	w.setAdd("ops", opR)
}

// stepHandlePub: Public(), and a handle built from the public keyset proto without secrets.
func (w *world) stepHandlePub(arg int) {
	switch w.pl.ent.class {
	case "signature", "hybrid", "jwtsig":
	default:
		return
	}
	src := w.handles[w.anyHandle(arg)]
	const opP, opN = "keyset.(*Handle).Public", "keyset.NewHandleWithNoSecrets"
	var pub *keyset.Handle
	var err error
	func() {
		defer w.catch(opP)
		pub, err = src.h.Public()
	}()
	w.obsErr(opP, "public", err)
	if err != nil {
		return
	}
	w.addHandle(pub, opP, true)
	w.r.Probe("handle-public")
	w.setAdd("ops", opP)
	var ks *tinkpb.Keyset
	var h *keyset.Handle
	func() {
		defer w.catch(opN)
		ks = proto.Clone(insecurecleartextkeyset.KeysetMaterial(pub)).(*tinkpb.Keyset)
		h, err = keyset.NewHandleWithNoSecrets(ks)
	}()
	w.obsErr(opN, "nosecrets", err)
	if err != nil {
		return
	}
	w.inKeyset(opN, ks)
	w.addHandle(h, opN, true)
	w.r.Probe("handle-nosecrets")
	w.setAdd("ops", opN)
}

// stepParse: the serialization of a key and the key parsed back from a harness-owned copy of it.
func (w *world) stepParse(arg int) {
	ki := w.pickKey(arg)
	if ki < 0 {
		return
	}
	k := w.objs[ki].v.(key.Key)
	const opS, opP = "protoserialization.SerializeKey", "protoserialization.ParseKey"
	var ser *protoserialization.KeySerialization
	var err error
	func() {
		defer w.catch(opS)
		ser, err = protoserialization.SerializeKey(k)
	}()
	w.obsErr(opS, "serialize", err)
	if err != nil {
		return
	}
	call := w.newCall()
	kd := ser.KeyData()
	w.msgPtr(opS, call, kd)
	w.out(opS, call, kd.GetValue(), false)
	w.obs(opS, "val", marshal(kd))
	w.newTarget(&target{culprit: opS, kind: "proto-out", pm: kd})
	w.setAdd("ops", opS)

	id, _ := ser.IDRequirement()
	mine := proto.Clone(kd).(*tinkpb.KeyData)
	var k2 key.Key
	func() {
		defer w.catch(opP)
		var in *protoserialization.KeySerialization
		in, err = protoserialization.NewKeySerialization(mine, ser.OutputPrefixType(), id)
		if err != nil {
			return
		}
		k2, err = protoserialization.ParseKey(in)
	}()
	w.obsErr(opP, "parse", err)
	if err != nil {
		return
	}
	if lo, hi, ok := sliceRange(mine.GetValue()); ok {
		w.reg.Add(interval{lo: lo, hi: hi, kind: ivInput, call: -1, op: opP, keep: mine.GetValue()})
	}
	w.newTarget(&target{culprit: opP, kind: "proto-in", pm: mine})
	if len(w.objs) < maxObjs {
		j := w.addObj(k2, opP, ki)
		w.keys = append(w.keys, j)
	}
	w.r.Probe("parse-rebuilt")
	w.setAdd("ops", opP)
}

func (w *world) stepPrims(arg int) *prim {
	if w.pl.ent.sub != nil {
		return w.subtleBuild()
	}
	hi := w.anyHandle(arg)
	e := w.pl.ent
	op := e.base() + ".New"
	names := opNames[e.class]
	p := &prim{ent: e, opP: e.base() + "." + names[0], opA: e.base() + "." + names[1], hidx: hi, lenient: w.oddKeys}
	var err error
	func() {
		defer w.catch(op)
		var prod *classes.Producer
		var acc *classes.Acceptor
		prod, err = classes.NewProducer(e.class, w.handles[hi].h)
		if err != nil {
			return
		}
		p.produce, p.det = prod.Produce, prod.Deterministic
		if st, ok := prod.Raw.(streamer); ok && e.class == classes.StreamingAEAD {
			p.stream = st
		}
		if e.class == classes.KeyDerivation {
			if d, ok := prod.Raw.(interface {
				DeriveKeyset(salt []byte) (*keyset.Handle, error)
			}); ok {
				p.derive = d.DeriveKeyset
			}
			return
		}
		acc, err = classes.NewAcceptor(e.class, w.handles[hi].h)
		if err != nil {
			return
		}
		switch e.class {
		case "aead":
			p.decrypt = acc.Raw.(tink.AEAD).Decrypt
		case "daead":
			p.decrypt = acc.Raw.(tink.DeterministicAEAD).DecryptDeterministically
		case "hybrid":
			p.decrypt = acc.Raw.(tink.HybridDecrypt).Decrypt
		default:
			p.verify = acc.Accept
		}
	}()
	w.obsErr(op, "build", err)
	if err != nil {
		if !w.faulted && !w.oddKeys {
			w.fatalf("cannot build the %s primitives of %s from a %s handle: %v", e.class, e.name, w.handles[hi].origin, err)
		}
		return nil
	}
	w.prims = append(w.prims, p)
	for _, tg := range w.targets {
		if tg.fired {
			w.r.Probe("prim-built-after-flip")
			break
		}
	}
	if e.class == classes.Signature && e.cat != nil && p.verify != nil && len(w.prims) < 7 {
		w.prehashPrims(hi, p.verify)
	}
	return p
}

// useOnce: one produce and one accept with caller buffers of the drawn shapes.
func (w *world) useOnce(p *prim, msg, aux []byte, auxNil bool, keepSample, flippable bool) []byte {
	w.tolerate = p.lenient
	defer func() { w.tolerate = false }()
	opP := p.opP
	big := len(msg) + len(aux) + 128 // "more spare capacity than everything else in the call"
	spM, spA := w.nextSpareFor(big), w.nextSpareFor(big)
	mb := w.in(opP, "message", msg, spM)
	var ab *Buf
	var auxS []byte
	if !auxNil {
		ab = w.in(opP, "associated data", aux, spA)
		auxS = ab.Slice()
	} else {
		w.r.Probe("nil-aux")
	}
	w.lastProduce, w.lastAccept = &callRec{msgB: mb, auxB: ab}, nil
	if len(msg) == 0 {
		w.r.Probe("zero-len-msg")
	}
	var out []byte
	var err error
	func() {
		defer w.catch(opP)
		out, err = p.produce(mb.Slice(), auxS)
	}()
	w.done(opP)
	w.obsErr(opP, "err", err)
	w.setAdd("ops", opP)
	if err != nil {
		if !w.faulted && !p.lenient && !w.mayReject {
			w.fatalf("%s of %s failed in the pristine world: %v", opP, p.ent.name, err)
		}
		return nil
	}
	if spM >= len(out) && spM > 0 {
		w.r.Probe("spare-fits-output")
	}
	call := w.newCall()
	p.nOut++
	w.out(opP, call, out, flippable)
	w.obsOutput(p, opP, out, msg, aux, auxNil)
	if flippable {
		w.newTarget(&target{culprit: opP, kind: "input", buf: mb})
		if ab != nil {
			w.newTarget(&target{culprit: opP, kind: "input", buf: ab})
		}
	}
	pristine := bytes.Clone(out)
	if keepSample && len(p.samples) < 4 {
		p.samples = append(p.samples, sample{msg: bytes.Clone(msg), aux: bytes.Clone(aux), out: pristine})
	}
	if p.decrypt != nil || p.verify != nil {
		w.acceptOnce(p, pristine, msg, aux, auxNil, flippable)
	} else if p.derive != nil && keepSample && len(w.handles) < 12 {
		// key derivation: the derived handle is a handle like any other
		in := w.in(opP, "salt", msg, w.nextSpare())
		var h *keyset.Handle
		func() {
			defer w.catch(opP)
			h, err = p.derive(in.Slice())
		}()
		w.done(opP)
		if err == nil && h != nil {
			w.handles = append(w.handles, &hnd{h: h, origin: opP, public: true})
			w.newTarget(&target{culprit: opP, kind: "input", buf: in})
			w.r.Probe("derived-handle")
		}
	}
	return pristine
}

// obsOutput logs a produced output. Deterministic classes must repeat themselves byte for byte; randomized ones
// too as long as the RNG seam reproduces their randomness (checked on the spot when a difference shows up).
func (w *world) obsOutput(p *prim, op string, out, msg, aux []byte, auxNil bool) {
	if !w.faulted {
		w.obs(op, "out", out)
		return
	}
	if w.skip {
		return
	}
	if !p.det && w.statefulRandom() {
		w.obsRand(op, "out", out)
		return
	}
	if w.cursor < len(w.twin.log) {
		e := w.twin.log[w.cursor]
		if e.op == op && e.what == "out" && (e.n != len(out) || e.sum != fnv(out)) && !p.det {
			// is the operation reproducible at all under an identical RNG stream?
			off := w.g.Offset(0)
			var a, b []byte
			func() {
				defer w.catch(op)
				var auxS []byte
				if !auxNil {
					auxS = bytes.Clone(aux)
				}
				a, _ = p.produce(bytes.Clone(msg), auxS)
				end := w.g.Offset(0)
				w.g.SetOffset(0, off)
				b, _ = p.produce(bytes.Clone(msg), auxS)
				w.g.SetOffset(0, end)
			}()
			w.g.SetOffset(0, off)
			if !bytes.Equal(a, b) {
				w.cursor++
				w.r.Count("nonreproducible-randomized-output", 1)
				w.r.SetAdd("nonreproducible", p.ent.name)
				return
			}
		}
	}
	w.obs(op, "out", out)
}

func (w *world) acceptOnce(p *prim, out, msg, aux []byte, auxNil bool, flippable bool) {
	w.tolerate = p.lenient
	defer func() { w.tolerate = false }()
	opA := p.opA
	big := len(out) + len(msg) + len(aux) + 128
	cb := w.in(opA, "ciphertext/tag/signature", out, w.nextSpareFor(big))
	mb := w.in(opA, "message", msg, w.nextSpareFor(big))
	var ab *Buf
	var auxS []byte
	if !auxNil {
		ab = w.in(opA, "associated data", aux, w.nextSpareFor(big))
		auxS = ab.Slice()
	}
	w.lastAccept = &callRec{ctB: cb, msgB: mb, auxB: ab}
	var pt []byte
	var err error
	func() {
		defer w.catch(opA)
		if p.decrypt != nil {
			pt, err = p.decrypt(cb.Slice(), auxS)
		} else {
			err = p.verify(cb.Slice(), mb.Slice(), auxS)
		}
	}()
	w.done(opA)
	// an accept of deliberately altered content of a randomized output (the replay step) yields whatever the
	// world's own random IV / salt makes of it: comparable only while the seam reproduces the randomness
	derived := w.mayReject && !p.det
	if derived && w.statefulRandom() {
		e := "ok"
		if err != nil {
			e = "err"
		}
		w.obsRand(opA, "err", []byte(e))
	} else {
		w.obsErr(opA, "err", err)
	}
	w.setAdd("ops", opA)
	if err != nil {
		if !w.faulted && !p.lenient && !w.mayReject && !p.softAccept {
			w.fatalf("%s of %s rejects what %s produced in the pristine world: %v", opA, p.ent.name, p.opP, err)
		}
		return
	}
	if p.decrypt != nil {
		call := w.newCall()
		w.out(opA, call, pt, flippable)
		if derived {
			w.obsRand(opA, "plaintext", pt)
		} else {
			w.obs(opA, "plaintext", pt)
		}
		if !w.faulted && !p.lenient && !w.mayReject && !bytes.Equal(pt, msg) {
			w.fatalf("%s of %s returns another plaintext in the pristine world", opA, p.ent.name)
		}
	}
	if flippable {
		w.newTarget(&target{culprit: opA, kind: "input", buf: cb})
		w.newTarget(&target{culprit: opA, kind: "input", buf: mb})
		if ab != nil {
			w.newTarget(&target{culprit: opA, kind: "input", buf: ab})
		}
	}
}

func (w *world) stepOp(arg int) {
	var p *prim
	if len(w.prims) == 0 {
		p = w.stepPrims(arg)
	} else {
		p = w.prims[arg%len(w.prims)]
	}
	if p == nil {
		return
	}
	if p.stream != nil && arg%2 == 1 && !w.inStream {
		w.stepStream(arg) // streaming primitives: every other use is the step-by-step one
		return
	}
	w.shapeCtr++
	ml := w.pl.msgLens[w.shapeCtr%len(w.pl.msgLens)]
	al := w.pl.auxLens[w.shapeCtr%len(w.pl.auxLens)]
	if p.ent.cat != nil && p.ent.cat.Cost >= 2 && ml > 100 {
		ml = 100
	}
	if p.fitMsg != nil {
		ml = p.fitMsg(ml)
	}
	msg := w.data(ml)
	if p.prep != nil {
		msg = p.prep(msg)
	}
	w.useOnce(p, msg, w.data(al), al == 0 && arg%2 == 1, true, true)
}

// usePrims: every primitive produces and accepts a fixed input, and accepts again what it produced long ago.
func (w *world) usePrims() {
	w.mark()
	canonMsg, canonAux := []byte("the same message every time"), []byte("aux")
	for _, p := range w.prims {
		msg := canonMsg
		if p.prep != nil {
			msg = p.prep(msg)
		}
		if p.ent.cat != nil && p.ent.cat.Cost >= 2 {
			// slow signatures: one signature per primitive and run is enough; after that re-verify only
			if len(p.samples) == 0 && p.nOut == 0 {
				w.useOnce(p, msg, canonAux, false, false, false)
			}
		} else {
			w.useOnce(p, msg, canonAux, false, false, false)
			if p.nOut < 2 {
				// every producing primitive hands out at least two results per run, so that a primitive returning its
				// own scratch buffer shows up as two results sharing an address range, whatever their contents
				msg2 := []byte("another message, the second result")
				if p.prep != nil {
					msg2 = p.prep(msg2)
				}
				w.useOnce(p, msg2, canonAux, false, false, false)
				w.r.Probe("second-result-forced")
			}
		}
		if (p.decrypt != nil || p.verify != nil) && len(p.samples) > 0 {
			s := p.samples[0]
			w.acceptOnce(p, s.out, s.msg, s.aux, false, false)
			w.r.Probe("old-output-reaccepted")
		}
	}
}

func (w *world) step(s stepSpec) {
	w.stepSeq++
	w.mark()
	w.groups[stepGroup[s.kind]] = true
	if w.r.Tracing() {
		w.r.Logf("%s: step %d %s(%d)", w.name(), w.stepSeq, stepNames[s.kind], s.arg)
	}
	if w.pl.ent.sub != nil {
		// subtle primitives have no key objects and no handles: every step is about primitives
		switch s.kind {
		case sReplay:
			w.stepReplay(s.arg)
		case sStream:
			w.stepStream(s.arg)
		case sOp, sSweep, sCtor, sParse:
			w.stepOp(s.arg)
		case sPrims, sSecondKey:
			if len(w.prims) < 4 {
				w.subtleBuild()
			}
		default:
			w.usePrims()
		}
		w.endStep(stepNames[s.kind])
		return
	}
	if w.noHandles && s.kind != sSweep && s.kind != sCtor && s.kind != sSecondKey {
		w.endStep(stepNames[s.kind])
		return
	}
	switch s.kind {
	case sSweep:
		w.sweep(true)
	case sCtor:
		if ki := w.pickKey(s.arg); ki >= 0 {
			w.rebuild(ki)
		}
	case sParse:
		w.stepParse(s.arg)
	case sHandleMgr:
		if len(w.handles) < 10 {
			w.handleMgr(s.arg)
		}
	case sHandleMem:
		if len(w.handles) < 10 {
			w.stepHandleMem(s.arg)
		}
	case sHandleBin:
		if len(w.handles) < 10 {
			w.stepHandleSerialized(s.arg, false)
		}
	case sHandleJSON:
		if len(w.handles) < 10 {
			w.stepHandleSerialized(s.arg, true)
		}
	case sHandleEnc:
		if len(w.handles) < 10 {
			w.stepHandleEnc(s.arg)
		}
	case sHandlePub:
		if len(w.handles) < 10 {
			w.stepHandlePub(s.arg)
		}
	case sPrims:
		if len(w.prims) < 4 {
			w.stepPrims(s.arg)
		}
	case sOp:
		w.stepOp(s.arg)
	case sStream:
		w.stepStream(s.arg)
	case sReplay:
		w.stepReplay(s.arg)
	case sSecondKey:
		if len(w.keys) < 6 && w.pl.ent.cat != nil {
			w.newKey(false)
			w.r.Probe("second-key")
		}
	}
	w.endStep(stepNames[s.kind])
}

// endStep: invariant (a) over every caller buffer, then the flips that are due.
func (w *world) endStep(name string) {
	w.hot = w.hot[:0]
	w.checkBufs("step "+name, w.bufs)
	w.dueFlips(false)
}

func (w *world) name() string {
	if w.faulted {
		return "B"
	}
	return "A"
}

func (w *world) execute() {
	defer w.undoAll()
	defer func() {
		if p := recover(); p != nil {
			if _, ok := p.(abortB); ok {
				w.aborted = true
				return
			}
			panic(p)
		}
	}()
	w.mark()
	if w.pl.ent.class == "misc" {
		w.runMisc() // key templates and helper functions: no key history
		return
	}
	w.newKey(true)
	w.sweep(true)
	w.endStep("newkey")
	for _, s := range w.pl.steps {
		w.step(s)
	}
	// epilogue: all outstanding flips, then every object, handle and primitive once more, and a primitive built now
	w.stepSeq++
	w.dueFlips(true)
	w.sweep(false)
	w.usePrims()
	if len(w.prims) > 0 && w.prims[0].stream != nil {
		w.mark()
		w.stepStream(0) // every run of a streaming entry has at least one step-by-step operation
	}
	if (len(w.handles) > 0 || w.pl.ent.sub != nil) && len(w.prims) < 5 && !w.noHandles {
		w.mark()
		if p := w.stepPrims(0); p != nil {
			w.useOnce(p, []byte("built after everything"), []byte("x"), false, false, false)
		}
	}
	w.endStep("epilogue")
}

func newWorld(t *rapid.T, r *core.Run, pl *plan, twin *world) *world {
	return &world{r: r, t: t, pl: pl, faulted: twin != nil, twin: twin, byPtr: map[uintptr]int{}, msgPtrs: map[uintptr]msgRef{},
		flips: map[string]int{}, groups: map[byte]bool{}, accSeen: map[string]bool{}, lastLogged: map[string]uint64{}}
}

func runWorld(t *rapid.T, r *core.Run, pl *plan, twin *world) *world {
	w := newWorld(t, r, pl, twin)
	// randomness the standard library draws without a reader (ML-KEM): same seeded stream in both worlds
	cryptotest.SetGlobalRandom(outerT, pl.rngSeed^0x6d656d6f7279)
	w.g = simrng.New(pl.rngSeed)
	defer simrng.Install(w.g)()
	if probeStateful(w.g) {
		pl.stateful = true
	}
	watchBegin(w)
	defer watchEnd()
	w.execute()
	return w
}

func run(t *rapid.T) {
	r := core.Begin(t)
	pl := drawPlan(t)
	if pl.slow {
		r.Probe("quick-slow-entry")
	}
	r.ObsS("entry", pl.ent.name)
	if r.Tracing() {
		var sb strings.Builder
		for _, s := range pl.steps {
			fmt.Fprintf(&sb, "%s(%d) ", stepNames[s.kind], s.arg)
		}
		r.Logf("plan: entry %s steps %s msgLens %v auxLens %v spares %v flipOn %v delay %v whole %v", pl.ent.name, sb.String(), pl.msgLens, pl.auxLens, pl.spares, pl.flipOn, pl.flipDelay, pl.flipWhole)
	}
	genesis(r, pl)
	a := runWorld(t, r, pl, nil)
	r.ObsI("world-A-observations", int64(a.acc))
	if pl.stateful && pl.perWorldKeygen {
		// the worlds would hold different generated keys for a reason that is no mutation: nothing to compare
		r.Count("world-B-left-out(stateful randomness, key without serialization)", 1)
		r.End(pl.ent.class+"/"+pl.ent.keyType+"/"+pl.ent.variant+"|world A only", false)
		return
	}
	b := runWorld(t, r, pl, a)
	if pl.stateful {
		r.Probe("stateful-randomness-observed")
	}
	if !b.aborted && !a.aborted && b.knownHits == 0 {
		if b.markN != len(a.marks) || len(b.objs) != len(a.objs) || len(b.handles) != len(a.handles) {
			r.Violation("C19/mutation-visible:history", fmt.Sprintf("world B ended with %d steps/sweeps, %d objects, %d handles; world A with %d, %d, %d",
				b.markN, len(b.objs), len(b.handles), len(a.marks), len(a.objs), len(a.handles)))
		}
	}
	// coverage
	reportInventory(r.SetAdd)
	for _, s := range pendingSkipped {
		r.SetAdd("accessors-skipped", s)
	}
	pendingSkipped = nil
	nflips := 0
	var fl []string
	for _, k := range core.SortedKeys(b.flips) {
		for i := 0; i < b.flips[k]; i++ {
			r.Fault(k)
		}
		nflips += b.flips[k]
		fl = append(fl, strings.TrimPrefix(k, "flip-"))
	}
	var gs []byte
	for g := range a.groups {
		gs = append(gs, g)
	}
	sort.Slice(gs, func(i, j int) bool { return gs[i] < gs[j] })
	outcome := "clean"
	if b.aborted {
		outcome = "abandoned"
	} else if a.knownHits+b.knownHits > 0 {
		outcome = "known"
	}
	r.Count("objects", int64(len(a.objs)))
	r.Count("handles", int64(len(a.handles)))
	r.Count("primitives", int64(len(a.prims)))
	r.Count("caller-buffers", int64(len(a.bufs)))
	r.Count("returned-slices", int64(len(a.reg.ivs)-len(a.bufs)))
	r.Count("observations", int64(len(a.log)))
	sig := fmt.Sprintf("%s/%s/%s|steps=%s|flips=%s|%s", pl.ent.class, pl.ent.keyType, pl.ent.variant, gs, strings.Join(fl, ","), outcome)
	r.End(sig, nflips > 0)
}
