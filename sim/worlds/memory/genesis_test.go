package memory

// Randomness the harness cannot rewind. The two worlds replay one history from the same seam position, which makes
// their random outputs equal only if the library's randomness is a function of the seam stream alone. A library that
// keeps unconsumed random bytes between calls (a buffered RNG — perfectly correct) breaks that: world B starts with
// whatever world A left in the buffer. A difference that is not CAUSED by a mutation is not a C19 finding, so:
//
//   - all key GENERATION happens once, before the worlds fork (genesis): the generated keys are serialized and each
//     world parses its own objects from the same bytes; key IDs the manager would draw are fixed by the plan. Both
//     worlds therefore hold identical key material whatever the RNG does (which also makes the comparison stronger);
//   - what remains random inside a world is per-call randomness (IVs, salts, randomized signatures). Every world
//     starts with a probe — the same key generation twice from a restored seam position; if the results differ the tree
//     is "stateful-random" (sticky for the process) and randomized outputs are compared semantically between the
//     worlds (same length, accepted by the accepting side, decrypting to the original) instead of byte for byte.
//     Deterministic functions of the keys stay byte-compared, and the address-range / buffer checks are unaffected.

import (
	"bytes"
	"fmt"
	"testing/cryptotest"

	"google.golang.org/protobuf/proto"

	"github.com/tink-crypto/tink-go/v2/aead/aesgcm"
	"github.com/tink-crypto/tink-go/v2/internal/protoserialization"
	"github.com/tink-crypto/tink-go/v2/key"
	"github.com/tink-crypto/tink-go/v2/keyset"
	tinkpb "github.com/tink-crypto/tink-go/v2/proto/tink_go_proto"
	"github.com/tink-crypto/tink-go/v2/verifsim/catalog"
	"github.com/tink-crypto/tink-go/v2/verifsim/core"
	"github.com/tink-crypto/tink-go/v2/verifsim/simrng"
)

// genKey is one generated key as bytes.
type genKey struct {
	keyData []byte
	prefix  tinkpb.OutputPrefixType
	id      uint32
}

var (
	statefulSeen bool // once observed, assumed for the rest of the process (pools drain and refill)
	probeParams  *aesgcm.Parameters
)

// probeStateful: is the library's randomness a function of the seam stream position alone? The seam position is
// put back afterwards, so on a stateless tree the probe leaves no trace.
func probeStateful(g *simrng.RNG) bool {
	if probeParams == nil {
		p, err := aesgcm.NewParameters(aesgcm.ParametersOpts{KeySizeInBytes: 16, IVSizeInBytes: 12, TagSizeInBytes: 16, Variant: aesgcm.VariantTink})
		if err != nil {
			return false
		}
		probeParams = p
	}
	gen := func() []byte {
		defer func() { _ = recover() }()
		m := keyset.NewManager()
		id, err := m.AddNewKeyFromParameters(probeParams)
		if err != nil {
			return nil
		}
		if err := m.SetPrimary(id); err != nil {
			return nil
		}
		h, err := m.Handle()
		if err != nil {
			return nil
		}
		e, err := h.Entry(0)
		if err != nil {
			return nil
		}
		k, ok := e.Key().(*aesgcm.Key)
		if !ok {
			return nil
		}
		return append(k.KeyBytes().Data(tok), byte(id>>24), byte(id>>16), byte(id>>8), byte(id))
	}
	off := g.Offset(0)
	a := gen()
	g.SetOffset(0, off)
	b := gen()
	g.SetOffset(0, off)
	if !bytes.Equal(a, b) {
		statefulSeen = true
	}
	return statefulSeen
}

// genesis generates the run's keys once; the worlds import them.
func genesis(r *core.Run, pl *plan) {
	cryptotest.SetGlobalRandom(outerT, pl.rngSeed^0x67656e65736973)
	g := simrng.New(pl.rngSeed ^ 0x9e3779b97f4a7c15)
	defer simrng.Install(g)()
	if probeStateful(g) {
		pl.stateful = true
	}
	e := pl.ent
	if e.cat == nil || catalog.Pooled(*e.cat) {
		return // stub and subtle entries take their key bytes from the plan, pooled keys are rebuilt from stored material
	}
	n := 1
	for _, s := range pl.steps {
		if s.kind == sSecondKey && n < 3 {
			n++
		}
	}
	for i := 0; i < n; i++ {
		var k key.Key
		var ser *protoserialization.KeySerialization
		var err error
		func() {
			defer func() {
				if p := recover(); p != nil {
					s := fmt.Sprintf("%T", p)
					if s == "rapid.stopTest" || s == "rapid.invalidData" {
						panic(p)
					}
					r.Violation("C19/panic:catalog.NewKey", fmt.Sprintf("generating a key for %s panicked: %v", e.name, p))
				}
			}()
			if k, err = catalog.NewKey(*e.cat); err != nil {
				return
			}
			ser, err = protoserialization.SerializeKey(k)
		}()
		if err != nil || ser == nil {
			// no serialization: each world has to generate its own key; under stateful randomness the worlds then
			// cannot be compared (run counts it and leaves world B out)
			pl.genKeys = nil
			pl.perWorldKeygen = true
			r.Count("key-generated-per-world", 1)
			return
		}
		kd, merr := proto.Marshal(ser.KeyData())
		if merr != nil {
			pl.genKeys, pl.perWorldKeygen = nil, true
			return
		}
		id, _ := ser.IDRequirement()
		pl.genKeys = append(pl.genKeys, genKey{keyData: kd, prefix: ser.OutputPrefixType(), id: id})
	}
}

// importKey parses world-private key objects from the bytes generated at genesis.
func importKey(gk genKey) (key.Key, error) {
	kd := &tinkpb.KeyData{}
	if err := proto.Unmarshal(gk.keyData, kd); err != nil {
		return nil, err
	}
	ser, err := protoserialization.NewKeySerialization(kd, gk.prefix, gk.id)
	if err != nil {
		return nil, err
	}
	return protoserialization.ParseKey(ser)
}

// statefulRandom: randomized outputs of this run are compared semantically.
func (w *world) statefulRandom() bool { return w.pl.stateful || statefulSeen }

// obsRand records / compares a value that contains per-call randomness: byte for byte while the seam reproduces the
// library's randomness; when stateful randomness was observed only the fact that both worlds got there (the accepting
// side and the later, deterministic observations carry the comparison).
func (w *world) obsRand(op, what string, data []byte) {
	if !w.faulted || !w.statefulRandom() {
		w.obs(op, what, data)
		return
	}
	if w.skip {
		return
	}
	a := w.twin.log
	if w.cursor >= len(a) {
		w.mismatch(op, fmt.Sprintf("world B observes %s %s where world A had finished the step", op, what))
		return
	}
	e := a[w.cursor]
	w.cursor++
	if e.op != op || e.what != what {
		w.mismatch(op, fmt.Sprintf("world B observes %s %s where world A observed %s %s (control flow differs)", op, what, e.op, e.what))
		return
	}
	// not even the length is compared: DER-encoded randomized signatures vary in length
}
