package memory

// Multi-step operations: a streaming encryption is NewEncryptingWriter(dev, aad) → Write(chunk)… → Close(), a
// streaming decryption NewDecryptingReader(src, aad) → Read(p)…. Between two steps the caller owns again
// everything it passed before, and the buffer p it hands to Read is caller memory as well:
//
//   - every aad, chunk and read buffer is a simmem buffer (canaries, patterned spare capacity);
//   - Read(p) may deliver n <= len(p) bytes into p[:n]; p[n:len(p)], the spare capacity behind p and the canaries
//     must stay what they were, and the concatenation of what was delivered must be the plaintext;
//   - in world B one drawn flip point per phase is taken: the aad right after the constructor returned, or a chunk
//     right after its Write returned, or a read buffer right after its Read returned. The device content after
//     every step, every n and error, and the plaintext must be world A's (identical RNG streams).

import (
	"bytes"
	"errors"
	"fmt"
	"io"
)

type streamer interface {
	NewEncryptingWriter(w io.Writer, aad []byte) (io.WriteCloser, error)
	NewDecryptingReader(r io.Reader, aad []byte) (io.Reader, error)
}

// flipPoint draws, from the plan, which of npoints moments of the phase that begins gets the caller's mutation (-1: none).
func (w *world) flipPoint(npoints int) int {
	seq := w.tgtSeq
	w.tgtSeq++
	if npoints <= 0 || !w.pl.flipOn[seq%len(w.pl.flipOn)] {
		return -1
	}
	return w.pl.flipPos[seq%len(w.pl.flipPos)] % npoints
}

// mutateNow: the caller changes a buffer it passed to an earlier step of the operation in progress (world B does
// it, world A only notes the moment). Differences seen until the operation ends are attributed to that step.
func (w *world) mutateNow(buf *Buf, culprit, probe string) {
	tg := &target{culprit: culprit, kind: "input", buf: buf, seq: w.tgtSeq, fired: true, dataOnly: true}
	w.tgtSeq++
	w.targets = append(w.targets, tg) // so that the bytes are put back when the world ends
	if w.faulted {
		w.apply(tg)
	}
	w.culprit = culprit
	w.r.Probe(probe)
}

func (w *world) nextReadLen() int {
	w.readCtr++
	return w.pl.readLens[w.readCtr%len(w.pl.readLens)]
}

func errClass(err error) string {
	switch err {
	case nil:
		return "nil"
	case io.EOF:
		return "EOF"
	}
	return "err"
}

const maxChunks = 10

var errInjected = errors.New("memory world: injected I/O fault")

// flakyDev is the underlying writer of a streaming encryption: it refuses (accepting nothing) every write that would
// carry the stream past failAt, `fails` times, and works again afterwards. What the stream then contains is C07's
// subject; C19 cares that the caller's buffers are neither written nor kept while the caller carries on.
type flakyDev struct {
	buf           bytes.Buffer
	failAt, fails int
	fired         int
}

func (d *flakyDev) Write(p []byte) (int, error) {
	if d.fails > 0 && d.buf.Len()+len(p) > d.failAt {
		d.fails--
		d.fired++
		return 0, errInjected
	}
	return d.buf.Write(p)
}

// flakySrc is the ciphertext source of a streaming decryption, failing `fails` times once failAt bytes were delivered.
type flakySrc struct {
	r             *bytes.Reader
	failAt, fails int
	pos, fired    int
}

func (s *flakySrc) Read(p []byte) (int, error) {
	if s.fails > 0 && s.pos >= s.failAt {
		s.fails--
		s.fired++
		return 0, errInjected
	}
	if s.fails > 0 && s.pos+len(p) > s.failAt {
		p = p[:s.failAt-s.pos] // deliver up to the fault position first
	}
	n, err := s.r.Read(p)
	s.pos += n
	return n, err
}

// ioFault draws, from the plan, whether and where the underlying writer / reader of the phase that begins fails
// (fails == 0: nowhere). starts are the stream offsets at which the caller's steps (Write calls) begin, so that the
// fault can be aimed at the middle of the operation, where the caller carries on afterwards.
func (w *world) ioFault(total int, starts []int) (failAt, fails int) {
	w.faultCtr++
	switch w.pl.ioFault[w.faultCtr%len(w.pl.ioFault)] {
	case 2:
		return 0, 1 // the very first underlying call (the header)
	case 3:
		return 48, 1 + w.faultCtr%2 // behind the header: the first segment
	case 4, 5:
		if len(starts) > 0 {
			return 48 + starts[(w.faultCtr/2)%len(starts)], 1 + w.faultCtr%2 // the first segment flushed during (or after) a drawn step
		}
		return total / 2, 1
	case 6:
		return total, 1 // near the end: typically the last segment
	}
	return 0, 0
}

// faultPlanned: does the plan have a fault for the next phase? (peek, so that the operation can be given a shape in which a fault matters)
func (w *world) faultPlanned() bool {
	return w.pl.ioFault[(w.faultCtr+1)%len(w.pl.ioFault)] >= 2
}

// stepStream: one complete streaming encryption and decryption, step by step.
func (w *world) stepStream(arg int) {
	var p *prim
	if len(w.prims) == 0 {
		p = w.stepPrims(arg)
	} else {
		p = w.prims[arg%len(w.prims)]
	}
	if p == nil {
		return
	}
	if p.stream == nil {
		w.inStream = true
		w.stepOp(arg)
		w.inStream = false
		return
	}
	w.tolerate = p.lenient
	defer func() { w.culprit, w.tolerate = "", false }()
	w.shapeCtr++
	ml := w.pl.msgLens[w.shapeCtr%len(w.pl.msgLens)]
	if w.faultPlanned() {
		ml += 1200 // several segments and several Write calls: a fault in the middle leaves the caller something to carry on with
	}
	msg := w.data(ml)
	aad := w.data(w.pl.auxLens[w.shapeCtr%len(w.pl.auxLens)])

	// ---- encryption
	opW := p.opP
	var chunks [][]byte
	for rest := msg; ; {
		cl := w.nextReadLen()
		if cl > len(rest) || len(chunks) == maxChunks-1 {
			cl = len(rest)
		}
		chunks = append(chunks, rest[:cl])
		rest = rest[cl:]
		if len(rest) == 0 {
			break
		}
	}
	point := w.flipPoint(1 + len(chunks))
	var sbufs []*Buf // every buffer handed over during this operation: all of them stay the caller's to the end
	big := len(msg) + len(aad) + 128
	aadB := w.in(opW, "associated data", aad, w.nextSpareFor(big))
	sbufs = append(sbufs, aadB)
	dev := &flakyDev{}
	var starts []int
	for i, off := 0, 0; i < len(chunks); i++ {
		starts = append(starts, off)
		off += len(chunks[i])
	}
	dev.failAt, dev.fails = w.ioFault(len(msg), starts)
	faulty := dev.fails > 0
	var wr io.WriteCloser
	var err error
	func() {
		defer w.catch(opW)
		wr, err = p.stream.NewEncryptingWriter(dev, aadB.Slice())
	}()
	w.done(opW)
	w.obsErr(opW, "err", err)
	w.setAdd("ops", opW)
	if err != nil || wr == nil {
		if !w.faulted && !p.lenient && !faulty {
			w.fatalf("%s of %s failed in the pristine world: %v", opW, p.ent.name, err)
		}
		return
	}
	w.obsRand(opW, "device", dev.buf.Bytes())
	if point == 0 {
		w.mutateNow(aadB, opW, "stream-aad-flipped-before-first-write")
	}
	for i, c := range chunks {
		op := opW + ".Write"
		cb := w.in(op, "chunk", c, w.nextSpareFor(big))
		sbufs = append(sbufs, cb)
		if len(c) == 0 {
			w.r.Probe("write-zero-len-chunk")
		}
		var n int
		func() {
			defer w.catch(op)
			n, err = wr.Write(cb.Slice())
		}()
		w.done(op)
		w.checkBufs(op, sbufs) // the buffers of the earlier steps too: their calls have returned, they are the caller's
		w.obsS(op, "n err", fmt.Sprint(n, errClass(err)))
		w.obsRand(op, "device", dev.buf.Bytes())
		w.setAdd("ops", op)
		if err != nil {
			if !faulty {
				if !w.faulted && !p.lenient {
					w.fatalf("%s of %s failed in the pristine world: %v", op, p.ent.name, err)
				}
				return
			}
			// the underlying writer failed: the caller carries on with its other buffers (and Close) all the same
			w.r.Probe("stream-write-continued-after-io-error")
		}
		if point == i+1 {
			w.mutateNow(cb, op, "stream-chunk-flipped-after-write")
		}
	}
	func() {
		defer w.catch(opW + ".Close")
		err = wr.Close()
	}()
	w.checkBufs(opW+".Close", sbufs)
	w.obsErr(opW+".Close", "err", err)
	w.obsRand(opW+".Close", "device", dev.buf.Bytes())
	w.setAdd("ops", opW+".Close")
	if dev.fired > 0 {
		w.r.Probe("stream-device-fault-fired")
	}
	if err != nil && !faulty {
		if !w.faulted && !p.lenient {
			w.fatalf("%s.Close of %s failed in the pristine world: %v", opW, p.ent.name, err)
		}
		return
	}
	w.culprit = ""
	ct := bytes.Clone(dev.buf.Bytes())
	wfaulty := dev.fired > 0 // the stream may be damaged: what decrypting it gives is an observation only

	// ---- decryption under the original aad, into caller-supplied buffers
	opR := p.opA
	point = w.flipPoint(4)
	aadR := w.in(opR, "associated data", aad, w.nextSpareFor(big))
	sbufs = append(sbufs, aadR)
	src := &flakySrc{r: bytes.NewReader(ct)}
	src.failAt, src.fails = w.ioFault(len(ct), starts)
	faulty = src.fails > 0 || wfaulty
	var rd io.Reader
	func() {
		defer w.catch(opR)
		rd, err = p.stream.NewDecryptingReader(src, aadR.Slice())
	}()
	w.done(opR)
	w.obsErr(opR, "err", err)
	w.setAdd("ops", opR)
	if err != nil || rd == nil {
		if !w.faulted && !p.lenient && !faulty {
			w.fatalf("%s of %s failed in the pristine world: %v", opR, p.ent.name, err)
		}
		return
	}
	if point == 0 {
		w.mutateNow(aadR, opR, "stream-aad-flipped-before-first-read")
	}
	op := opR + ".Read"
	var got []byte
	stalls, failures := 0, 0
	for reads := 0; reads < 200+len(msg); reads++ { // generous: io.Reader promises no delivery rate
		rl := w.nextReadLen()
		if stalls >= 2 || (reads >= 24 && rl < 512) {
			rl = 512 // make progress: tiny buffers are for the first reads
		}
		sp := w.nextSpare()
		fill := bytes.Repeat([]byte{0x5a}, rl)
		rb := w.in(op, "read buffer", fill, sp)
		sbufs = append(sbufs, rb)
		rb.OpenSink()
		if rl == 0 {
			w.r.Probe("read-zero-len-buffer")
		}
		if rl < len(msg)-len(got) && sp >= 300 {
			w.r.Probe("read-short-buffer-big-spare")
		}
		var n int
		func() {
			defer w.catch(op)
			n, err = rd.Read(rb.Slice())
		}()
		rb.Delivered(n)
		if rb.ScratchUsed {
			w.r.Probe("read-buffer-tail-used-as-scratch")
		}
		w.done(op) // spare capacity beyond len(p) and the canaries must be what they were
		if reads < 40 {
			w.checkBufs(op, sbufs) // earlier read buffers are the caller's again
		}
		if n < 0 || n > rl {
			w.r.Violation("C19/read-overrun:"+op, fmt.Sprintf("%s of %s returned n = %d for a buffer of length %d (capacity %d)", op, p.ent.name, n, rl, rl+sp))
			w.knownHits++
			n = min(max(n, 0), rl)
		}
		got = append(got, rb.Data()[:n]...)
		w.obsS(op, "n err", fmt.Sprint(n, errClass(err)))
		w.setAdd("ops", op)
		if point == reads+1 {
			w.mutateNow(rb, op, "stream-readbuf-flipped-after-read")
		}
		if err != nil {
			failures++
			if err != io.EOF && src.fired > 0 && failures <= 3 {
				// the source failed: the caller tries again with another buffer
				w.r.Probe("stream-read-continued-after-io-error")
				continue
			}
			break
		}
		if n == 0 {
			stalls++
		} else {
			stalls = 0
		}
	}
	w.obs(op, "plaintext", got)
	if src.fired > 0 {
		w.r.Probe("stream-source-fault-fired")
	}
	if !w.faulted && !p.lenient && !faulty && (err != io.EOF || !bytes.Equal(got, msg)) {
		// whether a stream decrypts to its plaintext is C07's subject, not C19's: counted, not raised
		w.r.Count("stream-read-content-differs(C07's subject)", 1)
	}
}
