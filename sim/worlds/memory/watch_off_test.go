//go:build !instr

package memory

const watching = false

func watchBegin(w *world) {}
func watchEnd()           {}
