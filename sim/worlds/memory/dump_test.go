package memory

import (
	"fmt"
	"reflect"
	"sort"
	"testing"

	"github.com/tink-crypto/tink-go/v2/key"
	"github.com/tink-crypto/tink-go/v2/verifsim/catalog"
)

func TestDump(t *testing.T) {
	seen := map[string]bool{}
	var walk func(o any, depth int)
	walk = func(o any, depth int) {
		v := reflect.ValueOf(o)
		ty := v.Type()
		if seen[ty.String()] {
			return
		}
		seen[ty.String()] = true
		for i := 0; i < ty.NumMethod(); i++ {
			m := ty.Method(i)
			if m.Type.NumIn() != 1 {
				continue
			}
			outs := ""
			for j := 0; j < m.Type.NumOut(); j++ {
				outs += m.Type.Out(j).String() + " "
			}
			fmt.Printf("%s.%s -> %s\n", ty, m.Name, outs)
			res := v.Method(i).Call(nil)
			for _, r := range res {
				if !r.IsValid() || (r.Kind() == reflect.Interface || r.Kind() == reflect.Pointer) && r.IsNil() {
					continue
				}
				x := r.Interface()
				if _, ok := x.(key.Key); ok {
					walk(x, depth+1)
				} else if _, ok := x.(key.Parameters); ok {
					walk(x, depth+1)
				}
			}
		}
	}
	var names []string
	for _, e := range catalog.All() {
		names = append(names, e.Name)
		if seen["E"+e.KeyType+string(e.Class)] {
			continue
		}
		seen["E"+e.KeyType+string(e.Class)] = true
		var k key.Key
		var err error
		if catalog.Pooled(e) {
			k, _, err = catalog.PoolKey(e, 0, 7)
		} else {
			k, err = catalog.NewKey(e)
		}
		if err != nil {
			t.Fatal(err)
		}
		walk(k, 0)
	}
	sort.Strings(names)
	n01 := 0
	for _, e := range catalog.All() {
		if e.Cost <= 1 && !catalog.Pooled(e) {
			n01++
		}
	}
	fmt.Println("entries", len(names), "cost<=1", n01)
}
