package memory

// simmem: the simulator-owned memory of the C19 world.
//
//   - Buf: one caller-owned buffer laid out as [canary | data | spare capacity filled with a
//     pattern | canary]; tink only ever sees data[0:n:n+spare]. The harness remembers what every
//     byte must be and classifies any difference as a write into the canary, the data or the
//     spare capacity.
//   - Registry: address ranges [ptr, ptr+cap) of every caller buffer and of every slice tink
//     returned, to detect sharing on addresses alone. Addresses are only compared while the
//     slices are referenced by the registry (Go's collector does not move heap objects).

import (
	"bytes"
	"sort"
	"unsafe"
)

const (
	canaryLen   = 16
	canaryByte  = 0xC5
	sparePatLo  = 0xA0 // spare capacity byte i holds sparePatLo + i%13 (never 0, never the canary)
	sparePatMod = 13
)

// Buf is one caller-owned buffer.
type Buf struct {
	ScratchUsed bool   // set by Delivered: the callee wrote into p[n:len(p)] of an output buffer
	Op          string // the operation it was (first) passed to
	Role        string // "msg", "aux", "ct", "salt", ...
	full        []byte // canary | data | spare | canary
	n           int
	spare       int
	want        []byte // expected contents of full
	// sink: a buffer the caller hands over to be filled (io.Reader.Read(p)). While the call is open its data region
	// may change; when it has returned n, data[:n] is whatever was delivered and everything else must be untouched.
	sink bool
	open bool
}

// NewBuf carves a buffer holding a copy of data with the given spare capacity.
func NewBuf(op, role string, data []byte, spare int) *Buf {
	n := len(data)
	full := make([]byte, canaryLen+n+spare+canaryLen)
	for i := 0; i < canaryLen; i++ {
		full[i] = canaryByte
		full[canaryLen+n+spare+i] = canaryByte
	}
	copy(full[canaryLen:], data)
	for i := 0; i < spare; i++ {
		full[canaryLen+n+i] = byte(sparePatLo + i%sparePatMod)
	}
	return &Buf{Op: op, Role: role, full: full, n: n, spare: spare, want: bytes.Clone(full)}
}

// Slice is what is handed to tink: len n, cap n+spare.
func (b *Buf) Slice() []byte {
	return b.full[canaryLen : canaryLen+b.n : canaryLen+b.n+b.spare]
}

// Range returns the address range of the whole buffer including canaries.
func (b *Buf) Range() (lo, hi uintptr) {
	p := uintptr(unsafe.Pointer(unsafe.SliceData(b.full)))
	return p, p + uintptr(len(b.full))
}

// Check compares the buffer with what the harness expects; region is "", "canary", "input" or "spare"
// (the first damaged region in that order of severity: data, spare, canary) and off the first offset
// inside that region.
func (b *Buf) Check() (region string, off int) {
	if b.Intact() {
		return "", 0
	}
	d0, d1 := canaryLen, canaryLen+b.n
	for i := d0; i < d1 && !b.open; i++ {
		if b.full[i] != b.want[i] {
			return "input", i - d0
		}
	}
	for i := d1; i < d1+b.spare; i++ {
		if b.full[i] != b.want[i] {
			return "spare", i - d1
		}
	}
	for i := range b.full {
		if b.full[i] != b.want[i] && !(b.open && i >= d0 && i < d1) {
			return "canary", i
		}
	}
	return "", 0
}

// Intact reports whether the buffer holds what the harness expects (for an open sink: outside its data region).
func (b *Buf) Intact() bool {
	if !b.open {
		return bytes.Equal(b.full, b.want)
	}
	d0, d1 := canaryLen, canaryLen+b.n
	return bytes.Equal(b.full[:d0], b.want[:d0]) && bytes.Equal(b.full[d1:], b.want[d1:])
}

// OpenSink marks the buffer as handed over to be filled.
func (b *Buf) OpenSink() { b.sink, b.open = true, true }

// Delivered closes a sink after the call returned n: data[:n] is accepted as delivered content.
func (b *Buf) Delivered(n int) {
	if n < 0 {
		n = 0
	}
	if n > b.n {
		n = b.n
	}
	// io.Reader: "Even if Read returns n < len(p), it may use all of p as scratch space during the call" — the whole
	// data region p[:len(p)] of an OUTPUT buffer is the callee's to write; only the spare capacity beyond len(p) and the
	// guards are not. ScratchUsed tells whether p[n:] was touched (a probe, not a finding).
	b.ScratchUsed = !bytes.Equal(b.want[canaryLen+n:canaryLen+b.n], b.full[canaryLen+n:canaryLen+b.n])
	copy(b.want[canaryLen:canaryLen+b.n], b.full[canaryLen:canaryLen+b.n])
	b.open = false
}

// Heal makes the current contents the expected ones (after a reported, known violation).
func (b *Buf) Heal() { copy(b.want, b.full) }

// Data is the live data region (harness-side view, for flips).
func (b *Buf) Data() []byte { return b.full[canaryLen : canaryLen+b.n] }

// SpareRegion is the live spare-capacity region.
func (b *Buf) SpareRegion() []byte { return b.full[canaryLen+b.n : canaryLen+b.n+b.spare] }

// Poke is a harness-made change: byte i of region (data or spare) is XORed and the expectation follows.
func (b *Buf) Poke(spare bool, i int, x byte) {
	o := canaryLen + i
	if spare {
		o += b.n
	}
	b.full[o] ^= x
	b.want[o] = b.full[o]
}

// ---------------------------------------------------------------------------
// address registry

type ivKind uint8

const (
	ivInput ivKind = iota
	ivOutput
)

type interval struct {
	lo, hi uintptr
	kind   ivKind
	call   int    // id of the call that produced / received it
	op     string // stable op name
	keep   []byte // keeps the memory alive (and the address meaningful)
}

// Registry is a set of address intervals sorted by lo.
type Registry struct {
	ivs    []interval
	maxLen uintptr
}

func sliceRange(b []byte) (lo, hi uintptr, ok bool) {
	if cap(b) == 0 {
		return 0, 0, false
	}
	p := uintptr(unsafe.Pointer(unsafe.SliceData(b)))
	return p, p + uintptr(cap(b)), true
}

// Overlaps calls f for every registered interval overlapping [lo, hi).
func (r *Registry) Overlaps(lo, hi uintptr, f func(iv *interval)) {
	if len(r.ivs) == 0 {
		return
	}
	var from uintptr
	if lo > r.maxLen {
		from = lo - r.maxLen
	}
	i := sort.Search(len(r.ivs), func(i int) bool { return r.ivs[i].lo >= from })
	for ; i < len(r.ivs) && r.ivs[i].lo < hi; i++ {
		if r.ivs[i].hi > lo {
			f(&r.ivs[i])
		}
	}
}

// Add registers an interval.
func (r *Registry) Add(iv interval) {
	if iv.hi-iv.lo > r.maxLen {
		r.maxLen = iv.hi - iv.lo
	}
	i := sort.Search(len(r.ivs), func(i int) bool { return r.ivs[i].lo >= iv.lo })
	r.ivs = append(r.ivs, interval{})
	copy(r.ivs[i+1:], r.ivs[i:])
	r.ivs[i] = iv
}
