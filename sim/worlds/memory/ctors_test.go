package memory

// Public constructors, family by family. The raw values are read out of a live key through its accessors,
// copied into caller buffers, and the constructor is called with the caller's slices; the constructed object
// becomes a live object that must stay Equal to the one it was rebuilt from whatever happens to those buffers.

import (
	"fmt"
	"reflect"

	"github.com/tink-crypto/tink-go/v2/aead/aesctrhmac"
	"github.com/tink-crypto/tink-go/v2/aead/aesgcm"
	"github.com/tink-crypto/tink-go/v2/aead/aesgcmsiv"
	"github.com/tink-crypto/tink-go/v2/aead/chacha20poly1305"
	"github.com/tink-crypto/tink-go/v2/aead/xaesgcm"
	"github.com/tink-crypto/tink-go/v2/aead/xchacha20poly1305"
	"github.com/tink-crypto/tink-go/v2/daead/aessiv"
	"github.com/tink-crypto/tink-go/v2/hybrid/ecies"
	"github.com/tink-crypto/tink-go/v2/hybrid/hpke"
	"github.com/tink-crypto/tink-go/v2/jwt/jwtecdsa"
	"github.com/tink-crypto/tink-go/v2/jwt/jwthmac"
	"github.com/tink-crypto/tink-go/v2/jwt/jwtmldsa"
	"github.com/tink-crypto/tink-go/v2/jwt/jwtrsassapkcs1"
	"github.com/tink-crypto/tink-go/v2/jwt/jwtrsassapss"
	"github.com/tink-crypto/tink-go/v2/key"
	"github.com/tink-crypto/tink-go/v2/keyderivation/prfbasedkeyderivation"
	"github.com/tink-crypto/tink-go/v2/mac/aescmac"
	"github.com/tink-crypto/tink-go/v2/mac/hmac"
	"github.com/tink-crypto/tink-go/v2/prf/aescmacprf"
	"github.com/tink-crypto/tink-go/v2/prf/hkdfprf"
	"github.com/tink-crypto/tink-go/v2/prf/hmacprf"
	"github.com/tink-crypto/tink-go/v2/secretdata"
	"github.com/tink-crypto/tink-go/v2/signature/compositemldsa"
	"github.com/tink-crypto/tink-go/v2/signature/ecdsa"
	"github.com/tink-crypto/tink-go/v2/signature/ed25519"
	"github.com/tink-crypto/tink-go/v2/signature/mldsa"
	"github.com/tink-crypto/tink-go/v2/signature/rsassapkcs1"
	"github.com/tink-crypto/tink-go/v2/signature/rsassapss"
	"github.com/tink-crypto/tink-go/v2/signature/slhdsa"
	saesctrhmac "github.com/tink-crypto/tink-go/v2/streamingaead/aesctrhmac"
	"github.com/tink-crypto/tink-go/v2/streamingaead/aesgcmhkdf"
)

type builder struct {
	w    *world
	op   string
	bufs []*Buf
	odd  bool // at least one input was given an unusual encoding
}

// perturb decides, from the plan, whether this constructor input keeps the bytes read from the key or gets an
// unusual encoding of them: top bit of the last or first byte toggled (ignored bits of X25519 values, sign bits),
// one drawn bit flipped, a leading zero byte added or removed (big-endian integers). Both worlds perturb alike,
// so the twin comparison stays exact; what the constructor makes of it (accept or refuse) is an observation, but
// the caller's buffer must stay what the harness put there, and nothing may panic.
func (b *builder) perturb(v []byte) []byte {
	w := b.w
	w.pertCtr++
	kind := w.pl.perturb[w.pertCtr%len(w.pl.perturb)]
	if kind <= 10 || len(v) == 0 {
		return v
	}
	v = append([]byte(nil), v...)
	switch kind {
	case 11:
		v[len(v)-1] ^= 0x80
	case 12:
		v[0] ^= 0x80
	case 13:
		bit := w.pl.flipPos[w.pertCtr%len(w.pl.flipPos)] % (8 * len(v))
		v[bit/8] ^= 1 << (bit % 8)
	case 14:
		v = append([]byte{0}, v...)
	case 15:
		if v[0] != 0 || len(v) == 1 {
			v[len(v)-1] ^= 0x01
		} else {
			v = v[1:]
		}
	}
	b.odd, w.chainOdd = true, true
	w.r.Probe("odd-encoding")
	return v
}

// bytes hands a public value to the constructor as a caller slice.
func (b *builder) bytes(role string, v []byte) []byte {
	buf := b.w.in(b.op, role, b.perturb(v), b.w.nextSpare())
	b.bufs = append(b.bufs, buf)
	return buf.Slice()
}

// bytesFor is bytes for a second constructor called in the same breath (signer and verifier, encrypt and decrypt).
func (b *builder) bytesFor(op, role string, v []byte) []byte {
	buf := b.w.in(op, role, b.perturb(v), b.w.nextSpare())
	b.bufs = append(b.bufs, buf)
	return buf.Slice()
}

// secret wraps secret bytes the way a caller has to: secretdata.NewBytesFromData over the caller's slice.
func (b *builder) secret(role string, s secretdata.Bytes) secretdata.Bytes {
	const op = "secretdata.NewBytesFromData"
	buf := b.w.in(op, role, b.perturb(s.Data(tok)), b.w.nextSpare())
	b.bufs = append(b.bufs, buf)
	b.w.setAdd("constructors", op)
	return secretdata.NewBytesFromData(buf.Slice(), tok)
}

func isNil(v any) bool {
	if v == nil {
		return true
	}
	rv := reflect.ValueOf(v)
	return rv.Kind() == reflect.Pointer && rv.IsNil()
}

// idxOf finds (or registers) the live object for v.
func (w *world) idxOf(v any) int {
	if isNil(v) {
		return -1
	}
	if p := ptrOf(v); p != 0 {
		if i, ok := w.byPtr[p]; ok {
			return i
		}
	}
	if len(w.objs) >= maxObjs {
		return -1
	}
	return w.addObj(v, "accessor", -1)
}

// construct runs one constructor; orig is the object the result must equal.
func (w *world) construct(op string, orig any, f func(b *builder) (any, error)) any {
	b := &builder{w: w, op: op}
	var v any
	var err error
	func() {
		defer w.catch(op)
		v, err = f(b)
	}()
	w.done(op)
	w.obsErr(op, "construct", err)
	w.setAdd("constructors", op)
	odd := b.odd || w.chainOdd
	if err != nil || isNil(v) {
		if odd {
			w.r.Probe("odd-encoding-refused")
		} else if !w.faulted {
			w.fatalf("%s refuses the values read from a key of %s: %v", op, w.pl.ent.name, err)
		}
		return nil
	}
	if b.odd {
		w.r.Probe("odd-encoding-accepted")
	}
	for _, buf := range b.bufs {
		w.newTarget(&target{culprit: buf.Op, kind: "input", buf: buf})
	}
	eq := equalObj(v, orig)
	w.obsS(op, "equal-original", fmt.Sprint(eq))
	if !eq && !w.faulted && !odd {
		w.fatalf("%s built an object that is not Equal to the one its arguments were read from (%s)", op, w.pl.ent.name)
	}
	if len(w.objs) < maxObjs {
		w.addObj(v, op, w.idxOf(orig))
	}
	if _, isKey := v.(key.Key); isKey {
		w.r.Probe("ctor-rebuilt")
	} else {
		w.r.Probe("params-rebuilt")
	}
	return v
}

// mk is construct for keys.
func (w *world) mk(op string, orig key.Key, f func(b *builder) (key.Key, error)) key.Key {
	v := w.construct(op, orig, func(b *builder) (any, error) {
		k, err := f(b)
		if err != nil {
			return nil, err
		}
		return k, nil
	})
	if v == nil {
		return nil
	}
	return v.(key.Key)
}

func (w *world) mkParams(op string, orig key.Parameters, f func(b *builder) (key.Parameters, error)) key.Parameters {
	v := w.construct(op, orig, func(b *builder) (any, error) {
		p, err := f(b)
		if err != nil {
			return nil, err
		}
		return p, nil
	})
	if v == nil {
		return nil
	}
	return v.(key.Parameters)
}

func pubOf(k key.Key) key.Key {
	p, ok := k.(interface{ PublicKey() (key.Key, error) })
	if !ok {
		return nil
	}
	pk, err := p.PublicKey()
	if err != nil {
		return nil
	}
	return pk
}

func idOf(k key.Key) uint32 {
	id, _ := k.IDRequirement()
	return id
}

type keyBytes interface{ KeyBytes() secretdata.Bytes }

// rebuild rebuilds the live key at index ki; the resulting complete key joins the keys handles are made from.
func (w *world) rebuild(ki int) {
	k := w.objs[ki].v.(key.Key)
	w.chainOdd = false
	_, priv := w.rebuildKey(k)
	if priv != nil {
		if i := w.idxOf(priv); i >= 0 && len(w.keys) < 8 {
			w.keys = append(w.keys, i)
			if w.chainOdd {
				w.oddKeys = true
			}
		}
	}
	w.chainOdd = false
}

// rebuildKey returns the rebuilt public key (nil for symmetric keys) and the rebuilt private / symmetric key
// (nil when k is a public key). A nil result with a non-public k means the family has no public constructor
// taking the key's values (or the constructor failed in world B).
func (w *world) rebuildKey(k key.Key) (pub, priv key.Key) {
	if isNil(k) {
		return nil, nil
	}
	id := idOf(k)
	switch k := k.(type) {
	// --- symmetric -------------------------------------------------------------------------------------
	case *aesgcm.Key:
		par := k.Parameters().(*aesgcm.Parameters)
		return nil, w.mk("aead/aesgcm.NewKey", k, func(b *builder) (key.Key, error) {
			return aesgcm.NewKey(b.secret("key bytes", k.KeyBytes()), id, par)
		})
	case *aesgcmsiv.Key:
		par := k.Parameters().(*aesgcmsiv.Parameters)
		return nil, w.mk("aead/aesgcmsiv.NewKey", k, func(b *builder) (key.Key, error) {
			return aesgcmsiv.NewKey(b.secret("key bytes", k.KeyBytes()), id, par)
		})
	case *chacha20poly1305.Key:
		par := k.Parameters().(*chacha20poly1305.Parameters)
		return nil, w.mk("aead/chacha20poly1305.NewKey", k, func(b *builder) (key.Key, error) {
			return chacha20poly1305.NewKey(b.secret("key bytes", k.KeyBytes()), id, par)
		})
	case *xchacha20poly1305.Key:
		par := k.Parameters().(*xchacha20poly1305.Parameters)
		return nil, w.mk("aead/xchacha20poly1305.NewKey", k, func(b *builder) (key.Key, error) {
			return xchacha20poly1305.NewKey(b.secret("key bytes", k.KeyBytes()), id, par)
		})
	case *xaesgcm.Key:
		par := k.Parameters().(*xaesgcm.Parameters)
		return nil, w.mk("aead/xaesgcm.NewKey", k, func(b *builder) (key.Key, error) {
			return xaesgcm.NewKey(b.secret("key bytes", k.KeyBytes()), id, par)
		})
	case *aesctrhmac.Key:
		par := k.Parameters().(*aesctrhmac.Parameters)
		return nil, w.mk("aead/aesctrhmac.NewKey", k, func(b *builder) (key.Key, error) {
			return aesctrhmac.NewKey(aesctrhmac.KeyOpts{AESKeyBytes: b.secret("AES key bytes", k.AESKeyBytes()),
				HMACKeyBytes: b.secret("HMAC key bytes", k.HMACKeyBytes()), IDRequirement: id, Parameters: par})
		})
	case *aessiv.Key:
		par := k.Parameters().(*aessiv.Parameters)
		return nil, w.mk("daead/aessiv.NewKey", k, func(b *builder) (key.Key, error) {
			return aessiv.NewKey(b.secret("key bytes", k.KeyBytes()), id, par)
		})
	case *hmac.Key:
		par := k.Parameters().(*hmac.Parameters)
		return nil, w.mk("mac/hmac.NewKey", k, func(b *builder) (key.Key, error) {
			return hmac.NewKey(b.secret("key bytes", k.KeyBytes()), par, id)
		})
	case *aescmac.Key:
		par := k.Parameters().(*aescmac.Parameters)
		return nil, w.mk("mac/aescmac.NewKey", k, func(b *builder) (key.Key, error) {
			return aescmac.NewKey(b.secret("key bytes", k.KeyBytes()), par, id)
		})
	case *hmacprf.Key:
		par := k.Parameters().(*hmacprf.Parameters)
		return nil, w.mk("prf/hmacprf.NewKey", k, func(b *builder) (key.Key, error) {
			return hmacprf.NewKey(b.secret("key bytes", k.KeyBytes()), par)
		})
	case *aescmacprf.Key:
		return nil, w.mk("prf/aescmacprf.NewKey", k, func(b *builder) (key.Key, error) {
			return aescmacprf.NewKey(b.secret("key bytes", k.KeyBytes()))
		})
	case *hkdfprf.Key:
		par := k.Parameters().(*hkdfprf.Parameters)
		np := w.mkParams("prf/hkdfprf.NewParameters", par, func(b *builder) (key.Parameters, error) {
			return hkdfprf.NewParameters(par.KeySizeInBytes(), par.HashType(), b.bytes("salt", par.Salt()))
		})
		if np == nil {
			return nil, nil
		}
		return nil, w.mk("prf/hkdfprf.NewKey", k, func(b *builder) (key.Key, error) {
			return hkdfprf.NewKey(b.secret("key bytes", k.KeyBytes()), np.(*hkdfprf.Parameters))
		})
	case *jwthmac.Key:
		par := k.Parameters().(*jwthmac.Parameters)
		kid, hasKID := k.KID()
		custom := par.KIDStrategy() == jwthmac.CustomKID && hasKID
		return nil, w.mk("jwt/jwthmac.NewKey", k, func(b *builder) (key.Key, error) {
			o := jwthmac.KeyOpts{KeyBytes: b.secret("key bytes", k.KeyBytes()), IDRequirement: id, Parameters: par}
			if custom {
				o.CustomKID, o.HasCustomKID = kid, true
			}
			return jwthmac.NewKey(o)
		})
	case *aesgcmhkdf.Key:
		par := k.Parameters().(*aesgcmhkdf.Parameters)
		return nil, w.mk("streamingaead/aesgcmhkdf.NewKey", k, func(b *builder) (key.Key, error) {
			return aesgcmhkdf.NewKey(par, b.secret("key bytes", k.KeyBytes()))
		})
	case *saesctrhmac.Key:
		par := k.Parameters().(*saesctrhmac.Parameters)
		return nil, w.mk("streamingaead/aesctrhmac.NewKey", k, func(b *builder) (key.Key, error) {
			return saesctrhmac.NewKey(par, b.secret("key bytes", k.KeyBytes()))
		})
	case *prfbasedkeyderivation.Key:
		par := k.Parameters().(*prfbasedkeyderivation.Parameters)
		_, nprf := w.rebuildKey(k.PRFKey())
		if nprf == nil {
			return nil, nil
		}
		np := w.mkParams("keyderivation/prfbasedkeyderivation.NewParameters", par, func(b *builder) (key.Parameters, error) {
			return prfbasedkeyderivation.NewParameters(nprf.Parameters(), par.DerivedKeyParameters())
		})
		if np == nil {
			return nil, nil
		}
		return nil, w.mk("keyderivation/prfbasedkeyderivation.NewKey", k, func(b *builder) (key.Key, error) {
			return prfbasedkeyderivation.NewKey(np.(*prfbasedkeyderivation.Parameters), nprf, id)
		})

	// --- signatures ------------------------------------------------------------------------------------
	case *ecdsa.PublicKey:
		par := k.Parameters().(*ecdsa.Parameters)
		return w.mk("signature/ecdsa.NewPublicKey", k, func(b *builder) (key.Key, error) {
			return ecdsa.NewPublicKey(b.bytes("public point", k.PublicPoint()), id, par)
		}), nil
	case *ecdsa.PrivateKey:
		par := k.Parameters().(*ecdsa.Parameters)
		pub, _ = w.rebuildKey(pubOf(k))
		priv = w.mk("signature/ecdsa.NewPrivateKey", k, func(b *builder) (key.Key, error) {
			return ecdsa.NewPrivateKey(b.secret("private key value", k.PrivateKeyValue()), id, par)
		})
		if pub != nil {
			priv = w.mk("signature/ecdsa.NewPrivateKeyFromPublicKey", k, func(b *builder) (key.Key, error) {
				return ecdsa.NewPrivateKeyFromPublicKey(pub.(*ecdsa.PublicKey), b.secret("private key value", k.PrivateKeyValue()))
			})
		}
		return pub, priv
	case *ed25519.PublicKey:
		par := *(k.Parameters().(*ed25519.Parameters))
		return w.mk("signature/ed25519.NewPublicKey", k, func(b *builder) (key.Key, error) {
			return ed25519.NewPublicKey(b.bytes("public key bytes", k.KeyBytes()), id, par)
		}), nil
	case *ed25519.PrivateKey:
		par := *(k.Parameters().(*ed25519.Parameters))
		pub, _ = w.rebuildKey(pubOf(k))
		priv = w.mk("signature/ed25519.NewPrivateKey", k, func(b *builder) (key.Key, error) {
			return ed25519.NewPrivateKey(b.secret("private key bytes", k.PrivateKeyBytes()), id, par)
		})
		if pub != nil {
			priv = w.mk("signature/ed25519.NewPrivateKeyWithPublicKey", k, func(b *builder) (key.Key, error) {
				return ed25519.NewPrivateKeyWithPublicKey(b.secret("private key bytes", k.PrivateKeyBytes()), pub.(*ed25519.PublicKey))
			})
		}
		return pub, priv
	case *mldsa.PublicKey:
		par := k.Parameters().(*mldsa.Parameters)
		return w.mk("signature/mldsa.NewPublicKey", k, func(b *builder) (key.Key, error) {
			return mldsa.NewPublicKey(b.bytes("public key bytes", k.KeyBytes()), id, par)
		}), nil
	case *mldsa.PrivateKey:
		par := k.Parameters().(*mldsa.Parameters)
		pub, _ = w.rebuildKey(pubOf(k))
		priv = w.mk("signature/mldsa.NewPrivateKey", k, func(b *builder) (key.Key, error) {
			return mldsa.NewPrivateKey(b.secret("private key bytes", k.PrivateKeyBytes()), id, par)
		})
		if pub != nil {
			priv = w.mk("signature/mldsa.NewPrivateKeyWithPublicKey", k, func(b *builder) (key.Key, error) {
				return mldsa.NewPrivateKeyWithPublicKey(b.secret("private key bytes", k.PrivateKeyBytes()), pub.(*mldsa.PublicKey))
			})
		}
		return pub, priv
	case *slhdsa.PublicKey:
		par := k.Parameters().(*slhdsa.Parameters)
		return w.mk("signature/slhdsa.NewPublicKey", k, func(b *builder) (key.Key, error) {
			return slhdsa.NewPublicKey(b.bytes("public key bytes", k.KeyBytes()), id, par)
		}), nil
	case *slhdsa.PrivateKey:
		par := k.Parameters().(*slhdsa.Parameters)
		pub, _ = w.rebuildKey(pubOf(k))
		priv = w.mk("signature/slhdsa.NewPrivateKey", k, func(b *builder) (key.Key, error) {
			return slhdsa.NewPrivateKey(b.secret("private key bytes", k.PrivateKeyBytes()), id, par)
		})
		if pub != nil {
			priv = w.mk("signature/slhdsa.NewPrivateKeyWithPublicKey", k, func(b *builder) (key.Key, error) {
				return slhdsa.NewPrivateKeyWithPublicKey(b.secret("private key bytes", k.PrivateKeyBytes()), pub.(*slhdsa.PublicKey))
			})
		}
		return pub, priv
	case *rsassapkcs1.PublicKey:
		par := k.Parameters().(*rsassapkcs1.Parameters)
		return w.mk("signature/rsassapkcs1.NewPublicKey", k, func(b *builder) (key.Key, error) {
			return rsassapkcs1.NewPublicKey(b.bytes("modulus", k.Modulus()), id, par)
		}), nil
	case *rsassapkcs1.PrivateKey:
		pub, _ = w.rebuildKey(pubOf(k))
		if pub == nil {
			return nil, nil
		}
		return pub, w.mk("signature/rsassapkcs1.NewPrivateKey", k, func(b *builder) (key.Key, error) {
			return rsassapkcs1.NewPrivateKey(pub.(*rsassapkcs1.PublicKey), rsassapkcs1.PrivateKeyValues{
				P: b.secret("p", k.P()), Q: b.secret("q", k.Q()), D: b.secret("d", k.D())})
		})
	case *rsassapss.PublicKey:
		par := k.Parameters().(*rsassapss.Parameters)
		return w.mk("signature/rsassapss.NewPublicKey", k, func(b *builder) (key.Key, error) {
			return rsassapss.NewPublicKey(b.bytes("modulus", k.Modulus()), id, par)
		}), nil
	case *rsassapss.PrivateKey:
		pub, _ = w.rebuildKey(pubOf(k))
		if pub == nil {
			return nil, nil
		}
		return pub, w.mk("signature/rsassapss.NewPrivateKey", k, func(b *builder) (key.Key, error) {
			return rsassapss.NewPrivateKey(pub.(*rsassapss.PublicKey), rsassapss.PrivateKeyValues{
				P: b.secret("p", k.P()), Q: b.secret("q", k.Q()), D: b.secret("d", k.D())})
		})
	case *compositemldsa.PublicKey:
		par := k.Parameters().(*compositemldsa.Parameters)
		ml, _ := w.rebuildKey(k.MLDSAPublicKey())
		cl, _ := w.rebuildKey(k.ClassicalPublicKey())
		if ml == nil || cl == nil {
			return nil, nil
		}
		return w.mk("signature/compositemldsa.NewPublicKey", k, func(b *builder) (key.Key, error) {
			return compositemldsa.NewPublicKey(ml.(*mldsa.PublicKey), cl, id, par)
		}), nil
	case *compositemldsa.PrivateKey:
		par := k.Parameters().(*compositemldsa.Parameters)
		pub, _ = w.rebuildKey(pubOf(k))
		_, ml := w.rebuildKey(k.MLDSAPrivateKey())
		_, cl := w.rebuildKey(k.ClassicalPrivateKey())
		if ml == nil || cl == nil {
			return pub, nil
		}
		return pub, w.mk("signature/compositemldsa.NewPrivateKey", k, func(b *builder) (key.Key, error) {
			return compositemldsa.NewPrivateKey(ml.(*mldsa.PrivateKey), cl, id, par)
		})

	// --- hybrid ----------------------------------------------------------------------------------------
	case *hpke.PublicKey:
		par := k.Parameters().(*hpke.Parameters)
		return w.mk("hybrid/hpke.NewPublicKey", k, func(b *builder) (key.Key, error) {
			return hpke.NewPublicKey(b.bytes("public key bytes", k.PublicKeyBytes()), id, par)
		}), nil
	case *hpke.PrivateKey:
		par := k.Parameters().(*hpke.Parameters)
		pub, _ = w.rebuildKey(pubOf(k))
		priv = w.mk("hybrid/hpke.NewPrivateKey", k, func(b *builder) (key.Key, error) {
			return hpke.NewPrivateKey(b.secret("private key bytes", k.PrivateKeyBytes()), id, par)
		})
		if pub != nil {
			priv = w.mk("hybrid/hpke.NewPrivateKeyFromPublicKey", k, func(b *builder) (key.Key, error) {
				return hpke.NewPrivateKeyFromPublicKey(b.secret("private key bytes", k.PrivateKeyBytes()), pub.(*hpke.PublicKey))
			})
		}
		return pub, priv
	case *ecies.PublicKey:
		np := w.eciesParams(k.Parameters().(*ecies.Parameters))
		if np == nil {
			return nil, nil
		}
		return w.mk("hybrid/ecies.NewPublicKey", k, func(b *builder) (key.Key, error) {
			return ecies.NewPublicKey(b.bytes("public key bytes", k.PublicKeyBytes()), id, np)
		}), nil
	case *ecies.PrivateKey:
		np := w.eciesParams(k.Parameters().(*ecies.Parameters))
		if np == nil {
			return nil, nil
		}
		pub, _ = w.rebuildKey(pubOf(k))
		priv = w.mk("hybrid/ecies.NewPrivateKey", k, func(b *builder) (key.Key, error) {
			return ecies.NewPrivateKey(b.secret("private key bytes", k.PrivateKeyBytes()), id, np)
		})
		if pub != nil {
			priv = w.mk("hybrid/ecies.NewPrivateKeyFromPublicKey", k, func(b *builder) (key.Key, error) {
				return ecies.NewPrivateKeyFromPublicKey(b.secret("private key bytes", k.PrivateKeyBytes()), pub.(*ecies.PublicKey))
			})
		}
		return pub, priv

	// --- JWT -------------------------------------------------------------------------------------------
	case *jwtecdsa.PublicKey:
		par := k.Parameters().(*jwtecdsa.Parameters)
		kid, hasKID := k.KID()
		custom := par.KIDStrategy() == jwtecdsa.CustomKID && hasKID
		return w.mk("jwt/jwtecdsa.NewPublicKey", k, func(b *builder) (key.Key, error) {
			o := jwtecdsa.PublicKeyOpts{PublicPoint: b.bytes("public point", k.PublicPoint()), IDRequirement: id, Parameters: par}
			if custom {
				o.CustomKID, o.HasCustomKID = kid, true
			}
			return jwtecdsa.NewPublicKey(o)
		}), nil
	case *jwtecdsa.PrivateKey:
		pub, _ = w.rebuildKey(pubOf(k))
		if pub == nil {
			return nil, nil
		}
		return pub, w.mk("jwt/jwtecdsa.NewPrivateKeyFromPublicKey", k, func(b *builder) (key.Key, error) {
			return jwtecdsa.NewPrivateKeyFromPublicKey(b.secret("private key value", k.PrivateKeyValue()), pub.(*jwtecdsa.PublicKey))
		})
	case *jwtmldsa.PublicKey:
		par := k.Parameters().(*jwtmldsa.Parameters)
		kid, hasKID := k.KID()
		custom := par.KIDStrategy() == jwtmldsa.CustomKID && hasKID
		return w.mk("jwt/jwtmldsa.NewPublicKey", k, func(b *builder) (key.Key, error) {
			o := jwtmldsa.PublicKeyOpts{KeyBytes: b.bytes("public key bytes", k.KeyBytes()), IDRequirement: id, Parameters: par}
			if custom {
				o.CustomKID, o.HasCustomKID = kid, true
			}
			return jwtmldsa.NewPublicKey(o)
		}), nil
	case *jwtmldsa.PrivateKey:
		pub, _ = w.rebuildKey(pubOf(k))
		if pub == nil {
			return nil, nil
		}
		return pub, w.mk("jwt/jwtmldsa.NewPrivateKeyFromPublicKey", k, func(b *builder) (key.Key, error) {
			return jwtmldsa.NewPrivateKeyFromPublicKey(b.secret("private key value", k.PrivateKeyValue()), pub.(*jwtmldsa.PublicKey))
		})
	case *jwtrsassapkcs1.PublicKey:
		par := k.Parameters().(*jwtrsassapkcs1.Parameters)
		kid, hasKID := k.KID()
		custom := par.KIDStrategy() == jwtrsassapkcs1.CustomKID && hasKID
		return w.mk("jwt/jwtrsassapkcs1.NewPublicKey", k, func(b *builder) (key.Key, error) {
			o := jwtrsassapkcs1.PublicKeyOpts{Modulus: b.bytes("modulus", k.Modulus()), IDRequirement: id, Parameters: par}
			if custom {
				o.CustomKID, o.HasCustomKID = kid, true
			}
			return jwtrsassapkcs1.NewPublicKey(o)
		}), nil
	case *jwtrsassapkcs1.PrivateKey:
		pub, _ = w.rebuildKey(pubOf(k))
		if pub == nil {
			return nil, nil
		}
		return pub, w.mk("jwt/jwtrsassapkcs1.NewPrivateKey", k, func(b *builder) (key.Key, error) {
			return jwtrsassapkcs1.NewPrivateKey(jwtrsassapkcs1.PrivateKeyOpts{PublicKey: pub.(*jwtrsassapkcs1.PublicKey),
				D: b.secret("d", k.D()), P: b.secret("p", k.P()), Q: b.secret("q", k.Q())})
		})
	case *jwtrsassapss.PublicKey:
		par := k.Parameters().(*jwtrsassapss.Parameters)
		kid, hasKID := k.KID()
		custom := par.KIDStrategy() == jwtrsassapss.CustomKID && hasKID
		return w.mk("jwt/jwtrsassapss.NewPublicKey", k, func(b *builder) (key.Key, error) {
			o := jwtrsassapss.PublicKeyOpts{Modulus: b.bytes("modulus", k.Modulus()), IDRequirement: id, Parameters: par}
			if custom {
				o.CustomKID, o.HasCustomKID = kid, true
			}
			return jwtrsassapss.NewPublicKey(o)
		}), nil
	case *jwtrsassapss.PrivateKey:
		pub, _ = w.rebuildKey(pubOf(k))
		if pub == nil {
			return nil, nil
		}
		return pub, w.mk("jwt/jwtrsassapss.NewPrivateKey", k, func(b *builder) (key.Key, error) {
			return jwtrsassapss.NewPrivateKey(jwtrsassapss.PrivateKeyOpts{PublicKey: pub.(*jwtrsassapss.PublicKey),
				D: b.secret("d", k.D()), P: b.secret("p", k.P()), Q: b.secret("q", k.Q())})
		})
	}
	w.setAdd("constructors-none", typeLabel(reflect.TypeOf(k)))
	return nil, nil
}

func (w *world) eciesParams(par *ecies.Parameters) *ecies.Parameters {
	np := w.mkParams("hybrid/ecies.NewParameters", par, func(b *builder) (key.Parameters, error) {
		return ecies.NewParameters(ecies.ParametersOpts{CurveType: par.CurveType(), HashType: par.HashType(),
			NISTCurvePointFormat: par.NISTCurvePointFormat(), DEMParameters: par.DEMParameters(), Salt: b.bytes("salt", par.Salt()), Variant: par.Variant()})
	})
	if np == nil {
		return nil
	}
	return np.(*ecies.Parameters)
}
