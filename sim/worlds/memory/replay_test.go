package memory

// Replay with the mutated content: a primitive must not RETAIN an input of an OPERATION either. The step makes one
// call (and the accept of its output), then the caller overwrites one of the buffers it passed — world B really
// does, in place, world A leaves the buffer alone — and both worlds make the same call again on the same primitive
// with a FRESH buffer holding exactly the new content (all other arguments as before, fresh copies). A primitive that
// kept the caller's slice (a cache keyed on it, a lazily hashed message) now sees "the same bytes as last time" in
// world B only, so its answers differ between the worlds. For deterministic factory primitives the answer is also
// compared with that of a second, never used primitive built from the same handle.

import (
	"bytes"
	"fmt"

	"github.com/tink-crypto/tink-go/v2/verifsim/classes"
)

// overwrite: the caller overwrites buf with new content (drawn flip of one byte or of every byte). The new content
// is returned in both worlds; only world B changes the buffer itself.
func (w *world) overwrite(buf *Buf, culprit string) []byte {
	seq := w.tgtSeq
	w.tgtSeq++
	pl := w.pl
	x := pl.flipXor[seq%len(pl.flipXor)]
	whole := pl.flipWhole[seq%len(pl.flipWhole)]
	y := bytes.Clone(buf.Data())
	n := len(y)
	if n == 0 {
		return y
	}
	i := pl.flipPos[seq%len(pl.flipPos)] % n
	if whole {
		xorAll(y, x)
	} else {
		y[i] ^= x
	}
	tg := &target{culprit: culprit, kind: "input", buf: buf, seq: seq, fired: true, dataOnly: true}
	w.targets = append(w.targets, tg) // in both worlds: the list bounds the number of flips of a run
	if w.faulted {
		poke := func() {
			if whole {
				for j := 0; j < n; j++ {
					buf.Poke(false, j, x)
				}
			} else {
				buf.Poke(false, i, x)
			}
		}
		poke()
		tg.undo = poke
		w.flips["flip-input"]++
		if whole {
			w.flips["flip-whole"]++
		}
		w.r.Logf("B: the caller overwrites the %s buffer it passed to %s (xor %02x, whole %v)", buf.Role, buf.Op, x, whole)
	}
	w.culprit = culprit
	return y
}

func (w *world) stepReplay(arg int) {
	var p *prim
	if len(w.prims) == 0 {
		p = w.stepPrims(arg)
	} else {
		p = w.prims[arg%len(w.prims)]
	}
	if p == nil {
		return
	}
	defer func() { w.culprit, w.mayReject = "", false }()
	w.shapeCtr++
	ml := w.pl.msgLens[w.shapeCtr%len(w.pl.msgLens)]
	al := w.pl.auxLens[w.shapeCtr%len(w.pl.auxLens)]
	if (p.ent.cat != nil && p.ent.cat.Cost >= 2 && ml > 100) || ml > 1000 {
		ml = 100
	}
	if ml == 0 {
		ml = 16
	}
	if al == 0 {
		al = 5
	}
	if p.fitMsg != nil {
		ml = p.fitMsg(ml)
	}
	msg, aux := w.data(ml), w.data(al)
	if p.prep != nil {
		msg = p.prep(msg)
	}
	out := w.useOnce(p, msg, aux, false, false, false)
	if out == nil || w.lastProduce == nil {
		return
	}
	prodRec, accRec := w.lastProduce, w.lastAccept
	which := arg / 2 % 5
	if accRec == nil && which >= 2 {
		which %= 2
	}
	switch which {
	case 0, 1: // the producing call again, with the message or the associated data as overwritten
		nmsg, naux := msg, aux
		if which == 0 {
			nmsg = w.overwrite(prodRec.msgB, p.opP)
		} else {
			naux = w.overwrite(prodRec.auxB, p.opP)
		}
		w.r.Probe("replay-produce-after-overwrite")
		w.mayReject = true // the new content need not be something the primitive takes (a prehash, a wrapped key)
		out2 := w.useOnce(p, nmsg, naux, false, false, false)
		if out2 != nil && p.det && !p.noRef && p.hidx >= 0 && p.ent.cat != nil && p.ent.cat.Cost == 0 && p.derive == nil {
			w.reference(p, nmsg, naux, out2)
		}
	default: // the accepting call again, with the ciphertext / tag / signature, the message or the associated data as overwritten
		nout, nmsg, naux := out, msg, aux
		switch which {
		case 2:
			nout = w.overwrite(accRec.ctB, p.opA)
		case 3:
			nmsg = w.overwrite(accRec.msgB, p.opA)
		default:
			naux = w.overwrite(accRec.auxB, p.opA)
		}
		w.r.Probe("replay-accept-after-overwrite")
		w.mayReject = true
		w.acceptOnce(p, nout, nmsg, naux, false, false)
	}
}

// reference: what a never used primitive of the same handle returns for the same arguments.
func (w *world) reference(p *prim, msg, aux, out []byte) {
	op := p.opP
	var ref []byte
	var err error
	func() {
		defer w.catch(op)
		var prod *classes.Producer
		prod, err = classes.NewProducer(p.ent.class, w.handles[p.hidx].h)
		if err != nil {
			return
		}
		ref, err = prod.Produce(bytes.Clone(msg), bytes.Clone(aux))
	}()
	if err != nil {
		return
	}
	same := bytes.Equal(ref, out)
	w.obsS(op, "agrees with a fresh primitive", fmt.Sprint(same))
	w.r.Probe("replay-reference-checked")
	if !same && !w.faulted {
		// not attributable to a mutation (world A has none): a primitive whose answers depend on its past
		w.r.Count("stateful-deterministic-primitive", 1)
		w.setAdd("stateful-deterministic-primitive", op)
	}
}
