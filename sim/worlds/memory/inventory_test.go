package memory

// Coverage honesty: the inventory of tink's exported API that takes or returns byte slices (or secretdata.Bytes),
// read from the sources of the tree under test, in the same naming scheme as the world's own "accessors",
// "constructors" and "ops" sets ("hybrid/hpke.(*PublicKey).PublicKeyBytes", "prf/hkdfprf.NewParameters").
// The evidence carries the inventory as the set "byte-api"; what the runs reached is in the other sets, so the
// difference names what was not reached.

import (
	"go/ast"
	"go/parser"
	"go/token"
	"os"
	"path/filepath"
	"sort"
	"strings"
)

func repoDir() string {
	if d := os.Getenv("VSIM_REPO"); d != "" {
		return d
	}
	if d := os.Getenv("VSIM_REPO_DIR"); d != "" {
		return d
	}
	return "/repo"
}

func mentionsBytes(e ast.Expr) bool {
	found := false
	ast.Inspect(e, func(n ast.Node) bool {
		switch t := n.(type) {
		case *ast.ArrayType:
			if id, ok := t.Elt.(*ast.Ident); ok && t.Len == nil && (id.Name == "byte" || id.Name == "uint8") {
				found = true
			}
		case *ast.SelectorExpr:
			if x, ok := t.X.(*ast.Ident); ok && x.Name == "secretdata" && t.Sel.Name == "Bytes" {
				found = true
			}
		}
		return !found
	})
	return found
}

func fieldsMentionBytes(fl *ast.FieldList) bool {
	if fl == nil {
		return false
	}
	for _, f := range fl.List {
		if mentionsBytes(f.Type) {
			return true
		}
	}
	return false
}

// byteAPI lists the exported functions and methods (of exported types) with a byte slice or secretdata.Bytes
// among their parameters or results, outside tests, generated protos and testing helpers.
func byteAPI(root string) []string {
	var out []string
	fset := token.NewFileSet()
	_ = filepath.WalkDir(root, func(path string, d os.DirEntry, err error) error {
		if err != nil {
			return nil
		}
		rel, _ := filepath.Rel(root, path)
		if d.IsDir() {
			switch {
			case rel == "proto", rel == "testing", rel == "testutil", rel == "testkeyset", rel == "tools", rel == "examples", rel == "docs",
				strings.HasPrefix(d.Name(), ".") && rel != ".", strings.HasSuffix(rel, "/testing"), strings.Contains(rel, "testdata"), strings.HasSuffix(rel, "testutil"):
				return filepath.SkipDir
			}
			return nil
		}
		if !strings.HasSuffix(path, ".go") || strings.HasSuffix(path, "_test.go") {
			return nil
		}
		f, err := parser.ParseFile(fset, path, nil, parser.SkipObjectResolution)
		if err != nil {
			return nil
		}
		pkg := filepath.Dir(rel)
		for _, decl := range f.Decls {
			fd, ok := decl.(*ast.FuncDecl)
			if !ok || !fd.Name.IsExported() {
				continue
			}
			if !fieldsMentionBytes(fd.Type.Params) && !fieldsMentionBytes(fd.Type.Results) {
				continue
			}
			name := pkg + "." + fd.Name.Name
			if fd.Recv != nil && len(fd.Recv.List) == 1 {
				t := fd.Recv.List[0].Type
				if st, ok := t.(*ast.StarExpr); ok {
					t = st.X
				}
				if ix, ok := t.(*ast.IndexExpr); ok {
					t = ix.X
				}
				id, ok := t.(*ast.Ident)
				if !ok || !id.IsExported() {
					continue
				}
				// value and pointer receivers are both written (*T), as reflection on a *T shows them
				name = pkg + ".(*" + id.Name + ")." + fd.Name.Name
			}
			out = append(out, name)
		}
		return nil
	})
	sort.Strings(out)
	return out
}

var inventoryDone bool

// reportInventory adds the inventory to the evidence once (first worker only: it is the same everywhere).
func reportInventory(add func(set, elem string)) {
	if inventoryDone {
		return
	}
	inventoryDone = true
	if w := os.Getenv("VSIM_WORKER"); w != "" && w != "0" {
		return
	}
	for _, n := range byteAPI(repoDir()) {
		add("byte-api", n)
	}
}
