package memory

// The subtle (non-full, "RAW") primitives: their public constructors take key bytes as caller slices. Each case
// builds one primitive from caller buffers and wraps it as a prim, so that everything the world does to
// primitives (operations on caller buffers, flips of earlier inputs and outputs, twin-world comparison) applies.

import (
	"bytes"
	"context"
	"crypto/ecdh"
	"crypto/ed25519"
	"crypto/elliptic"
	"errors"
	"io"
	"math/big"

	"github.com/tink-crypto/tink-go/v2/aead"
	aeadsubtle "github.com/tink-crypto/tink-go/v2/aead/subtle"
	daeadsubtle "github.com/tink-crypto/tink-go/v2/daead/subtle"
	hybridsubtle "github.com/tink-crypto/tink-go/v2/hybrid/subtle"
	kwpsubtle "github.com/tink-crypto/tink-go/v2/kwp/subtle"
	macsubtle "github.com/tink-crypto/tink-go/v2/mac/subtle"
	prfsubtle "github.com/tink-crypto/tink-go/v2/prf/subtle"
	sigsubtle "github.com/tink-crypto/tink-go/v2/signature/subtle"
	streamsubtle "github.com/tink-crypto/tink-go/v2/streamingaead/subtle"
	"github.com/tink-crypto/tink-go/v2/tink"
)

type subtleCase struct {
	op      string // constructor, e.g. "mac/subtle.NewHMAC"
	recv    string // receiver label for operation names, e.g. "mac/subtle.(*HMAC)"
	recvA   string // receiver of the accepting operation when it is another type
	produce string
	accept  string
	build   func(w *world, b *builder, p *prim) error
}

// material is key material that depends on the drawn data seed only (the same for every instance of a run and in both worlds).
func (w *world) material(label string, n int) []byte {
	b := make([]byte, n)
	x := w.pl.dataSeed ^ fnv([]byte(label)) ^ 0x5ab71e
	for i := range b {
		x ^= x << 13
		x ^= x >> 7
		x ^= x << 17
		b[i] = byte(x >> 24)
	}
	return b
}

func (w *world) keySize() int {
	if w.pl.poolIdx%2 == 1 {
		return 16
	}
	return 32
}

func aeadPrim(p *prim, a tink.AEAD) {
	p.produce, p.decrypt = a.Encrypt, a.Decrypt
}

type prfLike interface {
	ComputePRF(data []byte, outputLength uint32) ([]byte, error)
}

func prfPrim(p *prim, f prfLike) {
	p.det = true
	p.produce = func(msg, aux []byte) ([]byte, error) { return f.ComputePRF(msg, 16) }
	p.verify = func(out, msg, aux []byte) error {
		o, err := f.ComputePRF(msg, 16)
		if err != nil {
			return err
		}
		if !bytes.Equal(o, out) {
			return errors.New("PRF output differs")
		}
		return nil
	}
}

type streamLike interface {
	NewEncryptingWriter(w io.Writer, aad []byte) (io.WriteCloser, error)
	NewDecryptingReader(r io.Reader, aad []byte) (io.Reader, error)
}

func streamPrim(p *prim, s streamLike) {
	p.stream = s
	p.produce = func(msg, aux []byte) ([]byte, error) {
		var buf bytes.Buffer
		wr, err := s.NewEncryptingWriter(&buf, aux)
		if err != nil {
			return nil, err
		}
		if _, err := wr.Write(msg); err != nil {
			return nil, err
		}
		if err := wr.Close(); err != nil {
			return nil, err
		}
		return buf.Bytes(), nil
	}
	p.decrypt = func(ct, aux []byte) ([]byte, error) {
		r, err := s.NewDecryptingReader(bytes.NewReader(ct), aux)
		if err != nil {
			return nil, err
		}
		return io.ReadAll(r)
	}
}

// kek is the caller's key-encryption AEAD of the KMS envelope AEADs. What its Decrypt returns is memory of the
// caller's object (a remote-KMS client may well cache it): it is a simmem buffer that stays registered, so a write
// into it by the envelope AEAD shows like a write into any other caller buffer.
type kek struct {
	w *world
	a tink.AEAD
}

func newKEK(w *world) (*kek, error) {
	a, err := aeadsubtle.NewAESGCM(w.material("kek", 16))
	if err != nil {
		return nil, err
	}
	return &kek{w: w, a: a}, nil
}

func (k *kek) Encrypt(pt, ad []byte) ([]byte, error) { return k.a.Encrypt(pt, ad) }

func (k *kek) Decrypt(ct, ad []byte) ([]byte, error) {
	pt, err := k.a.Decrypt(ct, ad)
	if err != nil {
		return nil, err
	}
	b := k.w.in("the caller's key-encryption AEAD", "DEK returned by the caller's key-encryption AEAD", pt, k.w.nextSpare())
	k.w.r.Probe("kek-returned-buffer")
	return b.Slice(), nil
}

type kekCtx struct{ k *kek }

func (c kekCtx) EncryptWithContext(_ context.Context, pt, ad []byte) ([]byte, error) {
	return c.k.Encrypt(pt, ad)
}
func (c kekCtx) DecryptWithContext(_ context.Context, ct, ad []byte) ([]byte, error) {
	return c.k.Decrypt(ct, ad)
}

// demHelper is the harness's DEM for the subtle ECIES primitives: AES-128-GCM through the subtle constructor.
type demHelper struct{}

func (demHelper) GetSymmetricKeySize() uint32 { return 16 }
func (demHelper) GetAEADOrDAEAD(k []byte) (any, error) {
	return aeadsubtle.NewAESGCM(k)
}

func clampMsg(lo, hi int) func(int) int {
	return func(n int) int {
		if n < lo {
			return lo
		}
		if n > hi {
			return hi
		}
		return n
	}
}

var subtleCases = []subtleCase{
	{op: "aead/subtle.NewAESGCM", recv: "aead/subtle.(*AESGCM)", produce: "Encrypt", accept: "Decrypt", build: func(w *world, b *builder, p *prim) error {
		a, err := aeadsubtle.NewAESGCM(b.bytes("key", w.material("k", w.keySize())))
		if err != nil {
			return err
		}
		aeadPrim(p, a)
		return nil
	}},
	{op: "aead/subtle.NewAESGCMSIV", recv: "aead/subtle.(*AESGCMSIV)", produce: "Encrypt", accept: "Decrypt", build: func(w *world, b *builder, p *prim) error {
		a, err := aeadsubtle.NewAESGCMSIV(b.bytes("key", w.material("k", w.keySize())))
		if err != nil {
			return err
		}
		aeadPrim(p, a)
		return nil
	}},
	{op: "aead/subtle.NewChaCha20Poly1305", recv: "aead/subtle.(*ChaCha20Poly1305)", produce: "Encrypt", accept: "Decrypt", build: func(w *world, b *builder, p *prim) error {
		a, err := aeadsubtle.NewChaCha20Poly1305(b.bytes("key", w.material("k", 32)))
		if err != nil {
			return err
		}
		aeadPrim(p, a)
		return nil
	}},
	{op: "aead/subtle.NewXChaCha20Poly1305", recv: "aead/subtle.(*XChaCha20Poly1305)", produce: "Encrypt", accept: "Decrypt", build: func(w *world, b *builder, p *prim) error {
		a, err := aeadsubtle.NewXChaCha20Poly1305(b.bytes("key", w.material("k", 32)))
		if err != nil {
			return err
		}
		aeadPrim(p, a)
		return nil
	}},
	{op: "aead/subtle.NewAESCTR", recv: "aead/subtle.(*AESCTR)", produce: "Encrypt", accept: "Decrypt", build: func(w *world, b *builder, p *prim) error {
		a, err := aeadsubtle.NewAESCTR(b.bytes("key", w.material("k", w.keySize())), 16)
		if err != nil {
			return err
		}
		p.produce = func(msg, aux []byte) ([]byte, error) { return a.Encrypt(msg) }
		p.decrypt = func(ct, aux []byte) ([]byte, error) { return a.Decrypt(ct) }
		return nil
	}},
	{op: "aead/subtle.NewEncryptThenAuthenticate", recv: "aead/subtle.(*EncryptThenAuthenticate)", produce: "Encrypt", accept: "Decrypt", build: func(w *world, b *builder, p *prim) error {
		// the legacy AES-CTR-HMAC composition over the subtle AES-CTR and HMAC primitives
		ctr, err := aeadsubtle.NewAESCTR(b.bytesFor("aead/subtle.NewAESCTR", "AES key", w.material("k", w.keySize())), 16)
		if err != nil {
			return err
		}
		m, err := macsubtle.NewHMAC("SHA256", b.bytesFor("mac/subtle.NewHMAC", "HMAC key", w.material("hk", 32)), 16)
		if err != nil {
			return err
		}
		a, err := aeadsubtle.NewEncryptThenAuthenticate(ctr, m, 16)
		if err != nil {
			return err
		}
		aeadPrim(p, a)
		return nil
	}},
	{op: "aead.NewKMSEnvelopeAEAD2", recv: "aead.(*KMSEnvelopeAEAD)", produce: "Encrypt", accept: "Decrypt", build: func(w *world, b *builder, p *prim) error {
		k, err := newKEK(w)
		if err != nil {
			return err
		}
		aeadPrim(p, aead.NewKMSEnvelopeAEAD2(aead.AES128GCMKeyTemplate(), k))
		return nil
	}},
	{op: "aead.NewKMSEnvelopeAEADWithContext", recv: "aead.(*KMSEnvelopeAEADWithContext)", produce: "EncryptWithContext", accept: "DecryptWithContext", build: func(w *world, b *builder, p *prim) error {
		k, err := newKEK(w)
		if err != nil {
			return err
		}
		a, err := aead.NewKMSEnvelopeAEADWithContext(aead.AES256GCMKeyTemplate(), kekCtx{k})
		if err != nil {
			return err
		}
		p.produce = func(msg, aux []byte) ([]byte, error) { return a.EncryptWithContext(context.Background(), msg, aux) }
		p.decrypt = func(ct, aux []byte) ([]byte, error) { return a.DecryptWithContext(context.Background(), ct, aux) }
		return nil
	}},
	{op: "daead/subtle.NewAESSIV", recv: "daead/subtle.(*AESSIV)", produce: "EncryptDeterministically", accept: "DecryptDeterministically", build: func(w *world, b *builder, p *prim) error {
		a, err := daeadsubtle.NewAESSIV(b.bytes("key", w.material("k", 64)))
		if err != nil {
			return err
		}
		p.det = true
		p.produce, p.decrypt = a.EncryptDeterministically, a.DecryptDeterministically
		return nil
	}},
	{op: "mac/subtle.NewHMAC", recv: "mac/subtle.(*HMAC)", produce: "ComputeMAC", accept: "VerifyMAC", build: func(w *world, b *builder, p *prim) error {
		m, err := macsubtle.NewHMAC("SHA256", b.bytes("key", w.material("k", 32)), 16)
		if err != nil {
			return err
		}
		p.det = true
		p.produce = func(msg, aux []byte) ([]byte, error) { return m.ComputeMAC(msg) }
		p.verify = func(out, msg, aux []byte) error { return m.VerifyMAC(out, msg) }
		return nil
	}},
	{op: "mac/subtle.NewAESCMAC", recv: "mac/subtle.(*AESCMAC)", produce: "ComputeMAC", accept: "VerifyMAC", build: func(w *world, b *builder, p *prim) error {
		m, err := macsubtle.NewAESCMAC(b.bytes("key", w.material("k", 32)), 16)
		if err != nil {
			return err
		}
		p.det = true
		p.produce = func(msg, aux []byte) ([]byte, error) { return m.ComputeMAC(msg) }
		p.verify = func(out, msg, aux []byte) error { return m.VerifyMAC(out, msg) }
		return nil
	}},
	{op: "prf/subtle.NewHMACPRF", recv: "prf/subtle.(*HMACPRF)", produce: "ComputePRF", accept: "ComputePRF", build: func(w *world, b *builder, p *prim) error {
		f, err := prfsubtle.NewHMACPRF("SHA256", b.bytes("key", w.material("k", 32)))
		if err != nil {
			return err
		}
		prfPrim(p, f)
		return nil
	}},
	{op: "prf/subtle.NewHKDFPRF", recv: "prf/subtle.(*HKDFPRF)", produce: "ComputePRF", accept: "ComputePRF", build: func(w *world, b *builder, p *prim) error {
		f, err := prfsubtle.NewHKDFPRF("SHA256", b.bytes("key", w.material("k", 32)), b.bytes("salt", w.material("salt", 9)))
		if err != nil {
			return err
		}
		prfPrim(p, f)
		return nil
	}},
	{op: "prf/subtle.NewAESCMACPRF", recv: "prf/subtle.(*AESCMACPRF)", produce: "ComputePRF", accept: "ComputePRF", build: func(w *world, b *builder, p *prim) error {
		f, err := prfsubtle.NewAESCMACPRF(b.bytes("key", w.material("k", 32)))
		if err != nil {
			return err
		}
		prfPrim(p, f)
		return nil
	}},
	{op: "signature/subtle.NewED25519Signer", recv: "signature/subtle.(*ED25519Signer)", recvA: "signature/subtle.(*ED25519Verifier)", produce: "Sign", accept: "Verify", build: func(w *world, b *builder, p *prim) error {
		seed := w.material("seed", 32)
		pub := ed25519.NewKeyFromSeed(seed).Public().(ed25519.PublicKey)
		s, err := sigsubtle.NewED25519Signer(b.bytes("seed", seed))
		if err != nil {
			return err
		}
		v, err := sigsubtle.NewED25519Verifier(b.bytesFor("signature/subtle.NewED25519Verifier", "public key", pub))
		if err != nil {
			return err
		}
		p.det = true
		p.produce = func(msg, aux []byte) ([]byte, error) { return s.Sign(msg) }
		p.verify = func(out, msg, aux []byte) error { return v.Verify(out, msg) }
		return nil
	}},
	{op: "signature/subtle.NewECDSASigner", recv: "signature/subtle.(*ECDSASigner)", recvA: "signature/subtle.(*ECDSAVerifier)", produce: "Sign", accept: "Verify", build: func(w *world, b *builder, p *prim) error {
		d := w.material("d", 32)
		d[0] &= 0x7f // below the group order
		priv, err := ecdh.P256().NewPrivateKey(d)
		if err != nil {
			return err
		}
		pt := priv.PublicKey().Bytes()
		s, err := sigsubtle.NewECDSASigner("SHA256", "NIST_P256", "DER", b.bytes("private key value", d))
		if err != nil {
			return err
		}
		v, err := sigsubtle.NewECDSAVerifier("SHA256", "NIST_P256", "DER",
			b.bytesFor("signature/subtle.NewECDSAVerifier", "x", pt[1:33]), b.bytesFor("signature/subtle.NewECDSAVerifier", "y", pt[33:65]))
		if err != nil {
			return err
		}
		p.produce = func(msg, aux []byte) ([]byte, error) { return s.Sign(msg) }
		p.verify = func(out, msg, aux []byte) error { return v.Verify(out, msg) }
		return nil
	}},
	{op: "streamingaead/subtle.NewAESGCMHKDF", recv: "streamingaead/subtle.(*AESGCMHKDF)", produce: "NewEncryptingWriter", accept: "NewDecryptingReader", build: func(w *world, b *builder, p *prim) error {
		s, err := streamsubtle.NewAESGCMHKDF(b.bytes("main key", w.material("k", 32)), "SHA256", 32, 256, 0)
		if err != nil {
			return err
		}
		streamPrim(p, s)
		return nil
	}},
	{op: "streamingaead/subtle.NewAESCTRHMAC", recv: "streamingaead/subtle.(*AESCTRHMAC)", produce: "NewEncryptingWriter", accept: "NewDecryptingReader", build: func(w *world, b *builder, p *prim) error {
		s, err := streamsubtle.NewAESCTRHMAC(b.bytes("main key", w.material("k", 32)), "SHA256", 32, "SHA256", 32, 256, 0)
		if err != nil {
			return err
		}
		streamPrim(p, s)
		return nil
	}},
	{op: "hybrid/subtle.NewECIESAEADHKDFHybridEncrypt", recv: "hybrid/subtle.(*ECIESAEADHKDFHybridEncrypt)", recvA: "hybrid/subtle.(*ECIESAEADHKDFHybridDecrypt)", produce: "Encrypt", accept: "Decrypt", build: func(w *world, b *builder, p *prim) error {
		d := w.material("d", 32)
		d[0] &= 0x7f
		priv := hybridsubtle.GetECPrivateKey(elliptic.P256(), d)
		if priv.PublicKey.Point.X == nil || new(big.Int).SetBytes(d).Sign() == 0 {
			return errors.New("bad scalar")
		}
		salt := w.material("salt", 11)
		e, err := hybridsubtle.NewECIESAEADHKDFHybridEncrypt(&priv.PublicKey, b.bytes("hkdf salt", salt), "SHA256", "UNCOMPRESSED", demHelper{})
		if err != nil {
			return err
		}
		dec, err := hybridsubtle.NewECIESAEADHKDFHybridDecrypt(priv, b.bytesFor("hybrid/subtle.NewECIESAEADHKDFHybridDecrypt", "hkdf salt", salt), "SHA256", "UNCOMPRESSED", demHelper{})
		if err != nil {
			return err
		}
		p.produce, p.decrypt = e.Encrypt, dec.Decrypt
		return nil
	}},
	{op: "kwp/subtle.NewKWP", recv: "kwp/subtle.(*KWP)", produce: "Wrap", accept: "Unwrap", build: func(w *world, b *builder, p *prim) error {
		k, err := kwpsubtle.NewKWP(b.bytes("wrapping key", w.material("k", w.keySize())))
		if err != nil {
			return err
		}
		p.det = true
		p.fitMsg = clampMsg(16, 4096)
		p.produce = func(msg, aux []byte) ([]byte, error) { return k.Wrap(msg) }
		p.decrypt = func(ct, aux []byte) ([]byte, error) { return k.Unwrap(ct) }
		return nil
	}},
}

// subtleBuild constructs one more instance of the run's subtle primitive from caller buffers.
func (w *world) subtleBuild() *prim {
	sc := w.pl.ent.sub
	w.chainOdd = false
	b := &builder{w: w, op: sc.op}
	recvA := sc.recvA
	if recvA == "" {
		recvA = sc.recv
	}
	p := &prim{ent: w.pl.ent, opP: sc.recv + "." + sc.produce, opA: recvA + "." + sc.accept, hidx: -1}
	var err error
	func() {
		defer w.catch(sc.op)
		err = sc.build(w, b, p)
	}()
	w.done(sc.op)
	w.obsErr(sc.op, "construct", err)
	w.setAdd("constructors", sc.op)
	if err != nil {
		if b.odd {
			w.r.Probe("odd-encoding-refused")
		} else if !w.faulted {
			w.fatalf("%s refuses the harness's key material: %v", sc.op, err)
		}
		return nil
	}
	p.lenient = b.odd
	if b.odd {
		w.r.Probe("odd-encoding-accepted")
	}
	w.chainOdd = false
	for _, buf := range b.bufs {
		w.newTarget(&target{culprit: buf.Op, kind: "input", buf: buf})
		w.setAdd("constructors", buf.Op)
	}
	w.prims = append(w.prims, p)
	w.r.Probe("subtle-built")
	return p
}
