//go:build instr

package memory

import (
	"fmt"

	"github.com/tink-crypto/tink-go/v2/internal/simhook"
)

// The "watch" variant of the C19 world is built through the yield-point overlay (/verif/tools/instr): before
// every statement tink executes, the buffers of the call in progress are compared with what the harness expects.
// A write into a caller buffer that is undone before the call returns — invisible to any before/after check, but
// visible to another goroutine reading the same buffer — is caught at the instant it exists.

const watching = true

var watchW *world
var watchCount, watchMask uint64

func watchBegin(w *world) {
	watchW = w
	watchCount = 0
	watchMask = w.pl.rngSeed >> 7 & 0x3 // every yield, or every 2nd/4th: drawn with the run
	if watchMask == 3 {
		watchMask = 0
	}
	simhook.Hook = watchYield
}

func watchEnd() {
	simhook.Hook = nil
	watchW = nil
}

func watchYield(site int) {
	w := watchW
	if w == nil || len(w.hot) == 0 || w.transient != "" {
		return
	}
	watchCount++
	m := watchMask
	if watchCount > 200000 {
		m = 255 // very long calls (signatures with millions of statements) are sampled
	}
	if watchCount&m != 0 {
		return
	}
	for _, b := range w.hot {
		if !b.Intact() {
			region, off := b.Check()
			w.transient = fmt.Sprintf("the %s buffer passed to %s (len %d, spare %d) differs in its %s region at offset %d while the call is in progress (yield site %d)", b.Role, b.Op, b.n, b.spare, region, off, site)
			w.transientRegion = region
			return
		}
	}
}
