package memory

// The two-step "external mu" signing API (package signprehash): a tink.Prehash built from the public handle turns
// a message into a prehash value, a tink.PrehashSigner built from the private handle signs that value. Both are
// tried for every signature handle (whatever key types support them are picked up) and wrapped as two ordinary
// primitives of the world, so that everything the world does to primitives applies to both halves:
//
//   - "<keytype>.ComputePrehash": the message is a caller buffer (canaries, spare capacity, flips, replay), the
//     returned prehash is a returned value like a tag (address-range checks against caller buffers and against
//     every other result incl. earlier results of the same primitive, flips in world B, later results compared);
//   - "<keytype>.SignPrehash": the prehash handed to the signer is a caller buffer like any message; the signature
//     is verified with the ordinary verifier over the message the prehash was computed from.

import (
	"errors"

	"github.com/tink-crypto/tink-go/v2/signprehash"
	"github.com/tink-crypto/tink-go/v2/tink"
	"github.com/tink-crypto/tink-go/v2/verifsim/classes"
)

func (w *world) prehashPrims(hi int, verify func(out, msg, aux []byte) error) {
	e := w.pl.ent
	base := "signprehash/" + e.keyType
	const opNew = "signprehash.NewPrehash"
	var pre tink.Prehash
	var signer tink.PrehashSigner
	var err error
	func() {
		defer w.catch(opNew)
		pub, perr := classes.PublicOf(e.class, w.handles[hi].h)
		if perr != nil {
			err = perr
			return
		}
		if pre, err = signprehash.NewPrehash(pub); err != nil {
			return
		}
		signer, err = signprehash.NewPrehashSigner(w.handles[hi].h)
	}()
	w.obsErr(opNew, "build", err)
	if err != nil || pre == nil || signer == nil {
		return // this key type has no prehash API
	}
	w.setAdd("ops", opNew)
	w.setAdd("ops", "signprehash.NewPrehashSigner")
	w.r.Probe("prehash-primitives")
	compute := &prim{ent: e, opP: base + ".ComputePrehash", opA: base + ".ComputePrehash", hidx: hi, lenient: w.oddKeys, det: true, noRef: true,
		produce: func(msg, aux []byte) ([]byte, error) { return pre.ComputePrehash(msg) }}
	origin := map[string][]byte{} // prehash value -> the message it was computed from
	// SignPrehash returns the bare ML-DSA signature; the ordinary verifier of a key with an output prefix wants the
	// prefix in front of it
	var prefix []byte
	if pe, perr := w.handles[hi].h.Primary(); perr == nil {
		if k, ok := pe.Key().(interface{ OutputPrefix() []byte }); ok {
			prefix = k.OutputPrefix()
		}
	}
	sign := &prim{ent: e, opP: base + ".SignPrehash", opA: e.base() + ".Verify", hidx: hi, lenient: w.oddKeys, noRef: true, softAccept: true,
		produce: func(ph, aux []byte) ([]byte, error) { return signer.SignPrehash(ph) },
		// the harness computes the prehash of the drawn message off the record; the operation's input is that value
		prep: func(msg []byte) []byte {
			var ph []byte
			func() {
				defer w.catch(base + ".ComputePrehash")
				ph, _ = pre.ComputePrehash(append([]byte(nil), msg...))
			}()
			ph = append([]byte(nil), ph...)
			origin[string(ph)] = append([]byte(nil), msg...)
			return ph
		},
		verify: func(out, ph, aux []byte) error {
			msg, ok := origin[string(ph)]
			if !ok {
				return errors.New("not the prehash of a message the harness knows")
			}
			if err := verify(out, msg, aux); err == nil || len(prefix) == 0 {
				return err
			}
			return verify(append(append([]byte(nil), prefix...), out...), msg, aux)
		}}
	w.prims = append(w.prims, compute, sign)
}
