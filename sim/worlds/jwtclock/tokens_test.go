package jwtclock

import (
	"bytes"
	"crypto/hmac"
	"crypto/sha256"
	"encoding/base64"
	"encoding/json"
	"fmt"
	"math"
	"reflect"
	"sort"
	"strings"
	"time"

	"github.com/tink-crypto/tink-go/v2/jwt"
	"github.com/tink-crypto/tink-go/v2/keyset"
	"github.com/tink-crypto/tink-go/v2/verifsim/refimpl/jwtref"
)

// ---------------------------------------------------------------------------
// the harness's own compact-JWS encoder

type hdrMember struct{ name, raw string } // raw = JSON text of the value

func q(s string) string {
	b, _ := json.Marshal(s)
	return string(b)
}

func b64(b []byte) string { return base64.RawURLEncoding.EncodeToString(b) }

func headerJSON(ms []hdrMember, spaced bool) []byte {
	var sb strings.Builder
	sb.WriteByte('{')
	for i, m := range ms {
		if i > 0 {
			sb.WriteByte(',')
		}
		if spaced {
			sb.WriteString("\n  ")
		}
		sb.WriteString(q(m.name))
		if spaced {
			sb.WriteString(" :\t")
		} else {
			sb.WriteByte(':')
		}
		sb.WriteString(m.raw)
	}
	if spaced {
		sb.WriteString("\r\n ")
	}
	sb.WriteByte('}')
	return []byte(sb.String())
}

func setMember(ms []hdrMember, name, raw string) []hdrMember {
	for i := range ms {
		if ms[i].name == name {
			ms[i].raw = raw
			return ms
		}
	}
	return append(ms, hdrMember{name, raw})
}

func delMember(ms []hdrMember, name string) []hdrMember {
	out := ms[:0:0]
	for _, m := range ms {
		if m.name != name {
			out = append(out, m)
		}
	}
	return out
}

func cloneClaims(c map[string]any) map[string]any {
	n := make(map[string]any, len(c)+2)
	for k, v := range c {
		n[k] = v
	}
	return n
}

// ---------------------------------------------------------------------------
// tamper kinds. Group: A none, B applied to the finished compact string
// (works on tokens made by tink and on own tokens), C header variants signed
// by the harness, D made-up signatures, E payload variants signed by the
// harness, F issuer identity. "benign" kinds must not change the decision.

type tamperDef struct {
	name  string
	group byte
}

var tampers = []tamperDef{
	{"none", 'A'}, {"none", 'A'}, {"none", 'A'}, {"none", 'A'}, {"none", 'A'}, {"none", 'A'},
	{"sig-flip", 'B'}, {"sig-trunc", 'B'}, {"sig-extend", 'B'}, {"sig-halves-repadded", 'B'}, {"sig-empty", 'B'}, {"sig-dropped", 'B'},
	{"payload-subst", 'B'}, {"header-subst-none", 'B'},
	{"dot-trailing", 'B'}, {"dot-leading", 'B'}, {"dot-double", 'B'}, {"dot-extra-segment", 'B'},
	{"nonalpha-sig-pad", 'B'}, {"nonalpha-sig-newline", 'B'}, {"nonalpha-sig-space", 'B'}, {"nonalpha-sig-stdalphabet", 'B'}, {"nonalpha-sig-unicode", 'B'}, {"nonalpha-payload-newline", 'B'},
	{"alg-none", 'C'}, {"alg-other-family", 'C'}, {"alg-other-hash", 'C'}, {"alg-lowercase", 'C'}, {"alg-missing", 'C'}, {"alg-nonstring", 'C'},
	{"hdr-of-other-key", 'C'}, {"kid-missing", 'C'}, {"kid-other", 'C'}, {"kid-case", 'C'}, {"kid-empty", 'C'}, {"kid-added", 'C'},
	{"crit-list", 'C'}, {"crit-empty", 'C'}, {"crit-null", 'C'},
	{"hdr-extra-member", 'C'}, {"hdr-reordered", 'C'}, {"hdr-whitespace", 'C'},
	{"hdr-b64-padded", 'C'}, {"hdr-b64-newline", 'C'}, {"payload-b64-padded", 'C'},
	{"hs-with-public-key", 'D'}, {"sig-zeros", 'D'},
	{"payload-array", 'E'}, {"payload-string", 'E'}, {"payload-truncated", 'E'}, {"payload-empty", 'E'}, {"payload-invalid-utf8", 'E'},
	{"iss-number", 'E'}, {"sub-bool", 'E'}, {"jti-null", 'E'}, {"aud-empty-list", 'E'}, {"aud-number", 'E'}, {"aud-list-number", 'E'},
	{"exp-string", 'E'}, {"exp-null", 'E'}, {"exp-too-large", 'E'}, {"nbf-negative", 'E'}, {"iat-too-large", 'E'},
	{"payload-whitespace", 'E'}, {"payload-empty-object", 'E'}, {"exp-max", 'E'},
	{"foreign-key", 'F'}, {"disabled-key", 'F'},
}

var benign = map[string]bool{"none": true, "hdr-extra-member": true, "hdr-reordered": true, "hdr-whitespace": true, "payload-whitespace": true}

func tamperNames() []string {
	seen := map[string]bool{}
	var out []string
	for _, t := range tampers {
		if !seen[t.name] && t.name != "none" {
			seen[t.name] = true
			out = append(out, "T-"+t.name)
		}
	}
	return out
}

// ---------------------------------------------------------------------------
// a token: plan (drawn before the bubble) and result (made at its issue instant)

type delivery struct {
	delay int64
	val   int
}

type tokenPlan struct {
	idx      int
	issueAt  int64 // ns after t0
	signer   int   // index into w.keys
	via      string
	typ      *string
	claims   map[string]any
	tamper   string
	group    byte
	p        [3]uint64 // pre-drawn details of the tamper
	skewNs   int64     // issuer clock error
	base     int64     // the second the issuer believes it is (unix)
	life     int64
	deliver  []delivery
	bvals    []int // validators that walk this token's boundaries
	foreign  *wkey
	fails    []failPlan // issuing attempts made right before this token is issued (tokens issued by tink only)
	compact  string
	model    jwtref.Token
	by       *wkey
	accepted int
}

func swapCase(s string) string {
	b := []byte(s)
	changed := false
	for i, c := range b {
		switch {
		case c >= 'a' && c <= 'z':
			b[i] = c - 32
			changed = true
		case c >= 'A' && c <= 'Z':
			b[i] = c + 32
			changed = true
		}
	}
	if !changed {
		return s + "A"
	}
	return string(b)
}

func otherHash(alg string) string {
	n := len(alg)
	if strings.HasPrefix(alg, "ML-DSA-") {
		return map[string]string{"ML-DSA-44": "ML-DSA-65", "ML-DSA-65": "ML-DSA-87", "ML-DSA-87": "ML-DSA-44"}[alg]
	}
	return alg[:n-3] + map[string]string{"256": "384", "384": "512", "512": "256"}[alg[n-3:]]
}

// issue creates the token at the current instant of the bubble.
func (w *world) issue(tp *tokenPlan) {
	r := w.r
	k := w.keys[tp.signer]
	if tp.tamper == "foreign-key" {
		k = tp.foreign
	}
	tp.by = k
	alg := k.alg
	H := jwtref.Header{AlgPresent: true, Alg: &alg}
	ms := []hdrMember{{"alg", q(alg)}}
	if tp.typ != nil {
		ms = append(ms, hdrMember{"typ", q(*tp.typ)})
		H.TypPresent, H.Typ = true, tp.typ
	}
	if k.rule != jwtref.KIDIgnored {
		kid := k.kid
		ms = append(ms, hdrMember{"kid", q(kid)})
		H.KIDPresent, H.KID = true, &kid
	}
	claims := tp.claims
	model := jwtref.Token{Compact: true, SignedBy: k.mat.name, SignedAlg: k.alg}
	if tp.tamper != "none" {
		r.Fault("T-" + tp.tamper)
	}

	var compact string
	if tp.via == "tink" {
		w.r.Probe("issued-by-tink")
		fired := 0
		for _, fp := range tp.fails {
			if w.failedIssue(tp, k, fp) {
				fired++
			}
		}
		var err error
		compact, err = w.tinkIssue(tp, k, claims)
		if err != nil {
			r.Violation("C09/valid-token-not-issued", fmt.Sprintf("token %d: %v (claims %v)", tp.idx, err, claims))
			return
		}
		w.checkIssued(tp, compact, ms, claims)
		if fired > 0 {
			r.Probe("failed-issue-then-tink-issue-judged")
		}
	} else {
		w.r.Probe("issued-by-harness-encoder")
		spaced := false
		var payload []byte
		payloadSet := false
		signAlg := k.alg
		fakeSig := ""
		hsegSuffix, psegSuffix := "", ""
		hsegNewline := false
		setAlg := func(v string) {
			ms = setMember(ms, "alg", q(v))
			H.Alg = &v
		}
		setKID := func(v string) {
			ms = setMember(ms, "kid", q(v))
			H.KIDPresent, H.KID = true, &v
		}
		switch tp.tamper {
		case "alg-none":
			setAlg([]string{"none", "None", "NONE", "nOnE"}[tp.p[0]%4])
		case "alg-other-family":
			setAlg(map[string]string{"HS": "RS256", "ES": "HS256", "RS": "PS256", "PS": "RS256", "ML": "ES256"}[k.mat.fam])
		case "alg-other-hash":
			setAlg(otherHash(alg))
		case "alg-lowercase":
			setAlg(strings.ToLower(alg))
		case "alg-missing":
			ms = delMember(ms, "alg")
			H.AlgPresent, H.Alg = false, nil
		case "alg-nonstring":
			ms = setMember(ms, "alg", []string{"256", "null", "[" + q(alg) + "]", "true", "{" + q("alg") + ":" + q(alg) + "}"}[tp.p[0]%5])
			H.Alg = nil
		case "hdr-of-other-key":
			o := w.keys[int(tp.p[0]%uint64(len(w.keys)))]
			if o == k && len(w.keys) > 1 {
				o = w.keys[(tp.signer+1)%len(w.keys)]
			}
			setAlg(o.alg)
			if o.rule == jwtref.KIDIgnored {
				ms = delMember(ms, "kid")
				H.KIDPresent, H.KID = false, nil
			} else {
				setKID(o.kid)
			}
			if o != k {
				r.Probe("header-of-another-keyset-key")
			}
		case "kid-missing":
			ms = delMember(ms, "kid")
			H.KIDPresent, H.KID = false, nil
		case "kid-other":
			setKID([]string{"AAAAAA", k.kid + "x", kidOfID(k.id + 1), " " + k.kid, k.kid + "="}[tp.p[0]%5])
		case "kid-case":
			setKID(swapCase(k.kid))
		case "kid-empty":
			setKID("")
		case "kid-added":
			setKID([]string{"some-kid", kidOfID(k.ksID), "0"}[tp.p[0]%3])
		case "crit-list":
			ms = append(ms, hdrMember{"crit", `["exp"]`})
			H.Crit = true
		case "crit-empty":
			ms = append(ms, hdrMember{"crit", `[]`})
			H.Crit = true
		case "crit-null":
			ms = append(ms, hdrMember{"crit", `null`})
			H.Crit = true
		case "hdr-extra-member":
			ms = append(ms, hdrMember{"cty", q("JWT")}, hdrMember{"x-vsim", `{"nested":[1,2,{"a":null}]}`})
		case "hdr-reordered":
			for i, j := 0, len(ms)-1; i < j; i, j = i+1, j-1 {
				ms[i], ms[j] = ms[j], ms[i]
			}
		case "hdr-whitespace":
			spaced = true
		case "hdr-b64-padded": // signed over the padded text: a re-encoding, see jwtref.Token.Reencoded
			hsegSuffix = "="
			model.Compact, model.Reencoded = false, true
		case "hdr-b64-newline":
			hsegNewline = true
			model.Compact, model.Reencoded = false, true
		case "payload-b64-padded":
			psegSuffix = "="
			model.Compact, model.Reencoded = false, true
		case "hs-with-public-key":
			if k.mat.pub != nil {
				setAlg("HS256")
				fakeSig = "hmac-pub"
			} else {
				fakeSig = "zeros"
			}
			model.SignedBy = ""
		case "sig-zeros":
			fakeSig = "zeros"
			model.SignedBy = ""
		case "payload-array":
			payload, payloadSet, model.Compact = []byte(`[1,2,3]`), true, false
		case "payload-string":
			payload, payloadSet, model.Compact = []byte(`"claims"`), true, false
		case "payload-truncated":
			p, _ := json.Marshal(claims)
			payload, payloadSet, model.Compact = p[:len(p)-1], true, false
		case "payload-empty":
			payload, payloadSet, model.Compact = []byte{}, true, false
		case "payload-invalid-utf8":
			payload, payloadSet, model.Compact = []byte("{\"sub\":\"\xff\xfe\"}"), true, false
		case "iss-number":
			claims = cloneClaims(claims)
			claims["iss"] = float64(5)
		case "sub-bool":
			claims = cloneClaims(claims)
			claims["sub"] = true
		case "jti-null":
			claims = cloneClaims(claims)
			claims["jti"] = nil
		case "aud-empty-list":
			claims = cloneClaims(claims)
			claims["aud"] = []any{}
		case "aud-number":
			claims = cloneClaims(claims)
			claims["aud"] = float64(1)
		case "aud-list-number":
			claims = cloneClaims(claims)
			l := []any{float64(7)}
			if a, ok := tp.claims["aud"].(string); ok {
				l = []any{a, float64(7)}
			}
			claims["aud"] = l
		case "exp-string":
			claims = cloneClaims(claims)
			claims["exp"] = fmt.Sprint(tp.base + 3600)
		case "exp-null":
			claims = cloneClaims(claims)
			claims["exp"] = nil
		case "exp-too-large":
			claims = cloneClaims(claims)
			claims["exp"] = []float64{jwtref.MaxTimestamp + 1, 1e18, 1e300}[tp.p[0]%3]
		case "nbf-negative":
			claims = cloneClaims(claims)
			claims["nbf"] = []float64{-1, -946684800, -1e18}[tp.p[0]%3]
		case "iat-too-large":
			claims = cloneClaims(claims)
			claims["iat"] = float64(jwtref.MaxTimestamp + 1)
		case "payload-whitespace":
			payload, _ = json.MarshalIndent(claims, " ", "\t")
			payloadSet = true
		case "payload-empty-object":
			claims = map[string]any{}
		case "exp-max":
			claims = cloneClaims(claims)
			claims["exp"] = float64(jwtref.MaxTimestamp)
			r.Probe("exp-at-max-timestamp")
		}
		if !payloadSet {
			var err error
			payload, err = json.Marshal(claims)
			if err != nil {
				w.t.Fatalf("harness: claims do not marshal: %v", err)
			}
		}
		hseg := b64(headerJSON(ms, spaced)) + hsegSuffix
		if hsegNewline {
			i := 1 + int(tp.p[0]%uint64(len(hseg)-1))
			hseg = hseg[:i] + "\n" + hseg[i:]
		}
		pseg := b64(payload) + psegSuffix
		input := hseg + "." + pseg
		var sig []byte
		switch fakeSig {
		case "zeros":
			sig = make([]byte, k.mat.sigLen(signAlg))
		case "hmac-pub":
			h := hmac.New(sha256.New, k.mat.pub)
			h.Write([]byte(input))
			sig = h.Sum(nil)
		default:
			var err error
			sig, err = k.mat.sign(signAlg, []byte(input), w.g)
			if err != nil {
				w.t.Fatalf("harness: own signer (%s): %v", signAlg, err)
			}
		}
		compact = input + "." + b64(sig)
	}
	model.Header = H
	model.Claims = claims

	// group B: in-flight manipulation of the finished string
	if tp.group == 'B' {
		i1 := strings.Index(compact, ".")
		i2 := strings.LastIndex(compact, ".")
		h, p, s := compact[:i1], compact[i1+1:i2], compact[i2+1:]
		sigBytes, err := base64.RawURLEncoding.DecodeString(s)
		if err != nil || len(sigBytes) < 2 {
			w.t.Fatalf("harness: signature segment of an issued token does not decode: %v", err)
		}
		switch tp.tamper {
		case "sig-flip":
			pos := int(tp.p[0] % uint64(len(sigBytes)))
			sigBytes[pos] ^= 1 << (tp.p[1] % 8)
			compact = h + "." + p + "." + b64(sigBytes)
			model.SignedBy = ""
		case "sig-trunc":
			compact = h + "." + p + "." + b64(sigBytes[:len(sigBytes)-1])
			model.SignedBy = ""
		case "sig-extend":
			compact = h + "." + p + "." + b64(append(sigBytes, byte(tp.p[0])))
			model.SignedBy = ""
		case "sig-halves-repadded":
			// the two halves of the signature, each left-padded with zero bytes: for ECDSA this is the same (r, s) written
			// at the width of a larger curve (RFC 7518 3.4: the signature MUST be exactly 2 x the curve's octet length);
			// for every other algorithm it is simply a signature of the wrong length
			pad := []int{16, 34, 1}[tp.p[0]%3]
			half := len(sigBytes) / 2
			re := make([]byte, 0, len(sigBytes)+2*pad)
			re = append(re, make([]byte, pad)...)
			re = append(re, sigBytes[:half]...)
			re = append(re, make([]byte, pad)...)
			re = append(re, sigBytes[half:]...)
			compact = h + "." + p + "." + b64(re)
			model.SignedBy = ""
		case "sig-empty":
			compact = h + "." + p + "."
			model.Compact, model.SignedBy = false, ""
		case "sig-dropped":
			compact = h + "." + p
			model.Compact, model.SignedBy = false, ""
		case "payload-subst":
			nc := cloneClaims(claims)
			nc["exp"] = float64(tp.base + 10*365*86400)
			nc["admin"] = true
			delete(nc, "nbf")
			np, _ := json.Marshal(nc)
			compact = h + "." + b64(np) + "." + s
			model.Claims, model.SignedBy = nc, ""
		case "header-subst-none":
			none := "none"
			nh := H
			nh.Alg, nh.KIDPresent, nh.KID = &none, false, nil
			nms := []hdrMember{{"alg", q(none)}}
			if tp.typ != nil {
				nms = append(nms, hdrMember{"typ", q(*tp.typ)})
			}
			compact = b64(headerJSON(nms, false)) + "." + p + "." + s
			model.Header, model.SignedBy = nh, ""
		case "dot-trailing":
			compact += "."
			model.Compact = false
		case "dot-leading":
			compact = "." + compact
			model.Compact = false
		case "dot-double":
			compact = h + "." + p + ".." + s
			model.Compact = false
		case "dot-extra-segment":
			compact = compact + "." + []string{"AAAA", s, "e30"}[tp.p[0]%3]
			model.Compact = false
		case "nonalpha-sig-pad": // the four re-encodings of the signature segment leave the signed text alone
			compact += []string{"=", "==", "==="}[tp.p[0]%3]
			model.Compact, model.Reencoded = false, true
		case "nonalpha-sig-newline":
			i := 1 + int(tp.p[0]%uint64(len(s)-1))
			compact = h + "." + p + "." + s[:i] + []string{"\n", "\r", "\r\n"}[tp.p[1]%3] + s[i:]
			model.Compact, model.Reencoded = false, true
		case "nonalpha-sig-space":
			compact = h + "." + p + "." + []string{" " + s, s + " ", s + "\t"}[tp.p[0]%3]
			model.Compact, model.Reencoded = false, true
		case "nonalpha-sig-stdalphabet":
			switch {
			case strings.Contains(s, "-"):
				compact = h + "." + p + "." + strings.Replace(s, "-", "+", 1)
			case strings.Contains(s, "_"):
				compact = h + "." + p + "." + strings.Replace(s, "_", "/", 1)
			default:
				compact += "="
			}
			model.Compact, model.Reencoded = false, true
		case "nonalpha-sig-unicode":
			compact += []string{"é", "~", ",", "\x00"}[tp.p[0]%4]
			model.Compact = false
		case "nonalpha-payload-newline":
			i := 1 + int(tp.p[0]%uint64(len(p)-1))
			compact = h + "." + p[:i] + "\n" + p[i:] + "." + s
			model.Compact, model.SignedBy = false, ""
		}
	}
	if tp.tamper == "foreign-key" {
		r.Probe("token-of-foreign-key")
	}
	if tp.tamper == "disabled-key" && !k.enabled {
		r.Probe("token-of-disabled-key")
	}
	tp.compact, tp.model = compact, model
	if r.Tracing() {
		r.Logf("t0+%v issue token %d by %s via %s tamper=%s: %q", time.Duration(tp.issueAt), tp.idx, k, tp.via, tp.tamper, abbreviate(compact))
	}
}

func abbreviate(s string) string {
	if len(s) > 220 {
		return s[:200] + "…" + s[len(s)-12:]
	}
	return s
}

// rawOpts turns generated claims into the options of tink's RawJWT.
func rawOpts(c map[string]any, typ *string) *jwt.RawJWTOptions {
	o := &jwt.RawJWTOptions{TypeHeader: typ}
	custom := map[string]any{}
	str := func(v any) *string { s := v.(string); return &s }
	tm := func(v any) *time.Time { t := time.Unix(int64(v.(float64)), 0); return &t }
	for name, v := range c {
		switch name {
		case "iss":
			o.Issuer = str(v)
		case "sub":
			o.Subject = str(v)
		case "jti":
			o.JWTID = str(v)
		case "aud":
			if l, ok := v.([]any); ok {
				o.Audiences = []string{}
				for _, a := range l {
					o.Audiences = append(o.Audiences, a.(string))
				}
			} else {
				o.Audience = str(v)
			}
		case "exp":
			o.ExpiresAt = tm(v)
		case "nbf":
			o.NotBefore = tm(v)
		case "iat":
			o.IssuedAt = tm(v)
		default:
			custom[name] = v
		}
	}
	if o.ExpiresAt == nil {
		o.WithoutExpiration = true
	}
	if len(custom) > 0 {
		o.CustomClaims = custom
	}
	return o
}

func (w *world) tinkIssue(tp *tokenPlan, k *wkey, claims map[string]any) (string, error) {
	opts := rawOpts(claims, tp.typ) // harness code: outside the panic guard
	var raw *jwt.RawJWT
	var err error
	func() {
		defer w.catch("NewRawJWT", &err)
		raw, err = jwt.NewRawJWT(opts)
	}()
	if err != nil {
		return "", fmt.Errorf("NewRawJWT: %w", err)
	}
	call, where, err := w.issuerFor(k)
	if err != nil {
		return "", err
	}
	var out string
	func() {
		defer w.catch(where, &err)
		out, err = call(raw)
	}()
	return out, err
}

// issuerFor returns the issuing call of the primitive a token of key k is made
// with: the keyset's primitive for the primary key, a one-key primitive through
// the real factory (built on first use) for every other key.
func (w *world) issuerFor(k *wkey) (call func(*jwt.RawJWT) (string, error), where string, err error) {
	if w.class == "mac" {
		m := w.ksMAC
		if !k.primary {
			if k.oneMAC == nil {
				h, herr := handleOf(k)
				if herr != nil {
					w.t.Fatalf("harness: one-key handle: %v", herr)
				}
				func() {
					defer w.catch("NewMAC", &err)
					k.oneMAC, err = jwt.NewMAC(h)
				}()
				if err != nil {
					return nil, "", fmt.Errorf("NewMAC: %w", err)
				}
			}
			m = k.oneMAC
		}
		return m.ComputeMACAndEncode, "ComputeMACAndEncode", nil
	}
	s := w.ksSigner
	if !k.primary {
		if k.oneSign == nil {
			h, herr := handleOf(k)
			if herr != nil {
				w.t.Fatalf("harness: one-key handle: %v", herr)
			}
			func() {
				defer w.catch("NewSigner", &err)
				k.oneSign, err = jwt.NewSigner(h)
			}()
			if err != nil {
				return nil, "", fmt.Errorf("NewSigner: %w", err)
			}
		}
		s = k.oneSign
	}
	return s.SignAndEncode, "SignAndEncode", nil
}

// ---------------------------------------------------------------------------
// Issuing attempts that fail, made right before an ordinary issuing step. The
// property says nothing about them (beyond: no panic); what it says about the
// ordinary step that follows — the token round-trips, carries the key's header
// and the given claims — holds whatever an earlier call left behind.

type failKind struct {
	name string
	open bool // the property leaves the outcome open: a probe, never a fault
}

var failKinds = []failKind{
	{name: "nil-rawjwt"},              // refused before any work
	{name: "typ-invalid-utf8"},        // NewRawJWT takes any type header; the header does not marshal
	{name: "claim-name-invalid-utf8"}, // NewRawJWT takes any top-level claim name; the payload does not marshal (after the header did)
	{name: "claim-value-nan-or-inf"},  // NewRawJWT takes NaN / ±Inf at any depth; the payload does not marshal
	{name: "rawjwt-refused"},          // NewRawJWT itself refuses: issuing ends at its first step
	{name: "unencodable-custom-kid"},  // a primitive over the same material whose custom kid is not UTF-8: its every header fails to marshal
	{name: "from-json-without-exp", open: true},
}

func failedIssueFaults() []string {
	var out []string
	for _, k := range failKinds {
		if !k.open {
			out = append(out, "FI-"+k.name)
		}
	}
	return out
}

type failPlan struct {
	kind int
	who  int    // 0: the primitive the judged call is made with, 1: the keyset's primitive, 2+i: the primitive of key i
	p    uint64 // variant
}

// failedIssue makes one attempt; it reports whether the attempt failed.
func (w *world) failedIssue(tp *tokenPlan, k *wkey, fp failPlan) bool {
	r := w.r
	kind := failKinds[fp.kind]
	by := k
	switch {
	case fp.who == 1:
		for _, o := range w.keys {
			if o.primary {
				by = o
			}
		}
	case fp.who >= 2:
		by = w.keys[(fp.who-2)%len(w.keys)]
	}
	opts := rawOpts(tp.claims, tp.typ) // looks like the token about to be issued, up to the one defect
	if opts.CustomClaims == nil {
		opts.CustomClaims = map[string]any{}
	}
	build, fromJSON, nilRaw := true, false, false
	switch kind.name {
	case "nil-rawjwt":
		build, nilRaw = false, true
	case "typ-invalid-utf8":
		s := []string{"JW\xffT", "\xff", "\xc0\x80", "typ-\xed\xa0\x80"}[fp.p%4]
		opts.TypeHeader = &s
	case "claim-name-invalid-utf8":
		opts.CustomClaims[[]string{"bad-\xff-name", "\xff", "\xc0\x80", "caf\xe9", "\xed\xa0\x80"}[fp.p%5]] = float64(1)
	case "claim-value-nan-or-inf":
		opts.CustomClaims["vsim-number"] = []any{math.NaN(), math.Inf(1), math.Inf(-1), []any{float64(1), math.NaN()}, map[string]any{"y": []any{math.Inf(-1)}}}[fp.p%5]
	case "rawjwt-refused":
		bad := "iss-\xff"
		switch fp.p % 12 {
		case 0:
			opts.CustomClaims["s"] = "a\xff"
		case 1:
			opts.ExpiresAt, opts.WithoutExpiration = nil, false
		case 2:
			e := time.Unix(tp.base+3600, 0)
			opts.ExpiresAt, opts.WithoutExpiration = &e, true
		case 3:
			a := "svc-a"
			opts.Audience, opts.Audiences = &a, []string{"svc-b"}
		case 4:
			opts.CustomClaims[[]string{"iss", "exp", "aud", "jti"}[(fp.p/12)%4]] = "x"
		case 5:
			e := time.Unix(jwtref.MaxTimestamp+1, 0)
			opts.ExpiresAt, opts.WithoutExpiration = &e, false
		case 6:
			opts.Issuer = &bad
		case 7:
			opts.CustomClaims["o"] = map[string]any{"\xff": float64(1)}
		case 8:
			opts.CustomClaims["c"] = make(chan int)
		case 9:
			opts = nil
		case 10:
			opts.Audience, opts.Audiences = nil, []string{}
		default:
			n := time.Unix(-5, 0)
			opts.NotBefore = &n
		}
	case "unencodable-custom-kid":
		if k.mat.badKID == nil {
			bk := &wkey{mat: k.mat, alg: k.alg, rule: jwtref.KIDCustom, kid: "kid-\xff", enabled: true}
			k.mat.badKID = bk
			err := bk.build()
			var h *keyset.Handle
			if err == nil {
				h, err = handleOf(bk)
			}
			if err == nil {
				func() {
					if w.class == "mac" {
						defer w.catch("NewMAC", &err)
						bk.oneMAC, err = jwt.NewMAC(h)
					} else {
						defer w.catch("NewSigner", &err)
						bk.oneSign, err = jwt.NewSigner(h)
					}
				}()
			}
			if err != nil {
				bk.tk = nil // tink does not make such a key or primitive: nothing to attempt
			}
		}
		by = k.mat.badKID
		if by.tk == nil {
			return false
		}
	case "from-json-without-exp":
		build, fromJSON = false, true
	}
	var raw *jwt.RawJWT
	var err error
	switch {
	case build:
		func() {
			defer w.catch("NewRawJWT", &err)
			raw, err = jwt.NewRawJWT(opts)
		}()
	case fromJSON:
		c := cloneClaims(tp.claims)
		delete(c, "exp")
		payload, _ := json.Marshal(c)
		func() {
			defer w.catch("NewRawJWTFromJSON", &err)
			raw, err = jwt.NewRawJWTFromJSON(tp.typ, payload)
		}()
	}
	out := ""
	if err == nil && (raw != nil || nilRaw) {
		var call func(*jwt.RawJWT) (string, error)
		var where string
		call, where, err = w.issuerFor(by)
		if err == nil {
			func() {
				defer w.catch(where, &err)
				out, err = call(raw)
			}()
		}
	}
	failed := err != nil
	w.digest = (w.digest ^ uint64(fp.kind<<1|b2i(failed)) ^ 0x5bd1e995) * 1099511628211
	if r.Tracing() {
		r.Logf("t0+%v issuing attempt before token %d: %s (variant %d) by %s: err=%v out=%q", time.Duration(tp.issueAt), tp.idx, kind.name, fp.p, by, err, abbreviate(out))
	}
	switch {
	case kind.open:
		r.Probe("issue-attempt-of-unconstrained-outcome")
	case failed:
		r.Fault("FI-" + kind.name)
		w.failedIss++
	default:
		r.Probe("issue-attempt-expected-to-fail-succeeded") // whatever it returned is not a token this world judges
	}
	if failed {
		if by == k || (by.primary && k.primary) {
			r.Probe("failed-issue-by-the-judged-primitive")
		} else {
			r.Probe("failed-issue-by-another-primitive")
		}
	}
	return failed
}

// checkIssued: a token made by SignAndEncode / ComputeMACAndEncode carries
// exactly the header the key dictates and exactly the claims it was given.
func (w *world) checkIssued(tp *tokenPlan, compact string, ms []hdrMember, claims map[string]any) {
	parts := strings.Split(compact, ".")
	if len(parts) != 3 {
		w.r.Violation("C09/issued-token-malformed", fmt.Sprintf("%d segments in %q", len(parts), abbreviate(compact)))
		return
	}
	hb, err1 := base64.RawURLEncoding.DecodeString(parts[0])
	pb, err2 := base64.RawURLEncoding.DecodeString(parts[1])
	_, err3 := base64.RawURLEncoding.DecodeString(parts[2])
	if err1 != nil || err2 != nil || err3 != nil {
		w.r.Violation("C09/issued-token-malformed", fmt.Sprintf("segments are not unpadded base64url: %q", abbreviate(compact)))
		return
	}
	var gotH, wantH, gotP map[string]any
	if err := json.Unmarshal(hb, &gotH); err != nil {
		w.r.Violation("C09/issued-token-malformed", fmt.Sprintf("header is not a JSON object: %q", hb))
		return
	}
	_ = json.Unmarshal(headerJSON(ms, false), &wantH)
	if !reflect.DeepEqual(gotH, wantH) {
		w.r.Violation("C09/issued-header-differs", fmt.Sprintf("header %s, expected %s", hb, headerJSON(ms, false)))
		return
	}
	if err := json.Unmarshal(pb, &gotP); err != nil {
		w.r.Violation("C09/issued-token-malformed", fmt.Sprintf("payload is not a JSON object: %q", pb))
		return
	}
	if !reflect.DeepEqual(gotP, normalize(claims)) {
		w.r.Violation("C09/issued-claims-differ", fmt.Sprintf("payload %s, expected %v", pb, claims))
	}
}

// normalize maps a claims value onto what encoding/json yields when decoding
// (an empty map stays an empty map, nil slices become empty slices).
func normalize(c map[string]any) map[string]any {
	b, _ := json.Marshal(c)
	var out map[string]any
	_ = json.Unmarshal(b, &out)
	return out
}

// checkAccepted compares what a successful verification returned with the
// signed payload, through every accessor of VerifiedJWT.
func (w *world) checkAccepted(vj *jwt.VerifiedJWT, tp *tokenPlan, ctx string) {
	r := w.r
	want := tp.model.Claims
	bad := func(what string, args ...any) {
		r.Violation("C09/returned-claims-differ:"+what, fmt.Sprintf("%s: %s: %s (signed claims %v)", ctx, what, fmt.Sprint(args...), want))
	}
	if vj == nil {
		r.Violation("C09/nil-token-without-error", ctx)
		return
	}
	jb, err := vj.JSONPayload()
	if err != nil {
		bad("JSONPayload", err)
		return
	}
	var got map[string]any
	if err := json.Unmarshal(jb, &got); err != nil {
		bad("JSONPayload", "not JSON: ", string(jb))
		return
	}
	if !reflect.DeepEqual(got, normalize(want)) {
		bad("JSONPayload", string(jb))
		return
	}
	// type header
	if vj.HasTypeHeader() != tp.model.Header.TypPresent {
		bad("HasTypeHeader", vj.HasTypeHeader())
		return
	}
	if tp.model.Header.TypPresent {
		if s, err := vj.TypeHeader(); err != nil || s != *tp.model.Header.Typ {
			bad("TypeHeader", s, err)
			return
		}
	}
	strs := []struct {
		n   string
		has func() bool
		get func() (string, error)
	}{{"iss", vj.HasIssuer, vj.Issuer}, {"sub", vj.HasSubject, vj.Subject}, {"jti", vj.HasJWTID, vj.JWTID}}
	for _, a := range strs {
		v, ok := want[a.n]
		if a.has() != ok {
			bad("Has-"+a.n, a.has())
			return
		}
		if ok {
			if s, err := a.get(); err != nil || s != v.(string) {
				bad(a.n, s, err)
				return
			}
		} else if _, err := a.get(); err == nil {
			bad(a.n, "accessor succeeds on an absent claim")
			return
		}
	}
	tms := []struct {
		n   string
		has func() bool
		get func() (time.Time, error)
	}{{"exp", vj.HasExpiration, vj.ExpiresAt}, {"nbf", vj.HasNotBefore, vj.NotBefore}, {"iat", vj.HasIssuedAt, vj.IssuedAt}}
	for _, a := range tms {
		v, ok := want[a.n]
		if a.has() != ok {
			bad("Has-"+a.n, a.has())
			return
		}
		if ok {
			if tv, err := a.get(); err != nil || !tv.Equal(time.Unix(int64(v.(float64)), 0)) {
				bad(a.n, tv, err)
				return
			}
		}
	}
	if v, ok := want["aud"]; vj.HasAudiences() != ok {
		bad("HasAudiences", vj.HasAudiences())
		return
	} else if ok {
		var wl []string
		switch a := v.(type) {
		case string:
			wl = []string{a}
		case []any:
			for _, e := range a {
				wl = append(wl, e.(string))
			}
		}
		if gl, err := vj.Audiences(); err != nil || !reflect.DeepEqual(gl, wl) {
			bad("Audiences", gl, err)
			return
		}
	}
	var wantNames []string
	allNames := make([]string, 0, len(want))
	for n := range want {
		allNames = append(allNames, n)
	}
	sort.Strings(allNames) // the first difference reported must not depend on map order
	for _, n := range allNames {
		v := want[n]
		switch n {
		case "iss", "sub", "jti", "aud", "exp", "nbf", "iat":
			continue
		}
		wantNames = append(wantNames, n)
		kinds := []struct {
			n   string
			has bool
		}{{"string", vj.HasStringClaim(n)}, {"number", vj.HasNumberClaim(n)}, {"bool", vj.HasBooleanClaim(n)},
			{"null", vj.HasNullClaim(n)}, {"array", vj.HasArrayClaim(n)}, {"object", vj.HasObjectClaim(n)}}
		var kind string
		var same bool
		switch x := v.(type) {
		case string:
			kind = "string"
			s, err := vj.StringClaim(n)
			same = err == nil && s == x
		case float64:
			kind = "number"
			f, err := vj.NumberClaim(n)
			same = err == nil && f == x
		case bool:
			kind = "bool"
			b, err := vj.BooleanClaim(n)
			same = err == nil && b == x
		case nil:
			kind, same = "null", true
		case []any:
			kind = "array"
			a, err := vj.ArrayClaim(n)
			nb, _ := json.Marshal(x)
			gb, _ := json.Marshal(a)
			same = err == nil && bytes.Equal(nb, gb)
		case map[string]any:
			kind = "object"
			o, err := vj.ObjectClaim(n)
			nb, _ := json.Marshal(x)
			gb, _ := json.Marshal(o)
			same = err == nil && bytes.Equal(nb, gb)
		}
		w.typesSeen[kind] = true
		for _, kd := range kinds {
			if kd.has != (kd.n == kind) {
				bad("custom-claim-kind", fmt.Sprintf("claim %q is a %s but Has(%s)Claim = %v", n, kind, kd.n, kd.has))
				return
			}
		}
		if !same {
			bad("custom-claim-value", fmt.Sprintf("claim %q (%s)", n, kind))
			return
		}
	}
	gotNames := vj.CustomClaimNames()
	sort.Strings(gotNames)
	sort.Strings(wantNames)
	if len(gotNames) != len(wantNames) || (len(wantNames) > 0 && !reflect.DeepEqual(gotNames, wantNames)) {
		bad("CustomClaimNames", gotNames)
		return
	}
	r.Probe("returned-claims-compared")
}
