// Package jwtclock is the C09 world: an issuer, a network and a verifier live
// inside one testing/synctest bubble per run, so that the wall clock tink's
// JWT validator reads (time.Now) is owned by the simulator. Tokens are issued
// relative to the bubble clock, travel for a drawn time (possibly tampered
// with, possibly delivered twice) and are verified by the REAL
// VerifyAndDecode / VerifyMACAndDecode at instants placed on and around every
// exp / nbf / iat boundary; each decision is compared with the reference
// decision procedure refimpl/jwtref. Some issuing steps are preceded by issuing
// attempts that fail (failedIssue), and RSA keys are also written the ways no
// template writes them (leading zero bytes, through the proto parser, moduli of
// 2049 / 2052 bits).
package jwtclock

import (
	"bytes"
	"encoding/json"
	"fmt"
	"sort"
	"strings"
	"testing"
	"time"

	"github.com/tink-crypto/tink-go/v2/insecurecleartextkeyset"
	"github.com/tink-crypto/tink-go/v2/jwt"
	"github.com/tink-crypto/tink-go/v2/jwt/jwtecdsa"
	"github.com/tink-crypto/tink-go/v2/jwt/jwtmldsa"
	"github.com/tink-crypto/tink-go/v2/jwt/jwtrsassapkcs1"
	"github.com/tink-crypto/tink-go/v2/jwt/jwtrsassapss"
	"github.com/tink-crypto/tink-go/v2/keyset"
	tinkpb "github.com/tink-crypto/tink-go/v2/proto/tink_go_proto"
	"github.com/tink-crypto/tink-go/v2/verifsim/catalog"
	"github.com/tink-crypto/tink-go/v2/verifsim/core"
	"github.com/tink-crypto/tink-go/v2/verifsim/refimpl/jwtref"
	"github.com/tink-crypto/tink-go/v2/verifsim/simrng"
	"pgregory.net/rapid"
)

const prop = "C09"

var (
	t0    = time.Date(2000, 1, 1, 0, 0, 0, 0, time.UTC) // documented start of a synctest bubble's clock
	t0ns  = t0.UnixNano()
	t0sec = t0.Unix()
)

const (
	ns   = int64(1)
	sec1 = int64(time.Second)
	min1 = int64(time.Minute)
	hour = int64(time.Hour)
	day  = 24 * hour
)

var boundaryOffsets = []struct {
	n string
	d int64
}{{"-1s", -sec1}, {"-1ns", -1}, {"0", 0}, {"+1ns", 1}, {"+1s", sec1}}

func TestMain(m *testing.M) {
	core.DeclareFaults(tamperNames()...)
	core.DeclareFaults(failedIssueFaults()...)
	core.DeclareFaults("net-expired-in-flight", "net-became-valid-in-flight", "net-duplicate-delivery", "issuer-clock-ahead", "issuer-clock-behind")
	var ps []string
	for _, c := range []string{"exp", "nbf", "iat"} {
		for _, o := range boundaryOffsets {
			ps = append(ps, "at-"+c+o.n)
		}
	}
	core.DeclareProbes(ps...)
	core.DeclareProbes("decisive-exp-boundary", "decisive-nbf-boundary", "decisive-iat-boundary",
		"skew-0", "skew-1ns", "skew-1s", "skew-10min", "skew-other", "skew-10min+1ns-refused", "skew-10min+1s-refused", "conflicting-options-refused", "deprecated-audiences-option",
		"validator-reused-at-later-instant", "fixednow-at-another-clock", "issued-by-tink", "issued-by-harness-encoder", "returned-claims-compared",
		"returned-custom-claim-string", "returned-custom-claim-number", "returned-custom-claim-bool", "returned-custom-claim-null", "returned-custom-claim-array", "returned-custom-claim-object", "jwk-transport", "jwk-export-of-private-keyset-refused", "jwk-export-of-mac-keyset-refused", "jwk-export-refused-mldsa", "jwk-tinkkid-becomes-customkid", "jwk-roundtrip-signed-token-verified", "unsettled-iat-missing", "unsettled-reencoded-base64",
		"custom-kid-key", "tink-kid-key", "ignored-kid-key", "shared-material-keys", "accepted-by-non-first-key", "token-of-foreign-key", "token-of-disabled-key", "keyset-with-destroyed-key",
		"header-of-another-keyset-key", "exp-at-max-timestamp", "far-future-leap", "family-HS", "family-ES", "family-RS", "family-PS", "family-ML", "mixed-family-keyset",
		"accept", "reject", "expired-on-arrival", "aud-list-last-matches", "empty-string-expectation",
		"rsa-modulus-leading-zero", "rsa-private-integers-leading-zero", "rsa-key-through-proto-parser", "rsa-modulus-bits-not-multiple-of-8",
		"jwk-transport-of-unusual-rsa-key", "failed-issue-by-the-judged-primitive", "failed-issue-by-another-primitive", "failed-issue-then-tink-issue-judged",
		"issue-attempt-of-unconstrained-outcome", "accepted-right-after-a-rejected-verification")
	core.Main(m, prop, "jwtclock", map[string]string{
		"jwt validator, encoding, raw/verified JWT": "real", "jwt MAC / signer / verifier factories and full primitives": "real",
		"jwt key types (jwthmac, jwtecdsa, jwtrsassapkcs1, jwtrsassapss, jwtmldsa)": "real", "internal/jwk (JWK set export/import)": "real",
		"keyset manager/handle": "real", "signature / mac primitives underneath": "real",
		"wall clock (time.Now)": "stub (testing/synctest bubble clock, advanced by the world)", "network": "stub (delay, duplication, tampering)",
		"crypto/rand": "stub (simrng)", "issuer of manipulated tokens": "stub (own compact-JWS encoder and signers over the same key material)",
		"reference decision procedure": "oracle only (refimpl/jwtref)"})
}

func TestJWTClock(t *testing.T) { rapid.Check(t, run) }

// ---------------------------------------------------------------------------

type macLike = jwt.MAC
type signLike = jwt.Signer

type valPlan struct {
	o             jwtref.Opts
	deprecatedAud bool
	class, short  string
	v             *jwt.Validator     // built once at t0 inside the bubble, reused at every instant
	reused        *jwt.ValidatorOpts // the caller's options struct, re-filled for every later NewValidator call
	uses          int
}

type event struct {
	at   int64 // ns after t0
	seq  int
	kind string // "issue", "delivery", "dup", or "<claim><offset>"
	tok  int
	val  int
}

type world struct {
	r     *core.Run
	t     *rapid.T
	g     *simrng.RNG
	class string // "mac" | "sig"
	keys  []*wkey
	mats  []*material

	handle    *keyset.Handle // secret side
	ksMAC     jwt.MAC
	ksSigner  jwt.Signer
	verifier  func(string, *jwt.Validator) (*jwt.VerifiedJWT, error)
	transport string       // "direct" | "jwk"
	refKeys   []jwtref.Key // the verifier's keyset as it is (after a JWK transport: as read from the imported handle)
	srcKeys   []jwtref.Key // the keyset the tokens are signed with

	tokens []*tokenPlan
	vals   []*valPlan
	events []event

	unusualRSA bool // some key of the keyset is an RSA key no template makes (odd modulus length, leading zeros, parsed from a proto)
	failedIss  int  // issuing attempts that failed as planned

	lastRejected bool // the previous verification was refused

	typesSeen  map[string]bool
	bits       map[string]bool
	outcomes   map[string]bool
	decisions  int
	digest     uint64
	nontrivial bool
}

func (w *world) catch(where string, errp *error) {
	if p := recover(); p != nil {
		s := fmt.Sprintf("%T", p)
		if strings.HasPrefix(s, "rapid.") || strings.HasPrefix(s, "*rapid.") {
			panic(p)
		}
		if errp != nil {
			*errp = fmt.Errorf("panic: %v", p)
		}
		w.r.Violation("C09/panic:"+where, fmt.Sprintf("%v", p))
	}
}

func handleOf(k *wkey) (*keyset.Handle, error) { return catalog.HandleOf(k.tk) }

// ---------------------------------------------------------------------------
// drawing

var (
	issPool = []string{"https://issuer.example", "https://issuer.example/", "HTTPS://ISSUER.EXAMPLE", "", "ïssuer-é"}
	audPool = []string{"svc-a", "svc-b", "SVC-A", "", "svc-a "}
	typPool = []string{"JWT", "jwt", "at+jwt", "application/jwt", "", "t\x01yp\x7f\v", "\U0001F511\"typ\\"}
	strPool = []string{"", "a", "héllo wörld", "quote\"back\\slash/", "line\nbreak\ttab", "nul\u0000byte", "😀 astral", "<script>&amp;", "sep para ", "https://x.example/?q=1&r=%20"}
	numPool = []float64{0, 1, -1, 0.5, -2.75, 1e-7, 123456789012, 9007199254740991, -9007199254740991, 1.7976931348623157e308, 5e-324, 946684800, 1e21}
	namPool = []string{"scope", "x", "", " ", "émoji-😀", "a.b", "exp ", "EXP", "Iss", "https://claims.example/role", "nested"}
)

type house struct{ iss, aud, typ int } // index into the pools, -1 = absent

// pick draws a token's typ / iss / aud: the house value unless this is the
// field the token deviates in (then absent or another value).
func pick(t *rapid.T, label string, pool []string, h int, deviate bool) *string {
	if deviate {
		if rapid.Bool().Draw(t, label+"Absent") {
			return nil
		}
		s := pool[rapid.IntRange(0, len(pool)-1).Draw(t, label+"Other")]
		return &s
	}
	if h < 0 {
		return nil
	}
	s := pool[h]
	return &s
}

func drawValue(t *rapid.T, depth int) any {
	max := 5
	if depth >= 2 {
		max = 3
	}
	switch rapid.IntRange(0, max).Draw(t, "claimKind") {
	case 0:
		if rapid.Bool().Draw(t, "strFree") {
			return rapid.StringN(0, 6, -1).Draw(t, "str")
		}
		return rapid.SampledFrom(strPool).Draw(t, "strPool")
	case 1:
		if rapid.Bool().Draw(t, "numFree") {
			return rapid.Float64Range(-1e9, 1e9).Draw(t, "num")
		}
		return rapid.SampledFrom(numPool).Draw(t, "numPool")
	case 2:
		return rapid.Bool().Draw(t, "bool")
	case 3:
		return nil
	case 4:
		n := rapid.IntRange(0, 3).Draw(t, "arrLen")
		l := make([]any, 0, n)
		for i := 0; i < n; i++ {
			l = append(l, drawValue(t, depth+1))
		}
		return l
	}
	n := rapid.IntRange(0, 3).Draw(t, "objLen")
	o := map[string]any{}
	for i := 0; i < n; i++ {
		o[rapid.SampledFrom(namPool).Draw(t, "objKey")] = drawValue(t, depth+1)
	}
	return o
}

func (w *world) drawKeys() {
	t := w.t
	mac, sig := sources()
	maxCost := 1
	if core.Thorough() {
		maxCost = 2
	}
	var pool []source
	if w.class == "mac" {
		pool = mac
	} else {
		// quick tier: ES256 dominates; the slower families (P-384/P-521, RSA via the pool, ML-DSA) share the rest
		for _, s := range sig {
			if s.cost > maxCost {
				continue
			}
			wgt := 1
			if !core.Thorough() {
				switch {
				case s.cost == 0:
					wgt = 12
				case s.fam == "ML":
					wgt = 2
				}
			} else if s.cost == 0 {
				wgt = 4
			}
			for i := 0; i < wgt; i++ {
				pool = append(pool, s)
			}
		}
	}
	nMat := rapid.IntRange(1, 3).Draw(t, "nMaterials")
	for i := 0; i < nMat; i++ {
		s := pool[rapid.IntRange(0, len(pool)-1).Draw(t, "materialSource")]
		poolIdx := rapid.IntRange(0, catalog.PoolKeysPerGroup-1).Draw(t, "poolIdx")
		odd := -1
		if s.fam == "RS" || s.fam == "PS" {
			// one RSA material in four has a modulus of 2049 or 2052 bits
			if o := rapid.IntRange(0, 7).Draw(t, "rsaOddModulus"); o >= 6 {
				odd = o - 6
			}
		}
		m, err := newMaterial(fmt.Sprintf("m%d", i), s, poolIdx, odd)
		if err != nil {
			t.Fatalf("harness: material from %s: %v", s.e.Name, err)
		}
		// pool keys are finite: the same RSA key drawn twice is ONE material
		for _, o := range w.mats {
			if m.rsaN != nil && o.fam == m.fam && string(o.rsaN) == string(m.rsaN) {
				m = o
			}
		}
		w.mats = append(w.mats, m)
	}
	nKeys := rapid.IntRange(nMat, nMat+2).Draw(t, "nKeys")
	usedID := map[uint32]bool{}
	for i := 0; i < nKeys; i++ {
		m := w.mats[i%nMat]
		if i >= nMat {
			m = w.mats[rapid.IntRange(0, nMat-1).Draw(t, "sharedMaterial")]
			w.r.Probe("shared-material-keys")
		}
		k := &wkey{mat: m, enabled: true}
		k.alg = m.algs[rapid.IntRange(0, len(m.algs)-1).Draw(t, "alg")]
		k.rule = jwtref.KIDRule(rapid.IntRange(0, 2).Draw(t, "kidRule"))
		switch k.rule {
		case jwtref.KIDFromKeyID:
			for {
				k.id = rapid.SampledFrom([]uint32{0x01020304, 1, 0, 0xffffffff, 0xfbefbe00, 0x7fffffff, 0x00010000}).Draw(t, "keyID")
				if rapid.Bool().Draw(t, "keyIDFree") {
					k.id = rapid.Uint32().Draw(t, "keyIDValue")
				}
				if !usedID[k.id] {
					break
				}
			}
			usedID[k.id] = true
			k.kid = kidOfID(k.id)
			w.r.Probe("tink-kid-key")
		case jwtref.KIDCustom:
			k.kid = rapid.SampledFrom([]string{"custom-kid", "", "AQIDBA", "kid with space", "KID-é", "0", "k\x01d\x7f", "kid\vtab\t\"q\"\\", "\U0001F511-key"}).Draw(t, "customKID")
			w.r.Probe("custom-kid-key")
		default:
			w.r.Probe("ignored-kid-key")
		}
		if m.rsaN != nil {
			// the same numbers written differently: leading zero bytes (what Java's BigInteger.toByteArray
			// emits), and the proto parser instead of the constructors as the way in
			k.lzN = rapid.SampledFrom([]int{0, 0, 0, 1, 1, 2}).Draw(t, "rsaModulusLeadingZeros")
			k.lzPriv = rapid.SampledFrom([]int{0, 0, 0, 1, 2}).Draw(t, "rsaPrivateLeadingZeros")
			k.viaProto = rapid.IntRange(0, 3).Draw(t, "rsaKeyThroughProto") == 3
		}
		if err := k.build(); err != nil {
			t.Fatalf("harness: cannot build %s key: %v", k, err)
		}
		if m.rsaN != nil {
			if k.encRefused {
				w.r.Probe("rsa-key-encoding-refused")
			}
			if k.lzN > 0 {
				w.r.Probe("rsa-modulus-leading-zero")
			}
			if k.lzPriv > 0 {
				w.r.Probe("rsa-private-integers-leading-zero")
			}
			if k.viaProto {
				w.r.Probe("rsa-key-through-proto-parser")
			}
			if m.odd {
				w.r.Probe("rsa-modulus-bits-not-multiple-of-8")
			}
			if m.odd || k.lzN > 0 || k.viaProto {
				w.unusualRSA = true
			}
		}
		w.keys = append(w.keys, k)
	}
	prim := rapid.IntRange(0, nKeys-1).Draw(t, "primary")
	w.keys[prim].primary = true
	for i, k := range w.keys {
		if i != prim && rapid.IntRange(0, 3).Draw(t, "disabled") == 0 {
			k.enabled = false
		}
	}
	fams := map[string]bool{}
	for _, k := range w.keys {
		fams[k.mat.fam] = true
		w.r.Probe("family-" + k.mat.fam)
	}
	if len(fams) > 1 {
		w.r.Probe("mixed-family-keyset")
	}
	// the keyset through the real manager
	m := keyset.NewManager()
	for _, k := range w.keys {
		id, err := m.AddKey(k.tk)
		if err != nil {
			t.Fatalf("harness: AddKey(%s): %v", k, err)
		}
		k.ksID = id
	}
	if err := m.SetPrimary(w.keys[prim].ksID); err != nil {
		t.Fatalf("harness: SetPrimary: %v", err)
	}
	for _, k := range w.keys {
		if !k.enabled {
			if err := m.Disable(k.ksID); err != nil {
				t.Fatalf("harness: Disable: %v", err)
			}
		}
	}
	h, err := m.Handle()
	if err != nil {
		t.Fatalf("harness: Handle: %v", err)
	}
	// a stored keyset also knows DESTROYED keys (no manager operation produces the status): some of the non-enabled
	// keys get it through the serialized form
	var destroy []uint32
	for _, k := range w.keys {
		if !k.enabled && rapid.Bool().Draw(t, "destroyed") {
			destroy = append(destroy, k.ksID)
		}
	}
	if len(destroy) > 0 {
		if ks := insecurecleartextkeyset.KeysetMaterial(h); ks != nil {
			for _, pk := range ks.Key {
				for _, id := range destroy {
					if pk.KeyId == id {
						pk.Status = tinkpb.KeyStatusType_DESTROYED
					}
				}
			}
			if h2, err := insecurecleartextkeyset.Read(&keyset.MemReaderWriter{Keyset: ks}); err == nil {
				h = h2
				w.r.Probe("keyset-with-destroyed-key")
			} else {
				core.CountGlobal("keyset-with-destroyed-key-refused")
			}
		}
	}
	w.handle = h
	for _, k := range w.keys {
		w.refKeys = append(w.refKeys, k.ref())
		w.srcKeys = append(w.srcKeys, k.ref())
		w.r.Logf("key %s id=%d", k, k.ksID)
	}
}

func (w *world) drawValidators(h house) {
	t := w.t
	n := rapid.IntRange(1, 4).Draw(t, "nValidators")
	for i := 0; i < n; i++ {
		vp := &valPlan{}
		dev := rapid.IntRange(0, 9).Draw(t, "valDeviates") // 7, 8, 9: typ, iss, aud differ from the house style
		mode := func(label string, pool []string, hv int, deviate bool) (*string, bool) {
			if deviate {
				if rapid.Bool().Draw(t, label+"None") {
					return nil, false
				}
				s := pool[rapid.IntRange(0, len(pool)-1).Draw(t, label+"Other")]
				return &s, false
			}
			if rapid.IntRange(0, 6).Draw(t, label+"Ignore") == 0 {
				return nil, true
			}
			if hv < 0 {
				return nil, false
			}
			s := pool[hv]
			return &s, false
		}
		vp.o.ExpectedTyp, vp.o.IgnoreTyp = mode("typ", typPool, h.typ, dev == 7)
		vp.o.ExpectedIss, vp.o.IgnoreIss = mode("iss", issPool, h.iss, dev == 8)
		vp.o.ExpectedAud, vp.o.IgnoreAud = mode("aud", audPool, h.aud, dev == 9)
		vp.o.AllowMissingExpiration = rapid.IntRange(0, 3).Draw(t, "allowMissingExp") == 0
		vp.o.ExpectIssuedInThePast = rapid.Bool().Draw(t, "expectIssuedInThePast")
		vp.o.ClockSkew = time.Duration(rapid.SampledFrom([]int64{0, 1, sec1, 10 * min1, 0, sec1, 37*sec1 + 5, 10*min1 - 1}).Draw(t, "skew"))
		vp.deprecatedAud = vp.o.ExpectedAud != nil && rapid.IntRange(0, 3).Draw(t, "deprecatedAudiences") == 0
		switch vp.o.ClockSkew {
		case 0:
			w.r.Probe("skew-0")
		case 1:
			w.r.Probe("skew-1ns")
		case time.Second:
			w.r.Probe("skew-1s")
		case 10 * time.Minute:
			w.r.Probe("skew-10min")
		default:
			w.r.Probe("skew-other")
		}
		for _, e := range []*string{vp.o.ExpectedTyp, vp.o.ExpectedIss, vp.o.ExpectedAud} {
			if e != nil && *e == "" {
				w.r.Probe("empty-string-expectation")
			}
		}
		m3 := func(e *string, ig bool) string {
			switch {
			case ig:
				return "I"
			case e != nil:
				return "E"
			}
			return "-"
		}
		vp.class = fmt.Sprintf("t%s.i%s.a%s.me%v.ip%v.s%v", m3(vp.o.ExpectedTyp, vp.o.IgnoreTyp), m3(vp.o.ExpectedIss, vp.o.IgnoreIss), m3(vp.o.ExpectedAud, vp.o.IgnoreAud),
			b2i(vp.o.AllowMissingExpiration), b2i(vp.o.ExpectIssuedInThePast), vp.o.ClockSkew)
		vp.short = fmt.Sprintf("me%v.ip%v.s%v", b2i(vp.o.AllowMissingExpiration), b2i(vp.o.ExpectIssuedInThePast), vp.o.ClockSkew)
		w.vals = append(w.vals, vp)
		w.r.Logf("validator %d: %s", i, vp.describe())
	}
}

func b2i(b bool) int {
	if b {
		return 1
	}
	return 0
}

func sp(s *string) string {
	if s == nil {
		return "<none>"
	}
	return fmt.Sprintf("%q", *s)
}

func (vp *valPlan) describe() string {
	return fmt.Sprintf("typ=%s/ignore=%v iss=%s/ignore=%v aud=%s/ignore=%v allowMissingExp=%v expectIssuedInThePast=%v skew=%v deprecatedAudiencesField=%v",
		sp(vp.o.ExpectedTyp), vp.o.IgnoreTyp, sp(vp.o.ExpectedIss), vp.o.IgnoreIss, sp(vp.o.ExpectedAud), vp.o.IgnoreAud,
		vp.o.AllowMissingExpiration, vp.o.ExpectIssuedInThePast, vp.o.ClockSkew, vp.deprecatedAud)
}

func (vp *valPlan) tinkOpts(fixed time.Time) *jwt.ValidatorOpts {
	o := &jwt.ValidatorOpts{ExpectedTypeHeader: vp.o.ExpectedTyp, ExpectedIssuer: vp.o.ExpectedIss, IgnoreTypeHeader: vp.o.IgnoreTyp, IgnoreIssuer: vp.o.IgnoreIss,
		IgnoreAudiences: vp.o.IgnoreAud, AllowMissingExpiration: vp.o.AllowMissingExpiration, ExpectIssuedInThePast: vp.o.ExpectIssuedInThePast,
		ClockSkew: vp.o.ClockSkew, FixedNow: fixed}
	if vp.deprecatedAud {
		o.ExpectedAudiences = vp.o.ExpectedAud
	} else {
		o.ExpectedAudience = vp.o.ExpectedAud
	}
	return o
}

func (w *world) drawTokens(h house) {
	t := w.t
	maxTok := 5
	if core.Thorough() || w.class == "mac" {
		maxTok = 8 // MAC decisions cost microseconds: amortise the bubble over more of them
	}
	n := rapid.IntRange(1, maxTok).Draw(t, "nTokens")
	at := int64(0)
	for i := 0; i < n; i++ {
		tp := &tokenPlan{idx: i}
		at += rapid.SampledFrom([]int64{0, 1, 1_000_000, sec1 - 1, sec1, 61 * sec1, hour, 999_999_999}).Draw(t, "issueGap")
		tp.issueAt = at
		td := tampers[0]
		if rapid.IntRange(0, 9).Draw(t, "tampered") >= 5 {
			td = tampers[rapid.IntRange(0, len(tampers)-1).Draw(t, "tamper")]
		}
		tp.tamper, tp.group = td.name, td.group
		for j := range tp.p {
			tp.p[j] = rapid.Uint64Range(0, 1<<20).Draw(t, "tamperDetail")
		}
		// who signs
		var enabled, disabled []int
		for j, k := range w.keys {
			if k.enabled {
				enabled = append(enabled, j)
			} else {
				disabled = append(disabled, j)
			}
		}
		tp.signer = enabled[rapid.IntRange(0, len(enabled)-1).Draw(t, "signer")]
		switch tp.tamper {
		case "disabled-key":
			if len(disabled) > 0 {
				tp.signer = disabled[rapid.IntRange(0, len(disabled)-1).Draw(t, "disabledSigner")]
			} else {
				tp.tamper, tp.group = "foreign-key", 'F'
			}
		}
		if tp.tamper == "foreign-key" {
			// a key that looks exactly like a key of the keyset (algorithm, kid) over other material
			victim := w.keys[tp.signer]
			src := w.sourceOf(victim.mat)
			// (pool-based families: a pool key none of the keyset's materials uses)
			var fm *material
			first := rapid.IntRange(0, catalog.PoolKeysPerGroup-1).Draw(t, "foreignPoolIdx")
			for j := 0; j < catalog.PoolKeysPerGroup && fm == nil; j++ {
				c, err := newMaterial(fmt.Sprintf("foreign%d", i), src, first+j, -1)
				if err != nil {
					t.Fatalf("harness: foreign material: %v", err)
				}
				fm = c
				for _, o := range w.mats {
					if c.rsaN != nil && o.fam == c.fam && string(o.rsaN) == string(c.rsaN) {
						fm = nil
					}
				}
			}
			if fm == nil {
				t.Fatalf("harness: the pool has no key left that is foreign to the keyset")
			}
			fk := &wkey{mat: fm, alg: victim.alg, rule: victim.rule, kid: victim.kid, id: victim.id, enabled: true}
			if err := fk.build(); err != nil {
				t.Fatalf("harness: foreign key: %v", err)
			}
			tp.foreign = fk
		}
		switch tp.group {
		case 'C', 'D', 'E':
			tp.via = "own"
		default:
			tp.via = rapid.SampledFrom([]string{"tink", "tink", "own"}).Draw(t, "issuedVia")
		}
		if tp.via == "tink" {
			// issuing attempts that fail, right before the real one (see failedIssue)
			for j, nf := 0, rapid.SampledFrom([]int{0, 0, 0, 1, 1, 2}).Draw(t, "failedIssuesBefore"); j < nf; j++ {
				tp.fails = append(tp.fails, failPlan{kind: rapid.IntRange(0, len(failKinds)-1).Draw(t, "failedIssueKind"),
					who: rapid.IntRange(0, 1+len(w.keys)).Draw(t, "failedIssueBy"), p: rapid.Uint64Range(0, 1<<20).Draw(t, "failedIssueVariant")})
			}
		}
		// what the issuer believes the time is
		tp.skewNs = rapid.SampledFrom([]int64{0, 0, 0, 1, -1, sec1 / 2, sec1, -sec1, 90 * sec1, -90 * sec1, hour, -hour}).Draw(t, "issuerClockError")
		if tp.skewNs > 0 {
			w.r.Fault("issuer-clock-ahead")
		} else if tp.skewNs < 0 {
			w.r.Fault("issuer-clock-behind")
		}
		tp.base = floorDiv(t0ns+tp.issueAt+tp.skewNs, sec1)
		// claims
		c := map[string]any{}
		dev := rapid.IntRange(0, 9).Draw(t, "tokDeviates")
		if s := pick(t, "tokIss", issPool, h.iss, dev == 8); s != nil {
			c["iss"] = *s
		}
		if s := pick(t, "tokAud", audPool, h.aud, dev == 9); s != nil {
			switch rapid.IntRange(0, 3).Draw(t, "audShape") {
			case 0, 1:
				c["aud"] = *s
			case 2:
				c["aud"] = []any{*s}
			default:
				l := []any{}
				for j, k := 0, rapid.IntRange(1, 3).Draw(t, "audOthers"); j < k; j++ {
					l = append(l, "other-"+fmt.Sprint(j))
				}
				pos := rapid.IntRange(0, len(l)).Draw(t, "audPos")
				l = append(l[:pos:pos], append([]any{*s}, l[pos:]...)...)
				if pos == len(l)-1 {
					w.r.Probe("aud-list-last-matches")
				}
				c["aud"] = l
			}
		}
		tp.typ = pick(t, "tokTyp", typPool, h.typ, dev == 7)
		if rapid.IntRange(0, 2).Draw(t, "hasSub") == 0 {
			c["sub"] = rapid.SampledFrom(strPool).Draw(t, "sub")
		}
		if rapid.IntRange(0, 2).Draw(t, "hasJti") == 0 {
			c["jti"] = rapid.SampledFrom(strPool).Draw(t, "jti")
		}
		tp.life = rapid.SampledFrom([]int64{3600, 30, 2, 1, 600, 601, 86400, 30 * 86400, 0, -10, 50 * 365 * 86400}).Draw(t, "lifetime")
		if rapid.IntRange(0, 9).Draw(t, "hasExp") != 0 {
			c["exp"] = float64(tp.base + tp.life)
		}
		if rapid.IntRange(0, 2).Draw(t, "hasNbf") != 0 {
			c["nbf"] = float64(tp.base + rapid.SampledFrom([]int64{0, 0, -1, 1, 30, 600, 3600, -3600}).Draw(t, "nbfDelta"))
		}
		if rapid.IntRange(0, 6).Draw(t, "hasIat") != 0 {
			c["iat"] = float64(tp.base + rapid.SampledFrom([]int64{0, 0, 0, -1, 1, 600, 3600}).Draw(t, "iatDelta"))
		}
		for j, k := 0, rapid.IntRange(0, 3).Draw(t, "nCustom"); j < k; j++ {
			name := rapid.SampledFrom(namPool).Draw(t, "claimName")
			c[name] = drawValue(t, 0)
		}
		tp.claims = c
		// the network
		nd := rapid.IntRange(1, 2).Draw(t, "deliveries")
		for j := 0; j < nd; j++ {
			d := rapid.SampledFrom([]int64{0, 1, 1_000_000, sec1, 30 * sec1, 10 * min1, hour, day, tp.life*sec1 - 1, tp.life * sec1, tp.life*sec1 + sec1}).Draw(t, "netDelay")
			if d < 0 {
				d = 0
			}
			tp.deliver = append(tp.deliver, delivery{delay: d, val: rapid.IntRange(0, len(w.vals)-1).Draw(t, "deliveredTo")})
		}
		nb := rapid.IntRange(1, len(w.vals)).Draw(t, "boundaryValidators")
		first := rapid.IntRange(0, len(w.vals)-1).Draw(t, "boundaryFirst")
		for j := 0; j < nb; j++ {
			tp.bvals = append(tp.bvals, (first+j)%len(w.vals))
		}
		w.tokens = append(w.tokens, tp)
		if w.r.Tracing() {
			cj, _ := json.Marshal(c)
			w.r.Logf("plan token %d: issue at t0+%v, issuer clock error %v, signer %s, via %s, tamper %s, typ %s, claims %s", i, time.Duration(tp.issueAt), time.Duration(tp.skewNs),
				w.keys[tp.signer], tp.via, tp.tamper, sp(tp.typ), cj)
		}
	}
}

func (w *world) sourceOf(m *material) source {
	mac, sig := sources()
	for _, s := range append(append([]source{}, mac...), sig...) {
		if s.e.Name == m.src {
			return s
		}
	}
	w.t.Fatalf("harness: no source %s", m.src)
	return source{}
}

func floorDiv(a, b int64) int64 {
	q := a / b
	if a%b != 0 && (a < 0) != (b < 0) {
		q--
	}
	return q
}

// planEvents places the verification instants.
func (w *world) planEvents() {
	maxEvents := 220
	if core.Thorough() {
		maxEvents = 700
	} else if w.class == "mac" {
		maxEvents = 500
	}
	// slower verification → fewer instants per run
	slow := 0
	for _, k := range w.keys {
		switch {
		case k.alg == "ES384" || k.alg == "ES512":
			slow += 3
		case k.mat.fam == "ML":
			slow++
		}
	}
	if slow > 0 && !core.Thorough() {
		maxEvents = maxEvents / (1 + slow)
	}
	const horizon = 200 * 365 * day
	seq := 0
	add := func(at int64, kind string, tok, val int) {
		w.events = append(w.events, event{at: at, seq: seq, kind: kind, tok: tok, val: val})
		seq++
	}
	for _, tp := range w.tokens {
		add(tp.issueAt, "issue", tp.idx, -1)
	}
	nVerify := 0
	for _, tp := range w.tokens {
		for j, d := range tp.deliver {
			kind := "delivery"
			if j > 0 {
				kind = "dup"
			}
			add(tp.issueAt+d.delay, kind, tp.idx, d.val)
			nVerify++
		}
	}
	for _, tp := range w.tokens {
		for _, vi := range tp.bvals {
			vp := w.vals[vi]
			for _, cl := range []string{"exp", "nbf", "iat"} {
				v, ok := tp.claims[cl]
				if !ok || (cl == "iat" && !vp.o.ExpectIssuedInThePast) {
					continue
				}
				b := (int64(v.(float64))-t0sec)*sec1 - int64(vp.o.ClockSkew)
				if cl == "exp" {
					b = (int64(v.(float64))-t0sec)*sec1 + int64(vp.o.ClockSkew)
				}
				for _, o := range boundaryOffsets {
					at := b + o.d
					if at < tp.issueAt || at > horizon || nVerify >= maxEvents {
						continue
					}
					add(at, cl+o.n, tp.idx, vi)
					nVerify++
				}
			}
		}
	}
	sort.SliceStable(w.events, func(i, j int) bool {
		a, b := w.events[i], w.events[j]
		if a.at != b.at {
			return a.at < b.at
		}
		if (a.kind == "issue") != (b.kind == "issue") {
			return a.kind == "issue"
		}
		return a.seq < b.seq
	})
}

// ---------------------------------------------------------------------------
// the verifier side

func (w *world) buildVerifier() {
	t, r := w.t, w.r
	var err error
	if w.class == "mac" {
		func() {
			defer w.catch("NewMAC", &err)
			w.ksMAC, err = jwt.NewMAC(w.handle)
		}()
		if err != nil {
			r.Violation("C09/primitive-refused", fmt.Sprintf("jwt.NewMAC on a valid keyset: %v", err))
			return
		}
		w.verifier = w.ksMAC.VerifyMACAndDecode
		w.transport = "direct"
		if _, err := jwt.JWKSetFromPublicKeysetHandle(w.handle); err == nil {
			r.Violation("C09/jwk-export-of-secret-keys", "JWKSetFromPublicKeysetHandle succeeded on a keyset of JWT MAC keys")
		} else {
			r.Probe("jwk-export-of-mac-keyset-refused")
		}
		return
	}
	func() {
		defer w.catch("NewSigner", &err)
		w.ksSigner, err = jwt.NewSigner(w.handle)
	}()
	if err != nil {
		r.Violation("C09/primitive-refused", fmt.Sprintf("jwt.NewSigner on a valid keyset: %v", err))
		return
	}
	pub, err := w.handle.Public()
	if err != nil {
		t.Fatalf("harness: Public(): %v", err)
	}
	if out, err := jwt.JWKSetFromPublicKeysetHandle(w.handle); err == nil {
		r.Violation("C09/jwk-export-of-secret-keys", fmt.Sprintf("JWKSetFromPublicKeysetHandle succeeded on a private keyset: %.200s", out))
	} else {
		r.Probe("jwk-export-of-private-keyset-refused")
	}
	vh := pub
	w.transport = "direct"
	if rapid.IntRange(0, 2).Draw(t, "jwkTransport") != 0 {
		enabledML := false
		for _, k := range w.keys {
			if k.enabled && k.mat.fam == "ML" {
				enabledML = true
			}
		}
		var set []byte
		func() {
			defer w.catch("JWKSetFromPublicKeysetHandle", &err)
			set, err = jwt.JWKSetFromPublicKeysetHandle(pub)
		}()
		switch {
		case err != nil && enabledML:
			// JWK has no registered representation for ML-DSA keys yet; refusing is allowed
			r.Probe("jwk-export-refused-mldsa")
		case err != nil:
			r.Violation("C09/jwk-export-failed", fmt.Sprintf("public keyset %v: %v", w.keys, err))
			return
		default:
			w.checkJWKSet(set)
			var imp *keyset.Handle
			func() {
				defer w.catch("JWKSetToPublicKeysetHandle", &err)
				imp, err = jwt.JWKSetToPublicKeysetHandle(set)
			}()
			if err != nil {
				r.Violation("C09/jwk-import-failed", fmt.Sprintf("%v; set: %.300s", err, set))
				return
			}
			vh = imp
			w.transport = "jwk"
			// The property gives no rule for how an exported kid binds after import: the
			// verifier's keyset is taken as it IS (algorithm, kid strategy, kid and status
			// read from the imported handle). What the property does demand — every token
			// the private keyset signs verifies — is enforced in decide().
			w.refKeys = w.importedKeys(imp)
			r.Probe("jwk-transport")
			if w.unusualRSA {
				r.Probe("jwk-transport-of-unusual-rsa-key")
			}
			for _, k := range w.refKeys {
				for _, o := range w.keys {
					if o.enabled && o.rule == jwtref.KIDFromKeyID && o.mat.name == k.Material && k.Rule == jwtref.KIDCustom && k.KID == o.kid {
						r.Probe("jwk-tinkkid-becomes-customkid")
					}
				}
			}
			r.Logf("verifier keyset went through a JWK set: %.400s", set)
		}
	}
	var v jwt.Verifier
	func() {
		defer w.catch("NewVerifier", &err)
		v, err = jwt.NewVerifier(vh)
	}()
	if err != nil {
		r.Violation("C09/primitive-refused", fmt.Sprintf("jwt.NewVerifier (%s): %v", w.transport, err))
		return
	}
	w.verifier = v.VerifyAndDecode
}

// checkJWKSet: an export of a public keyset carries no private key members.
// Nothing else about the document (order, layout, which members name the key)
// is constrained by the property; a document this reader cannot walk is left
// to the import and to the round-trip decisions.
func (w *world) checkJWKSet(set []byte) {
	var doc struct {
		Keys []map[string]any `json:"keys"`
	}
	if err := json.Unmarshal(set, &doc); err != nil {
		return
	}
	for i, e := range doc.Keys {
		for _, priv := range []string{"d", "p", "q", "dp", "dq", "qi", "k", "oth"} {
			if _, bad := e[priv]; bad {
				w.r.Violation("C09/jwk-set-private-member", fmt.Sprintf("entry %d carries %q", i, priv))
				return
			}
		}
	}
}

// importedKeys describes a verifier keyset by what its entries say about
// themselves; key material is recognised by its public bytes.
func (w *world) importedKeys(h *keyset.Handle) []jwtref.Key {
	var out []jwtref.Key
	for i := 0; i < h.Len(); i++ {
		e, err := h.Entry(i)
		if err != nil {
			w.t.Fatalf("harness: imported handle entry %d: %v", i, err)
		}
		rk := jwtref.Key{Enabled: e.KeyStatus() == keyset.Enabled, Material: fmt.Sprintf("imported-unrecognised-%d", i)}
		var pub []byte
		var fam, strategy, kid string
		var hasKID bool
		switch k := e.Key().(type) {
		case *jwtecdsa.PublicKey:
			p := k.Parameters().(*jwtecdsa.Parameters)
			fam, rk.Alg, strategy, pub = "ES", p.Algorithm().String(), p.KIDStrategy().String(), k.PublicPoint()
			kid, hasKID = k.KID()
		case *jwtrsassapkcs1.PublicKey:
			p := k.Parameters().(*jwtrsassapkcs1.Parameters)
			fam, rk.Alg, strategy, pub = "RS", p.Algorithm().String(), p.KIDStrategy().String(), k.Modulus()
			kid, hasKID = k.KID()
		case *jwtrsassapss.PublicKey:
			p := k.Parameters().(*jwtrsassapss.Parameters)
			fam, rk.Alg, strategy, pub = "PS", p.Algorithm().String(), p.KIDStrategy().String(), k.Modulus()
			kid, hasKID = k.KID()
		case *jwtmldsa.PublicKey:
			p := k.Parameters().(*jwtmldsa.Parameters)
			fam, rk.Alg, strategy, pub = "ML", p.Algorithm().String(), p.KIDStrategy().String(), k.KeyBytes()
			kid, hasKID = k.KID()
		}
		switch {
		case strategy == "Base64EncodedKeyIDAsKID" && hasKID:
			rk.Rule, rk.KID = jwtref.KIDFromKeyID, kid
		case strategy == "CustomKID" && hasKID:
			rk.Rule, rk.KID = jwtref.KIDCustom, kid
		default:
			rk.Rule = jwtref.KIDIgnored
		}
		for _, m := range w.mats {
			if m.fam == fam && len(pub) > 0 && bytes.Equal(bytes.TrimLeft(m.pub, "\x00"), bytes.TrimLeft(pub, "\x00")) {
				rk.Material = m.name
			}
		}
		out = append(out, rk)
		w.r.Logf("imported key %d: %s/%s/%s(%q) enabled=%v", i, rk.Material, rk.Alg, rk.Rule, rk.KID, rk.Enabled)
	}
	return out
}

func verdict(d jwtref.Decision) string {
	switch {
	case d.Accept:
		return "accept"
	case d.Either:
		return "either"
	}
	return "reject"
}

func distClass(d int64) string {
	switch {
	case d == 0:
		return "0"
	case d == 1:
		return "1ns"
	case d < sec1:
		return "<1s"
	}
	return ">=1s"
}

// relShort is relClass with every distance above 1 ns folded into one class.
func relShort(n string, tr jwtref.TimeRel) string {
	if !tr.Checked {
		return n + "-"
	}
	side := "ok"
	if !tr.Holds {
		side = "X"
	}
	if tr.Dist <= 1 {
		return n + side + "@" + distClass(tr.Dist)
	}
	return n + side
}

func relClass(n string, tr jwtref.TimeRel) string {
	if !tr.Checked {
		return n + "-"
	}
	side := "ok"
	if !tr.Holds {
		side = "VIOL"
	}
	return n + side + "@" + distClass(tr.Dist)
}

// decide performs one verification at instant `now` (through time.Now when
// fixed is false — the bubble clock must then read `now` — and through
// FixedNow otherwise) and compares it with the model.
func (w *world) decide(ev event, now time.Time, fixed bool) {
	r := w.r
	tp, vp := w.tokens[ev.tok], w.vals[ev.val]
	if tp.compact == "" {
		return // issuing already failed
	}
	want := jwtref.Decide(tp.model, w.refKeys, vp.o, now)
	roundTrip := false
	if w.transport == "jwk" && tp.tamper == "none" && w.keys[tp.signer].enabled && !want.Accept {
		// "a public keyset exported to a JWK set and imported back verifies every token its
		// private keyset signs": an untouched token of an enabled key that the keyset's own
		// public side has to accept must be accepted after the transport, whatever the
		// imported keys look like.
		if d := jwtref.Decide(tp.model, w.srcKeys, vp.o, now); d.Accept {
			want, roundTrip = d, true
		}
	}
	var v *jwt.Validator
	path := "time.Now"
	if fixed {
		path = "FixedNow"
		var err error
		*vp.reused = *vp.tinkOpts(now) // the caller re-uses its options struct; validators made earlier must not care
		v, err = jwt.NewValidator(vp.reused)
		if err != nil {
			r.Violation("C09/legal-validator-refused", fmt.Sprintf("%s with FixedNow: %v", vp.describe(), err))
			return
		}
	} else {
		v = vp.v
		// the caller goes on using its options struct for other validators
		*vp.reused = jwt.ValidatorOpts{FixedNow: t0.Add(-24 * time.Hour), ClockSkew: time.Minute, IgnoreTypeHeader: true, IgnoreIssuer: true, IgnoreAudiences: true, AllowMissingExpiration: true}
		if _, err := jwt.NewValidator(vp.reused); err != nil {
			r.Violation("C09/legal-validator-refused", fmt.Sprintf("%v", err))
			return
		}
		vp.uses++
		if vp.uses > 1 && now.After(t0) {
			r.Probe("validator-reused-at-later-instant")
		}
	}
	var vj *jwt.VerifiedJWT
	var err error
	func() {
		defer w.catch("verify", &err)
		vj, err = w.verifier(tp.compact, v)
	}()
	got := err == nil
	if got && w.lastRejected {
		r.Probe("accepted-right-after-a-rejected-verification") // a failed verification leaves nothing behind either
	}
	w.lastRejected = !got
	w.decisions++
	w.digest = (w.digest ^ uint64(int64(ev.seq)<<3|int64(b2i(fixed))<<2|int64(b2i(want.Accept))<<1|int64(b2i(got))|int64(b2i(want.Either))<<40)) * 1099511628211
	tc := relClass("exp", want.Exp) + " " + relClass("nbf", want.Nbf) + " " + relClass("iat", want.Iat)
	if r.Tracing() {
		r.Logf("t0+%v %-8s token %d validator %d via %s: model %v (%s) [%s], tink err=%v", now.Sub(t0), ev.kind, ev.tok, ev.val, path, verdict(want), want.Reason, tc, err)
	}
	ctx := fmt.Sprintf("now=t0+%v (%s) via %s, event %s, token %d %q signed by %s tamper=%s, keyset(%s) %v, validator {%s}, time rules [%s]",
		now.Sub(t0), now.Format(time.RFC3339Nano), path, ev.kind, tp.idx, abbreviate(tp.compact), tp.by, tp.tamper, w.transport, w.keys, vp.describe(), tc)
	near := (want.Exp.Checked && want.Exp.Dist <= 1) || (want.Nbf.Checked && want.Nbf.Dist <= 1) || (want.Iat.Checked && want.Iat.Dist <= 1)
	switch {
	case want.Either:
		// the statement does not settle this case; an accepted token must still carry the signed payload
		if strings.HasPrefix(string(want.Reason), "iat-missing") {
			r.Probe("unsettled-iat-missing")
		} else {
			r.Probe("unsettled-reencoded-base64")
		}
		if got {
			r.Count("unsettled-case:library-accepts", 1)
			w.checkAccepted(vj, tp, ctx)
		} else {
			r.Count("unsettled-case:library-rejects", 1)
		}
	case want.Accept && !got && roundTrip:
		r.Violation("C09/jwk-roundtrip-rejects-signed-token", fmt.Sprintf("tink: %v; verifier keyset after import %+v; %s", err, w.refKeys, ctx))
	case want.Accept && !got:
		cls := tp.tamper
		if near {
			cls += ":at-boundary"
		}
		r.Violation("C09/valid-token-rejected:"+cls, fmt.Sprintf("tink: %v; %s", err, ctx))
	case !want.Accept && got:
		cls := string(want.Reason)
		if cls == "no-key-validates-signature" || cls == "not-compact-jws" {
			cls += ":" + tp.tamper
		}
		r.Violation("C09/invalid-token-accepted:"+cls, ctx)
	case got:
		w.checkAccepted(vj, tp, ctx)
		tp.accepted++
	}
	// statistics
	if want.Accept && got && w.transport == "jwk" && tp.tamper == "none" {
		r.Probe("jwk-roundtrip-signed-token-verified")
	}
	out := "rej"
	if want.Accept {
		out = "acc"
		r.Probe("accept")
	} else if want.Either {
		out = "either"
	} else {
		r.Probe("reject")
	}
	w.outcomes[out] = true
	if !fixed {
		if want.Accept {
			r.Count("model:accept", 1)
		} else {
			r.Count("model:"+string(want.Reason), 1)
		}
	}
	if !fixed {
		for _, c := range []struct {
			n string
			t jwtref.TimeRel
		}{{"exp", want.Exp}, {"nbf", want.Nbf}, {"iat", want.Iat}} {
			if c.t.Checked && c.t.Dist <= 1 {
				w.bits[c.n+distClass(c.t.Dist)+fmt.Sprint(b2i(c.t.Holds))] = true
				w.nontrivial = true
			}
		}
		if strings.HasPrefix(ev.kind, "exp") || strings.HasPrefix(ev.kind, "nbf") || strings.HasPrefix(ev.kind, "iat") {
			r.Probe("at-" + ev.kind)
			// decisive: everything but this one time rule holds, so the instant alone flips the decision
			if want.Accept || want.Reason == "expired" || want.Reason == "not-yet-valid" || want.Reason == "issued-in-the-future" {
				others := 0
				for _, c := range []jwtref.TimeRel{want.Exp, want.Nbf, want.Iat} {
					if c.Checked && !c.Holds {
						others++
					}
				}
				if others <= 1 && near {
					r.Probe("decisive-" + ev.kind[:3] + "-boundary")
				}
			}
		}
		if ev.kind == "delivery" || ev.kind == "dup" {
			if ev.kind == "dup" {
				r.Fault("net-duplicate-delivery")
			}
			if want.Exp.Checked && !want.Exp.Holds {
				atIssue := jwtref.Decide(tp.model, w.refKeys, vp.o, t0.Add(time.Duration(tp.issueAt)))
				if atIssue.Exp.Holds {
					r.Fault("net-expired-in-flight")
				} else {
					r.Probe("expired-on-arrival")
				}
			}
			if want.Nbf.Checked && want.Nbf.Holds {
				atIssue := jwtref.Decide(tp.model, w.refKeys, vp.o, t0.Add(time.Duration(tp.issueAt)))
				if !atIssue.Nbf.Holds {
					r.Fault("net-became-valid-in-flight")
				}
			}
		}
		r.SetAdd("decision-classes", strings.Join([]string{tp.by.mat.fam, tp.by.rule.String(), vp.short,
			relShort("exp", want.Exp) + " " + relShort("nbf", want.Nbf) + " " + relShort("iat", want.Iat), tp.tamper, w.transport, out}, "|"))
		r.SetAdd("option-vectors", vp.class)
	}
}

// refusals records what NewValidator refuses. Nothing here is an assertion:
// tink's 10-minute skew limit exists only as a constant and an error text in
// jwt_validator.go (no doc comment on ValidatorOpts / NewValidator states it),
// and the property says nothing about contradictory options.
func (w *world) refusals() {
	r := w.r
	for _, c := range []struct {
		d     time.Duration
		probe string
	}{{10*time.Minute + 1, "skew-10min+1ns-refused"}, {10*time.Minute + time.Second, "skew-10min+1s-refused"}} {
		if _, err := jwt.NewValidator(&jwt.ValidatorOpts{ClockSkew: c.d, AllowMissingExpiration: true}); err != nil {
			r.Probe(c.probe)
		}
	}
	// contradictory options: the property does not say what happens; tink refuses them
	s := "x"
	n := 0
	for _, o := range []*jwt.ValidatorOpts{{ExpectedTypeHeader: &s, IgnoreTypeHeader: true}, {ExpectedIssuer: &s, IgnoreIssuer: true}, {ExpectedAudience: &s, IgnoreAudiences: true},
		{ExpectedAudience: &s, ExpectedAudiences: &s}} {
		if _, err := jwt.NewValidator(o); err != nil {
			n++
		}
	}
	if n == 4 {
		r.Probe("conflicting-options-refused")
	}
}

// ---------------------------------------------------------------------------
// the run

func run(t *rapid.T) {
	r := core.Begin(t)
	g := simrng.New(rapid.Uint64().Draw(t, "rngSeed"))
	defer simrng.Install(g)()
	w := &world{r: r, t: t, g: g, typesSeen: map[string]bool{}, bits: map[string]bool{}, outcomes: map[string]bool{}}
	classes := []string{"mac", "sig"} // quick tier: half of the runs on the (30× cheaper) MAC side
	if core.Thorough() {
		classes = []string{"mac", "sig", "sig"}
	}
	w.class = rapid.SampledFrom(classes).Draw(t, "class")

	w.drawKeys()
	h := house{iss: rapid.IntRange(-1, len(issPool)-1).Draw(t, "houseIss"), aud: rapid.IntRange(-1, len(audPool)-1).Draw(t, "houseAud"), typ: rapid.IntRange(-1, len(typPool)-1).Draw(t, "houseTyp")}
	w.drawValidators(h)
	w.buildVerifier()
	if w.verifier == nil {
		return
	}
	w.drawTokens(h)
	w.planEvents()

	var simulated int64
	rapid.SyncTest(t, func(t *rapid.T) {
		w.t = t
		if now := time.Now(); !now.Equal(t0) {
			t.Fatalf("harness: the bubble clock starts at %v, not at %v", now, t0)
		}
		w.refusals()
		for i, vp := range w.vals {
			vp.reused = vp.tinkOpts(time.Time{})
			v, err := jwt.NewValidator(vp.reused)
			if err != nil {
				r.Violation("C09/legal-validator-refused", fmt.Sprintf("validator %d {%s}: %v", i, vp.describe(), err))
				return
			}
			vp.v = v
			if vp.deprecatedAud {
				r.Probe("deprecated-audiences-option")
			}
		}
		for _, ev := range w.events {
			if d := ev.at - (time.Now().UnixNano() - t0ns); d > 0 {
				if d > 10*365*day {
					r.Probe("far-future-leap")
				}
				time.Sleep(time.Duration(d))
			}
			now := time.Now()
			if now.UnixNano()-t0ns != ev.at {
				t.Fatalf("harness: bubble clock reads t0+%v at an event planned for t0+%v", now.Sub(t0), time.Duration(ev.at))
			}
			if ev.kind == "issue" {
				w.issue(w.tokens[ev.tok])
				continue
			}
			w.decide(ev, now, false)
		}
		simulated = time.Now().UnixNano() - t0ns
		// second pass: the same decisions through FixedNow, while the bubble clock stands elsewhere
		end := time.Now()
		for _, ev := range w.events {
			if ev.kind == "issue" {
				continue
			}
			at := t0.Add(time.Duration(ev.at))
			if !at.Equal(end) {
				r.Probe("fixednow-at-another-clock")
			}
			w.decide(ev, at, true)
		}
	})
	// core sums simulated nanoseconds of all runs in an int64: a run contributes at most one hour there
	// (the uncapped total is the counter simulated-seconds)
	if simulated > hour {
		r.SimTime(hour)
	} else {
		r.SimTime(simulated)
	}
	r.Count("simulated-seconds", simulated/sec1)
	for _, k := range core.SortedKeys(w.typesSeen) {
		r.Probe("returned-custom-claim-" + k)
	}
	for _, tp := range w.tokens {
		if tp.accepted > 0 && tp.by != nil {
			for i, k := range w.keys {
				if k == tp.by && i > 0 {
					r.Probe("accepted-by-non-first-key")
				}
			}
		}
		if tp.tamper != "none" {
			w.nontrivial = true
		}
	}
	if w.transport == "jwk" || w.failedIss > 0 {
		w.nontrivial = true
	}

	// signature of the run
	set := func(f func(*wkey) string) string {
		m := map[string]bool{}
		for _, k := range w.keys {
			m[f(k)] = true
		}
		return strings.Join(core.SortedKeys(m), ",")
	}
	claimsHit := map[string]bool{}
	for b := range w.bits {
		claimsHit[b[:3]] = true
	}
	sig := strings.Join([]string{w.class, w.transport, set(func(k *wkey) string { return k.mat.fam }), set(func(k *wkey) string { return k.rule.String() }),
		w.tokens[0].tamper, strings.Join(core.SortedKeys(claimsHit), ","), strings.Join(core.SortedKeys(w.outcomes), "")}, "|")
	r.ObsI("decisions-digest", int64(w.digest))
	r.Count("decisions", int64(w.decisions))
	r.End(sig, w.nontrivial)
}
