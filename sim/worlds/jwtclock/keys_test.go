package jwtclock

import (
	"crypto"
	"crypto/ecdsa"
	"crypto/elliptic"
	"crypto/hmac"
	"crypto/rsa"
	"crypto/sha256"
	"crypto/sha512"
	"encoding/base64"
	"encoding/binary"
	"fmt"
	"hash"
	"io"
	"math/big"
	"sync"

	"github.com/tink-crypto/tink-go/v2/insecuresecretdataaccess"
	"github.com/tink-crypto/tink-go/v2/internal/internalapi"
	"github.com/tink-crypto/tink-go/v2/internal/protoserialization"
	"github.com/tink-crypto/tink-go/v2/jwt/jwtecdsa"
	"github.com/tink-crypto/tink-go/v2/jwt/jwthmac"
	"github.com/tink-crypto/tink-go/v2/jwt/jwtmldsa"
	"github.com/tink-crypto/tink-go/v2/jwt/jwtrsassapkcs1"
	"github.com/tink-crypto/tink-go/v2/jwt/jwtrsassapss"
	"github.com/tink-crypto/tink-go/v2/key"
	rspb "github.com/tink-crypto/tink-go/v2/proto/jwt_rsa_ssa_pkcs1_go_proto"
	pspb "github.com/tink-crypto/tink-go/v2/proto/jwt_rsa_ssa_pss_go_proto"
	tinkpb "github.com/tink-crypto/tink-go/v2/proto/tink_go_proto"
	"github.com/tink-crypto/tink-go/v2/secretdata"
	"github.com/tink-crypto/tink-go/v2/signature/mldsa"
	"github.com/tink-crypto/tink-go/v2/tink"
	"github.com/tink-crypto/tink-go/v2/verifsim/catalog"
	"github.com/tink-crypto/tink-go/v2/verifsim/refimpl/jwtref"
	"google.golang.org/protobuf/proto"
)

// ---------------------------------------------------------------------------
// key material (independent of algorithm header and kid strategy)

type material struct {
	name string // identity the reference model sees
	fam  string // HS ES RS PS ML
	src  string // catalog entry the material came from
	algs []string

	hkey []byte // HS

	ecD, ecPoint []byte // ES
	ecPriv       *ecdsa.PrivateKey

	rsaN, rsaD, rsaP, rsaQ []byte // RS / PS (minimal big-endian encodings)
	rsaPriv                *rsa.PrivateKey
	rsaBits                int  // bit length of the modulus
	odd                    bool // the modulus length is not a multiple of 8 bits

	mlSeed, mlPub []byte // ML
	mlSigner      tink.Signer

	pub []byte // what everybody knows about the key (for the HS-with-public-key confusion)

	badKID *wkey // a key over this material whose custom kid is not UTF-8 (made on first use; tk == nil: tink refused it)
}

var tok = insecuresecretdataaccess.Token{}

func sec(b []byte) secretdata.Bytes { return secretdata.NewBytesFromData(b, tok) }

// sources lists, per family, the catalog entries key material is taken from
// (always the KID_IGNORED entry: the kid strategy is applied when the key is
// re-built for the drawn strategy).
type source struct {
	fam  string
	e    catalog.Entry
	algs []string
	cost int
}

var (
	srcOnce sync.Once
	srcMAC  []source
	srcSig  []source
)

func sources() ([]source, []source) {
	srcOnce.Do(func() {
		for _, e := range catalog.ByClass(catalog.JWTMAC) {
			if e.Variant != catalog.KIDIgnored {
				continue
			}
			p := e.Params.(*jwthmac.Parameters)
			var algs []string
			for _, a := range []struct {
				n   string
				min int
			}{{"HS256", 32}, {"HS384", 48}, {"HS512", 64}} {
				if p.KeySizeInBytes() >= a.min {
					algs = append(algs, a.n)
				}
			}
			srcMAC = append(srcMAC, source{fam: "HS", e: e, algs: algs})
		}
		for _, e := range catalog.ByClass(catalog.JWTSignature) {
			if e.Variant != catalog.KIDIgnored {
				continue
			}
			switch p := e.Params.(type) {
			case *jwtecdsa.Parameters:
				c := 0
				if p.Algorithm() != jwtecdsa.ES256 {
					c = 1 // P-384 / P-521 verification is 1–3 ms
				}
				srcSig = append(srcSig, source{fam: "ES", e: e, algs: []string{p.Algorithm().String()}, cost: c})
			case *jwtrsassapkcs1.Parameters:
				c := 1
				if p.ModulusSizeInBits() > 2048 {
					c = 2
				}
				srcSig = append(srcSig, source{fam: "RS", e: e, algs: []string{"RS256", "RS384", "RS512"}, cost: c})
			case *jwtrsassapss.Parameters:
				c := 1
				if p.ModulusSizeInBits() > 2048 {
					c = 2
				}
				srcSig = append(srcSig, source{fam: "PS", e: e, algs: []string{"PS256", "PS384", "PS512"}, cost: c})
			case *jwtmldsa.Parameters:
				c := 1
				if p.Algorithm() != jwtmldsa.MLDSA44 {
					c = 2
				}
				srcSig = append(srcSig, source{fam: "ML", e: e, algs: []string{p.Algorithm().String()}, cost: c})
			}
		}
	})
	return srcMAC, srcSig
}

var rsaCache sync.Map // hex(N) → *rsa.PrivateKey (precomputed once per process; values depend on the pool only)

// oddRSA: RSA keys whose modulus length is not a multiple of 8 bits (2049 and
// 2052 bits). No template, no key generator of tink and no pool entry makes
// such a key, but every constructor and parser accepts one. The primes were
// generated once with crypto/rsa.GenerateKey (which takes any size) and are
// kept as constants: GenerateKey is not reproducible from a seed, and a key
// per process would cost more than the whole quick tier. Test-only keys.
var oddRSA = []struct{ p, q string }{
	{"1aff34007d635195a885e2e5520d91d787bbfdaee29d897e04e0faf43c9a043e6e40ec68f39512d93b1c04cc85cb725c762f6262c16a3c79369d5d04c77fc1873f1a2b32e3993a410a1f0812399894d6a84ba1d6b1c5343ba973e48bd82bea537d02379d76a2f2c80ec31d78229e510219d16fa89dc0df4a4c5b8f937640071e1",
		"c84f5a9ec8f31b128d347548aa23fdce847255e47e71cce48ac20770a1d41911bdc365b86b9522045e80c16cfe9146e7cdf0cd60092a73bfc7c97189f3ab3664228e44f2c557c79531e147db4ed0b562b02e25fed74d2a77d8b97b7d66789fc0bf5dffd5a4f170e79965f7aa74169ddffea8b87f0a7e04228e360d0c7bf0fc83"},
	{"3c04596e29acaa58568337330eeed3601f4b8818ca9af341bf12cd15a6113a525de2a00e8e98d989aeba4dea5dd38d147caeda875c97c2fbbdc5e345b5394afb3f678fe02594c7ea3f29cc3eda353564a52f0543e92c943f9e3d17198f7df0c337509e415ca5c6abaf9f3e2abb423a344aa4b4d4141307adf08754fe495f7513b",
		"3aaac785ec1ee7c2a1acd2b0784bff3b0d6acc10ad024d4aeaf4213bc49f565a08416c852ec163cb9c41c81734358241a3bef89ecc7ccaf3d14f67495283ff1af85020cabc76e814b4558925ba031f26ccbd3e4df0591e8468a8d903de88b830364af868f890d4a595267be5e70cc1225db609f4ed4da9d9bb86a5b711678fe65"},
}

// oddMaterial fills the RSA fields of m from oddRSA[i].
func oddMaterial(m *material, i int) error {
	p, ok1 := new(big.Int).SetString(oddRSA[i].p, 16)
	q, ok2 := new(big.Int).SetString(oddRSA[i].q, 16)
	if !ok1 || !ok2 {
		return fmt.Errorf("oddRSA[%d] does not parse", i)
	}
	one := big.NewInt(1)
	p1, q1 := new(big.Int).Sub(p, one), new(big.Int).Sub(q, one)
	lambda := new(big.Int).Div(new(big.Int).Mul(p1, q1), new(big.Int).GCD(nil, nil, p1, q1))
	d := new(big.Int).ModInverse(big.NewInt(65537), lambda)
	if d == nil {
		return fmt.Errorf("oddRSA[%d]: 65537 has no inverse", i)
	}
	n := new(big.Int).Mul(p, q)
	if n.BitLen()%8 == 0 {
		return fmt.Errorf("oddRSA[%d]: the modulus has %d bits", i, n.BitLen())
	}
	m.rsaN, m.rsaD, m.rsaP, m.rsaQ, m.odd = n.Bytes(), d.Bytes(), p.Bytes(), q.Bytes(), true
	return nil
}

// newMaterial takes key material from catalog entry s (pool key poolIdx for
// the pooled families); odd >= 0 takes the RSA numbers from oddRSA[odd] instead.
func newMaterial(name string, s source, poolIdx, odd int) (*material, error) {
	m := &material{name: name, fam: s.fam, src: s.e.Name, algs: s.algs}
	var k key.Key
	var err error
	if odd >= 0 && (s.fam == "RS" || s.fam == "PS") {
		if err := oddMaterial(m, odd%len(oddRSA)); err != nil {
			return nil, err
		}
		return m, m.finishRSA()
	}
	if catalog.Pooled(s.e) {
		k, _, err = catalog.PoolKey(s.e, poolIdx, 0)
	} else {
		k, err = catalog.NewKey(s.e)
	}
	if err != nil {
		return nil, err
	}
	switch kk := k.(type) {
	case *jwthmac.Key:
		m.hkey = kk.KeyBytes().Data(tok)
		m.pub = nil
	case *jwtecdsa.PrivateKey:
		pk, _ := kk.PublicKey()
		m.ecD = kk.PrivateKeyValue().Data(tok)
		m.ecPoint = append([]byte(nil), pk.(*jwtecdsa.PublicKey).PublicPoint()...)
		var c elliptic.Curve
		switch s.algs[0] {
		case "ES256":
			c = elliptic.P256()
		case "ES384":
			c = elliptic.P384()
		default:
			c = elliptic.P521()
		}
		m.ecPriv, err = ecdsa.ParseRawPrivateKey(c, m.ecD)
		if err != nil {
			return nil, err
		}
		m.pub = m.ecPoint
	case *jwtrsassapkcs1.PrivateKey:
		pk, _ := kk.PublicKey()
		m.rsaN, m.rsaD, m.rsaP, m.rsaQ = pk.(*jwtrsassapkcs1.PublicKey).Modulus(), kk.D().Data(tok), kk.P().Data(tok), kk.Q().Data(tok)
	case *jwtrsassapss.PrivateKey:
		pk, _ := kk.PublicKey()
		m.rsaN, m.rsaD, m.rsaP, m.rsaQ = pk.(*jwtrsassapss.PublicKey).Modulus(), kk.D().Data(tok), kk.P().Data(tok), kk.Q().Data(tok)
	case *jwtmldsa.PrivateKey:
		pk, _ := kk.PublicKey()
		m.mlSeed = kk.PrivateKeyValue().Data(tok)
		m.mlPub = pk.(*jwtmldsa.PublicKey).KeyBytes()
		m.pub = m.mlPub
		inst := map[string]mldsa.Instance{"ML-DSA-44": mldsa.MLDSA44, "ML-DSA-65": mldsa.MLDSA65, "ML-DSA-87": mldsa.MLDSA87}[s.algs[0]]
		mp, err := mldsa.NewParameters(inst, mldsa.VariantNoPrefix)
		if err != nil {
			return nil, err
		}
		mk, err := mldsa.NewPrivateKey(sec(m.mlSeed), 0, mp)
		if err != nil {
			return nil, err
		}
		m.mlSigner, err = mldsa.NewSigner(mk, internalapi.Token{})
		if err != nil {
			return nil, err
		}
	default:
		return nil, fmt.Errorf("unexpected key type %T from catalog entry %s", k, s.e.Name)
	}
	if m.rsaN != nil {
		if err := m.finishRSA(); err != nil {
			return nil, err
		}
	}
	return m, nil
}

// finishRSA: the numbers in their minimal encoding, and the standard-library key of the harness's own signer.
func (m *material) finishRSA() error {
	min := func(b []byte) []byte { return new(big.Int).SetBytes(b).Bytes() }
	m.rsaN, m.rsaD, m.rsaP, m.rsaQ = min(m.rsaN), min(m.rsaD), min(m.rsaP), min(m.rsaQ)
	m.rsaBits = new(big.Int).SetBytes(m.rsaN).BitLen()
	m.pub = m.rsaN
	ck := string(m.rsaN)
	if v, ok := rsaCache.Load(ck); ok {
		m.rsaPriv = v.(*rsa.PrivateKey)
		return nil
	}
	pk := &rsa.PrivateKey{PublicKey: rsa.PublicKey{N: new(big.Int).SetBytes(m.rsaN), E: 65537}, D: new(big.Int).SetBytes(m.rsaD),
		Primes: []*big.Int{new(big.Int).SetBytes(m.rsaP), new(big.Int).SetBytes(m.rsaQ)}}
	pk.Precompute()
	if err := pk.Validate(); err != nil {
		return err
	}
	rsaCache.Store(ck, pk)
	m.rsaPriv = pk
	return nil
}

func hashFor(alg string) (crypto.Hash, func() hash.Hash) {
	switch alg[len(alg)-3:] {
	case "256":
		return crypto.SHA256, sha256.New
	case "384":
		return crypto.SHA384, sha512.New384
	}
	return crypto.SHA512, sha512.New
}

// sign is the harness's own signer: the signature/MAC of alg over input with
// this material, computed with the standard library (ML-DSA: tink's raw
// signature primitive over the same seed), never through tink's jwt package.
func (m *material) sign(alg string, input []byte, rnd io.Reader) ([]byte, error) {
	switch m.fam {
	case "HS":
		_, hf := hashFor(alg)
		h := hmac.New(hf, m.hkey)
		h.Write(input)
		return h.Sum(nil), nil
	case "ES":
		_, hf := hashFor(alg)
		h := hf()
		h.Write(input)
		r, s, err := ecdsa.Sign(rnd, m.ecPriv, h.Sum(nil))
		if err != nil {
			return nil, err
		}
		n := (m.ecPriv.Curve.Params().BitSize + 7) / 8
		out := make([]byte, 2*n)
		r.FillBytes(out[:n])
		s.FillBytes(out[n:])
		return out, nil
	case "RS":
		ch, hf := hashFor(alg)
		h := hf()
		h.Write(input)
		return rsa.SignPKCS1v15(nil, m.rsaPriv, ch, h.Sum(nil))
	case "PS":
		ch, hf := hashFor(alg)
		h := hf()
		h.Write(input)
		return rsa.SignPSS(rnd, m.rsaPriv, ch, h.Sum(nil), &rsa.PSSOptions{SaltLength: ch.Size(), Hash: ch})
	case "ML":
		return m.mlSigner.Sign(input)
	}
	return nil, fmt.Errorf("no signer for family %s", m.fam)
}

// sigLen is the length of a genuine signature of this material for alg.
func (m *material) sigLen(alg string) int {
	switch m.fam {
	case "HS":
		ch, _ := hashFor(alg)
		return ch.Size()
	case "ES":
		return 2 * ((m.ecPriv.Curve.Params().BitSize + 7) / 8)
	case "RS", "PS":
		return len(m.rsaN)
	}
	return map[string]int{"ML-DSA-44": 2420, "ML-DSA-65": 3309, "ML-DSA-87": 4627}[m.algs[0]]
}

// ---------------------------------------------------------------------------
// keys = material + algorithm + kid strategy

type wkey struct {
	mat     *material
	alg     string
	rule    jwtref.KIDRule
	kid     string // tink kid or custom kid
	id      uint32 // ID requirement (tink kid only)
	enabled bool
	primary bool
	tk      key.Key // the tink key (symmetric or private)
	ksID    uint32  // ID in the keyset

	// RS / PS: how the big integers of the key are written when the key object is made
	lzN, lzPriv int  // leading zero bytes on the modulus / on every other integer the route takes
	viaProto    bool // through the proto parser (n, e, d, p, q, dp, dq, crt) instead of the public constructors (n, d, p, q)
	encRefused  bool // tink refused that encoding; the key was made from the minimal one

	oneMAC  macLike // one-key primitives through the real factory, built on first use
	oneSign signLike
}

func kidOfID(id uint32) string {
	var b [4]byte
	binary.BigEndian.PutUint32(b[:], id)
	return base64.RawURLEncoding.EncodeToString(b[:])
}

func (k *wkey) ref() jwtref.Key {
	return jwtref.Key{Material: k.mat.name, Alg: k.alg, Rule: k.rule, KID: k.kid, Enabled: k.enabled}
}

func (k *wkey) String() string {
	st := "enabled"
	if !k.enabled {
		st = "DISABLED"
	}
	if k.primary {
		st += ",primary"
	}
	if k.mat.rsaN != nil && (k.mat.odd || k.lzN > 0 || k.lzPriv > 0 || k.viaProto) {
		st += fmt.Sprintf(",rsa[%dbit,n+%dz,priv+%dz,proto=%v]", k.mat.rsaBits, k.lzN, k.lzPriv, k.viaProto)
	}
	return fmt.Sprintf("%s/%s/%s(%q)/%s", k.mat.name, k.alg, k.rule, k.kid, st)
}

// build creates the tink key for (material, alg, rule, id/custom kid) through
// the jwt* packages' public constructors.
func (k *wkey) build() error {
	custom := k.rule == jwtref.KIDCustom
	var idReq uint32
	if k.rule == jwtref.KIDFromKeyID {
		idReq = k.id
	}
	ckid := ""
	if custom {
		ckid = k.kid
	}
	m := k.mat
	switch m.fam {
	case "HS":
		st := map[jwtref.KIDRule]jwthmac.KIDStrategy{jwtref.KIDIgnored: jwthmac.IgnoredKID, jwtref.KIDFromKeyID: jwthmac.Base64EncodedKeyIDAsKID, jwtref.KIDCustom: jwthmac.CustomKID}[k.rule]
		a := map[string]jwthmac.Algorithm{"HS256": jwthmac.HS256, "HS384": jwthmac.HS384, "HS512": jwthmac.HS512}[k.alg]
		p, err := jwthmac.NewParameters(len(m.hkey), st, a)
		if err != nil {
			return err
		}
		k.tk, err = jwthmac.NewKey(jwthmac.KeyOpts{KeyBytes: sec(m.hkey), IDRequirement: idReq, CustomKID: ckid, HasCustomKID: custom, Parameters: p})
		return err
	case "ES":
		st := map[jwtref.KIDRule]jwtecdsa.KIDStrategy{jwtref.KIDIgnored: jwtecdsa.IgnoredKID, jwtref.KIDFromKeyID: jwtecdsa.Base64EncodedKeyIDAsKID, jwtref.KIDCustom: jwtecdsa.CustomKID}[k.rule]
		a := map[string]jwtecdsa.Algorithm{"ES256": jwtecdsa.ES256, "ES384": jwtecdsa.ES384, "ES512": jwtecdsa.ES512}[k.alg]
		p, err := jwtecdsa.NewParameters(st, a)
		if err != nil {
			return err
		}
		pub, err := jwtecdsa.NewPublicKey(jwtecdsa.PublicKeyOpts{PublicPoint: append([]byte(nil), m.ecPoint...), IDRequirement: idReq, CustomKID: ckid, HasCustomKID: custom, Parameters: p})
		if err != nil {
			return err
		}
		k.tk, err = jwtecdsa.NewPrivateKeyFromPublicKey(sec(m.ecD), pub)
		return err
	case "RS", "PS":
		tk, err := k.rsaKey(k.lzN, k.lzPriv, k.viaProto)
		if err != nil && (k.lzN > 0 || k.lzPriv > 0 || k.viaProto) {
			// tink does not take this way of writing the key: the property speaks about the keysets that exist
			k.encRefused = true
			k.lzN, k.lzPriv, k.viaProto = 0, 0, false
			tk, err = k.rsaKey(0, 0, false)
		}
		k.tk = tk
		return err
	case "ML":
		st := map[jwtref.KIDRule]jwtmldsa.KIDStrategy{jwtref.KIDIgnored: jwtmldsa.IgnoredKID, jwtref.KIDFromKeyID: jwtmldsa.Base64EncodedKeyIDAsKID, jwtref.KIDCustom: jwtmldsa.CustomKID}[k.rule]
		a := map[string]jwtmldsa.Algorithm{"ML-DSA-44": jwtmldsa.MLDSA44, "ML-DSA-65": jwtmldsa.MLDSA65, "ML-DSA-87": jwtmldsa.MLDSA87}[k.alg]
		p, err := jwtmldsa.NewParameters(st, a)
		if err != nil {
			return err
		}
		pub, err := jwtmldsa.NewPublicKey(jwtmldsa.PublicKeyOpts{KeyBytes: m.mlPub, IDRequirement: idReq, CustomKID: ckid, HasCustomKID: custom, Parameters: p})
		if err != nil {
			return err
		}
		k.tk, err = jwtmldsa.NewPrivateKeyFromPublicKey(sec(m.mlSeed), pub)
		return err
	}
	return fmt.Errorf("unknown family %s", m.fam)
}

func lpad(b []byte, z int) []byte { return append(make([]byte, z, z+len(b)), b...) }

// rsaKey makes the tink private key of an RS / PS key with lzN leading zero
// bytes on the modulus and lzPriv on the other integers, through the public
// constructors or (viaProto) through the registered proto parser fed with a
// hand-made key proto.
func (k *wkey) rsaKey(lzN, lzPriv int, viaProto bool) (key.Key, error) {
	m := k.mat
	custom := k.rule == jwtref.KIDCustom
	var idReq uint32
	if k.rule == jwtref.KIDFromKeyID {
		idReq = k.id
	}
	n, d, p, q := lpad(m.rsaN, lzN), lpad(m.rsaD, lzPriv), lpad(m.rsaP, lzPriv), lpad(m.rsaQ, lzPriv)
	if viaProto {
		pre := m.rsaPriv.Precomputed
		if pre.Dp == nil || pre.Dq == nil || pre.Qinv == nil {
			return nil, fmt.Errorf("harness: no CRT values for %s", m.name)
		}
		e, dp, dq, crt := lpad([]byte{1, 0, 1}, lzPriv), lpad(pre.Dp.Bytes(), lzPriv), lpad(pre.Dq.Bytes(), lzPriv), lpad(pre.Qinv.Bytes(), lzPriv)
		opt := tinkpb.OutputPrefixType_RAW
		if k.rule == jwtref.KIDFromKeyID {
			opt = tinkpb.OutputPrefixType_TINK
		}
		var val []byte
		var url string
		var err error
		if m.fam == "RS" {
			pub := &rspb.JwtRsaSsaPkcs1PublicKey{Algorithm: map[string]rspb.JwtRsaSsaPkcs1Algorithm{"RS256": rspb.JwtRsaSsaPkcs1Algorithm_RS256, "RS384": rspb.JwtRsaSsaPkcs1Algorithm_RS384, "RS512": rspb.JwtRsaSsaPkcs1Algorithm_RS512}[k.alg], N: n, E: e}
			if custom {
				pub.CustomKid = &rspb.JwtRsaSsaPkcs1PublicKey_CustomKid{Value: k.kid}
			}
			url = "type.googleapis.com/google.crypto.tink.JwtRsaSsaPkcs1PrivateKey"
			val, err = proto.Marshal(&rspb.JwtRsaSsaPkcs1PrivateKey{PublicKey: pub, D: d, P: p, Q: q, Dp: dp, Dq: dq, Crt: crt})
		} else {
			pub := &pspb.JwtRsaSsaPssPublicKey{Algorithm: map[string]pspb.JwtRsaSsaPssAlgorithm{"PS256": pspb.JwtRsaSsaPssAlgorithm_PS256, "PS384": pspb.JwtRsaSsaPssAlgorithm_PS384, "PS512": pspb.JwtRsaSsaPssAlgorithm_PS512}[k.alg], N: n, E: e}
			if custom {
				pub.CustomKid = &pspb.JwtRsaSsaPssPublicKey_CustomKid{Value: k.kid}
			}
			url = "type.googleapis.com/google.crypto.tink.JwtRsaSsaPssPrivateKey"
			val, err = proto.Marshal(&pspb.JwtRsaSsaPssPrivateKey{PublicKey: pub, D: d, P: p, Q: q, Dp: dp, Dq: dq, Crt: crt})
		}
		if err != nil {
			return nil, err
		}
		ks, err := protoserialization.NewKeySerialization(&tinkpb.KeyData{TypeUrl: url, Value: val, KeyMaterialType: tinkpb.KeyData_ASYMMETRIC_PRIVATE}, opt, idReq)
		if err != nil {
			return nil, err
		}
		return protoserialization.ParseKey(ks)
	}
	ckid := ""
	if custom {
		ckid = k.kid
	}
	if m.fam == "RS" {
		st := map[jwtref.KIDRule]jwtrsassapkcs1.KIDStrategy{jwtref.KIDIgnored: jwtrsassapkcs1.IgnoredKID, jwtref.KIDFromKeyID: jwtrsassapkcs1.Base64EncodedKeyIDAsKID, jwtref.KIDCustom: jwtrsassapkcs1.CustomKID}[k.rule]
		a := map[string]jwtrsassapkcs1.Algorithm{"RS256": jwtrsassapkcs1.RS256, "RS384": jwtrsassapkcs1.RS384, "RS512": jwtrsassapkcs1.RS512}[k.alg]
		par, err := jwtrsassapkcs1.NewParameters(jwtrsassapkcs1.ParametersOpts{ModulusSizeInBits: m.rsaBits, PublicExponent: 65537, Algorithm: a, KidStrategy: st})
		if err != nil {
			return nil, err
		}
		pub, err := jwtrsassapkcs1.NewPublicKey(jwtrsassapkcs1.PublicKeyOpts{Modulus: n, IDRequirement: idReq, CustomKID: ckid, HasCustomKID: custom, Parameters: par})
		if err != nil {
			return nil, err
		}
		return jwtrsassapkcs1.NewPrivateKey(jwtrsassapkcs1.PrivateKeyOpts{PublicKey: pub, D: sec(d), P: sec(p), Q: sec(q)})
	}
	st := map[jwtref.KIDRule]jwtrsassapss.KIDStrategy{jwtref.KIDIgnored: jwtrsassapss.IgnoredKID, jwtref.KIDFromKeyID: jwtrsassapss.Base64EncodedKeyIDAsKID, jwtref.KIDCustom: jwtrsassapss.CustomKID}[k.rule]
	a := map[string]jwtrsassapss.Algorithm{"PS256": jwtrsassapss.PS256, "PS384": jwtrsassapss.PS384, "PS512": jwtrsassapss.PS512}[k.alg]
	par, err := jwtrsassapss.NewParameters(jwtrsassapss.ParametersOpts{ModulusSizeInBits: m.rsaBits, PublicExponent: 65537, Algorithm: a, KidStrategy: st})
	if err != nil {
		return nil, err
	}
	pub, err := jwtrsassapss.NewPublicKey(jwtrsassapss.PublicKeyOpts{Modulus: n, IDRequirement: idReq, CustomKID: ckid, HasCustomKID: custom, Parameters: par})
	if err != nil {
		return nil, err
	}
	return jwtrsassapss.NewPrivateKey(jwtrsassapss.PrivateKeyOpts{PublicKey: pub, D: sec(d), P: sec(p), Q: sec(q)})
}
