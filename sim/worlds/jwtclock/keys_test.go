package jwtclock

import (
	"crypto"
	"crypto/ecdsa"
	"crypto/elliptic"
	"crypto/hmac"
	"crypto/rsa"
	"crypto/sha256"
	"crypto/sha512"
	"encoding/base64"
	"encoding/binary"
	"fmt"
	"hash"
	"io"
	"math/big"
	"sync"

	"github.com/tink-crypto/tink-go/v2/insecuresecretdataaccess"
	"github.com/tink-crypto/tink-go/v2/internal/internalapi"
	"github.com/tink-crypto/tink-go/v2/jwt/jwtecdsa"
	"github.com/tink-crypto/tink-go/v2/jwt/jwthmac"
	"github.com/tink-crypto/tink-go/v2/jwt/jwtmldsa"
	"github.com/tink-crypto/tink-go/v2/jwt/jwtrsassapkcs1"
	"github.com/tink-crypto/tink-go/v2/jwt/jwtrsassapss"
	"github.com/tink-crypto/tink-go/v2/key"
	"github.com/tink-crypto/tink-go/v2/secretdata"
	"github.com/tink-crypto/tink-go/v2/signature/mldsa"
	"github.com/tink-crypto/tink-go/v2/tink"
	"github.com/tink-crypto/tink-go/v2/verifsim/catalog"
	"github.com/tink-crypto/tink-go/v2/verifsim/refimpl/jwtref"
)

// ---------------------------------------------------------------------------
// key material (independent of algorithm header and kid strategy)

type material struct {
	name string // identity the reference model sees
	fam  string // HS ES RS PS ML
	src  string // catalog entry the material came from
	algs []string

	hkey []byte // HS

	ecD, ecPoint []byte // ES
	ecPriv       *ecdsa.PrivateKey

	rsaN, rsaD, rsaP, rsaQ []byte // RS / PS
	rsaPriv                *rsa.PrivateKey

	mlSeed, mlPub []byte // ML
	mlSigner      tink.Signer

	pub []byte // what everybody knows about the key (for the HS-with-public-key confusion)
}

var tok = insecuresecretdataaccess.Token{}

func sec(b []byte) secretdata.Bytes { return secretdata.NewBytesFromData(b, tok) }

// sources lists, per family, the catalog entries key material is taken from
// (always the KID_IGNORED entry: the kid strategy is applied when the key is
// re-built for the drawn strategy).
type source struct {
	fam  string
	e    catalog.Entry
	algs []string
	cost int
}

var (
	srcOnce sync.Once
	srcMAC  []source
	srcSig  []source
)

func sources() ([]source, []source) {
	srcOnce.Do(func() {
		for _, e := range catalog.ByClass(catalog.JWTMAC) {
			if e.Variant != catalog.KIDIgnored {
				continue
			}
			p := e.Params.(*jwthmac.Parameters)
			var algs []string
			for _, a := range []struct {
				n   string
				min int
			}{{"HS256", 32}, {"HS384", 48}, {"HS512", 64}} {
				if p.KeySizeInBytes() >= a.min {
					algs = append(algs, a.n)
				}
			}
			srcMAC = append(srcMAC, source{fam: "HS", e: e, algs: algs})
		}
		for _, e := range catalog.ByClass(catalog.JWTSignature) {
			if e.Variant != catalog.KIDIgnored {
				continue
			}
			switch p := e.Params.(type) {
			case *jwtecdsa.Parameters:
				c := 0
				if p.Algorithm() != jwtecdsa.ES256 {
					c = 1 // P-384 / P-521 verification is 1–3 ms
				}
				srcSig = append(srcSig, source{fam: "ES", e: e, algs: []string{p.Algorithm().String()}, cost: c})
			case *jwtrsassapkcs1.Parameters:
				c := 1
				if p.ModulusSizeInBits() > 2048 {
					c = 2
				}
				srcSig = append(srcSig, source{fam: "RS", e: e, algs: []string{"RS256", "RS384", "RS512"}, cost: c})
			case *jwtrsassapss.Parameters:
				c := 1
				if p.ModulusSizeInBits() > 2048 {
					c = 2
				}
				srcSig = append(srcSig, source{fam: "PS", e: e, algs: []string{"PS256", "PS384", "PS512"}, cost: c})
			case *jwtmldsa.Parameters:
				c := 1
				if p.Algorithm() != jwtmldsa.MLDSA44 {
					c = 2
				}
				srcSig = append(srcSig, source{fam: "ML", e: e, algs: []string{p.Algorithm().String()}, cost: c})
			}
		}
	})
	return srcMAC, srcSig
}

var rsaCache sync.Map // hex(N) → *rsa.PrivateKey (precomputed once per process; values depend on the pool only)

func newMaterial(name string, s source, poolIdx int) (*material, error) {
	m := &material{name: name, fam: s.fam, src: s.e.Name, algs: s.algs}
	var k key.Key
	var err error
	if catalog.Pooled(s.e) {
		k, _, err = catalog.PoolKey(s.e, poolIdx, 0)
	} else {
		k, err = catalog.NewKey(s.e)
	}
	if err != nil {
		return nil, err
	}
	switch kk := k.(type) {
	case *jwthmac.Key:
		m.hkey = kk.KeyBytes().Data(tok)
		m.pub = nil
	case *jwtecdsa.PrivateKey:
		pk, _ := kk.PublicKey()
		m.ecD = kk.PrivateKeyValue().Data(tok)
		m.ecPoint = append([]byte(nil), pk.(*jwtecdsa.PublicKey).PublicPoint()...)
		var c elliptic.Curve
		switch s.algs[0] {
		case "ES256":
			c = elliptic.P256()
		case "ES384":
			c = elliptic.P384()
		default:
			c = elliptic.P521()
		}
		m.ecPriv, err = ecdsa.ParseRawPrivateKey(c, m.ecD)
		if err != nil {
			return nil, err
		}
		m.pub = m.ecPoint
	case *jwtrsassapkcs1.PrivateKey:
		pk, _ := kk.PublicKey()
		m.rsaN, m.rsaD, m.rsaP, m.rsaQ = pk.(*jwtrsassapkcs1.PublicKey).Modulus(), kk.D().Data(tok), kk.P().Data(tok), kk.Q().Data(tok)
	case *jwtrsassapss.PrivateKey:
		pk, _ := kk.PublicKey()
		m.rsaN, m.rsaD, m.rsaP, m.rsaQ = pk.(*jwtrsassapss.PublicKey).Modulus(), kk.D().Data(tok), kk.P().Data(tok), kk.Q().Data(tok)
	case *jwtmldsa.PrivateKey:
		pk, _ := kk.PublicKey()
		m.mlSeed = kk.PrivateKeyValue().Data(tok)
		m.mlPub = pk.(*jwtmldsa.PublicKey).KeyBytes()
		m.pub = m.mlPub
		inst := map[string]mldsa.Instance{"ML-DSA-44": mldsa.MLDSA44, "ML-DSA-65": mldsa.MLDSA65, "ML-DSA-87": mldsa.MLDSA87}[s.algs[0]]
		mp, err := mldsa.NewParameters(inst, mldsa.VariantNoPrefix)
		if err != nil {
			return nil, err
		}
		mk, err := mldsa.NewPrivateKey(sec(m.mlSeed), 0, mp)
		if err != nil {
			return nil, err
		}
		m.mlSigner, err = mldsa.NewSigner(mk, internalapi.Token{})
		if err != nil {
			return nil, err
		}
	default:
		return nil, fmt.Errorf("unexpected key type %T from catalog entry %s", k, s.e.Name)
	}
	if m.rsaN != nil {
		m.pub = m.rsaN
		ck := string(m.rsaN)
		if v, ok := rsaCache.Load(ck); ok {
			m.rsaPriv = v.(*rsa.PrivateKey)
		} else {
			pk := &rsa.PrivateKey{PublicKey: rsa.PublicKey{N: new(big.Int).SetBytes(m.rsaN), E: 65537}, D: new(big.Int).SetBytes(m.rsaD),
				Primes: []*big.Int{new(big.Int).SetBytes(m.rsaP), new(big.Int).SetBytes(m.rsaQ)}}
			pk.Precompute()
			if err := pk.Validate(); err != nil {
				return nil, err
			}
			rsaCache.Store(ck, pk)
			m.rsaPriv = pk
		}
	}
	return m, nil
}

func hashFor(alg string) (crypto.Hash, func() hash.Hash) {
	switch alg[len(alg)-3:] {
	case "256":
		return crypto.SHA256, sha256.New
	case "384":
		return crypto.SHA384, sha512.New384
	}
	return crypto.SHA512, sha512.New
}

// sign is the harness's own signer: the signature/MAC of alg over input with
// this material, computed with the standard library (ML-DSA: tink's raw
// signature primitive over the same seed), never through tink's jwt package.
func (m *material) sign(alg string, input []byte, rnd io.Reader) ([]byte, error) {
	switch m.fam {
	case "HS":
		_, hf := hashFor(alg)
		h := hmac.New(hf, m.hkey)
		h.Write(input)
		return h.Sum(nil), nil
	case "ES":
		_, hf := hashFor(alg)
		h := hf()
		h.Write(input)
		r, s, err := ecdsa.Sign(rnd, m.ecPriv, h.Sum(nil))
		if err != nil {
			return nil, err
		}
		n := (m.ecPriv.Curve.Params().BitSize + 7) / 8
		out := make([]byte, 2*n)
		r.FillBytes(out[:n])
		s.FillBytes(out[n:])
		return out, nil
	case "RS":
		ch, hf := hashFor(alg)
		h := hf()
		h.Write(input)
		return rsa.SignPKCS1v15(nil, m.rsaPriv, ch, h.Sum(nil))
	case "PS":
		ch, hf := hashFor(alg)
		h := hf()
		h.Write(input)
		return rsa.SignPSS(rnd, m.rsaPriv, ch, h.Sum(nil), &rsa.PSSOptions{SaltLength: ch.Size(), Hash: ch})
	case "ML":
		return m.mlSigner.Sign(input)
	}
	return nil, fmt.Errorf("no signer for family %s", m.fam)
}

// sigLen is the length of a genuine signature of this material for alg.
func (m *material) sigLen(alg string) int {
	switch m.fam {
	case "HS":
		ch, _ := hashFor(alg)
		return ch.Size()
	case "ES":
		return 2 * ((m.ecPriv.Curve.Params().BitSize + 7) / 8)
	case "RS", "PS":
		return len(m.rsaN)
	}
	return map[string]int{"ML-DSA-44": 2420, "ML-DSA-65": 3309, "ML-DSA-87": 4627}[m.algs[0]]
}

// ---------------------------------------------------------------------------
// keys = material + algorithm + kid strategy

type wkey struct {
	mat     *material
	alg     string
	rule    jwtref.KIDRule
	kid     string // tink kid or custom kid
	id      uint32 // ID requirement (tink kid only)
	enabled bool
	primary bool
	tk      key.Key // the tink key (symmetric or private)
	ksID    uint32  // ID in the keyset

	oneMAC  macLike // one-key primitives through the real factory, built on first use
	oneSign signLike
}

func kidOfID(id uint32) string {
	var b [4]byte
	binary.BigEndian.PutUint32(b[:], id)
	return base64.RawURLEncoding.EncodeToString(b[:])
}

func (k *wkey) ref() jwtref.Key {
	return jwtref.Key{Material: k.mat.name, Alg: k.alg, Rule: k.rule, KID: k.kid, Enabled: k.enabled}
}

func (k *wkey) String() string {
	st := "enabled"
	if !k.enabled {
		st = "DISABLED"
	}
	if k.primary {
		st += ",primary"
	}
	return fmt.Sprintf("%s/%s/%s(%q)/%s", k.mat.name, k.alg, k.rule, k.kid, st)
}

// build creates the tink key for (material, alg, rule, id/custom kid) through
// the jwt* packages' public constructors.
func (k *wkey) build() error {
	custom := k.rule == jwtref.KIDCustom
	var idReq uint32
	if k.rule == jwtref.KIDFromKeyID {
		idReq = k.id
	}
	ckid := ""
	if custom {
		ckid = k.kid
	}
	m := k.mat
	switch m.fam {
	case "HS":
		st := map[jwtref.KIDRule]jwthmac.KIDStrategy{jwtref.KIDIgnored: jwthmac.IgnoredKID, jwtref.KIDFromKeyID: jwthmac.Base64EncodedKeyIDAsKID, jwtref.KIDCustom: jwthmac.CustomKID}[k.rule]
		a := map[string]jwthmac.Algorithm{"HS256": jwthmac.HS256, "HS384": jwthmac.HS384, "HS512": jwthmac.HS512}[k.alg]
		p, err := jwthmac.NewParameters(len(m.hkey), st, a)
		if err != nil {
			return err
		}
		k.tk, err = jwthmac.NewKey(jwthmac.KeyOpts{KeyBytes: sec(m.hkey), IDRequirement: idReq, CustomKID: ckid, HasCustomKID: custom, Parameters: p})
		return err
	case "ES":
		st := map[jwtref.KIDRule]jwtecdsa.KIDStrategy{jwtref.KIDIgnored: jwtecdsa.IgnoredKID, jwtref.KIDFromKeyID: jwtecdsa.Base64EncodedKeyIDAsKID, jwtref.KIDCustom: jwtecdsa.CustomKID}[k.rule]
		a := map[string]jwtecdsa.Algorithm{"ES256": jwtecdsa.ES256, "ES384": jwtecdsa.ES384, "ES512": jwtecdsa.ES512}[k.alg]
		p, err := jwtecdsa.NewParameters(st, a)
		if err != nil {
			return err
		}
		pub, err := jwtecdsa.NewPublicKey(jwtecdsa.PublicKeyOpts{PublicPoint: append([]byte(nil), m.ecPoint...), IDRequirement: idReq, CustomKID: ckid, HasCustomKID: custom, Parameters: p})
		if err != nil {
			return err
		}
		k.tk, err = jwtecdsa.NewPrivateKeyFromPublicKey(sec(m.ecD), pub)
		return err
	case "RS":
		st := map[jwtref.KIDRule]jwtrsassapkcs1.KIDStrategy{jwtref.KIDIgnored: jwtrsassapkcs1.IgnoredKID, jwtref.KIDFromKeyID: jwtrsassapkcs1.Base64EncodedKeyIDAsKID, jwtref.KIDCustom: jwtrsassapkcs1.CustomKID}[k.rule]
		a := map[string]jwtrsassapkcs1.Algorithm{"RS256": jwtrsassapkcs1.RS256, "RS384": jwtrsassapkcs1.RS384, "RS512": jwtrsassapkcs1.RS512}[k.alg]
		p, err := jwtrsassapkcs1.NewParameters(jwtrsassapkcs1.ParametersOpts{ModulusSizeInBits: len(m.rsaN) * 8, PublicExponent: 65537, Algorithm: a, KidStrategy: st})
		if err != nil {
			return err
		}
		pub, err := jwtrsassapkcs1.NewPublicKey(jwtrsassapkcs1.PublicKeyOpts{Modulus: m.rsaN, IDRequirement: idReq, CustomKID: ckid, HasCustomKID: custom, Parameters: p})
		if err != nil {
			return err
		}
		k.tk, err = jwtrsassapkcs1.NewPrivateKey(jwtrsassapkcs1.PrivateKeyOpts{PublicKey: pub, D: sec(m.rsaD), P: sec(m.rsaP), Q: sec(m.rsaQ)})
		return err
	case "PS":
		st := map[jwtref.KIDRule]jwtrsassapss.KIDStrategy{jwtref.KIDIgnored: jwtrsassapss.IgnoredKID, jwtref.KIDFromKeyID: jwtrsassapss.Base64EncodedKeyIDAsKID, jwtref.KIDCustom: jwtrsassapss.CustomKID}[k.rule]
		a := map[string]jwtrsassapss.Algorithm{"PS256": jwtrsassapss.PS256, "PS384": jwtrsassapss.PS384, "PS512": jwtrsassapss.PS512}[k.alg]
		p, err := jwtrsassapss.NewParameters(jwtrsassapss.ParametersOpts{ModulusSizeInBits: len(m.rsaN) * 8, PublicExponent: 65537, Algorithm: a, KidStrategy: st})
		if err != nil {
			return err
		}
		pub, err := jwtrsassapss.NewPublicKey(jwtrsassapss.PublicKeyOpts{Modulus: m.rsaN, IDRequirement: idReq, CustomKID: ckid, HasCustomKID: custom, Parameters: p})
		if err != nil {
			return err
		}
		k.tk, err = jwtrsassapss.NewPrivateKey(jwtrsassapss.PrivateKeyOpts{PublicKey: pub, D: sec(m.rsaD), P: sec(m.rsaP), Q: sec(m.rsaQ)})
		return err
	case "ML":
		st := map[jwtref.KIDRule]jwtmldsa.KIDStrategy{jwtref.KIDIgnored: jwtmldsa.IgnoredKID, jwtref.KIDFromKeyID: jwtmldsa.Base64EncodedKeyIDAsKID, jwtref.KIDCustom: jwtmldsa.CustomKID}[k.rule]
		a := map[string]jwtmldsa.Algorithm{"ML-DSA-44": jwtmldsa.MLDSA44, "ML-DSA-65": jwtmldsa.MLDSA65, "ML-DSA-87": jwtmldsa.MLDSA87}[k.alg]
		p, err := jwtmldsa.NewParameters(st, a)
		if err != nil {
			return err
		}
		pub, err := jwtmldsa.NewPublicKey(jwtmldsa.PublicKeyOpts{KeyBytes: m.mlPub, IDRequirement: idReq, CustomKID: ckid, HasCustomKID: custom, Parameters: p})
		if err != nil {
			return err
		}
		k.tk, err = jwtmldsa.NewPrivateKeyFromPublicKey(sec(m.mlSeed), pub)
		return err
	}
	return fmt.Errorf("unknown family %s", m.fam)
}
