// Package manager is the C11 world: a real keyset.Manager driven through drawn
// operation histories (with key-ID collisions scripted through the RNG seam)
// and compared, operation by operation, with a reference keyset model.
package manager

import (
	"fmt"
	"maps"
	"sort"
	"strings"
	"testing"

	"google.golang.org/protobuf/proto"

	"github.com/tink-crypto/tink-go/v2/aead"
	"github.com/tink-crypto/tink-go/v2/aead/aesgcm"
	"github.com/tink-crypto/tink-go/v2/aead/chacha20poly1305"
	"github.com/tink-crypto/tink-go/v2/insecurecleartextkeyset"
	"github.com/tink-crypto/tink-go/v2/insecuresecretdataaccess"
	"github.com/tink-crypto/tink-go/v2/internal/internalapi"
	"github.com/tink-crypto/tink-go/v2/internal/protoserialization"
	"github.com/tink-crypto/tink-go/v2/key"
	"github.com/tink-crypto/tink-go/v2/keyset"
	"github.com/tink-crypto/tink-go/v2/mac"
	"github.com/tink-crypto/tink-go/v2/mac/hmac"
	"github.com/tink-crypto/tink-go/v2/prf"
	tinkpb "github.com/tink-crypto/tink-go/v2/proto/tink_go_proto"
	"github.com/tink-crypto/tink-go/v2/secretdata"
	"github.com/tink-crypto/tink-go/v2/signature"
	"github.com/tink-crypto/tink-go/v2/streamingaead"
	"github.com/tink-crypto/tink-go/v2/streamingaead/aesctrhmac"
	"github.com/tink-crypto/tink-go/v2/verifsim/catalog"
	"github.com/tink-crypto/tink-go/v2/verifsim/core"
	"github.com/tink-crypto/tink-go/v2/verifsim/simrng"
	"github.com/tink-crypto/tink-go/v2/verifsim/stubkm"
	"pgregory.net/rapid"
)

const prop = "C11"

func TestMain(m *testing.M) {
	core.DeclareFaults("rng-id-collision-live", "rng-id-collision-dead", "rng-id-zero", "rng-id-max", "add-fails-after-id-draw")
	core.DeclareProbes("redraw-loop-taken", "start-from-parsed-handle", "branch-to-earlier-handle", "refused-disable-primary", "refused-delete-primary",
		"refused-setprimary-nonenabled", "op-on-absent-id", "addkey-idreq-collision", "addkey-idreq-kept", "same-key-twice", "readd-deleted-fixed-id",
		"handle-fails-no-primary", "old-handle-reinspected", "enable-destroyed", "error-leaves-unchanged-checked", "nil-template", "unknown-prefix-template", "add-custom-key-type(legacy NewKeyData path)", "malformed-start-keyset-refused",
		"add-catalog-entry", "add-catalog-entry-with-id-requirement-but-no-prefix", "annotations-changed", "template-with-prefix-its-type-may-not-support")
	// "add-refused-after-scripted-collisions" and "manager-designated-primary-itself" cannot occur on today's tree; they
	// are counted if an otherwise conforming manager ever does that
	stubkm.Register()
	core.Main(m, prop, "manager", map[string]string{"keyset.Manager": "real", "keyset.Handle / validation": "real", "key generation (registry, keygenregistry)": "real",
		"crypto/rand": "stub (simrng, scripted key-ID draws)", "reference keyset model": "oracle only"})
}

func TestManager(t *testing.T) { rapid.Check(t, runManager) }

// ---------------------------------------------------------------------------
// reference model

type mEntry struct {
	id      uint32
	status  keyset.KeyStatus
	primary bool
	key     key.Key // nil until first observed through a handle
}

type model struct {
	entries []*mEntry
	dead    map[uint32]bool // IDs once used and deleted, or burned by a failed Add
}

func (m *model) clone() *model {
	c := &model{dead: map[uint32]bool{}}
	for _, e := range m.entries {
		ce := *e
		c.entries = append(c.entries, &ce)
	}
	for k := range m.dead {
		c.dead[k] = true
	}
	return c
}

func (m *model) find(id uint32) *mEntry {
	for _, e := range m.entries {
		if e.id == id {
			return e
		}
	}
	return nil
}

func (m *model) hasPrimary() bool {
	for _, e := range m.entries {
		if e.primary {
			return true
		}
	}
	return false
}

func (m *model) liveIDs() []uint32 {
	var ids []uint32
	for _, e := range m.entries {
		ids = append(ids, e.id)
	}
	sort.Slice(ids, func(i, j int) bool { return ids[i] < ids[j] })
	return ids
}

func (m *model) deadIDs() []uint32 {
	var ids []uint32
	for k := range m.dead {
		ids = append(ids, k)
	}
	sort.Slice(ids, func(i, j int) bool { return ids[i] < ids[j] })
	return ids
}

func (m *model) String() string {
	var sb strings.Builder
	es := append([]*mEntry{}, m.entries...)
	sort.Slice(es, func(i, j int) bool { return es[i].id < es[j].id })
	for _, e := range es {
		p := ""
		if e.primary {
			p = "*"
		}
		fmt.Fprintf(&sb, "%d%s:%v ", e.id, p, e.status)
	}
	return sb.String()
}

// snapshot of a handle taken when it was obtained
type snapshot struct {
	h     *keyset.Handle
	info  *tinkpb.KeysetInfo
	ids   []uint32
	stat  []keyset.KeyStatus
	prim  []bool
	keys  []key.Key
	model *model
	str   string
	ann   map[string]string // the handle's annotations when it was obtained (copied)
}

// ---------------------------------------------------------------------------
// world state

type world struct {
	r     *core.Run
	t     *rapid.T
	g     *simrng.RNG
	mgr   *keyset.Manager
	m     *model
	snaps []*snapshot
	// statistics for the signature
	opKinds     map[string]bool
	collisions  int
	maxLive     int
	branches    int
	lastAddKey  key.Key
	addedFixed  map[uint32]bool
	startKind   string
	everPrimary bool
}

func (w *world) catch(where string) {
	if p := recover(); p != nil {
		s := fmt.Sprintf("%T", p)
		if s == "rapid.stopTest" || s == "rapid.invalidData" {
			panic(p)
		}
		w.r.Violation("C11/panic:"+where, fmt.Sprintf("%v", p))
	}
}

var templates = []struct {
	name string
	f    func() *tinkpb.KeyTemplate
}{
	{"AES128GCM", aead.AES128GCMKeyTemplate},
	{"AES256GCM-RAW", aead.AES256GCMNoPrefixKeyTemplate},
	{"CHACHA20", aead.ChaCha20Poly1305KeyTemplate},
	{"HMAC256", mac.HMACSHA256Tag128KeyTemplate},
	{"ED25519", signature.ED25519KeyTemplate},
	{"ECDSAP256", signature.ECDSAP256KeyTemplate},
	// custom key types that only have a registry.KeyManager (no parameters parser): Add takes its legacy
	// registry.NewKeyData path for these
	{"STUB-MAC", func() *tinkpb.KeyTemplate {
		return &tinkpb.KeyTemplate{TypeUrl: stubkm.MACURL, OutputPrefixType: tinkpb.OutputPrefixType_TINK}
	}},
	{"STUB-AEAD", func() *tinkpb.KeyTemplate {
		return &tinkpb.KeyTemplate{TypeUrl: stubkm.AEADURL, OutputPrefixType: tinkpb.OutputPrefixType_TINK}
	}},
}

func withPrefix(t *tinkpb.KeyTemplate, p tinkpb.OutputPrefixType) *tinkpb.KeyTemplate {
	c := proto.Clone(t).(*tinkpb.KeyTemplate)
	c.OutputPrefixType = p
	return c
}

// drawID draws a key ID argument biased to the interesting classes.
func (w *world) drawID(label string) uint32 {
	live, dead := w.m.liveIDs(), w.m.deadIDs()
	kinds := []string{"zero", "max", "random"}
	if len(live) > 0 {
		kinds = append(kinds, "live", "live", "live", "live")
	}
	if len(dead) > 0 {
		kinds = append(kinds, "dead")
	}
	switch rapid.SampledFrom(kinds).Draw(w.t, label+"Kind") {
	case "live":
		return live[rapid.IntRange(0, len(live)-1).Draw(w.t, label+"Idx")]
	case "dead":
		return dead[rapid.IntRange(0, len(dead)-1).Draw(w.t, label+"Idx")]
	case "zero":
		return 0
	case "max":
		return 0xffffffff
	}
	return rapid.Uint32().Draw(w.t, label)
}

// scriptIDs queues the values the next key-ID draws will see.
func (w *world) scriptIDs() {
	w.g.ClearScript()
	n := rapid.IntRange(0, 5).Draw(w.t, "collisionRun")
	live, dead := w.m.liveIDs(), w.m.deadIDs()
	for i := 0; i < n; i++ {
		kinds := []string{"zero", "max"}
		if len(live) > 0 {
			kinds = append(kinds, "live", "live", "live")
		}
		if len(dead) > 0 {
			kinds = append(kinds, "dead")
		}
		switch rapid.SampledFrom(kinds).Draw(w.t, "scriptKind") {
		case "live":
			w.g.Script4(live[rapid.IntRange(0, len(live)-1).Draw(w.t, "scriptIdx")])
			w.r.Fault("rng-id-collision-live")
			w.collisions++
		case "dead":
			w.g.Script4(dead[rapid.IntRange(0, len(dead)-1).Draw(w.t, "scriptIdx")])
			w.r.Fault("rng-id-collision-dead")
		case "zero":
			w.g.Script4(0)
			w.r.Fault("rng-id-zero")
		case "max":
			w.g.Script4(0xffffffff)
			w.r.Fault("rng-id-max")
		}
	}
}

// observe checks the manager's current keyset against the model. It is called
// after every operation.
func (w *world) observe(after string) {
	var h *keyset.Handle
	var err error
	func() {
		defer w.catch("Handle")
		h, err = w.mgr.Handle()
	}()
	if !w.m.hasPrimary() {
		if err != nil {
			if !w.everPrimary {
				w.r.Probe("handle-fails-no-primary")
			}
			return
		}
		// C11 allows Handle() to succeed as long as what it returns is well-formed ("either fails because no primary was
		// ever set or returns a keyset with … exactly one primary key, which is ENABLED"): a manager that designates a
		// primary by itself conforms. The model adopts the designation; compare() enforces the invariants.
		p, perr := h.Primary()
		if perr != nil || w.m.find(p.KeyID()) == nil {
			w.r.Violation("C11/handle-without-primary", fmt.Sprintf("after %s: Handle() succeeded without a usable primary (model: %s, Primary(): %v)", after, w.m, perr))
			return
		}
		w.m.find(p.KeyID()).primary = true
		w.everPrimary = true
		w.r.Probe("manager-designated-primary-itself")
	}
	if err != nil {
		w.r.Violation("C11/handle-fails-with-primary", fmt.Sprintf("after %s: Handle() failed (%v) although the keyset has a primary (model: %s)", after, err, w.m))
		return
	}
	w.compare(h, w.m, "after "+after)
}

// compare checks a handle against a model and enforces the well-formedness
// invariants C11 states.
func (w *world) compare(h *keyset.Handle, m *model, ctx string) {
	n := h.Len()
	seen := map[uint32]bool{}
	primaries := 0
	var got []string
	for i := 0; i < n; i++ {
		e, err := h.Entry(i)
		if err != nil {
			w.r.Violation("C11/entry-error", fmt.Sprintf("%s: Entry(%d) of %d: %v", ctx, i, n, err))
			return
		}
		id := e.KeyID()
		got = append(got, fmt.Sprintf("%d:%v:%v", id, e.KeyStatus(), e.IsPrimary()))
		if seen[id] {
			w.r.Violation("C11/duplicate-key-id", fmt.Sprintf("%s: key ID %d appears twice in the keyset", ctx, id))
			return
		}
		seen[id] = true
		if e.IsPrimary() {
			primaries++
			if e.KeyStatus() != keyset.Enabled {
				w.r.Violation("C11/primary-not-enabled", fmt.Sprintf("%s: primary %d has status %v", ctx, id, e.KeyStatus()))
				return
			}
		}
		k := e.Key()
		if k == nil {
			w.r.Violation("C11/entry-without-key", fmt.Sprintf("%s: the entry under ID %d (%v) holds no key (model: %s)", ctx, id, e.KeyStatus(), m))
			return
		}
		if req, has := k.IDRequirement(); has && req != id {
			w.r.Violation("C11/id-requirement-not-kept", fmt.Sprintf("%s: key requires ID %d but sits in the keyset under ID %d", ctx, req, id))
			return
		}
		me := m.find(id)
		if me == nil {
			w.r.Violation("C11/model-mismatch:extra-key", fmt.Sprintf("%s: keyset holds ID %d which the model does not (model: %s)", ctx, id, m))
			return
		}
		if me.status != e.KeyStatus() || me.primary != e.IsPrimary() {
			w.r.Violation("C11/model-mismatch:status", fmt.Sprintf("%s: ID %d is %v primary=%v, model says %v primary=%v", ctx, id, e.KeyStatus(), e.IsPrimary(), me.status, me.primary))
			return
		}
		if me.key == nil {
			me.key = k
		} else if !me.key.Equal(k) {
			w.r.Violation("C11/model-mismatch:key", fmt.Sprintf("%s: ID %d holds another key than the one added under that ID", ctx, id))
			return
		}
	}
	if primaries != 1 {
		w.r.Violation("C11/primary-count", fmt.Sprintf("%s: %d primaries in [%s]", ctx, primaries, strings.Join(got, " ")))
		return
	}
	if len(seen) != len(m.entries) {
		w.r.Violation("C11/model-mismatch:missing-key", fmt.Sprintf("%s: keyset [%s] vs model %s", ctx, strings.Join(got, " "), m))
		return
	}
	p, err := h.Primary()
	if err != nil || !p.IsPrimary() {
		w.r.Violation("C11/primary-accessor", fmt.Sprintf("%s: Primary() = %v", ctx, err))
		return
	}
	info := h.KeysetInfo()
	if info.GetPrimaryKeyId() != p.KeyID() || len(info.GetKeyInfo()) != n {
		w.r.Violation("C11/keysetinfo-mismatch", fmt.Sprintf("%s: KeysetInfo primary=%d len=%d, entries primary=%d len=%d", ctx, info.GetPrimaryKeyId(), len(info.GetKeyInfo()), p.KeyID(), n))
	}
	sort.Strings(got)
	w.r.ObsS("keyset", strings.Join(got, " "))
}

func (w *world) snap(h *keyset.Handle) {
	s := &snapshot{h: h, info: h.KeysetInfo(), model: w.m.clone(), str: h.String(), ann: maps.Clone(h.Annotations(internalapi.Token{}))}
	for i := 0; i < h.Len(); i++ {
		e, _ := h.Entry(i)
		s.ids = append(s.ids, e.KeyID())
		s.stat = append(s.stat, e.KeyStatus())
		s.prim = append(s.prim, e.IsPrimary())
		s.keys = append(s.keys, e.Key())
	}
	w.snaps = append(w.snaps, s)
}

func (w *world) recheck(s *snapshot, idx int) {
	w.r.Probe("old-handle-reinspected")
	h := s.h
	ctx := fmt.Sprintf("handle #%d re-inspected", idx)
	if h.Len() != len(s.ids) {
		w.r.Violation("C11/old-handle-changed", fmt.Sprintf("%s: Len %d, was %d", ctx, h.Len(), len(s.ids)))
		return
	}
	for i := range s.ids {
		e, err := h.Entry(i)
		if err != nil {
			w.r.Violation("C11/old-handle-changed", fmt.Sprintf("%s: Entry(%d): %v", ctx, i, err))
			return
		}
		if e.KeyID() != s.ids[i] || e.KeyStatus() != s.stat[i] || e.IsPrimary() != s.prim[i] || (e.Key() == nil) != (s.keys[i] == nil) || (e.Key() != nil && !e.Key().Equal(s.keys[i])) {
			w.r.Violation("C11/old-handle-changed", fmt.Sprintf("%s: entry %d is now %d:%v:%v, was %d:%v:%v", ctx, i, e.KeyID(), e.KeyStatus(), e.IsPrimary(), s.ids[i], s.stat[i], s.prim[i]))
			return
		}
	}
	if !proto.Equal(h.KeysetInfo(), s.info) {
		w.r.Violation("C11/old-handle-changed", fmt.Sprintf("%s: KeysetInfo differs from the one taken when the handle was obtained", ctx))
	}
	if !maps.Equal(h.Annotations(internalapi.Token{}), s.ann) {
		w.r.Violation("C11/old-handle-changed", fmt.Sprintf("%s: annotations are now %v, were %v when the handle was obtained", ctx, h.Annotations(internalapi.Token{}), s.ann))
	}
	w.compare(h, s.model.clone(), ctx)
}

// ---------------------------------------------------------------------------
// the run

func (w *world) note(kind string, err error) {
	if err != nil {
		w.opKinds[kind+":err"] = true
	} else {
		w.opKinds[kind+":ok"] = true
	}
}

func runManager(t *rapid.T) {
	r := core.Begin(t)
	g := simrng.New(rapid.Uint64().Draw(t, "rngSeed"))
	restore := simrng.Install(g)
	defer restore()
	w := &world{r: r, t: t, g: g, m: &model{dead: map[uint32]bool{}}, opKinds: map[string]bool{}, addedFixed: map[uint32]bool{}}

	if rapid.Bool().Draw(t, "startFromHandle") {
		w.startKind = "parsed-handle"
		r.Probe("start-from-parsed-handle")
		w.startFromParsed()
	} else {
		w.startKind = "empty"
		w.mgr = keyset.NewManager()
	}
	w.observe("start")

	maxOps := 60
	if core.Thorough() {
		maxOps = 300
	}
	nOps := rapid.IntRange(1, maxOps).Draw(t, "nOps")
	ops := []string{"Add", "Add", "Add", "AddBad", "AddKey", "AddKey", "AddParams", "SetPrimary", "SetPrimary", "Enable", "Disable", "Disable", "Delete", "Delete", "Handle", "Branch", "Recheck", "SetAnnotations"}
	for i := 0; i < nOps; i++ {
		op := rapid.SampledFrom(ops).Draw(t, "op")
		w.step(op)
		if len(w.m.entries) > w.maxLive {
			w.maxLive = len(w.m.entries)
		}
	}
	// every handle obtained during the run still shows its snapshot
	for i, s := range w.snaps {
		w.recheck(s, i)
	}
	g.ClearScript()

	var kinds []string
	for k := range w.opKinds {
		kinds = append(kinds, k)
	}
	sort.Strings(kinds)
	cc := "0"
	switch {
	case w.collisions >= 3:
		cc = "3+"
	case w.collisions > 0:
		cc = fmt.Sprint(w.collisions)
	}
	ml := fmt.Sprint(w.maxLive)
	if w.maxLive > 6 {
		ml = "7+"
	}
	br := fmt.Sprint(w.branches)
	if w.branches > 2 {
		br = "3+"
	}
	r.End(fmt.Sprintf("%s|%s|coll%s|live%s|br%s", w.startKind, strings.Join(kinds, ","), cc, ml, br), len(kinds) >= 2)
}

func (w *world) startFromParsed() {
	// a keyset as it would come from storage: several keys, some DISABLED / DESTROYED
	m0 := keyset.NewManager()
	n := rapid.IntRange(1, 4).Draw(w.t, "startKeys")
	var ids []uint32
	for i := 0; i < n; i++ {
		tpl := templates[rapid.IntRange(0, len(templates)-1).Draw(w.t, "startTpl")]
		id, err := m0.Add(tpl.f())
		if err != nil {
			w.t.Fatalf("harness: start keyset: %v", err)
		}
		ids = append(ids, id)
	}
	prim := rapid.IntRange(0, n-1).Draw(w.t, "startPrimary")
	if err := m0.SetPrimary(ids[prim]); err != nil {
		w.t.Fatalf("harness: start keyset: %v", err)
	}
	h0, err := m0.Handle()
	if err != nil {
		w.t.Fatalf("harness: start keyset: %v", err)
	}
	ks := insecurecleartextkeyset.KeysetMaterial(h0)
	for i, k := range ks.Key {
		if i == prim {
			continue
		}
		switch rapid.IntRange(0, 2).Draw(w.t, "startStatus") {
		case 1:
			k.Status = tinkpb.KeyStatusType_DISABLED
		case 2:
			k.Status = tinkpb.KeyStatusType_DESTROYED
		}
	}
	// "starting … from any handle": sometimes the stored keyset repeats a key ID (the earlier occurrence not ENABLED).
	// The reader has to refuse it; should it ever hand out a handle, the manager started from it is held to C11's
	// invariants like any other.
	if len(ks.Key) >= 2 && rapid.IntRange(0, 7).Draw(w.t, "startDuplicateID") == 7 {
		bad := proto.Clone(ks).(*tinkpb.Keyset)
		i := rapid.IntRange(0, len(bad.Key)-1).Draw(w.t, "dupOf")
		if i != prim {
			dup := proto.Clone(bad.Key[i]).(*tinkpb.Keyset_Key)
			dup.Status = tinkpb.KeyStatusType_ENABLED
			if bad.Key[i].Status == tinkpb.KeyStatusType_ENABLED {
				bad.Key[i].Status = tinkpb.KeyStatusType_DISABLED
			}
			bad.Key = append(bad.Key, dup)
			var hb *keyset.Handle
			var berr error
			func() {
				defer w.catch("Read(duplicate-id keyset)")
				hb, berr = insecurecleartextkeyset.Read(&keyset.MemReaderWriter{Keyset: bad})
			}()
			if berr != nil || hb == nil {
				w.r.Probe("malformed-start-keyset-refused")
			} else {
				ids := map[uint32]bool{}
				for k := 0; k < hb.Len(); k++ {
					if e, err := hb.Entry(k); err == nil {
						if ids[e.KeyID()] {
							w.r.Violation("C11/duplicate-key-id", fmt.Sprintf("a handle read from a keyset that repeats key ID %d was handed out; NewManagerFromHandle(h).Handle() would carry the duplicate", e.KeyID()))
						}
						ids[e.KeyID()] = true
					}
				}
			}
		}
	}
	h, err := insecurecleartextkeyset.Read(&keyset.MemReaderWriter{Keyset: ks})
	if err != nil {
		w.t.Fatalf("harness: start keyset does not parse: %v", err)
	}
	for i := 0; i < h.Len(); i++ {
		e, _ := h.Entry(i)
		w.m.entries = append(w.m.entries, &mEntry{id: e.KeyID(), status: e.KeyStatus(), primary: e.IsPrimary(), key: e.Key()})
	}
	w.everPrimary = true
	w.snap(h)
	w.mgr = keyset.NewManagerFromHandle(h)
	w.r.Logf("start from parsed handle %s", w.m)
}

func (w *world) addSucceeded(kind string, id uint32, k key.Key) {
	if w.m.find(id) != nil {
		w.r.Violation("C11/new-id-collides", fmt.Sprintf("%s returned ID %d which is already in the keyset (model: %s)", kind, id, w.m))
		return
	}
	if w.m.dead[id] {
		w.r.Probe("readd-deleted-fixed-id")
		delete(w.m.dead, id)
	}
	w.m.entries = append(w.m.entries, &mEntry{id: id, status: keyset.Enabled, key: k})
}

func (w *world) step(op string) {
	r, t := w.r, w.t
	before := w.m.String()
	switch op {
	case "Add", "AddParams":
		tpl := templates[rapid.IntRange(0, len(templates)-1).Draw(t, "tpl")]
		kt := tpl.f()
		pfx := "default"
		if kt.OutputPrefixType == tinkpb.OutputPrefixType_TINK {
			switch rapid.IntRange(0, 3).Draw(t, "prefix") {
			case 1:
				kt, pfx = withPrefix(kt, tinkpb.OutputPrefixType_CRUNCHY), "CRUNCHY"
			case 2:
				if tpl.name == "HMAC256" || tpl.name == "ED25519" || tpl.name == "STUB-MAC" {
					kt, pfx = withPrefix(kt, tinkpb.OutputPrefixType_LEGACY), "LEGACY"
				}
			case 3:
				kt, pfx = withPrefix(kt, tinkpb.OutputPrefixType_RAW), "RAW"
			}
		}
		// every key type, parameter set and variant of the catalog (not only the templates above) can be what gets added:
		// e.g. ML-DSA's NO_PREFIX_WITH_PREHASH_ID variant is the only one whose template says neither RAW nor a
		// prefixed type while its keys carry an ID requirement
		var ceParams key.Parameters
		if rapid.IntRange(0, 2).Draw(t, "fromCatalog") == 0 {
			if e, ekt, ok := drawCatalogEntry(t); ok {
				tpl.name, kt, pfx, ceParams = "catalog:"+e.Name, ekt, e.Variant, e.Params
				r.Probe("add-catalog-entry")
				if e.HasIDReq && kt.OutputPrefixType != tinkpb.OutputPrefixType_TINK && kt.OutputPrefixType != tinkpb.OutputPrefixType_CRUNCHY && kt.OutputPrefixType != tinkpb.OutputPrefixType_LEGACY {
					r.Probe("add-catalog-entry-with-id-requirement-but-no-prefix")
				}
			}
		}
		w.scriptIDs()
		scripted := g4(w.g)
		var id uint32
		var err error
		if ceParams != nil && op == "AddParams" {
			func() { defer w.catch("AddNewKeyFromParameters"); id, err = w.mgr.AddNewKeyFromParameters(ceParams) }()
		} else if op == "Add" || strings.HasPrefix(tpl.name, "STUB-") {
			op = "Add"
			if strings.HasPrefix(tpl.name, "STUB-") {
				r.Probe("add-custom-key-type(legacy NewKeyData path)")
			}
			func() { defer w.catch("Add"); id, err = w.mgr.Add(kt) }()
		} else {
			params, perr := parseParams(kt)
			if perr != nil {
				t.Fatalf("harness: template does not parse: %v", perr)
			}
			func() { defer w.catch("AddNewKeyFromParameters"); id, err = w.mgr.AddNewKeyFromParameters(params) }()
		}
		if scripted > 0 && w.g.ScriptLen() == 0 {
			r.Probe("redraw-loop-taken")
		}
		w.g.ClearScript()
		r.Logf("%s(%s/%s) -> id=%d err=%v   [%s]", op, tpl.name, pfx, id, err, before)
		w.note(op, err)
		if err != nil {
			// C11 does not say that adding must succeed, only that a failed operation leaves the keyset unchanged (observe()
			// below checks that). A manager that gives up after several colliding ID draws conforms. Without any scripted
			// collision a refusal of a valid template is still reported: nothing in a correct manager can cause it.
			if scripted == 0 {
				r.Violation("C11/valid-add-refused", fmt.Sprintf("%s of a valid %s template failed although no key-ID collision was scripted: %v", op, tpl.name, err))
			}
			r.Probe("error-leaves-unchanged-checked")
			r.Probe("add-refused-after-scripted-collisions")
		} else {
			w.addSucceeded(op, id, nil)
		}
	case "AddBad":
		kind := rapid.SampledFrom([]string{"nil", "unknown-prefix", "creation-fails", "creation-fails-params", "unknown-type-url", "garbage-value", "prefix-not-valid-for-type", "prefix-not-valid-for-type"}).Draw(t, "badKind")
		w.scriptIDs()
		var id uint32
		var err error
		func() {
			defer w.catch("Add(" + kind + ")")
			switch kind {
			case "nil":
				r.Probe("nil-template")
				id, err = w.mgr.Add(nil)
			case "unknown-prefix":
				r.Probe("unknown-prefix-template")
				id, err = w.mgr.Add(withPrefix(aead.AES128GCMKeyTemplate(), tinkpb.OutputPrefixType_UNKNOWN_PREFIX))
			case "creation-fails", "creation-fails-params":
				// parameters that parse but whose key creation is refused (24-byte AES main key)
				p, perr := aesctrhmac.NewParameters(aesctrhmac.ParametersOpts{KeySizeInBytes: 24, DerivedKeySizeInBytes: 16, HkdfHashType: aesctrhmac.SHA256,
					HmacHashType: aesctrhmac.SHA256, HmacTagSizeInBytes: 16, SegmentSizeInBytes: 256})
				if perr != nil {
					t.Fatalf("harness: %v", perr)
				}
				id, err = w.mgr.AddNewKeyFromParameters(p)
			case "unknown-type-url":
				id, err = w.mgr.Add(&tinkpb.KeyTemplate{TypeUrl: "type.googleapis.com/google.crypto.tink.NoSuchKey", OutputPrefixType: tinkpb.OutputPrefixType_TINK})
			case "prefix-not-valid-for-type":
				// a known key type with an output prefix type it does not support: the parameters parser refuses, and
				// whatever the manager's other paths make of it, a failure must leave the keyset as it was
				tp := rapid.SampledFrom([]func() *tinkpb.KeyTemplate{aead.XAES256GCM192BitNonceKeyTemplate, prf.HMACSHA256PRFKeyTemplate, prf.HKDFSHA256PRFKeyTemplate,
					aead.AES128GCMKeyTemplate, aead.AES256GCMSIVKeyTemplate, mac.HMACSHA256Tag128KeyTemplate, signature.ED25519KeyTemplate, streamingaead.AES128GCMHKDF4KBKeyTemplate}).Draw(t, "badPrefixTpl")()
				pfx := rapid.SampledFrom([]tinkpb.OutputPrefixType{tinkpb.OutputPrefixType_CRUNCHY, tinkpb.OutputPrefixType_LEGACY, tinkpb.OutputPrefixType_TINK,
					tinkpb.OutputPrefixType_WITH_ID_REQUIREMENT, tinkpb.OutputPrefixType(9)}).Draw(t, "badPrefix")
				r.Probe("template-with-prefix-its-type-may-not-support")
				id, err = w.mgr.Add(withPrefix(tp, pfx))
			case "garbage-value":
				kt := aead.AES128GCMKeyTemplate()
				kt.Value = []byte{0xff, 0xff, 0xff, 0x01, 0x02}
				id, err = w.mgr.Add(kt)
			}
		}()
		w.g.ClearScript()
		r.Logf("AddBad(%s) -> id=%d err=%v   [%s]", kind, id, err, before)
		w.note("AddBad", err)
		if err == nil {
			// the property does not forbid success; the keyset must stay well-formed with the new entry
			w.addSucceeded("Add("+kind+")", id, nil)
		} else {
			if strings.HasPrefix(kind, "creation-fails") {
				r.Fault("add-fails-after-id-draw")
			}
			r.Probe("error-leaves-unchanged-checked")
		}
	case "AddKey":
		variant := rapid.SampledFrom([]string{"aesgcm-tink", "aesgcm-crunchy", "aesgcm-raw", "hmac-legacy", "chacha-tink", "same-again"}).Draw(t, "keyKind")
		var k key.Key
		var want uint32
		hasReq := false
		if variant == "same-again" && w.lastAddKey != nil {
			k = w.lastAddKey
			want, hasReq = k.IDRequirement()
			r.Probe("same-key-twice")
		} else {
			if variant == "same-again" {
				variant = "aesgcm-tink"
			}
			want = w.drawID("keyID")
			kb := secretdata.NewBytesFromData(w.g.Bytes(14, uint64(rapid.IntRange(0, 1<<20).Draw(t, "keyMat")), 32), insecuresecretdataaccess.Token{})
			var err error
			k, hasReq, err = buildKey(variant, kb, want)
			if err != nil {
				t.Fatalf("harness: cannot build key: %v", err)
			}
		}
		collides := hasReq && w.m.find(want) != nil
		w.scriptIDs()
		var id uint32
		var err error
		func() { defer w.catch("AddKey"); id, err = w.mgr.AddKey(k) }()
		w.g.ClearScript()
		r.Logf("AddKey(%s, idReq=%v/%d) -> id=%d err=%v   [%s]", variant, hasReq, want, id, err, before)
		w.note("AddKey", err)
		if collides {
			r.Probe("addkey-idreq-collision")
		}
		if err == nil {
			if hasReq && id != want {
				r.Violation("C11/id-requirement-not-kept", fmt.Sprintf("AddKey of a key requiring ID %d returned ID %d", want, id))
			}
			if hasReq {
				r.Probe("addkey-idreq-kept")
			}
			w.addSucceeded("AddKey", id, k)
			w.lastAddKey = k
		} else {
			r.Probe("error-leaves-unchanged-checked")
		}
	case "SetAnnotations":
		// not one of the operations C11 lists, but a "later manager operation" all the same: whether the keyset is
		// annotated must change nothing about what Handle() returns for it, and must not reach handles obtained earlier
		var ann map[string]string
		switch rapid.IntRange(0, 3).Draw(t, "annotations") {
		case 1:
			ann = map[string]string{"sim": "manager"}
		case 2:
			ann = map[string]string{"sim": "manager-2", "zone": "b"}
		case 3:
			ann = map[string]string{}
		}
		var err error
		func() { defer w.catch("SetAnnotations"); err = w.mgr.SetAnnotations(ann) }()
		r.Logf("SetAnnotations(%v) -> err=%v   [%s]", ann, err, before)
		w.note("SetAnnotations", err)
		r.Probe("annotations-changed")
	case "SetPrimary", "Enable", "Disable", "Delete":
		id := w.drawID("id")
		me := w.m.find(id)
		var err error
		func() {
			defer w.catch(op)
			switch op {
			case "SetPrimary":
				err = w.mgr.SetPrimary(id)
			case "Enable":
				err = w.mgr.Enable(id)
			case "Disable":
				err = w.mgr.Disable(id)
			case "Delete":
				err = w.mgr.Delete(id)
			}
		}()
		r.Logf("%s(%d) -> err=%v   [%s]", op, id, err, before)
		w.note(op, err)
		if me != nil && op == "Enable" && me.status == keyset.Destroyed {
			r.Probe("enable-destroyed")
		}
		if me == nil {
			r.Probe("op-on-absent-id")
			// nothing to change; an error is the natural answer, silence is not forbidden
			break
		}
		if err != nil {
			r.Probe("error-leaves-unchanged-checked")
			switch {
			case op == "Disable" && me.primary:
				r.Probe("refused-disable-primary")
			case op == "Delete" && me.primary:
				r.Probe("refused-delete-primary")
			case op == "SetPrimary" && me.status != keyset.Enabled:
				r.Probe("refused-setprimary-nonenabled")
			}
			break
		}
		switch op {
		case "SetPrimary":
			if me.status != keyset.Enabled {
				r.Violation("C11/nonenabled-became-primary", fmt.Sprintf("SetPrimary(%d) succeeded although the key is %v", id, me.status))
				break
			}
			for _, e := range w.m.entries {
				e.primary = false
			}
			me.primary = true
			w.everPrimary = true
		case "Enable":
			me.status = keyset.Enabled
		case "Disable":
			if me.primary {
				r.Violation("C11/primary-disabled", fmt.Sprintf("Disable(%d) succeeded on the primary key", id))
				break
			}
			me.status = keyset.Disabled
		case "Delete":
			if me.primary {
				r.Violation("C11/primary-deleted", fmt.Sprintf("Delete(%d) succeeded on the primary key", id))
				break
			}
			for i, e := range w.m.entries {
				if e == me {
					w.m.entries = append(w.m.entries[:i:i], w.m.entries[i+1:]...)
					break
				}
			}
			w.m.dead[id] = true
		}
	case "Handle":
		var h *keyset.Handle
		var err error
		func() { defer w.catch("Handle"); h, err = w.mgr.Handle() }()
		r.Logf("Handle() -> err=%v   [%s]", err, before)
		w.note("Handle", err)
		if err == nil && w.m.hasPrimary() {
			w.snap(h)
		}
	case "Branch":
		if len(w.snaps) == 0 {
			break
		}
		i := rapid.IntRange(0, len(w.snaps)-1).Draw(t, "branchTo")
		s := w.snaps[i]
		func() { defer w.catch("NewManagerFromHandle"); w.mgr = keyset.NewManagerFromHandle(s.h) }()
		w.m = s.model.clone()
		w.branches++
		r.Probe("branch-to-earlier-handle")
		r.Logf("NewManagerFromHandle(handle #%d)   [%s]", i, w.m)
		w.note("Branch", nil)
	case "Recheck":
		if len(w.snaps) == 0 {
			break
		}
		i := rapid.IntRange(0, len(w.snaps)-1).Draw(t, "recheck")
		w.recheck(w.snaps[i], i)
		w.note("Recheck", nil)
	}
	w.observe(op)
}

func g4(g *simrng.RNG) int { return g.ScriptLen() }

// catalogUsable caches, per catalog entry, whether this tree can serialize its parameters to a template and generate a
// key for it in a scratch manager (probed once per process under a throw-away RNG, so the run's own stream is not
// consumed). Entries that cannot are left out: C11 does not say which parameters a manager must be able to add.
var (
	catalogUsable = map[string]*tinkpb.KeyTemplate{}
	catalogTried  = map[string]bool{}
	catalogPick   []catalog.Entry
)

func drawCatalogEntry(t *rapid.T) (catalog.Entry, *tinkpb.KeyTemplate, bool) {
	if catalogPick == nil {
		maxCost := 0
		if core.Thorough() {
			maxCost = 1
		}
		for _, e := range catalog.All() {
			if e.Params != nil && catalog.Quirk(e) == "" && !e.RSABased() && (e.Cost <= maxCost || e.KeyType == "mldsa") {
				catalogPick = append(catalogPick, e)
			}
		}
	}
	e := catalogPick[rapid.IntRange(0, len(catalogPick)-1).Draw(t, "catalogEntry")]
	if !catalogTried[e.Name] {
		catalogTried[e.Name] = true
		func() {
			defer func() { recover() }()
			old := simrngSwap()
			defer old()
			kt, err := protoserialization.SerializeParameters(e.Params)
			if err != nil {
				return
			}
			m := keyset.NewManager()
			if _, err := m.AddNewKeyFromParameters(e.Params); err != nil {
				return
			}
			if _, err := m.Add(kt); err != nil {
				return
			}
			catalogUsable[e.Name] = kt
		}()
		if catalogUsable[e.Name] == nil {
			core.CountGlobal("catalog-entry-not-addable-on-this-tree")
		}
	}
	kt := catalogUsable[e.Name]
	if kt == nil {
		return e, nil, false
	}
	return e, proto.Clone(kt).(*tinkpb.KeyTemplate), true
}

// simrngSwap installs a throw-away RNG and returns the function that puts the run's RNG back.
func simrngSwap() func() { return simrng.Install(simrng.New(0x5c7a7c4)) }

func parseParams(kt *tinkpb.KeyTemplate) (key.Parameters, error) {
	return protoserialization.ParseParameters(kt)
}

func buildKey(variant string, kb secretdata.Bytes, id uint32) (key.Key, bool, error) {
	raw := kb.Data(insecuresecretdataaccess.Token{})
	switch variant {
	case "aesgcm-tink", "aesgcm-crunchy", "aesgcm-raw":
		v := aesgcm.VariantTink
		if variant == "aesgcm-crunchy" {
			v = aesgcm.VariantCrunchy
		}
		if variant == "aesgcm-raw" {
			v = aesgcm.VariantNoPrefix
			id = 0
		}
		p, err := aesgcm.NewParameters(aesgcm.ParametersOpts{KeySizeInBytes: 16, IVSizeInBytes: 12, TagSizeInBytes: 16, Variant: v})
		if err != nil {
			return nil, false, err
		}
		k, err := aesgcm.NewKey(secretdata.NewBytesFromData(raw[:16], insecuresecretdataaccess.Token{}), id, p)
		return k, v != aesgcm.VariantNoPrefix, err
	case "hmac-legacy":
		p, err := hmac.NewParameters(hmac.ParametersOpts{KeySizeInBytes: 32, TagSizeInBytes: 16, HashType: hmac.SHA256, Variant: hmac.VariantLegacy})
		if err != nil {
			return nil, false, err
		}
		k, err := hmac.NewKey(kb, p, id)
		return k, true, err
	case "chacha-tink":
		p, err := chacha20poly1305.NewParameters(chacha20poly1305.VariantTink)
		if err != nil {
			return nil, false, err
		}
		k, err := chacha20poly1305.NewKey(kb, id, p)
		return k, true, err
	}
	return nil, false, fmt.Errorf("unknown variant %s", variant)
}
