package atrest

// KMS-envelope AEAD keys ("remote" key material): a keyset entry that holds no key bytes, only a KEK URI and the
// template of the data-encryption keys. The KMS is tink's own in-tree fake (testing/fakekms: an AES128-GCM keyset
// encoded in the URI); everything else — the KmsEnvelopeAeadKey key manager, the legacy adapter, the envelope format —
// is the real code. The DEK template is drawn from the supported DEK key types; one family steers the size of the
// KMS-wrapped DEK (through the HMAC key size of an AES-CTR-HMAC DEK, which has no upper bound) onto and next to powers
// of two, by feedback from a first encryption: sizes crossing an internal threshold of the envelope format are where a
// primitive built from an accepted handle stops round-tripping.

import (
	"encoding/binary"

	"google.golang.org/protobuf/encoding/protowire"
	"google.golang.org/protobuf/proto"
	"pgregory.net/rapid"

	"github.com/tink-crypto/tink-go/v2/aead"
	"github.com/tink-crypto/tink-go/v2/core/registry"
	"github.com/tink-crypto/tink-go/v2/daead"
	"github.com/tink-crypto/tink-go/v2/insecurecleartextkeyset"
	"github.com/tink-crypto/tink-go/v2/keyset"
	ctrpb "github.com/tink-crypto/tink-go/v2/proto/aes_ctr_go_proto"
	ctrhmacpb "github.com/tink-crypto/tink-go/v2/proto/aes_ctr_hmac_aead_go_proto"
	commonpb "github.com/tink-crypto/tink-go/v2/proto/common_go_proto"
	hmacpb "github.com/tink-crypto/tink-go/v2/proto/hmac_go_proto"
	kmsepb "github.com/tink-crypto/tink-go/v2/proto/kms_envelope_go_proto"
	tinkpb "github.com/tink-crypto/tink-go/v2/proto/tink_go_proto"
	"github.com/tink-crypto/tink-go/v2/testing/fakekms"
	"github.com/tink-crypto/tink-go/v2/verifsim/simrng"
)

const kmsEnvelopeURL = "type.googleapis.com/google.crypto.tink.KmsEnvelopeAeadKey"

var kekURI string

// registerFakeKMS registers tink's fake KMS client and fixes one KEK URI (drawn under a throw-away deterministic RNG so
// that every process sees the same image bytes).
func registerFakeKMS() {
	restore := simrng.Install(simrng.New(0x4b4d53))
	defer restore()
	uri, err := fakekms.NewKeyURI()
	if err != nil {
		panic(err)
	}
	c, err := fakekms.NewClient("fake-kms://")
	if err != nil {
		panic(err)
	}
	registry.RegisterKMSClient(c)
	kekURI = uri
}

func ctrHmacDEK(hmacKeySize uint32) *tinkpb.KeyTemplate {
	v, _ := proto.Marshal(&ctrhmacpb.AesCtrHmacAeadKeyFormat{
		AesCtrKeyFormat: &ctrpb.AesCtrKeyFormat{Params: &ctrpb.AesCtrParams{IvSize: 16}, KeySize: 32},
		HmacKeyFormat:   &hmacpb.HmacKeyFormat{Params: &hmacpb.HmacParams{Hash: commonpb.HashType_SHA256, TagSize: 32}, KeySize: hmacKeySize},
	})
	return &tinkpb.KeyTemplate{TypeUrl: "type.googleapis.com/google.crypto.tink.AesCtrHmacAeadKey", Value: v, OutputPrefixType: tinkpb.OutputPrefixType_RAW}
}

func kmsKey(dek *tinkpb.KeyTemplate, id uint32, pfx tinkpb.OutputPrefixType) *tinkpb.Keyset_Key {
	v, _ := proto.Marshal(&kmsepb.KmsEnvelopeAeadKey{Version: 0, Params: &kmsepb.KmsEnvelopeAeadKeyFormat{KekUri: kekURI, DekTemplate: dek}})
	return &tinkpb.Keyset_Key{KeyId: id, Status: tinkpb.KeyStatusType_ENABLED, OutputPrefixType: pfx,
		KeyData: &tinkpb.KeyData{TypeUrl: kmsEnvelopeURL, Value: v, KeyMaterialType: tinkpb.KeyData_REMOTE}}
}

// wrappedDEKLen builds the one-key keyset, encrypts once and reads the length field of the envelope (0: not measurable).
func wrappedDEKLen(k *tinkpb.Keyset_Key) (n int) {
	defer func() {
		if recover() != nil {
			n = 0
		}
	}()
	h, err := insecurecleartextkeyset.Read(&keyset.MemReaderWriter{Keyset: &tinkpb.Keyset{PrimaryKeyId: k.KeyId, Key: []*tinkpb.Keyset_Key{proto.Clone(k).(*tinkpb.Keyset_Key)}}})
	if err != nil {
		return 0
	}
	a, err := aead.New(h)
	if err != nil {
		return 0
	}
	ct, err := a.Encrypt([]byte("m"), nil)
	if err != nil {
		return 0
	}
	skip := 0
	if k.OutputPrefixType != tinkpb.OutputPrefixType_RAW {
		skip = 5
	}
	if len(ct) < skip+4 {
		return 0
	}
	return int(binary.BigEndian.Uint32(ct[skip : skip+4]))
}

// drawKMSKey returns a KMS-envelope key entry with a drawn DEK template.
func (w *world) drawKMSKey(label string, id uint32) *tinkpb.Keyset_Key {
	t := w.t
	pfx := rapid.SampledFrom([]tinkpb.OutputPrefixType{tinkpb.OutputPrefixType_RAW, tinkpb.OutputPrefixType_TINK, tinkpb.OutputPrefixType_RAW}).Draw(t, label+"KMSPrefix")
	kind := rapid.SampledFrom([]string{"template", "sized", "sized", "unsupported-dek"}).Draw(t, label+"KMSDek")
	switch kind {
	case "template":
		dek := rapid.SampledFrom([]func() *tinkpb.KeyTemplate{aead.AES128GCMKeyTemplate, aead.AES256GCMKeyTemplate, aead.AES128CTRHMACSHA256KeyTemplate,
			aead.AES256CTRHMACSHA256KeyTemplate, aead.ChaCha20Poly1305KeyTemplate, aead.XChaCha20Poly1305KeyTemplate, aead.AES256GCMSIVKeyTemplate,
			aead.AES256GCMNoPrefixKeyTemplate}).Draw(t, label+"KMSDekTpl")()
		return kmsKey(dek, id, pfx)
	case "unsupported-dek":
		w.r.Probe("kms-envelope-unsupported-dek")
		return kmsKey(daead.AESSIVKeyTemplate(), id, pfx)
	}
	// sized: steer the wrapped DEK onto 2^k-1, 2^k, 2^k+1
	k := rapid.IntRange(8, 12).Draw(t, label+"KMSPow")
	target := 1<<k + rapid.IntRange(-1, 1).Draw(t, label+"KMSOff")
	size := uint32(target - 100)
	var key *tinkpb.Keyset_Key
	for i := 0; i < 5; i++ {
		key = kmsKey(ctrHmacDEK(size), id, pfx)
		l := wrappedDEKLen(key)
		if l == 0 {
			// not measurable (e.g. the encrypting side refuses this size): extrapolate from a smaller one once
			l0 := wrappedDEKLen(kmsKey(ctrHmacDEK(64), id, pfx))
			if l0 == 0 {
				break
			}
			l = l0 + int(size) - 64
		}
		if l == target {
			w.r.Probe("kms-envelope-wrapped-dek-on-power-of-two-boundary")
			break
		}
		ns := int(size) + target - l
		if ns < 16 {
			break
		}
		size = uint32(ns)
	}
	return key
}

// kmsUnsafe says whether an accepted handle holds a KMS-envelope key whose DEK template asks for absurdly large key
// material (a storage fault in a size field): exercising it would only measure the allocator. Any varint above 1 MiB
// anywhere in the serialized key counts.
func kmsUnsafe(h *keyset.Handle) bool {
	ks := insecurecleartextkeyset.KeysetMaterial(h)
	if ks == nil {
		return false
	}
	for _, k := range ks.Key {
		if k.GetKeyData().GetTypeUrl() == kmsEnvelopeURL && bigVarint(k.GetKeyData().GetValue(), 0) {
			return true
		}
	}
	return false
}

func bigVarint(b []byte, depth int) bool {
	if depth > 6 {
		return false
	}
	for len(b) > 0 {
		num, typ, n := protowire.ConsumeTag(b)
		if n < 0 || num <= 0 {
			return false
		}
		b = b[n:]
		switch typ {
		case protowire.VarintType:
			v, n := protowire.ConsumeVarint(b)
			if n < 0 {
				return false
			}
			if v > 1<<20 {
				return true
			}
			b = b[n:]
		case protowire.BytesType:
			v, n := protowire.ConsumeBytes(b)
			if n < 0 {
				return false
			}
			if bigVarint(v, depth+1) {
				return true
			}
			b = b[n:]
		default:
			n := protowire.ConsumeFieldValue(num, typ, b)
			if n < 0 {
				return false
			}
			b = b[n:]
		}
	}
	return false
}
