package atrest

import (
	"encoding/base64"
	"sort"

	"google.golang.org/protobuf/encoding/protowire"
)

// A layout is what the field-aware fault placement knows about one stored
// image: byte ranges by class (tags, length prefixes, varints, enum bytes,
// key-ID bytes, type URLs, key material, ciphertext), whole fields (blocks)
// and field boundaries with their nesting level. It is computed by walking
// the bytes with protowire (binary) or a JSON tokenizer; both walkers accept
// arbitrary garbage (they stop where the structure stops).

type spot struct {
	off, n int
}

type span struct {
	start, end, level int
}

type bound struct {
	off, level int
}

type layout struct {
	spots  map[string][]spot
	spans  []span
	bounds []bound
	size   int
}

// Spot classes.
const (
	cTag      = "tag"        // binary: field tags; JSON: member names
	cLen      = "len"        // binary: length prefixes; JSON: structural characters
	cVarint   = "varint"     // varints / numbers inside key protos (versions, sizes, nested enums)
	cEnum     = "enum"       // status, output prefix type, key material type
	cKeyID    = "keyid"      // key_id, primary_key_id
	cTypeURL  = "typeurl"    // type_url strings
	cMaterial = "material"   // leaf bytes inside key values (key material, points, moduli)
	cCipher   = "ciphertext" // encrypted_keyset
	cUniform  = "uniform"    // anywhere
	cBoundary = "boundary"   // the byte right before / after a field boundary
)

var classOrder = []string{cUniform, cTag, cLen, cVarint, cEnum, cKeyID, cTypeURL, cMaterial, cCipher, cBoundary}

func (l *layout) add(class string, off, n int) {
	if n <= 0 {
		return
	}
	l.spots[class] = append(l.spots[class], spot{off, n})
}

// classes lists the classes that have at least one spot, in a fixed order.
func (l *layout) classes() []string {
	var out []string
	for _, c := range classOrder {
		if c == cUniform || c == cBoundary {
			if l.size > 0 {
				out = append(out, c)
			}
			continue
		}
		if len(l.spots[c]) > 0 {
			out = append(out, c)
		}
	}
	return out
}

func (l *layout) finish() {
	sort.SliceStable(l.bounds, func(i, j int) bool {
		if l.bounds[i].off != l.bounds[j].off {
			return l.bounds[i].off < l.bounds[j].off
		}
		return l.bounds[i].level < l.bounds[j].level
	})
	// one entry per offset, keeping the outermost level
	out := l.bounds[:0]
	for _, b := range l.bounds {
		if len(out) > 0 && out[len(out)-1].off == b.off {
			continue
		}
		out = append(out, b)
	}
	l.bounds = out
}

// boundsUpTo returns the boundary offsets of nesting level <= level.
func (l *layout) boundsUpTo(level int) []int {
	var out []int
	for _, b := range l.bounds {
		if b.level <= level {
			out = append(out, b.off)
		}
	}
	return out
}

func walk(format string, encrypted bool, data []byte) *layout {
	l := &layout{spots: map[string][]spot{}, size: len(data)}
	if format == "binary" {
		path := "K"
		if encrypted {
			path = "E"
		}
		walkProto(l, data, 0, 1, path)
	} else {
		j := &jsonWalker{l: l, b: data}
		j.skipWS()
		j.value(1, "")
		j.l.bounds = append(j.l.bounds, bound{len(data), 1})
	}
	l.finish()
	return l
}

// ---------------------------------------------------------------------------
// binary

func validMessage(b []byte) bool {
	if len(b) == 0 {
		return false
	}
	for len(b) > 0 {
		num, _, n := protowire.ConsumeField(b)
		if n < 0 || num < 1 {
			return false
		}
		b = b[n:]
	}
	return true
}

// walkProto walks one message. path is the schema position: "K" Keyset, "K2"
// Keyset.Key, "K21" KeyData, "E" EncryptedKeyset, "E3" KeysetInfo, "E32"
// KeyInfo, "V…" inside a serialized key proto (schema unknown: generic).
func walkProto(l *layout, b []byte, base, level int, path string) {
	off := 0
	for off < len(b) {
		l.bounds = append(l.bounds, bound{base + off, level})
		num, typ, n := protowire.ConsumeTag(b[off:])
		if n < 0 {
			return
		}
		start := off
		l.add(cTag, base+off, n)
		off += n
		sub := path + string(rune('0'+int(num%10)))
		if num > 9 {
			sub = path + "x"
		}
		switch typ {
		case protowire.VarintType:
			_, m := protowire.ConsumeVarint(b[off:])
			if m < 0 {
				return
			}
			l.add(varintClass(path, sub), base+off, m)
			off += m
		case protowire.BytesType:
			v, m := protowire.ConsumeBytes(b[off:])
			if m < 0 {
				// length prefix runs past the end (or is malformed): the prefix is still a good target
				_, pm := protowire.ConsumeVarint(b[off:])
				if pm > 0 {
					l.add(cLen, base+off, pm)
				}
				return
			}
			pl := m - len(v)
			l.add(cLen, base+off, pl)
			pbase := base + off + pl
			switch {
			case sub == "K2" || sub == "K21" || sub == "E3" || sub == "E32":
				walkProto(l, v, pbase, level+1, sub)
			case sub == "K211" || sub == "E321":
				l.add(cTypeURL, pbase, len(v))
			case sub == "E2":
				l.add(cCipher, pbase, len(v))
			case sub == "K212":
				if validMessage(v) {
					walkProto(l, v, pbase, level+1, "V")
				} else {
					l.add(cMaterial, pbase, len(v))
				}
			case path[0] == 'V':
				if len(path) < 5 && len(v) < 200 && validMessage(v) {
					walkProto(l, v, pbase, level+1, path+"v")
				} else {
					l.add(cMaterial, pbase, len(v))
				}
			default:
				l.add(cMaterial, pbase, len(v))
			}
			off += m
		default:
			m := protowire.ConsumeFieldValue(num, typ, b[off:])
			if m < 0 {
				return
			}
			l.add(cVarint, base+off, m)
			off += m
		}
		l.spans = append(l.spans, span{base + start, base + off, level})
	}
	l.bounds = append(l.bounds, bound{base + len(b), level})
}

func varintClass(path, sub string) string {
	switch sub {
	case "K1", "K23", "E31", "E323":
		return cKeyID
	case "K22", "K24", "K213", "E322", "E324":
		return cEnum
	}
	return cVarint
}

// ---------------------------------------------------------------------------
// JSON

type jsonWalker struct {
	l   *layout
	b   []byte
	pos int
}

func (j *jsonWalker) skipWS() {
	for j.pos < len(j.b) {
		switch j.b[j.pos] {
		case ' ', '\t', '\n', '\r':
			j.pos++
		default:
			return
		}
	}
}

func (j *jsonWalker) str() (start, end int, ok bool) {
	if j.pos >= len(j.b) || j.b[j.pos] != '"' {
		return 0, 0, false
	}
	start = j.pos
	j.pos++
	for j.pos < len(j.b) {
		switch j.b[j.pos] {
		case '\\':
			j.pos += 2
		case '"':
			j.pos++
			return start, j.pos, true
		default:
			j.pos++
		}
	}
	if j.pos > len(j.b) {
		j.pos = len(j.b)
	}
	return start, j.pos, false
}

// value walks one JSON value; it returns false where the text stops being JSON.
func (j *jsonWalker) value(level int, name string) bool {
	j.skipWS()
	if j.pos >= len(j.b) {
		return false
	}
	switch c := j.b[j.pos]; {
	case c == '{':
		j.l.add(cLen, j.pos, 1)
		j.pos++
		first := true
		for {
			j.skipWS()
			if j.pos >= len(j.b) {
				return false
			}
			if j.b[j.pos] == '}' {
				j.l.add(cLen, j.pos, 1)
				j.pos++
				j.l.bounds = append(j.l.bounds, bound{j.pos, level})
				return true
			}
			mstart := j.pos
			if !first {
				if j.b[j.pos] != ',' {
					return false
				}
				j.l.add(cLen, j.pos, 1)
				j.pos++
				j.skipWS()
			}
			j.l.bounds = append(j.l.bounds, bound{j.pos, level})
			ns, ne, ok := j.str()
			if !ok {
				return false
			}
			j.l.add(cTag, ns+1, ne-ns-2)
			j.skipWS()
			if j.pos >= len(j.b) || j.b[j.pos] != ':' {
				return false
			}
			j.l.add(cLen, j.pos, 1)
			j.pos++
			j.l.bounds = append(j.l.bounds, bound{j.pos, level + 1})
			if !j.value(level+1, string(j.b[ns+1:ne-1])) {
				return false
			}
			// a member (with its leading comma when it has one) is a block
			j.l.spans = append(j.l.spans, span{mstart, j.pos, level})
			if first {
				// the first member together with the comma that follows it
				k := j.pos
				for k < len(j.b) && (j.b[k] == ' ' || j.b[k] == '\n') {
					k++
				}
				if k < len(j.b) && j.b[k] == ',' {
					j.l.spans = append(j.l.spans, span{mstart, k + 1, level})
				}
			}
			first = false
		}
	case c == '[':
		j.l.add(cLen, j.pos, 1)
		j.pos++
		first := true
		for {
			j.skipWS()
			if j.pos >= len(j.b) {
				return false
			}
			if j.b[j.pos] == ']' {
				j.l.add(cLen, j.pos, 1)
				j.pos++
				j.l.bounds = append(j.l.bounds, bound{j.pos, level})
				return true
			}
			estart := j.pos
			if !first {
				if j.b[j.pos] != ',' {
					return false
				}
				j.l.add(cLen, j.pos, 1)
				j.pos++
			}
			j.l.bounds = append(j.l.bounds, bound{j.pos, level})
			if !j.value(level, name) {
				return false
			}
			j.l.spans = append(j.l.spans, span{estart, j.pos, level})
			if first {
				k := j.pos
				for k < len(j.b) && (j.b[k] == ' ' || j.b[k] == '\n') {
					k++
				}
				if k < len(j.b) && j.b[k] == ',' {
					j.l.spans = append(j.l.spans, span{estart, k + 1, level})
				}
			}
			first = false
		}
	case c == '"':
		s, e, ok := j.str()
		if !ok {
			return false
		}
		in, n := s+1, e-s-2
		switch name {
		case "typeUrl":
			j.l.add(cTypeURL, in, n)
		case "status", "outputPrefixType", "keyMaterialType":
			j.l.add(cEnum, in, n)
		case "encryptedKeyset":
			j.l.add(cCipher, in, n)
		case "value":
			j.nested(in, n)
		default:
			j.l.add(cMaterial, in, n)
		}
		j.l.bounds = append(j.l.bounds, bound{e, level})
		return true
	default:
		s := j.pos
		for j.pos < len(j.b) {
			ch := j.b[j.pos]
			if ch == ',' || ch == '}' || ch == ']' || ch == ' ' || ch == '\n' || ch == ':' || ch == '"' || ch == '{' || ch == '[' {
				break
			}
			j.pos++
		}
		if j.pos == s {
			return false
		}
		switch name {
		case "keyId", "primaryKeyId":
			j.l.add(cKeyID, s, j.pos-s)
		case "status", "outputPrefixType", "keyMaterialType":
			j.l.add(cEnum, s, j.pos-s)
		default:
			j.l.add(cVarint, s, j.pos-s)
		}
		j.l.bounds = append(j.l.bounds, bound{j.pos, level})
		return true
	}
}

// nested maps the structure of a base64-encoded serialized key proto onto the
// base64 characters that carry it, so that tags, length prefixes, varints and
// material inside the key value can be targeted in the JSON format too.
func (j *jsonWalker) nested(in, n int) {
	raw, err := base64.StdEncoding.DecodeString(string(j.b[in : in+n]))
	if err != nil || !validMessage(raw) {
		j.l.add(cMaterial, in, n)
		return
	}
	inner := &layout{spots: map[string][]spot{}, size: len(raw)}
	walkProto(inner, raw, 0, 1, "V")
	for _, c := range classOrder {
		for _, s := range inner.spots[c] {
			a := s.off * 4 / 3
			b := (s.off+s.n)*4/3 + 1
			if b > n {
				b = n
			}
			if a < b {
				j.l.add(c, in+a, b-a)
			}
		}
	}
}
