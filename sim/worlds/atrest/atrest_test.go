// Package atrest is the C14 world: a real keyset handle is written by the
// real writers to a simulated storage device; the stored bytes (the medium)
// suffer storage faults placed with knowledge of the field structure; the
// real readers read the image back through a short-reading source; whatever
// they return is held against C14: an error, or a well-formed handle whose
// primitives are self-consistent and never built from keys below the minimum
// strengths — and never a panic.
package atrest

import (
	"encoding/binary"
	"fmt"
	"os"
	"sort"
	"strings"
	"testing"
	"testing/cryptotest"

	"google.golang.org/protobuf/encoding/protojson"
	"google.golang.org/protobuf/proto"
	"pgregory.net/rapid"

	"github.com/tink-crypto/tink-go/v2/aead"
	"github.com/tink-crypto/tink-go/v2/insecurecleartextkeyset"
	"github.com/tink-crypto/tink-go/v2/internal/internalapi"
	"github.com/tink-crypto/tink-go/v2/key"
	"github.com/tink-crypto/tink-go/v2/keyset"
	tinkpb "github.com/tink-crypto/tink-go/v2/proto/tink_go_proto"
	"github.com/tink-crypto/tink-go/v2/tink"
	"github.com/tink-crypto/tink-go/v2/verifsim/catalog"
	"github.com/tink-crypto/tink-go/v2/verifsim/core"
	"github.com/tink-crypto/tink-go/v2/verifsim/simio"
	"github.com/tink-crypto/tink-go/v2/verifsim/simrng"
	"github.com/tink-crypto/tink-go/v2/verifsim/stubkm"
)

const prop = "C14"

var rejectRules = []string{"syntax", "aead", "inner-syntax", "empty", "nil-keydata", "unknown-status", "unknown-prefix", "duplicate-id",
	"no-enabled-primary", "has-secrets", "prefix-type-5", "key-parse", "read-error"}

func TestMain(m *testing.M) {
	faults := []string{fCut, fTornWrite, fWrongReader, "weak-key", "src-short-read", "src-zero-read", "src-eof-with-data", "src-read-error"}
	faults = append(faults, mediumFaults...)
	faults = append(faults, structEdits...)
	core.DeclareFaults(faults...)
	probes := []string{"fault-free-accepted", "accepted-although-faulted-equal", "accepted-although-faulted-different", "accepted-fewer-keys-than-written",
		"fallback-key-reached", "unknown-type-url-key-accepted", "stub-key-in-keyset", "weak-key-reached", "weak-refused-at-reader", "weak-refused-at-factory",
		"duplicate-id-image-by-block-duplication", "round-trip-on-read-back-handle", "derived-keyset-exercised", "cut-image-accepted", "torn-write-prefix-read-back",
		"splice-accepted", "changed-nonprimary-key-exercised-alone", "keyset-info-flip-accepted", "ciphertext-flip-rejected", "public-only-primitives-built", "pooled-key-in-keyset",
		"kms-envelope-key-in-keyset", "acceptor-poked-with-short-inputs", "short-input-matching-a-prefix-up-to-zero-bytes", "kms-envelope-wrapped-dek-on-power-of-two-boundary", "kms-envelope-unsupported-dek"}
	for _, r := range rejectRules {
		if r != "inner-syntax" { // needs a valid ciphertext around garbage: no storage fault gets there
			probes = append(probes, "rejected:"+r)
		}
	}
	core.DeclareProbes(probes...)
	stubkm.Register()
	registerFakeKMS()
	initPools()
	core.Main(m, prop, "atrest", map[string]string{
		"keyset writers (binary, JSON), insecurecleartextkeyset.Write, Handle.WriteWithAssociatedData / WriteWithNoSecrets": "real",
		"keyset readers (binary, JSON), insecurecleartextkeyset.Read, keyset.ReadWithAssociatedData / ReadWithNoSecrets":    "real",
		"keyset validation, handle construction, per-type key parsers (protoserialization), fallback keys":                  "real",
		"factories and primitives of every class":  "real",
		"key-encryption AEAD":                      "real (in-tree AES256-GCM from a one-key keyset)",
		"storage device / medium / reading source": "stub (simio.Device, fault transforms, simio.Source)",
		"crypto/rand":                       "stub (simrng; stdlib-internal randomness seeded per run via testing/cryptotest)",
		"custom key type":                   "stub (stubkm key managers; real legacy adapters)",
		"KMS behind KMS-envelope AEAD keys": "stub (tink's in-tree testing/fakekms); envelope AEAD, its key manager and DEK handling real",
		"image classifier (why an image should be rejected)": "oracle only",
	})
}

var outerT *testing.T

var dbgSigs = os.Getenv("ATREST_SIGS") != ""

func TestAtRest(t *testing.T) {
	outerT = t
	rapid.Check(t, runAtRest)
}

// ---------------------------------------------------------------------------
// catalog pools per tier

var (
	cheap  = map[string][]catalog.Entry{}
	costly = map[string][]catalog.Entry{}
	// a costly (pooled) entry is drawn with probability 1/(costlyOdds+1)
	costlyOdds = 9
)

func initPools() {
	if core.Thorough() {
		costlyOdds = 2
	}
	for _, e := range catalog.All() {
		c := string(e.Class)
		if e.Variant == catalog.VRawPrehashID {
			// keyset.Validate knows four prefix types; a key stored with WITH_ID_REQUIREMENT never reads back
			// (a round-trip matter, C12), so such a keyset cannot get its status mix through a re-read either
			continue
		}
		if strings.Contains(e.Name, "-salt0-") && e.KeyType == "rsassapss" {
			continue // the key serializer refuses RSA-SSA-PSS salt length 0: such a handle cannot be written at all
		}
		switch {
		case e.Cost <= 1 && !catalog.Pooled(e):
			cheap[c] = append(cheap[c], e)
		case core.Thorough():
			if catalog.PoolSize(e) > 0 {
				costly[c] = append(costly[c], e)
			}
		default:
			// quick tier: the 2048-bit RSA key types and SLH-DSA (built, not signed with) from the pool
			if catalog.PoolSize(e) > 0 && (strings.Contains(e.Name, "n2048") || e.KeyType == "slhdsa") {
				costly[c] = append(costly[c], e)
			}
		}
	}
}

var (
	allClasses    = []string{"aead", "daead", "mac", "prf", "signature", "hybrid", "jwtmac", "jwtsig", "streamingaead", "keyderivation"}
	publicClasses = []string{"signature", "hybrid", "jwtsig"}
)

// ---------------------------------------------------------------------------
// world

type config struct {
	format string // "binary" | "json"
	prot   string // "clear" | "encrypted" | "public"
}

type srcCfg struct {
	chunks      []int
	zeroBudget  int
	eofWithData bool
	failAt      int
}

type world struct {
	r   *core.Run
	t   *rapid.T
	g   *simrng.RNG
	cfg config
	kek tink.AEAD
	ad  []byte

	msgLen      int
	weakExpect  string // set while a fault-free image with an ENABLED hand-built weak key is being read
	weakClass   string // its primitive class
	weakPrimary bool   // it is the keyset's primary (producing primitives use the primary only)
	weakID      uint32 // its key ID
	// weakArrange makes a valid input for the verifier of a hand-built weak PUBLIC key (the harness holds the private half)
	weakArrange func(msg []byte) ([]byte, error)
	idCtr       uint64

	header       []string // trace lines of the shared set-up, repeated in the trace of every experiment
	other        []byte   // a second stored keyset (splices), built on first use
	otherClasses []string
}

type built struct {
	h        *keyset.Handle
	ks       *tinkpb.Keyset
	keyTypes []string
	classes  []string
	special  []string
	// weak mode
	weakKeyName string
	weakID      uint32
	weakArrange func(msg []byte) ([]byte, error)
}

// weakEnabled: the hand-built weak key sits in the keyset as an ENABLED key.
func (b *built) weakEnabled() bool {
	for _, k := range b.ks.Key {
		if k.KeyId == b.weakID && k.Status == tinkpb.KeyStatusType_ENABLED {
			return b.weakKeyName != ""
		}
	}
	return false
}

// buildWeak draws a keyset holding one hand-built key below the minimum
// strengths, optionally next to good keys of the same class.
func (w *world) buildWeak() (*built, string) {
	t := w.t
	name := rapid.SampledFrom(weakNames).Draw(t, "weakKey")
	wk := w.weak(name)
	if w.cfg.prot == "public" && wk.data.KeyMaterialType != tinkpb.KeyData_ASYMMETRIC_PUBLIC {
		w.cfg.prot = "clear"
	}
	used := map[uint32]bool{}
	ks := &tinkpb.Keyset{}
	b := &built{weakKeyName: name, classes: []string{wk.class}}
	if wk.rule == "" {
		b.weakKeyName = "" // an exotic but valid key: nothing is expected to refuse it
		w.r.Probe("exotic-valid-key")
	}
	if wk.sibling != "" && w.cfg.prot != "public" {
		nSib := rapid.IntRange(0, 2).Draw(t, "weakSiblings")
		if nSib > 0 {
			e, _ := catalog.Find(wk.sibling)
			m := keyset.NewManager()
			var first uint32
			for i := 0; i < nSib; i++ {
				id, err := m.AddNewKeyFromParameters(e.Params)
				if err != nil {
					t.Fatalf("harness: %v", err)
				}
				if i == 0 {
					first = id
				}
				used[id] = true
				b.keyTypes = append(b.keyTypes, e.KeyType)
			}
			if err := m.SetPrimary(first); err != nil {
				t.Fatalf("harness: %v", err)
			}
			h0, err := m.Handle()
			if err != nil {
				t.Fatalf("harness: %v", err)
			}
			ks = insecurecleartextkeyset.KeysetMaterial(h0)
		}
	}
	prefixes := []tinkpb.OutputPrefixType{tinkpb.OutputPrefixType_TINK, tinkpb.OutputPrefixType_RAW}
	switch wk.class {
	case "prf", "streamingaead":
		prefixes = prefixes[1:]
	case "keyderivation":
		prefixes = prefixes[:1]
	}
	b.weakID = w.freshID(used)
	wkKey := &tinkpb.Keyset_Key{KeyData: wk.data, Status: tinkpb.KeyStatusType_ENABLED, KeyId: b.weakID,
		OutputPrefixType: rapid.SampledFrom(prefixes).Draw(t, "weakPrefix")}
	at := rapid.IntRange(0, len(ks.Key)).Draw(t, "weakAt")
	ks.Key = append(ks.Key[:at:at], append([]*tinkpb.Keyset_Key{wkKey}, ks.Key[at:]...)...)
	w.statusMix(ks, "weak")
	if wk.sign != nil {
		b.weakArrange = arranged(wk, wkKey.OutputPrefixType, b.weakID)
	}
	b.keyTypes = append(b.keyTypes, "weak:"+name)
	b.ks = ks
	w.r.Logf("  weak key %s (%s) at index %d of %d, status %v", name, wk.rule, at, len(ks.Key), wkKey.Status)
	return b, name
}

func (w *world) freshID(used map[uint32]bool) uint32 {
	for {
		id := binary.BigEndian.Uint32(w.g.Bytes(13, w.idCtr*4, 4))
		w.idCtr++
		// every uint32 is a legal key ID; those with zero bytes make output prefixes that short or zero-padded inputs
		// run into
		switch id % 16 {
		case 0:
			id &= 0xff000000
		case 1:
			id &= 0xffff0000
		case 2:
			id &= 0x000000ff
		}
		if !used[id] {
			used[id] = true
			return id
		}
	}
}

func (w *world) drawEntry(class, label string) catalog.Entry {
	t := w.t
	// key type first (so that a key type with few catalog entries is drawn as often as one with many), then the entry
	pool := cheap
	if len(costly[class]) > 0 && (len(cheap[class]) == 0 || rapid.IntRange(0, costlyOdds).Draw(t, label+"Costly") == costlyOdds) {
		pool = costly
	}
	types := keyTypes(pool[class])
	kt := types[rapid.IntRange(0, len(types)-1).Draw(t, label+"KeyType")]
	var l []catalog.Entry
	for _, e := range pool[class] {
		if e.KeyType == kt {
			l = append(l, e)
		}
	}
	return l[rapid.IntRange(0, len(l)-1).Draw(t, label+"Entry")]
}

func keyTypes(l []catalog.Entry) []string {
	var out []string
	seen := map[string]bool{}
	for _, e := range l {
		if !seen[e.KeyType] {
			seen[e.KeyType] = true
			out = append(out, e.KeyType)
		}
	}
	return out
}

// buildKeyset draws a keyset and returns the handle the writer is given.
func (w *world) buildKeyset(label string, maxKeys int, fixedClass string) *built {
	t := w.t
	b := &built{}
	pool := allClasses
	if w.cfg.prot == "public" {
		pool = publicClasses
	}
	class := fixedClass
	if class == "" {
		class = rapid.SampledFrom(pool).Draw(t, label+"Class")
	}
	mixed := fixedClass == "" && rapid.IntRange(0, 4).Draw(t, label+"Mixed") == 4
	n := rapid.IntRange(1, maxKeys).Draw(t, label+"Keys")
	m := keyset.NewManager()
	used := map[uint32]bool{}
	classSet := map[string]bool{}
	var first uint32
	for i := 0; i < n; i++ {
		c := class
		if mixed && i > 0 {
			c = rapid.SampledFrom(pool).Draw(t, label+"KeyClass")
		}
		e := w.drawEntry(c, label)
		var id uint32
		var err error
		if catalog.Pooled(e) {
			k, _, perr := catalog.PoolKey(e, rapid.IntRange(0, catalog.PoolKeysPerGroup-1).Draw(t, label+"PoolIdx"), w.freshID(used))
			if perr != nil {
				t.Fatalf("harness: %v", perr)
			}
			id, err = m.AddKey(k)
			w.r.Probe("pooled-key-in-keyset")
		} else {
			id, err = m.AddNewKeyFromParameters(e.Params)
		}
		if err != nil {
			t.Fatalf("harness: cannot add a %s key: %v", e.Name, err)
		}
		used[id] = true
		if i == 0 {
			first = id
		}
		classSet[c] = true
		b.keyTypes = append(b.keyTypes, e.KeyType)
		w.logf("  %s key %d: %s (id %d)", label, i, e.Name, id)
	}
	if err := m.SetPrimary(first); err != nil {
		t.Fatalf("harness: %v", err)
	}
	h0, err := m.Handle()
	if err != nil {
		t.Fatalf("harness: %v", err)
	}
	ks := insecurecleartextkeyset.KeysetMaterial(h0)
	if ks == nil {
		// The handle the manager just handed out cannot be exported. This handle did not come from a reader, so C14
		// says nothing about it; the guard is kept only because it is the one place where an accepted-looking handle
		// that cannot be exported is noticed at all (a panic here cannot come from a correct library).
		w.guard("accessors-of-built-handle", func() { _ = h0.KeysetInfo(); _ = h0.String() })
		core.CountGlobal("built-handle-not-exportable")
		t.Skip("built handle cannot be exported")
	}
	// sometimes a key of a custom key type (legacy adapters), in its private / symmetric form
	if url, ok := stubkm.ClassURL(class); ok && rapid.IntRange(0, 5).Draw(t, label+"Stub") == 5 {
		pfx := rapid.SampledFrom([]string{"TINK", "LEGACY", "RAW", "CRUNCHY"}).Draw(t, label+"StubPrefix")
		ks.Key = append(ks.Key, stubkm.ProtoKey(url, w.g.Bytes(10, 64, 32), pfx, w.freshID(used), tinkpb.KeyStatusType_ENABLED))
		b.special = append(b.special, "stub")
		b.keyTypes = append(b.keyTypes, "stub")
		w.r.Probe("stub-key-in-keyset")
	}
	// sometimes a KMS-envelope AEAD key (remote key material: a KEK URI and a DEK template)
	if class == "aead" && w.cfg.prot != "public" && rapid.IntRange(0, 5).Draw(t, label+"KMS") == 5 {
		ks.Key = append(ks.Key, w.drawKMSKey(label, w.freshID(used)))
		b.special = append(b.special, "kms-envelope")
		b.keyTypes = append(b.keyTypes, "kms-envelope")
		w.r.Probe("kms-envelope-key-in-keyset")
	}
	unknown := rapid.IntRange(0, 7).Draw(t, label+"UnknownURL") == 7
	unknownKey := func(public bool) *tinkpb.Keyset_Key {
		mats := []tinkpb.KeyData_KeyMaterialType{tinkpb.KeyData_SYMMETRIC, tinkpb.KeyData_ASYMMETRIC_PRIVATE, tinkpb.KeyData_REMOTE, tinkpb.KeyData_UNKNOWN_KEYMATERIAL}
		if public {
			mats = []tinkpb.KeyData_KeyMaterialType{tinkpb.KeyData_ASYMMETRIC_PUBLIC, tinkpb.KeyData_REMOTE}
		}
		return &tinkpb.Keyset_Key{
			KeyData: &tinkpb.KeyData{TypeUrl: "type.googleapis.com/google.crypto.tink.NoSuchKey",
				Value:           w.g.Bytes(10, 128, rapid.SampledFrom([]int{0, 1, 16, 40}).Draw(t, label+"UnknownLen")),
				KeyMaterialType: rapid.SampledFrom(mats).Draw(t, label+"UnknownMat")},
			Status:           tinkpb.KeyStatusType_ENABLED,
			KeyId:            w.freshID(used),
			OutputPrefixType: rapid.SampledFrom([]tinkpb.OutputPrefixType{tinkpb.OutputPrefixType_TINK, tinkpb.OutputPrefixType_RAW, tinkpb.OutputPrefixType_LEGACY, tinkpb.OutputPrefixType_CRUNCHY}).Draw(t, label+"UnknownPrefix"),
		}
	}
	if unknown && w.cfg.prot != "public" {
		ks.Key = append(ks.Key, unknownKey(false))
		b.special = append(b.special, "unknown-url")
		b.keyTypes = append(b.keyTypes, "unknown-url")
	}
	// primary and status mix
	w.statusMix(ks, label)
	h, err := insecurecleartextkeyset.Read(&keyset.MemReaderWriter{Keyset: ks})
	if err != nil {
		t.Fatalf("harness: drawn keyset does not parse: %v", err)
	}
	// this read of an in-memory Keyset message is itself a reader call under C14
	if sh := w.wellFormed(h, "in-memory keyset ("+label+")"); sh != nil && sh.n != len(ks.Key) {
		// a reader that leaves keys out still returns "a handle that has at least one key, distinct IDs, …"
		w.r.Probe("handle-has-fewer-keys-than-image")
	}
	if w.cfg.prot == "public" {
		var hp *keyset.Handle
		var err error
		// h is an accepted handle: taking its public half is "using" it and must not panic
		w.guard("public-of-accepted-handle", func() { hp, err = h.Public() })
		if err != nil || hp == nil {
			t.Fatalf("harness: Public(): %v", err)
		}
		if unknown {
			pks := insecurecleartextkeyset.KeysetMaterial(hp)
			uk := unknownKey(true)
			uk.Status = rapid.SampledFrom([]tinkpb.KeyStatusType{tinkpb.KeyStatusType_ENABLED, tinkpb.KeyStatusType_DISABLED}).Draw(t, label+"UnknownStatus")
			pks.Key = append(pks.Key, uk)
			b.special = append(b.special, "unknown-url")
			b.keyTypes = append(b.keyTypes, "unknown-url")
			hp, err = keyset.NewHandleWithNoSecrets(pks)
			if err != nil {
				t.Fatalf("harness: public keyset with an unknown type URL does not parse: %v", err)
			}
		}
		h = hp
	}
	b.h = h
	b.ks = insecurecleartextkeyset.KeysetMaterial(h)
	b.classes = core.SortedKeys(classSet)
	return b
}

func (w *world) statusMix(ks *tinkpb.Keyset, label string) {
	t := w.t
	p := rapid.IntRange(0, len(ks.Key)-1).Draw(t, label+"Primary")
	ks.PrimaryKeyId = ks.Key[p].KeyId
	for i, k := range ks.Key {
		if i == p {
			k.Status = tinkpb.KeyStatusType_ENABLED
			continue
		}
		k.Status = rapid.SampledFrom([]tinkpb.KeyStatusType{tinkpb.KeyStatusType_ENABLED, tinkpb.KeyStatusType_ENABLED, tinkpb.KeyStatusType_DISABLED, tinkpb.KeyStatusType_DESTROYED}).Draw(t, label+"Status")
	}
}

// ---------------------------------------------------------------------------
// writing and reading through the real code

func (w *world) writer(dev *simio.Device) keyset.Writer {
	if w.cfg.format == "binary" {
		return keyset.NewBinaryWriter(dev)
	}
	return keyset.NewJSONWriter(dev)
}

// store writes b to a device and returns the medium. direct: the proto is
// handed to the writer as it is (hand-built keysets no handle can hold).
func (w *world) store(b *built, direct bool, failAt int) ([]byte, error) {
	dev := simio.NewDevice(failAt, true)
	wr := w.writer(dev)
	var err error
	func() {
		defer func() {
			if p := recover(); p != nil {
				s := fmt.Sprintf("%T", p)
				if s == "rapid.stopTest" || s == "rapid.invalidData" {
					panic(p)
				}
				w.t.Fatalf("harness: the writer panicked: %v", p)
			}
		}()
		switch w.cfg.prot {
		case "clear":
			if direct {
				err = wr.Write(b.ks)
			} else {
				err = insecurecleartextkeyset.Write(b.h, wr)
			}
		case "public":
			if direct {
				err = wr.Write(b.ks)
			} else {
				err = b.h.WriteWithNoSecrets(wr)
			}
		case "encrypted":
			if direct {
				// what Handle.WriteWithAssociatedData does, for a keyset no handle can hold
				var ct []byte
				ct, err = w.kek.Encrypt(mustMarshal(b.ks), w.ad)
				if err == nil {
					info := &tinkpb.KeysetInfo{PrimaryKeyId: b.ks.PrimaryKeyId}
					for _, k := range b.ks.Key {
						info.KeyInfo = append(info.KeyInfo, &tinkpb.KeysetInfo_KeyInfo{TypeUrl: k.GetKeyData().GetTypeUrl(), Status: k.GetStatus(), KeyId: k.GetKeyId(), OutputPrefixType: k.GetOutputPrefixType()})
					}
					err = wr.WriteEncrypted(&tinkpb.EncryptedKeyset{EncryptedKeyset: ct, KeysetInfo: info})
				}
			} else {
				err = b.h.WriteWithAssociatedData(wr, w.kek, w.ad)
			}
		}
	}()
	return dev.Buf, err
}

func (w *world) drawSrc(img []byte) srcCfg {
	n := len(img)
	t := w.t
	sc := srcCfg{failAt: -1}
	if rapid.IntRange(0, 2).Draw(t, "srcPlain") == 0 {
		return sc
	}
	sc.chunks = rapid.SliceOfN(rapid.SampledFrom([]int{0, 1, 2, 3, 7, 64, 511, 512, 513}), 0, 4).Draw(t, "srcChunks")
	sc.zeroBudget = rapid.IntRange(0, 3).Draw(t, "srcZero")
	sc.eofWithData = rapid.Bool().Draw(t, "srcEOFWithData")
	if rapid.IntRange(0, 7).Draw(t, "srcFail") == 7 {
		// where the read error hits: a top-level / second-level field boundary (the delivered prefix may parse), or anywhere up to the end
		bs := walk(w.cfg.format, w.cfg.prot == "encrypted", img).boundsUpTo(2)
		if len(bs) > 0 && rapid.Bool().Draw(t, "srcFailAtBoundary") {
			sc.failAt = bs[rapid.IntRange(0, len(bs)-1).Draw(t, "srcFailBound")]
		} else {
			sc.failAt = rapid.IntRange(0, n).Draw(t, "srcFailAt")
		}
	}
	return sc
}

// read gives img to the real reader of protection prot.
func (w *world) read(img []byte, prot string, sc srcCfg) (h *keyset.Handle, err error, src *simio.Source) {
	src = simio.NewSource(img)
	src.Chunks, src.ZeroBudget, src.EOFWithData = sc.chunks, sc.zeroBudget, sc.eofWithData
	if sc.failAt >= 0 {
		src.FailAt = min(sc.failAt, len(img))
	}
	var rd keyset.Reader
	if w.cfg.format == "binary" {
		rd = keyset.NewBinaryReader(src)
	} else {
		rd = keyset.NewJSONReader(src)
	}
	w.guard("reader:"+w.cfg.format+"/"+prot, func() {
		switch prot {
		case "clear":
			h, err = insecurecleartextkeyset.Read(rd)
		case "public":
			h, err = keyset.ReadWithNoSecrets(rd)
		case "encrypted":
			h, err = keyset.ReadWithAssociatedData(rd, w.kek, w.ad)
		}
	})
	return h, err, src
}

// classify says, independently of tink's validation, what is structurally
// wrong with an image (all rules that apply), and how many keys it holds.
func (w *world) classify(img []byte, prot string) (rules []string, nKeys int) {
	ks := &tinkpb.Keyset{}
	unmarshal := func(m proto.Message) error {
		if w.cfg.format == "binary" {
			return proto.Unmarshal(img, m)
		}
		return protojson.Unmarshal(img, m)
	}
	if prot == "encrypted" {
		enc := &tinkpb.EncryptedKeyset{}
		if err := unmarshal(enc); err != nil {
			return []string{"syntax"}, 0
		}
		pt, err := w.kek.Decrypt(enc.GetEncryptedKeyset(), w.ad)
		if err != nil {
			return []string{"aead"}, 0
		}
		if err := proto.Unmarshal(pt, ks); err != nil {
			return []string{"inner-syntax"}, 0
		}
	} else if err := unmarshal(ks); err != nil {
		return []string{"syntax"}, 0
	}
	nKeys = len(ks.Key)
	if nKeys == 0 {
		return []string{"empty"}, 0
	}
	seen := map[uint32]bool{}
	dup, enabledPrimary, unkStatus, unkPrefix, nilData, secrets, prefix5 := false, false, false, false, false, false, false
	for _, k := range ks.Key {
		if k == nil || k.KeyData == nil {
			nilData = true
		}
		switch k.GetStatus() {
		case tinkpb.KeyStatusType_ENABLED, tinkpb.KeyStatusType_DISABLED, tinkpb.KeyStatusType_DESTROYED:
		default:
			unkStatus = true
		}
		switch k.GetOutputPrefixType() {
		case tinkpb.OutputPrefixType_TINK, tinkpb.OutputPrefixType_LEGACY, tinkpb.OutputPrefixType_RAW, tinkpb.OutputPrefixType_CRUNCHY:
		case tinkpb.OutputPrefixType_WITH_ID_REQUIREMENT:
			// a declared enum value (tink's ML-DSA serializer emits it): a reader may know it or not — either outcome is fine
			prefix5 = true
		default:
			unkPrefix = true
		}
		if seen[k.GetKeyId()] {
			dup = true
		}
		seen[k.GetKeyId()] = true
		if k.GetKeyId() == ks.PrimaryKeyId && k.GetStatus() == tinkpb.KeyStatusType_ENABLED {
			enabledPrimary = true
		}
		switch k.GetKeyData().GetKeyMaterialType() {
		case tinkpb.KeyData_UNKNOWN_KEYMATERIAL, tinkpb.KeyData_ASYMMETRIC_PRIVATE, tinkpb.KeyData_SYMMETRIC:
			secrets = true
		}
	}
	if nilData {
		rules = append(rules, "nil-keydata")
	}
	if unkStatus {
		rules = append(rules, "unknown-status")
	}
	if unkPrefix {
		rules = append(rules, "unknown-prefix")
	}
	if dup {
		rules = append(rules, "duplicate-id")
	}
	if !enabledPrimary {
		rules = append(rules, "no-enabled-primary")
	}
	if prot == "public" && secrets {
		rules = append(rules, "has-secrets")
	}
	if prefix5 {
		rules = append(rules, "prefix-type-5")
	}
	return rules, nKeys
}

func mustReject(rule string) bool {
	switch rule {
	case "empty", "unknown-status", "unknown-prefix", "duplicate-id", "no-enabled-primary":
		return true
	}
	return false
}

// shapeOf reads the shape of a handle the harness itself built (no violations).
func shapeOf(h *keyset.Handle) *shape {
	sh := &shape{primary: -1}
	if h == nil {
		return sh
	}
	sh.n = h.Len()
	for i := 0; i < sh.n; i++ {
		e, err := h.Entry(i)
		if err != nil {
			return sh
		}
		sh.ids, sh.statuses, sh.keys = append(sh.ids, e.KeyID()), append(sh.statuses, e.KeyStatus()), append(sh.keys, e.Key())
		if e.IsPrimary() {
			sh.primary = i
		}
	}
	return sh
}

func (w *world) sameAs(a, b *shape) bool {
	if a == nil || b == nil || a.n != b.n || a.primary != b.primary || len(a.keys) != a.n || len(b.keys) != b.n {
		return false
	}
	same := true
	w.guard("key-equal", func() {
		for i := 0; i < a.n && same; i++ {
			same = a.ids[i] == b.ids[i] && a.statuses[i] == b.statuses[i] && keyEqual(a.keys[i], b.keys[i])
		}
	})
	return same
}

// keyEqual calls Equal on a, which is always the key taken from the accepted handle.
func keyEqual(a, b key.Key) bool { return a != nil && b != nil && a.Equal(b) }

// check reads one image back and applies the oracle. It returns the outcome class.
func (w *world) check(img []byte, readProt string, sc srcCfg, orig *shape, written []string, faulted bool, ctx string) string {
	r := w.r
	rules, nImg := w.classify(img, readProt)
	h, err, src := w.read(img, readProt, sc)
	if src.ShortReads > 0 {
		r.Fault("src-short-read")
	}
	if src.ZeroReads > 0 {
		r.Fault("src-zero-read")
	}
	if src.EOFWithData && src.EOFs > 0 && !src.Failed {
		r.Fault("src-eof-with-data")
	}
	if src.Failed {
		r.Fault("src-read-error")
	}
	r.ObsI("image-len", int64(len(img)))
	if err != nil {
		if h != nil {
			// by Go convention the handle is ignored when err != nil; C14 does not forbid returning both
			r.Probe("handle-returned-together-with-error")
		}
		rule := "key-parse"
		if src.Failed {
			rule = "read-error"
		} else if len(rules) > 0 {
			rule = rules[0]
		}
		r.Probe("rejected:" + rule)
		r.ObsS("outcome", "rejected:"+rule)
		r.Logf("%s: %d bytes -> rejected (%s): %v", ctx, len(img), rule, err)
		if w.weakExpect != "" {
			r.Probe("weak-refused-at-reader")
		}
		return "rejected:" + rule
	}
	// accepted
	if src.Failed && src.FailAt >= len(img) {
		// the error came after the complete image had been delivered: a reader that already holds the whole value conforms
		r.Probe("handle-after-error-past-the-end")
	}
	if src.Failed && src.FailAt < len(img) {
		r.Violation("C14/handle-from-failed-read", fmt.Sprintf("%s: the source failed persistently at offset %d of %d, yet the reader returned a handle", ctx, src.FailAt, len(img)))
	}
	for _, rule := range rules {
		if mustReject(rule) {
			r.Violation("C14/accepted-malformed:"+rule, fmt.Sprintf("%s: the stored keyset is malformed (%s) and must always be rejected, but the reader returned a handle", ctx, strings.Join(rules, ",")))
		}
	}
	sh := w.wellFormed(h, ctx)
	if sh == nil {
		return "accepted-malformed"
	}
	unparsed := len(rules) > 0 && (rules[0] == "syntax" || rules[0] == "aead" || rules[0] == "inner-syntax")
	if unparsed {
		// the harness's own strict parse fails where the reader succeeded: a more lenient reader is not forbidden
		r.Probe("accepted-where-strict-parse-fails")
	} else if sh.n != nImg {
		// leaving keys out (DESTROYED ones, unparseable ones) still gives "a handle that has at least one key, distinct IDs, …"
		r.Probe("handle-has-fewer-keys-than-image")
	}
	outcome := "accepted"
	switch {
	case orig == nil:
		outcome = "accepted-direct"
	case w.sameAs(sh, orig):
		outcome = "accepted-equal"
		if faulted {
			r.Probe("accepted-although-faulted-equal")
		} else {
			r.Probe("fault-free-accepted")
		}
	default:
		outcome = "accepted-different"
		if faulted {
			r.Probe("accepted-although-faulted-different")
		}
		if sh.n < orig.n {
			r.Probe("accepted-fewer-keys-than-written")
		}
	}
	w.restore(h)
	res := w.exercise(h, sh, written, ctx, 0)
	if outcome == "accepted-different" {
		w.changedKeys(sh, orig, ctx)
	}
	if w.weakExpect != "" {
		r.Probe("weak-refused-at-factory")
	}
	if readProt == "public" && len(res.built) > 0 {
		r.Probe("public-only-primitives-built")
	}
	r.ObsS("outcome", outcome+" built="+strings.Join(res.built, ","))
	r.Logf("%s: %d bytes -> %s, %d keys, primitives built: [%s], factories refusing: %d", ctx, len(img), outcome, sh.n, strings.Join(res.built, ","), res.refused)
	if len(res.built) > 0 {
		return outcome + "+prim"
	}
	return outcome
}

// restore writes a handle a READER accepted out again through the real writers
// (to a scratch device). This is a use beyond "creating and using a primitive":
// errors are fine and nothing about the result is asserted; only a panic is
// reported (it cannot come from a correct library). h is always the handle the
// reader under test just returned.
func (w *world) restore(h *keyset.Handle) {
	w.guard("rewrite-accepted-handle", func() {
		wr := w.writer(simio.NewDevice(-1, false))
		_ = insecurecleartextkeyset.Write(h, wr)
		_ = h.WriteWithNoSecrets(w.writer(simio.NewDevice(-1, false)))
		_ = h.WriteWithAssociatedData(w.writer(simio.NewDevice(-1, false)), w.kek, w.ad)
		_ = h.String()
	})
}

// changedKeys: the keyset-level primitive only produces with the primary; an
// ENABLED non-primary key the fault has changed (it equals no key that was
// written) is exercised as the only key of a handle of its own, built through
// the public manager API from the accepted entry. Both guards here operate on
// objects taken from the handle the reader accepted: Equal is called ON the
// accepted key (k.Equal(written)), and the manager is given the accepted key.
func (w *world) changedKeys(sh, orig *shape, ctx string) {
	for i, k := range sh.keys {
		if i == sh.primary || sh.statuses[i] != keyset.Enabled {
			continue
		}
		known := false
		w.guard("key-equal", func() {
			for _, ok := range orig.keys {
				if keyEqual(k, ok) {
					known = true
				}
			}
		})
		if known {
			continue
		}
		var h1 *keyset.Handle
		var err error
		w.guard("manager-add-accepted-key", func() {
			m := keyset.NewManager()
			if _, err = m.AddKeyWithOpts(k, internalapi.Token{}, keyset.AsPrimary()); err == nil {
				h1, err = m.Handle()
			}
		})
		if err != nil || h1 == nil {
			continue
		}
		s1 := w.wellFormed(h1, ctx+" (changed key alone)")
		if s1 == nil {
			continue
		}
		w.r.Probe("changed-nonprimary-key-exercised-alone")
		w.exercise(h1, s1, nil, fmt.Sprintf("%s (changed key %d alone)", ctx, i), 1)
	}
}

// ---------------------------------------------------------------------------
// the run

func runAtRest(t *rapid.T) {
	r := core.Begin(t)
	seed := rapid.Uint64().Draw(t, "rngSeed")
	// randomness the standard library draws without a reader (ML-KEM key generation and encapsulation)
	cryptotest.SetGlobalRandom(outerT, seed)
	g := simrng.New(seed)
	defer simrng.Install(g)()
	w := &world{r: r, t: t, g: g}
	w.cfg.format = rapid.SampledFrom([]string{"binary", "json"}).Draw(t, "format")
	w.cfg.prot = rapid.SampledFrom([]string{"clear", "clear", "clear", "public", "public", "encrypted"}).Draw(t, "protection")
	w.msgLen = rapid.SampledFrom([]int{0, 1, 33}).Draw(t, "msgLen")
	{
		// the key-encryption AEAD (also needed to read a cleartext image with the wrong reader)
		e, _ := catalog.Find("aead/aesgcm/k32-iv12-t16/TINK")
		k, err := catalog.NewKey(e)
		if err != nil {
			t.Fatalf("harness: KEK: %v", err)
		}
		kh, err := catalog.HandleOf(k)
		if err != nil {
			t.Fatalf("harness: KEK: %v", err)
		}
		if w.kek, err = aead.New(kh); err != nil {
			t.Fatalf("harness: KEK: %v", err)
		}
		w.ad = rapid.SampledFrom([][]byte{nil, []byte("ad"), []byte("keyset-associated-data-0123456789")}).Draw(t, "kekAD")
	}
	w.logf("format=%s protection=%s", w.cfg.format, w.cfg.prot)

	// one keyset, written once by the real writer; then several independent storage experiments on its image
	b := w.buildKeyset("A", 5, "")
	medium, err := w.store(b, false, -1)
	if err != nil {
		t.Fatalf("harness: fault-free write failed: %v", err)
	}
	w.logf("stored %d bytes: %s", len(medium), core.Hex(medium, 64))
	orig := shapeOf(b.h)
	kt := dedupe(sorted(b.keyTypes))

	maxExp := 6
	if core.Thorough() {
		maxExp = 12
	}
	nExp := rapid.IntRange(1, maxExp).Draw(t, "experiments")
	for x := 0; x < nExp; x++ {
		if x > 0 {
			r = core.Begin(t)
			w.r = r
			for _, l := range w.header {
				r.Logf("%s", l)
			}
		}
		r.ObsS("keyset", strings.Join(b.keyTypes, ","))
		r.ObsI("medium-len", int64(len(medium)))
		sig, nontrivial := w.experiment(b, medium, orig)
		if dbgSigs {
			r.SetAdd("sigs", fmt.Sprintf("%s|%s|%s", w.cfg.format, strings.Join(kt, ","), sig))
		}
		r.End(fmt.Sprintf("%s|%s|%s", w.cfg.format, strings.Join(kt, ","), sig), nontrivial || len(b.special) > 0)
	}
}

func (w *world) logf(format string, args ...any) {
	if w.r.Tracing() {
		l := fmt.Sprintf(format, args...)
		w.header = append(w.header, l)
		w.r.Logf("%s", l)
	}
}

var plans = []string{"none", "medium", "medium", "medium", "medium", "medium", "medium", "medium", "medium", "cut", "torn-write", "struct", "struct", "wrong-reader", "weak", "weak"}

// experiment runs one storage experiment on the stored image of b and returns
// the rest of the run signature.
func (w *world) experiment(b *built, medium []byte, orig *shape) (string, bool) {
	t, r := w.t, w.r
	plan := rapid.SampledFrom(plans).Draw(t, "plan")
	r.Logf("--- experiment: %s", plan)
	saved := w.cfg
	defer func() { w.cfg = saved }()

	var fired []applied
	written := b.classes
	keyNote := ""
	switch plan {
	case "weak":
		// a keyset of its own: one hand-built key below the minimum strengths, maybe next to good keys
		var name string
		b, name = w.buildWeak()
		fired = append(fired, applied{"weak-key", name, ""})
		r.Fault("weak-key")
		r.Probe("weak-key-reached")
		written, orig, keyNote = b.classes, nil, "weak"
		var err error
		if medium, err = w.store(b, true, -1); err != nil {
			core.CountGlobal("direct-write-refused")
			return "weak-key@" + name + "|write-refused", true
		}
	case "struct":
		kind := rapid.SampledFrom(structEdits).Draw(t, "structEdit")
		ks := proto.Clone(b.ks).(*tinkpb.Keyset)
		if w.applyStruct(kind, ks) {
			b = &built{ks: ks, keyTypes: b.keyTypes, classes: b.classes, special: b.special}
			fired = append(fired, applied{kind, "proto", ""})
			r.Fault(kind)
			orig = nil
			var err error
			if medium, err = w.store(b, true, -1); err != nil {
				core.CountGlobal("direct-write-refused")
				return kind + "@proto|write-refused", true
			}
		}
	case "torn-write":
		// the device fails at c and keeps what fitted: the medium holds a prefix of the image
		l := walk(w.cfg.format, w.cfg.prot == "encrypted", medium)
		var failAt int
		switch rapid.IntRange(0, 2).Draw(t, "tornWhere") {
		case 0:
			bs := l.boundsUpTo(2)
			failAt = bs[rapid.IntRange(0, len(bs)-1).Draw(t, "tornBound")]
		case 1:
			bs := l.boundsUpTo(9)
			failAt = bs[rapid.IntRange(0, len(bs)-1).Draw(t, "tornBound")]
		default:
			failAt = rapid.IntRange(0, len(medium)).Draw(t, "tornAt")
		}
		failAt = max(0, min(failAt, len(medium)-1))
		if w.cfg.prot == "encrypted" {
			// writing again would encrypt again (new nonce): tear the bytes of the first write on a device instead
			dev := simio.NewDevice(failAt, true)
			if _, werr := dev.Write(medium); werr == nil {
				t.Fatalf("harness: the device did not fail")
			}
			medium = dev.Buf
		} else {
			torn, werr := w.store(b, false, failAt)
			if werr == nil {
				r.Logf("note: the writer reported success although the device failed at %d", failAt)
			}
			if string(torn) != string(medium[:failAt]) {
				t.Fatalf("harness: the torn write left %d bytes that are not the prefix [0,%d) of the full image", len(torn), failAt)
			}
			medium = torn
		}
		fired = append(fired, applied{fTornWrite, "device", fmt.Sprintf("device failed at %d", failAt)})
		r.Fault(fTornWrite)
		r.Probe("torn-write-prefix-read-back")
	}
	if w.r.Tracing() && (plan == "weak" || plan == "struct" || plan == "torn-write") {
		r.Logf("stored %d bytes: %s", len(medium), core.Hex(medium, 64))
	}

	readProt := w.cfg.prot
	var outcomes []string
	if plan == "cut" {
		sc := w.drawSrc(medium)
		cuts, cls := w.cutPoints(medium)
		r.Fault(fCut)
		acc := 0
		counts := map[string]int{}
		for i, c := range cuts {
			o := w.check(medium[:c], readProt, sc, orig, written, true, fmt.Sprintf("cut at %d (%s)", c, cls[i]))
			if strings.HasPrefix(o, "accepted") {
				acc++
				r.Probe("cut-image-accepted")
			}
			counts[cls[i]+":"+strings.SplitN(o, ":", 2)[0]]++
		}
		fired = append(fired, applied{fCut, "all-boundaries", fmt.Sprintf("%d cuts", len(cuts))})
		r.Logf("cut outcomes: %v", counts)
		outcomes = append(outcomes, fmt.Sprintf("acc%d", min(acc, 3)))
	} else {
		img := medium
		if plan == "medium" {
			nF := rapid.SampledFrom([]int{1, 1, 1, 1, 2, 3}).Draw(t, "nFaults")
			for i := 0; i < nF; i++ {
				kind := rapid.SampledFrom(mediumFaultsWeighted).Draw(t, "faultKind")
				if kind == fSplice && w.other == nil {
					cls := ""
					if len(b.classes) > 0 {
						cls = b.classes[0]
					}
					b2 := w.buildKeyset("B", 3, cls)
					var err error
					if w.other, err = w.store(b2, false, -1); err != nil {
						t.Fatalf("harness: fault-free write failed: %v", err)
					}
					w.otherClasses = b2.classes
				}
				if kind == fSplice {
					written = append(append([]string{}, written...), w.otherClasses...)
				}
				out, a, ok := w.applyFault(kind, img, w.other, fmt.Sprintf("f%d", i))
				if !ok {
					continue
				}
				img = out
				fired = append(fired, a)
				r.Fault(kind)
				r.Logf("fault %s on %s: %s", a.kind, a.target, a.note)
			}
		}
		if plan == "wrong-reader" {
			var others []string
			for _, p := range []string{"clear", "public", "encrypted"} {
				if p != w.cfg.prot {
					others = append(others, p)
				}
			}
			readProt = rapid.SampledFrom(others).Draw(t, "readAs")
			fired = append(fired, applied{fWrongReader, readProt, ""})
			r.Fault(fWrongReader)
			orig = nil
		}
		sc := w.drawSrc(img)
		faulted := len(fired) > 0 && plan != "weak"
		if plan == "weak" && b.weakEnabled() {
			w.weakExpect = b.weakKeyName
			w.weakClass = b.classes[0]
			w.weakPrimary = b.ks.PrimaryKeyId == b.weakID
			w.weakID, w.weakArrange = b.weakID, b.weakArrange
		}
		o := w.check(img, readProt, sc, orig, written, faulted, "image")
		w.weakExpect, w.weakArrange = "", nil
		outcomes = append(outcomes, o)
		for _, a := range fired {
			switch {
			case a.kind == fDup:
				if rules, _ := w.classify(img, readProt); contains(rules, "duplicate-id") {
					r.Probe("duplicate-id-image-by-block-duplication")
				}
			case a.kind == fSplice && strings.HasPrefix(o, "accepted"):
				r.Probe("splice-accepted")
			case a.kind == fEncInfo && strings.HasPrefix(o, "accepted"):
				r.Probe("keyset-info-flip-accepted")
			case a.kind == fEncCipher:
				if strings.HasPrefix(o, "rejected") {
					r.Probe("ciphertext-flip-rejected")
				} else if len(fired) == 1 && w.cfg.format == "binary" {
					r.Violation("C14/ciphertext-flip-accepted", "a single bit flip inside encrypted_keyset was not detected by the key-encryption AEAD")
				}
			}
		}
	}

	// one fault: kind and target class; several: the kinds only (keeps the signature space countable)
	var fs []string
	for _, a := range fired {
		if len(fired) == 1 {
			fs = append(fs, a.kind+"@"+a.target)
		} else {
			fs = append(fs, a.kind)
		}
	}
	if len(fs) > 1 {
		fs = dedupe(sorted(fs))
	}
	prot := w.cfg.prot
	if readProt != prot {
		prot += ">" + readProt
	}
	return fmt.Sprintf("%s%s|%s|%s", prot, keyNote, strings.Join(fs, "+"), strings.Join(outcomes, ";")), len(fired) > 0 || r.FaultsFired() > 0
}

func sorted(l []string) []string {
	out := append([]string{}, l...)
	sort.Strings(out)
	return out
}

func contains(l []string, s string) bool {
	for _, x := range l {
		if x == s {
			return true
		}
	}
	return false
}

func dedupe(l []string) []string {
	out := l[:0]
	for i, s := range l {
		if i == 0 || s != l[i-1] {
			out = append(out, s)
		}
	}
	return out
}
