package atrest

import (
	"bytes"
	"fmt"
	"math/big"
	"reflect"
	"sort"
	"strings"

	"github.com/tink-crypto/tink-go/v2/aead/aesctrhmac"
	"github.com/tink-crypto/tink-go/v2/aead/aesgcm"
	"github.com/tink-crypto/tink-go/v2/aead/aesgcmsiv"
	"github.com/tink-crypto/tink-go/v2/daead/aessiv"
	"github.com/tink-crypto/tink-go/v2/hybrid"
	"github.com/tink-crypto/tink-go/v2/internal/internalapi"
	"github.com/tink-crypto/tink-go/v2/internal/protoserialization"
	"github.com/tink-crypto/tink-go/v2/jwt"
	"github.com/tink-crypto/tink-go/v2/jwt/jwtrsassapkcs1"
	"github.com/tink-crypto/tink-go/v2/jwt/jwtrsassapss"
	"github.com/tink-crypto/tink-go/v2/key"
	"github.com/tink-crypto/tink-go/v2/keyderivation/prfbasedkeyderivation"
	"github.com/tink-crypto/tink-go/v2/keyset"
	"github.com/tink-crypto/tink-go/v2/mac/aescmac"
	"github.com/tink-crypto/tink-go/v2/mac/hmac"
	"github.com/tink-crypto/tink-go/v2/prf/aescmacprf"
	"github.com/tink-crypto/tink-go/v2/prf/hkdfprf"
	"github.com/tink-crypto/tink-go/v2/prf/hmacprf"
	tinkpb "github.com/tink-crypto/tink-go/v2/proto/tink_go_proto"
	"github.com/tink-crypto/tink-go/v2/signature"
	"github.com/tink-crypto/tink-go/v2/signature/ecdsa"
	"github.com/tink-crypto/tink-go/v2/signature/rsassapkcs1"
	"github.com/tink-crypto/tink-go/v2/signature/rsassapss"
	"github.com/tink-crypto/tink-go/v2/signature/slhdsa"
	saesctrhmac "github.com/tink-crypto/tink-go/v2/streamingaead/aesctrhmac"
	"github.com/tink-crypto/tink-go/v2/streamingaead/aesgcmhkdf"
	"github.com/tink-crypto/tink-go/v2/verifsim/classes"
	"github.com/tink-crypto/tink-go/v2/verifsim/core"
	"github.com/tink-crypto/tink-go/v2/verifsim/stubkm"
)

// guard runs f; a panic inside it is a C14 violation (rapid's own control
// panics pass through).
func (w *world) guard(where string, f func()) {
	defer func() {
		if p := recover(); p != nil {
			s := fmt.Sprintf("%T", p)
			if s == "rapid.stopTest" || s == "rapid.invalidData" {
				panic(p)
			}
			w.r.Violation("C14/panic:"+where, fmt.Sprintf("%v", p))
		}
	}()
	f()
}

// keyTypeName is a stable name for the concrete type of a key, e.g.
// "signature/ecdsa.PrivateKey".
func keyTypeName(k key.Key) string {
	if k == nil {
		return "nil"
	}
	t := reflect.TypeOf(k)
	for t.Kind() == reflect.Pointer {
		t = t.Elem()
	}
	p := t.PkgPath()
	if i := strings.Index(p, "tink-go/v2/"); i >= 0 {
		p = p[i+len("tink-go/v2/"):]
	}
	return p + "." + t.Name()
}

// classOfKey maps a parsed key to the primitive class whose factories take it.
func classOfKey(k key.Key) string {
	n := keyTypeName(k)
	switch {
	case strings.HasPrefix(n, "aead/"):
		return classes.AEAD
	case strings.HasPrefix(n, "daead/"):
		return classes.DAEAD
	case strings.HasPrefix(n, "mac/"):
		return classes.MAC
	case strings.HasPrefix(n, "prf/"):
		return classes.PRF
	case strings.HasPrefix(n, "signature/"):
		return classes.Signature
	case strings.HasPrefix(n, "hybrid/"):
		return classes.Hybrid
	case strings.HasPrefix(n, "jwt/jwthmac"):
		return classes.JWTMAC
	case strings.HasPrefix(n, "jwt/"):
		return classes.JWTSignature
	case strings.HasPrefix(n, "streamingaead/"):
		return classes.StreamingAEAD
	case strings.HasPrefix(n, "keyderivation/"):
		return classes.KeyDerivation
	}
	return ""
}

var stubClassByURL = map[string]string{
	stubkm.MACURL: classes.MAC, stubkm.AEADURL: classes.AEAD, stubkm.DAEADURL: classes.DAEAD,
	stubkm.SigPrivURL: classes.Signature, stubkm.SigPubURL: classes.Signature,
	stubkm.HybPrivURL: classes.Hybrid, stubkm.HybPubURL: classes.Hybrid,
	kmsEnvelopeURL: classes.AEAD,
}

// ---------------------------------------------------------------------------
// (2) well-formedness of an accepted handle

type shape struct {
	n        int
	ids      []uint32
	statuses []keyset.KeyStatus
	primary  int
	keys     []key.Key
	urls     []string
}

// wellFormed checks what C14 promises about an accepted handle, reading only
// the public accessors. The promise (at least one key, distinct IDs, exactly
// one ENABLED primary, only known statuses and prefix types) is held against
// each view the handle offers — Entry(i)/Primary() and KeysetInfo() — on its
// own; whether the views agree with each other is accessor coherence, which
// C14 does not state: disagreement is counted, not raised. It returns the
// handle's shape for the later oracles.
func (w *world) wellFormed(h *keyset.Handle, ctx string) *shape {
	r := w.r
	sh := &shape{primary: -1}
	if h == nil {
		r.Violation("C14/nil-handle-without-error", ctx+": the reader returned neither a handle nor an error")
		return nil
	}
	w.guard("handle-accessors", func() {
		// view 1: the entries
		sh.n = h.Len()
		if sh.n < 1 {
			r.Violation("C14/handle-without-keys", fmt.Sprintf("%s: accepted handle has %d keys", ctx, sh.n))
			return
		}
		seen := map[uint32]bool{}
		primaries := 0
		for i := 0; i < sh.n; i++ {
			e, err := h.Entry(i)
			if err != nil || e == nil {
				r.Violation("C14/handle-entry-error", fmt.Sprintf("%s: Entry(%d) of %d: %v", ctx, i, sh.n, err))
				return
			}
			id, st := e.KeyID(), e.KeyStatus()
			if seen[id] {
				r.Violation("C14/handle-duplicate-id", fmt.Sprintf("%s: key ID %d appears twice in the accepted handle", ctx, id))
				return
			}
			seen[id] = true
			if st != keyset.Enabled && st != keyset.Disabled && st != keyset.Destroyed {
				r.Violation("C14/handle-unknown-status", fmt.Sprintf("%s: entry %d (ID %d) has status %v", ctx, i, id, st))
				return
			}
			if e.IsPrimary() {
				primaries++
				sh.primary = i
				if st != keyset.Enabled {
					r.Violation("C14/handle-primary-not-enabled", fmt.Sprintf("%s: primary entry %d (ID %d) has status %v", ctx, i, id, st))
					return
				}
			}
			k := e.Key()
			if k == nil {
				r.Violation("C14/handle-nil-key", fmt.Sprintf("%s: entry %d (ID %d) has a nil key", ctx, i, id))
				return
			}
			sh.ids, sh.statuses, sh.keys = append(sh.ids, id), append(sh.statuses, st), append(sh.keys, k)
		}
		if primaries != 1 {
			r.Violation("C14/handle-primary-count", fmt.Sprintf("%s: %d primaries among %d entries", ctx, primaries, sh.n))
			return
		}
		// Primary(): what it returns must be an ENABLED key; whether it is the entry marked primary is coherence
		if p, err := h.Primary(); err == nil && p != nil {
			if p.KeyStatus() != keyset.Enabled {
				r.Violation("C14/handle-primary-not-enabled", fmt.Sprintf("%s: Primary() returns key %d with status %v", ctx, p.KeyID(), p.KeyStatus()))
				return
			}
			if !p.IsPrimary() || p.KeyID() != sh.ids[sh.primary] {
				r.Probe("accessor-views-disagree")
			}
		} else {
			r.Probe("accessor-views-disagree")
		}
		// view 2: KeysetInfo()
		info := h.KeysetInfo()
		kis := info.GetKeyInfo()
		if len(kis) < 1 {
			r.Violation("C14/handle-without-keys", fmt.Sprintf("%s: KeysetInfo of the accepted handle lists %d keys", ctx, len(kis)))
			return
		}
		seenInfo := map[uint32]bool{}
		infoPrimaries := 0
		for i, ki := range kis {
			switch ki.GetStatus() {
			case tinkpb.KeyStatusType_ENABLED, tinkpb.KeyStatusType_DISABLED, tinkpb.KeyStatusType_DESTROYED:
			default:
				r.Violation("C14/handle-unknown-status", fmt.Sprintf("%s: KeysetInfo entry %d has status %v", ctx, i, ki.GetStatus()))
				return
			}
			switch ki.GetOutputPrefixType() {
			case tinkpb.OutputPrefixType_TINK, tinkpb.OutputPrefixType_LEGACY, tinkpb.OutputPrefixType_RAW, tinkpb.OutputPrefixType_CRUNCHY:
			case tinkpb.OutputPrefixType_WITH_ID_REQUIREMENT:
				// a declared enum value the library's own ML-DSA serializer emits: a reader may know it or not
				r.Probe("handle-with-prefix-type-5")
			default:
				r.Violation("C14/handle-unknown-prefix", fmt.Sprintf("%s: KeysetInfo entry %d has prefix type %v", ctx, i, ki.GetOutputPrefixType()))
				return
			}
			if seenInfo[ki.GetKeyId()] {
				r.Violation("C14/handle-duplicate-id", fmt.Sprintf("%s: key ID %d appears twice in KeysetInfo of the accepted handle", ctx, ki.GetKeyId()))
				return
			}
			seenInfo[ki.GetKeyId()] = true
			if ki.GetKeyId() == info.GetPrimaryKeyId() {
				infoPrimaries++
				if ki.GetStatus() != tinkpb.KeyStatusType_ENABLED {
					r.Violation("C14/handle-primary-not-enabled", fmt.Sprintf("%s: KeysetInfo primary %d has status %v", ctx, ki.GetKeyId(), ki.GetStatus()))
					return
				}
			}
		}
		if infoPrimaries != 1 {
			r.Violation("C14/handle-primary-count", fmt.Sprintf("%s: KeysetInfo names primary %d, which %d of its %d entries carry", ctx, info.GetPrimaryKeyId(), infoPrimaries, len(kis)))
			return
		}
		// coherence of the two views (not part of the statement)
		coherent := len(kis) == sh.n && info.GetPrimaryKeyId() == sh.ids[sh.primary]
		for i := 0; coherent && i < sh.n; i++ {
			coherent = kis[i].GetKeyId() == sh.ids[i]
		}
		if !coherent {
			r.Probe("accessor-views-disagree")
		}
		for i := 0; i < sh.n; i++ {
			if coherent {
				sh.urls = append(sh.urls, kis[i].GetTypeUrl())
			} else {
				sh.urls = append(sh.urls, "")
			}
		}
	})
	if len(sh.keys) != sh.n || len(sh.urls) != sh.n || sh.n == 0 || sh.primary < 0 {
		return nil
	}
	return sh
}

// classesOf lists the classes worth trying on an accepted handle: those of
// its parsed keys (fallback keys: by stub type URL) and those written.
func (w *world) classesOf(sh *shape, written []string) []string {
	set := map[string]bool{}
	for _, c := range written {
		if c != "" {
			set[c] = true
		}
	}
	for i, k := range sh.keys {
		if c := classOfKey(k); c != "" {
			set[c] = true
		} else if c, ok := stubClassByURL[sh.urls[i]]; ok {
			set[c] = true
			w.r.Probe("fallback-key-reached")
		} else {
			w.r.Probe("fallback-key-reached")
			if !strings.HasPrefix(sh.urls[i], "type.googleapis.com/verifsim.") {
				w.r.Probe("unknown-type-url-key-accepted")
			}
		}
	}
	out := core.SortedKeys(set)
	sort.Strings(out)
	return out
}

// ---------------------------------------------------------------------------
// (4) minimum strengths, read through the public accessors of the parsed key

func rsaWeak(modulus []byte, e int) string {
	if new(big.Int).SetBytes(modulus).BitLen() < 2048 {
		return ruleRSAMod
	}
	if e != 65537 {
		return ruleRSAExp
	}
	return ""
}

func aesBad(n int) bool { return n != 16 && n != 32 }

// weakness returns the rule an accepted key breaks, or "".
func weakness(k key.Key) string {
	switch x := k.(type) {
	case *hmac.Key:
		p := x.Parameters().(*hmac.Parameters)
		if p.KeySizeInBytes() < 16 || x.KeyBytes().Len() < 16 {
			return ruleHMACKey
		}
		if p.CryptographicTagSizeInBytes() < 10 {
			return ruleHMACTag
		}
	case *aesgcm.Key:
		if aesBad(x.Parameters().(*aesgcm.Parameters).KeySizeInBytes()) || aesBad(x.KeyBytes().Len()) {
			return ruleAESKey
		}
	case *aesgcmsiv.Key:
		if aesBad(x.KeyBytes().Len()) {
			return ruleAESKey
		}
	case *aesctrhmac.Key:
		p := x.Parameters().(*aesctrhmac.Parameters)
		if aesBad(p.AESKeySizeInBytes()) || aesBad(x.AESKeyBytes().Len()) {
			return ruleAESKey
		}
		if p.HMACKeySizeInBytes() < 16 || x.HMACKeyBytes().Len() < 16 {
			return ruleHMACKey
		}
		if p.TagSizeInBytes() < 10 {
			return ruleHMACTag
		}
	case *aescmac.Key:
		if aesBad(x.KeyBytes().Len()) {
			return ruleAESKey
		}
	case *aescmacprf.Key:
		if aesBad(x.KeyBytes().Len()) {
			return ruleAESKey
		}
	case *aessiv.Key:
		// two AES keys of equal size
		if n := x.KeyBytes().Len(); n%2 != 0 || aesBad(n/2) {
			return ruleAESKey
		}
	case *hmacprf.Key:
		if x.KeyBytes().Len() < 16 {
			return ruleHMACKey
		}
	case *hkdfprf.Key:
		if x.KeyBytes().Len() < 32 {
			return ruleHKDFKey
		}
	case *aesgcmhkdf.Key:
		if aesBad(x.Parameters().(*aesgcmhkdf.Parameters).DerivedKeySizeInBytes()) {
			return ruleAESKey
		}
	case *saesctrhmac.Key:
		p := x.Parameters().(*saesctrhmac.Parameters)
		if aesBad(p.DerivedKeySizeInBytes()) {
			return ruleAESKey
		}
		if p.HmacTagSizeInBytes() < 10 {
			return ruleHMACTag
		}
	case *rsassapkcs1.PublicKey:
		return rsaWeak(x.Modulus(), x.Parameters().(*rsassapkcs1.Parameters).PublicExponent())
	case *rsassapkcs1.PrivateKey:
		if pk, err := x.PublicKey(); err == nil {
			return weakness(pk)
		}
	case *rsassapss.PublicKey:
		return rsaWeak(x.Modulus(), x.Parameters().(*rsassapss.Parameters).PublicExponent())
	case *rsassapss.PrivateKey:
		if pk, err := x.PublicKey(); err == nil {
			return weakness(pk)
		}
	case *jwtrsassapkcs1.PublicKey:
		return rsaWeak(x.Modulus(), x.Parameters().(*jwtrsassapkcs1.Parameters).PublicExponent())
	case *jwtrsassapkcs1.PrivateKey:
		if pk, err := x.PublicKey(); err == nil {
			return weakness(pk)
		}
	case *jwtrsassapss.PublicKey:
		return rsaWeak(x.Modulus(), x.Parameters().(*jwtrsassapss.Parameters).PublicExponent())
	case *jwtrsassapss.PrivateKey:
		if pk, err := x.PublicKey(); err == nil {
			return weakness(pk)
		}
	case *ecdsa.PublicKey:
		p := x.Parameters().(*ecdsa.Parameters)
		switch p.CurveType() {
		case ecdsa.NistP384:
			if p.HashType() != ecdsa.SHA384 && p.HashType() != ecdsa.SHA512 {
				return ruleECDSAHsh
			}
		case ecdsa.NistP521:
			if p.HashType() != ecdsa.SHA512 {
				return ruleECDSAHsh
			}
		}
	case *ecdsa.PrivateKey:
		if pk, err := x.PublicKey(); err == nil {
			return weakness(pk)
		}
	case *prfbasedkeyderivation.Key:
		if pk := x.PRFKey(); pk != nil {
			return weakness(pk)
		}
	}
	return ""
}

// ---------------------------------------------------------------------------
// (3) + (4): primitives from an accepted handle

type useResult struct {
	built   []string // classes whose factories built both sides
	refused int
}

func isSLHDSAPrivate(k key.Key) bool {
	_, ok := k.(*slhdsa.PrivateKey)
	return ok
}

// exercise builds every primitive the class factories agree to build from h
// and checks it for self-consistency; keys below the minimum strengths must
// not get that far.
func (w *world) exercise(h *keyset.Handle, sh *shape, written []string, ctx string, depth int) useResult {
	r := w.r
	var res useResult
	primaryKey := sh.keys[sh.primary]
	pkt := keyTypeName(primaryKey)
	if _, fb := primaryKey.(*protoserialization.FallbackProtoKey); fb {
		pkt += ":" + strings.TrimPrefix(sh.urls[sh.primary], "type.googleapis.com/")
	}
	if _, fb := primaryKey.(*protoserialization.FallbackProtoPrivateKey); fb {
		pkt += ":" + strings.TrimPrefix(sh.urls[sh.primary], "type.googleapis.com/")
	}
	// ENABLED keys of the handle below the stated minimum strengths: those the accessors show, and the hand-built one
	type weakUse struct {
		vkey, what, class string
		primary, hand     bool
		idx               int
	}
	var weak []weakUse
	w.guard("key-accessors", func() {
		for i, k := range sh.keys {
			if sh.statuses[i] != keyset.Enabled {
				continue
			}
			if rule := weakness(k); rule != "" {
				weak = append(weak, weakUse{vkey: fmt.Sprintf("C14/weak-key-usable:%s:%s", keyTypeName(k), rule),
					what: fmt.Sprintf("the ENABLED %s key breaking %q", keyTypeName(k), rule), class: classOfKey(k), primary: i == sh.primary, idx: i})
			}
		}
	})
	if len(weak) > 0 {
		r.Probe("weak-key-accepted-by-reader")
	}
	if w.weakExpect != "" && depth == 0 {
		for i := range sh.keys {
			if sh.ids[i] == w.weakID && sh.statuses[i] == keyset.Enabled {
				weak = append(weak, weakUse{vkey: "C14/weak-key-built:" + w.weakExpect, what: "the hand-built weak key " + w.weakExpect + " (ENABLED)",
					class: w.weakClass, primary: i == sh.primary, hand: true, idx: i})
			}
		}
	}
	// "Never yield a usable primitive": a factory that returns an object is not yet a finding (it may fail on every
	// use); a finding needs a primitive that USES the weak key and WORKED. Producing primitives (and the hybrid
	// encrypter) use the primary only; accepting primitives use every enabled key of their class — for those a valid
	// input made with the weak key has to be arranged (the producer's output when the weak key is the primary, else
	// the output of a producer built from the weak key alone); where none can be arranged a probe is counted.
	worked := func(wk weakUse, class, side, how string) {
		r.Violation(wk.vkey, fmt.Sprintf("%s: a %s %s primitive that uses %s worked: %s", ctx, class, side, wk.what, how))
	}
	builtWithWeak := func(class string, producing bool) []weakUse {
		var out []weakUse
		for _, wk := range weak {
			if wk.class == class && (wk.primary || !producing) {
				out = append(out, wk)
			}
		}
		if len(out) > 0 {
			r.Probe("weak-key-primitive-built")
		}
		return out
	}
	// alone: a valid input made with the weak key as the only key of a handle (built through the public manager API
	// from the accepted entry); a producer that works there is a finding already
	alone := func(wk weakUse, class string, msg, aux []byte) []byte {
		var out []byte
		w.guard("use:"+class+":weak-key-alone", func() {
			m := keyset.NewManager()
			if _, err := m.AddKeyWithOpts(sh.keys[wk.idx], internalapi.Token{}, keyset.AsPrimary()); err != nil {
				return
			}
			h1, err := m.Handle()
			if err != nil {
				return
			}
			p1, err := classes.NewProducer(class, h1)
			if err != nil || p1 == nil {
				return
			}
			o, err := p1.Produce(msg, aux)
			if err != nil {
				return
			}
			worked(wk, class, "producing", "built from that key alone, it produced an output")
			out = o
		})
		return out
	}
	msg := w.g.Bytes(12, 0, w.msgLen)
	aux := []byte("atrest-aux")
	// a handle whose primary is a public key: only the public half was stored
	publicOnly := strings.HasSuffix(keyTypeName(primaryKey), ".PublicKey") || sh.urls[sh.primary] == stubkm.SigPubURL || sh.urls[sh.primary] == stubkm.HybPubURL

	for _, class := range w.classesOf(sh, written) {
		if class == classes.AEAD && kmsUnsafe(h) {
			// a storage fault put an absurd size into the DEK template of a KMS-envelope key: using the primitive would ask
			// the allocator for that much key material on every Encrypt
			core.CountGlobal("kms-envelope-dek-size-too-large-to-exercise")
			continue
		}
		if publicOnly {
			// only the public half was stored: build and poke the public-side primitives
			ok := false
			switch class {
			case classes.Signature:
				var v interface{ Verify(sig, data []byte) error }
				var err error
				w.guard("factory:signature-verifier", func() { v, err = signature.NewVerifier(h) })
				if err == nil && v != nil {
					ok = true
					w.guard("use:signature-verifier:"+pkt, func() { _ = v.Verify(w.g.Bytes(12, 64, 64+5*w.msgLen), msg) })
					for _, wk := range builtWithWeak(class, false) {
						// a successful verification needs a signature made with the private half: the harness holds it for hand-built keys only
						var sig []byte
						if wk.hand && w.weakArrange != nil {
							sig, _ = w.weakArrange(msg)
						}
						if sig == nil {
							r.Probe("weak-key-no-successful-use-arranged")
							continue
						}
						w.guard("use:signature-verifier:"+pkt, func() {
							if v.Verify(sig, msg) == nil {
								worked(wk, class, "verifying", "it verified a signature made with the private half")
							} else {
								r.Probe("weak-key-primitive-never-worked")
							}
						})
					}
				}
			case classes.Hybrid:
				var e interface {
					Encrypt(pt, info []byte) ([]byte, error)
				}
				var err error
				w.guard("factory:hybrid-encrypt", func() { e, err = hybrid.NewHybridEncrypt(h) })
				if err == nil && e != nil {
					ok = true
					uses := builtWithWeak(class, true)
					w.guard("use:hybrid-encrypt:"+pkt, func() {
						ct, err := e.Encrypt(msg, aux)
						r.ObsErr("use hybrid-encrypt", err)
						if err == nil && len(ct) == 0 {
							r.Violation("C14/inconsistent:hybrid-encrypt:"+pkt, ctx+": Encrypt returned an empty ciphertext without error")
						}
						if err == nil {
							for _, wk := range uses {
								worked(wk, class, "encrypting", "Encrypt succeeded")
							}
						}
					})
				}
			case classes.JWTSignature:
				var v jwt.Verifier
				var err error
				w.guard("factory:jwt-verifier", func() { v, err = jwt.NewVerifier(h) })
				if err == nil && v != nil {
					ok = true
					uses := builtWithWeak(class, false)
					w.guard("use:jwt-verifier:"+pkt, func() {
						val, verr := jwt.NewValidator(&jwt.ValidatorOpts{AllowMissingExpiration: true})
						if verr != nil {
							return
						}
						_, _ = v.VerifyAndDecode("eyJhbGciOiJFUzI1NiJ9.e30.AAAA", val)
						for _, wk := range uses {
							var tok []byte
							if wk.hand && w.weakArrange != nil {
								tok, _ = w.weakArrange(msg)
							}
							if tok == nil {
								r.Probe("weak-key-no-successful-use-arranged")
								continue
							}
							if _, err := v.VerifyAndDecode(string(tok), val); err == nil {
								worked(wk, class, "verifying", "it verified a token signed with the private half")
							} else {
								r.Probe("weak-key-primitive-never-worked")
							}
						}
					})
				}
			}
			if ok {
				res.built = append(res.built, class+"(pub)")
			} else {
				res.refused++
			}
			continue
		}
		var prod *classes.Producer
		var acc *classes.Acceptor
		var perr, aerr error
		w.guard("factory:"+class+":producer", func() { prod, perr = classes.NewProducer(class, h) })
		if class != classes.KeyDerivation {
			w.guard("factory:"+class+":acceptor", func() { acc, aerr = classes.NewAcceptor(class, h) })
		}
		prodOK := perr == nil && prod != nil
		accOK := aerr == nil && acc != nil
		if prodOK || accOK {
			// (4): did a primitive that uses a weak key work?
			var pw, aw []weakUse
			if prodOK {
				pw = builtWithWeak(class, true)
			}
			if accOK {
				aw = builtWithWeak(class, false)
			}
			if len(pw)+len(aw) > 0 {
				w.guard("use:"+class+":"+pkt, func() {
					var out []byte
					if prodOK {
						if o, err := prod.Produce(msg, aux); err == nil {
							out = o
							for _, wk := range pw {
								worked(wk, class, "producing", "it produced an output")
							}
						}
					}
					for _, wk := range aw {
						in := out
						if !wk.primary || in == nil {
							in = alone(wk, class, msg, aux)
						}
						if in == nil {
							r.Probe("weak-key-no-successful-use-arranged")
							continue
						}
						if acc.Accept(in, msg, aux) == nil {
							worked(wk, class, "accepting", "it accepted an output made with that key")
						} else {
							r.Probe("weak-key-primitive-never-worked")
						}
					}
					if len(aw) == 0 && out == nil {
						r.Probe("weak-key-primitive-never-worked")
					}
				})
			}
		}
		if !prodOK || (class != classes.KeyDerivation && !accOK) {
			res.refused++
			r.Logf("  %s: factory refuses (producer: %v, acceptor: %v)", class, perr, aerr)
			continue
		}
		res.built = append(res.built, class)
		slh := isSLHDSAPrivate(primaryKey)
		if slh && !w.signSLH(primaryKey) {
			r.Probe("slhdsa-primary-built-not-signed")
			continue
		}
		w.guard("use:"+class+":"+pkt, func() {
			out, err := prod.Produce(msg, aux)
			if err != nil {
				// no output escaped; the property speaks about outputs of created primitives
				r.Probe("produce-error-on-accepted-handle")
				r.Logf("  %s: produce fails: %v", class, err)
				return
			}
			if prod.Deterministic {
				out2, err2 := prod.Produce(msg, aux)
				if err2 != nil || !bytes.Equal(out, out2) {
					r.Violation("C14/inconsistent:"+class+":"+pkt, fmt.Sprintf("%s: a deterministic %s primitive gave two different outputs for one input (second error: %v)", ctx, class, err2))
				}
			}
			if class == classes.KeyDerivation {
				w.derived(prod, msg, ctx, pkt, depth)
				return
			}
			if err := acc.Accept(out, msg, aux); err != nil {
				if slh {
					r.Probe("slhdsa-inconsistency-excepted")
					return
				}
				r.Violation("C14/inconsistent:"+class+":"+pkt, fmt.Sprintf("%s: the %s primitive built from the accepted handle does not accept its own output: %v", ctx, class, err))
			}
			r.Probe("round-trip-on-read-back-handle")
		})
		// "using a primitive from an accepted handle never panics" also holds for inputs nobody produced: the accepting
		// side is poked with the empty input, with every leading part of every key's output prefix (an input shorter
		// than a prefix), and with a bare prefix plus one byte. What it answers is not judged.
		if class != classes.KeyDerivation {
			w.guard("use:"+class+":short-input:"+pkt, func() {
				pokes := [][]byte{nil, {}, {0}, {1}}
				for i := range sh.keys {
					id := sh.ids[i]
					for _, lead := range []byte{0x00, 0x01} {
						pfx := []byte{lead, byte(id >> 24), byte(id >> 16), byte(id >> 8), byte(id)}
						for k := 1; k <= 5; k++ {
							pokes = append(pokes, append([]byte{}, pfx[:k]...))
							// trailing zero bytes of the prefix left off: what a zero-extending lookup would match
							if pfx[k-1] != 0 && allZero(pfx[k:]) {
								r.Probe("short-input-matching-a-prefix-up-to-zero-bytes")
							}
						}
						pokes = append(pokes, append(append([]byte{}, pfx...), 0x5a))
					}
				}
				for _, in := range pokes {
					_ = acc.Accept(in, msg, aux)
				}
				r.Probe("acceptor-poked-with-short-inputs")
			})
		}
	}
	return res
}

// signSLH says whether an SLH-DSA signature is affordable in this tier (the
// property excepts SLH-DSA private keys from self-consistency anyway).
func (w *world) signSLH(k key.Key) bool {
	if !core.Thorough() {
		return false
	}
	p, ok := k.Parameters().(*slhdsa.Parameters)
	return ok && p.SignatureType() == slhdsa.FastSigning && p.KeySize() == 64
}

// derived checks a keyset deriver built from an accepted handle: the derived
// handle must itself be well-formed, equal on repetition, and usable.
func (w *world) derived(prod *classes.Producer, salt []byte, ctx, pkt string, depth int) {
	d, ok := prod.Raw.(interface {
		DeriveKeyset(salt []byte) (*keyset.Handle, error)
	})
	if !ok || depth > 0 {
		return
	}
	h1, err1 := d.DeriveKeyset(salt)
	h2, err2 := d.DeriveKeyset(salt)
	if err1 != nil || err2 != nil {
		return
	}
	s1 := w.wellFormed(h1, ctx+" (derived keyset)")
	s2 := w.wellFormed(h2, ctx+" (derived keyset, again)")
	if s1 == nil || s2 == nil {
		return
	}
	same := s1.n == s2.n
	for i := 0; same && i < s1.n; i++ {
		same = s1.ids[i] == s2.ids[i] && s1.keys[i].Equal(s2.keys[i])
	}
	if !same {
		w.r.Violation("C14/inconsistent:keyderivation:"+pkt, ctx+": deriving twice with one salt gave two different keysets")
	}
	w.r.Probe("derived-keyset-exercised")
	w.exercise(h1, s1, nil, ctx+" (derived keyset)", depth+1)
}

func allZero(b []byte) bool {
	for _, x := range b {
		if x != 0 {
			return false
		}
	}
	return true
}
