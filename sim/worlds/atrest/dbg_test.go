package atrest

import (
	"testing"

	"github.com/tink-crypto/tink-go/v2/insecurecleartextkeyset"
	"github.com/tink-crypto/tink-go/v2/internal/protoserialization"
	"github.com/tink-crypto/tink-go/v2/verifsim/catalog"
)

func TestDbgPool(t *testing.T) {
	for c, l := range costly {
		for i, e := range l {
			k, _, err := catalog.PoolKey(e, 0, 77)
			if err != nil {
				t.Logf("%s %d %s poolkey: %v", c, i, e.Name, err)
				continue
			}
			h, err := catalog.HandleOf(k)
			if err != nil {
				t.Logf("%s %d %s handleof: %v", c, i, e.Name, err)
				continue
			}
			if insecurecleartextkeyset.KeysetMaterial(h) == nil {
				_, err := protoserialization.SerializeKey(k)
				t.Logf("%s %d %s material nil: %v", c, i, e.Name, err)
			}
		}
	}
}
