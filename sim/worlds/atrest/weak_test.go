package atrest

import (
	"crypto"
	"crypto/ecdh"
	"crypto/ecdsa"
	"crypto/elliptic"
	"crypto/rand"
	"crypto/rsa"
	"crypto/sha256"
	"encoding/base64"
	"encoding/hex"
	"math/big"
	"strings"

	"google.golang.org/protobuf/proto"
	"google.golang.org/protobuf/reflect/protoreflect"
	"google.golang.org/protobuf/reflect/protoregistry"
	"pgregory.net/rapid"

	cmacpb "github.com/tink-crypto/tink-go/v2/proto/aes_cmac_go_proto"
	cmacprfpb "github.com/tink-crypto/tink-go/v2/proto/aes_cmac_prf_go_proto"
	ctrpb "github.com/tink-crypto/tink-go/v2/proto/aes_ctr_go_proto"
	ctrhmacpb "github.com/tink-crypto/tink-go/v2/proto/aes_ctr_hmac_aead_go_proto"
	ctrhmacstreampb "github.com/tink-crypto/tink-go/v2/proto/aes_ctr_hmac_streaming_go_proto"
	gcmpb "github.com/tink-crypto/tink-go/v2/proto/aes_gcm_go_proto"
	gcmhkdfpb "github.com/tink-crypto/tink-go/v2/proto/aes_gcm_hkdf_streaming_go_proto"
	gcmsivpb "github.com/tink-crypto/tink-go/v2/proto/aes_gcm_siv_go_proto"
	sivpb "github.com/tink-crypto/tink-go/v2/proto/aes_siv_go_proto"
	commonpb "github.com/tink-crypto/tink-go/v2/proto/common_go_proto"
	ecdsapb "github.com/tink-crypto/tink-go/v2/proto/ecdsa_go_proto"
	hkdfprfpb "github.com/tink-crypto/tink-go/v2/proto/hkdf_prf_go_proto"
	hmacpb "github.com/tink-crypto/tink-go/v2/proto/hmac_go_proto"
	hmacprfpb "github.com/tink-crypto/tink-go/v2/proto/hmac_prf_go_proto"
	jwtrsapb "github.com/tink-crypto/tink-go/v2/proto/jwt_rsa_ssa_pkcs1_go_proto"
	jwtpsspb "github.com/tink-crypto/tink-go/v2/proto/jwt_rsa_ssa_pss_go_proto"
	prfderpb "github.com/tink-crypto/tink-go/v2/proto/prf_based_deriver_go_proto"
	rsapkcs1pb "github.com/tink-crypto/tink-go/v2/proto/rsa_ssa_pkcs1_go_proto"
	rsapsspb "github.com/tink-crypto/tink-go/v2/proto/rsa_ssa_pss_go_proto"
	tinkpb "github.com/tink-crypto/tink-go/v2/proto/tink_go_proto"
	"github.com/tink-crypto/tink-go/v2/verifsim/catalog"
)

// Keys below the minimum strengths the property lists, hand-built as protos
// (no tink constructor would produce them) and fed through the same writers,
// medium and readers. Expected: the reader refuses the keyset, or the handle
// is accepted but no factory builds a primitive from it.

const tu = "type.googleapis.com/google.crypto.tink."

// The strength rules, named as in the property text.
const (
	ruleHMACKey  = "hmac-key-under-16"
	ruleHMACTag  = "hmac-tag-under-10"
	ruleAESKey   = "aes-key-not-16-or-32"
	ruleRSAMod   = "rsa-modulus-under-2048"
	ruleRSAExp   = "rsa-exponent-not-65537"
	ruleECDSAHsh = "ecdsa-hash-weaker-than-curve"
	ruleHKDFKey  = "hkdf-prf-key-under-32"
)

type weakKey struct {
	name    string
	rule    string
	class   string // catalog class whose factories must refuse it
	data    *tinkpb.KeyData
	sibling string // catalog entry (same class, same key material kind) that may share the keyset
	// public weak keys: sign makes a raw signature over data with the private half the harness holds (for jwt: over the
	// signing input); it is how a SUCCESSFUL use of a verifier built from the weak key can be arranged
	sign   func(data []byte) ([]byte, error)
	jwtAlg string
}

// arranged wraps wk.sign into a complete valid input for the keyset-level verifier: output prefix + signature, or a
// compact JWT (kid header for TINK keys) whose subject is the one classes.checkSubject would expect.
func arranged(wk weakKey, pfx tinkpb.OutputPrefixType, id uint32) func(msg []byte) ([]byte, error) {
	idb := []byte{byte(id >> 24), byte(id >> 16), byte(id >> 8), byte(id)}
	if wk.jwtAlg == "" {
		return func(msg []byte) ([]byte, error) {
			sig, err := wk.sign(msg)
			if err != nil {
				return nil, err
			}
			if pfx == tinkpb.OutputPrefixType_TINK {
				return append(append([]byte{0x01}, idb...), sig...), nil
			}
			return sig, nil
		}
	}
	return func(msg []byte) ([]byte, error) {
		hdr := `{"alg":"` + wk.jwtAlg + `"`
		if pfx == tinkpb.OutputPrefixType_TINK {
			hdr += `,"kid":"` + base64.RawURLEncoding.EncodeToString(idb) + `"`
		}
		hdr += "}"
		in := base64.RawURLEncoding.EncodeToString([]byte(hdr)) + "." + base64.RawURLEncoding.EncodeToString([]byte(`{"sub":"m`+hex.EncodeToString(msg)+`"}`))
		sig, err := wk.sign([]byte(in))
		if err != nil {
			return nil, err
		}
		return []byte(in + "." + base64.RawURLEncoding.EncodeToString(sig)), nil
	}
}

func (f rsaFixed) goKey(e int) *rsa.PrivateKey {
	k := &rsa.PrivateKey{PublicKey: rsa.PublicKey{N: hexInt(f.n), E: e}, D: hexInt(f.d), Primes: []*big.Int{hexInt(f.p), hexInt(f.q)}}
	k.Precompute()
	return k
}

func rsaSigner(k *rsa.PrivateKey, pss bool) func([]byte) ([]byte, error) {
	return func(data []byte) ([]byte, error) {
		d := sha256.Sum256(data)
		if pss {
			return rsa.SignPSS(rand.Reader, k, crypto.SHA256, d[:], &rsa.PSSOptions{SaltLength: 32, Hash: crypto.SHA256})
		}
		return rsa.SignPKCS1v15(nil, k, crypto.SHA256, d[:])
	}
}

func ecdsaSigner(c elliptic.Curve, d []byte, h crypto.Hash) func([]byte) ([]byte, error) {
	return func(data []byte) ([]byte, error) {
		k, err := ecdsa.ParseRawPrivateKey(c, d)
		if err != nil {
			return nil, err
		}
		hh := h.New()
		hh.Write(data)
		return ecdsa.SignASN1(rand.Reader, k, hh.Sum(nil))
	}
}

type rsaFixed struct{ n, p, q, d string }

// Fixed RSA test keys (generated once for this file; TEST KEYS ONLY).
var (
	rsa1024 = rsaFixed{ // 1024-bit modulus, e = 65537
		n: "a99458d7343db2501f0e8b89fd7af492c444409d5ba502a77af5940d4299f0b9a0932e4e542788497812275a535e199d12e740ec3a4348e6c3260fce41ed3a0b85008ab33eeee69c1f9689d7736d743b411eeb7e6c067c97131b3b74e7dd40bd16f9f867f0296f08c3dfd7e785e782da9dd1815050e29126d612ab9149ca79b3",
		p: "d89ea0b78ab98ad5a832cb48cf2c939c0a5497a0e528a5d59dfe4635649bd0f9371b5950fb3b8c5dc4ab9dac6ad9de3cd39963ffc7c1f3b84709d595c88927c5",
		q: "c8687e42b52b15fa76fbafb0a3e534a2e27eb56754da1ccc6d525b5aa8ef5be4cc6f9588e70b30e7ca4328300a9ad5e3ff0d16887f30bf60b892a06eeb6fbb17",
		d: "36b40118a2e48821ea72d1b698cb521c0a2e0e3df4b33d30f3ac46af245dee56a322f75c132f917a49be696d6cd93d1ffb5a180a5c1d1a663e6b87cbbc5e9f4b537c4130b32d0828efb4a19f21b470bd7c1fcca54a2b0390b48bb9ab267635accf63114cfed3b30e4a84bd924e230ae6ca503de6c7b5d606d6b8d93b5994fbb9"}
	rsa2048e3 = rsaFixed{ // 2048-bit modulus, e = 3
		n: "b16f87699b60e42e0c96a57bc05fcc34a7c4732c7c8512484c8cf5979d9035398679079432ea3a4292407da9c1446cc53da31e2d963a54db9f449152d89e595fbad9cd1d8b2b7686786d9ecef4dc24aeb18cff350f4d28d14f42005336f2395597c79f100782ca4569ad9f3eb0c7b83f05652aa03bffad8150c0db9b85ccbcc96d8df1203583976c90f0a185003e4af97f25ff0bba622f536ec7e22b6b6c8f9e4c2aac8f21be57f8f6a56d4243ff94a93f460b3d97ae24a1392b81a04ccb6c1c57a355554efd6480201c531a236e2091a70e8381ab5afe1ec639790d07e71ee034e23de9be63d20c489999ffa60df688045dc4711248610fb7e66254da0517ed",
		p: "eac7d2753ca5f093b581c426b07cf25e6628994c66ba2969bced5be818134167bda74ecc5341526e6c0582f502a1142da24b039e3ade3553a636d3e7f8d9ce6e884a6a4072c679d8434137692af143f4636488a272f1b663c0d41b08559cf38236ee0734b1916c21ebfb4cf2eb0fc493585d60bb7b8dbe09fb67401be320559f",
		q: "c178e73f86cb0316888f9434a173cc2bcdcb579ac5f79bccef0fe55a59c5e04f5d5b8490002f13ad71942d45881dafb49c2ccb223a05ca3ae4a42484c2ab8bc11d53b04ff960f20ca6ee5d5b3688063e64ab3aa62de25128e5dd3db1002d82f3cce5d5782bd8bb3d68ed9a6f93d60dd4bb51b5a7574fce5abbf919862f06eef3",
		d: "764a5a466795ed7408646e52803fdd786fd84cc853036185885df90fbe60237baefb5a62cc9c26d70c2afe712b82f32e29176973b97c38926a2db6373b143b95273bde13b21cf9aefaf3bf34a33d6dc9cbb354ce0a33708b8a2c003779f6d0e3ba8514b55a5731839bc914d475da7ad4ae4371c027ffc900e0809267ae887dda80de24f24c0c6d2c373f861bc989084a32215ec3092046bdd731c09b510cf3ef761a90cc89894be8bb5d28afd0d5e084ab3428536c86c361c98b062260d9614876ae272dec8ea5bcce9dd4392bf88ee9e9ff2ad0b1af4f0c15056ae276bdc59c20b440d340a671c8a275cc68c4c56d6aa07474097f9c8dc755aeb0772fe93793"}
	rsa2048e65539 = rsaFixed{ // 2048-bit modulus, e = 65539
		n: "b80cb10e5aa39f9a829e4ecb10b424e5ade110b981bccece8bc35de5a513172b277b9c861bfafb82760f1aa1dea83697858d2e7a92188b464f7ede5f524a696621a9a73926000ab4f7ba89a22ea4b999232b98a3eb1d78a74710a2decfec4e2d1afeba549076cf3ef6f3f5e6e0a9af9876d91ab87288610f3cb0847d012cc1a07f474bdaa5023b3bbdf5b397f56fe908c585329fb42bc11fd10bf555d0920d15e424ec03a666a8e38819d3284ef59c19ce25254ee087dab987515a18828642ed02b0f5360ad0d5371fcff42c356b5505714ca3f67db3fe12b00af6c8cb5bf8594ebf4f7703de696fcf942afe4892cf237abbb7922dbbc1779d1a524fbd19c5a9",
		p: "d439cf79383ac6f67d0a0e3ff9e9a48130aba1e0392b4826bce50b2a829db8a77a092e4bd6a732257e6897d0c9215f1e12b808713ee0136fcc0305199d6305d4de12a37e56ee5036b8bef10e92613401b2b6708605d157c5874dfef75708663762564538c0f56191d275f7138931ca9e396a600f6573545e7a7b260dda06cd91",
		q: "de0316448eaa90991548a4793910ca701ba153b8312a3a91251e4dbed6f9ec28dca3691b7ffff269cf037d38dab0a9afadf019f3e2a8da4af7642fef265954dec45b8a1a9aba481d28bed771ab36ad07cb9a84e2a206ba5298cb7db6d90baf952250763447d4616cdace4e1d4f5229b89a374820f8bc15ccdf21b976f34d4a99",
		d: "872a9cb9789d29ec7890e2a3b3857358e53d50148def0505dacc179dd5f7176ac76b0e9fc2c5784f53cef45e6cefbbe8ecb6fe31c29f06ccbb14380cd1c579403a906dc34b82bd54d8c251b64ba6cfeaec77cb5f611b2dbf318fbf2eee9ffd3a60d85a47f491a4588d4d5c7d4f20323a1efaee1314c4b31a9b7ec1919a1c148f6760a104e881f6201c5c0e1b6ff6ff9a2694bdf4147a3fbe8dee6536e96d0435a8599af74c1bffd7ece0bbb34b0eeb8d646fd6c82f91a351e1e55d300ccb1b5071a536b2d8d566d7a0ca6efbabbc2546668d6c769de0ff18b455787109201c1e9a416655718ac1ed692efa7586201689724d68cbd78ec7a107de16a88f473cab"}
)

// A VALID 2048-bit key (e = 65537) whose primes have unequal byte lengths (p 1000 bits, q 1048 bits): legal for
// tink and crypto/rsa, never produced by rsa.GenerateKey. Not weak: it must be accepted, usable and exportable.
var rsa2048unbalanced = rsaFixed{
	n: "b2a296ab72f61fb2e2cf3c7fa9c69698bd229043e85612af3c5ff9fb6ebb6785a86ccebf5a20775bf92baa0e331d1ab7e3388d7e6ae640fcabe139e5a80ee3d5a2cd4a9ebbb6ff62a793dd12ade586523be434df3a47f89465885571099ed1e89122cc22eaf26376427a4198d3663cc4c0f16fd83c45c6a6b658ad0fc21a3cea0acc6ef1d06a7cfa732708c67c8b526d64aa48acb6b76b2562898f2d86cd13d225628203ce15fd97cb62da2a48d942c12f006a03dd2def93889b4b3bc30621760f14caf8c6f69ac0eebc3bf797c297b16bc2de5e43cd5be5cf9e08ba99809bc3e14461fc855b9f4106b6d9eea5959025b9655ba831e86c3e47b06ef4487b121d",
	p: "c81810530e265cb7c534c841f946cb0fa38637cdd7a6514fe1f27b3e83f336756399e10b312f1ac61d753eaf04ad06242137618821e21fd440985209938ec8b113ee8cd07b850cc4a931f748ce08beda1486b8cf8a09ab7152c519cd01a9c5791f0846d65989741c50efbc84fb59354d7653c373533b286040a8075017",
	q: "e48ba7af2bb58992e1551f034bfea0d95ee97da34195e63f056df45c55ef7dbfe293c96b8d3ffa319a32da69526ed01b826379565534a1fef3019b66a49120d2612b8c39763b94e9d52a68025cae5839db5b93e32b58c6cec49950e62a32de32bee9b1b9034bf2a841c29707c784eb775be9a2fb900f4efa6684dba1a046dcec72fbeb",
	d: "a4146dbabb94d116f9f80a84e4c7f12a088807e528326f65205ab3fe3bfecd1edace5eb52aaea994047213f8890091bb186da8a1d6c4fa2a5c223b90f3e6016608ecf23e8d0390dee8380c170d3dc73c1fa104e389dff3b732efa0337cf7b1ad222ac940c577b0de3e3f97a32d823a0d2b805910508472ec4c8f751f048431f656bd70f84093153c1ee675f9f74becf1f73c764d316adeb5043a96bce404f1346950117fe6e28750daba01759d4f327d7048656972183bcf28c2564c51569198c9e5c616bb792ec22a16c35a428f5b78c9609661644e715aaaa4a19c3dad3edd00a0c0487f05fa45cb334ca784786164c08ba98e744c4ac4a298955963eb560d"}

func hexInt(s string) *big.Int {
	v, ok := new(big.Int).SetString(s, 16)
	if !ok {
		panic("atrest: bad hex constant")
	}
	return v
}

type rsaParts struct{ n, e, d, p, q, dp, dq, crt []byte }

func (f rsaFixed) parts(e int64) rsaParts {
	n, p, q, d := hexInt(f.n), hexInt(f.p), hexInt(f.q), hexInt(f.d)
	one := big.NewInt(1)
	dp := new(big.Int).Mod(d, new(big.Int).Sub(p, one))
	dq := new(big.Int).Mod(d, new(big.Int).Sub(q, one))
	crt := new(big.Int).ModInverse(q, p)
	return rsaParts{n.Bytes(), big.NewInt(e).Bytes(), d.Bytes(), p.Bytes(), q.Bytes(), dp.Bytes(), dq.Bytes(), crt.Bytes()}
}

func mustMarshal(m proto.Message) []byte {
	b, err := proto.Marshal(m)
	if err != nil {
		panic("atrest: " + err.Error())
	}
	return b
}

func sym(url string, m proto.Message) *tinkpb.KeyData {
	return &tinkpb.KeyData{TypeUrl: tu + url, Value: mustMarshal(m), KeyMaterialType: tinkpb.KeyData_SYMMETRIC}
}
func priv(url string, m proto.Message) *tinkpb.KeyData {
	return &tinkpb.KeyData{TypeUrl: tu + url, Value: mustMarshal(m), KeyMaterialType: tinkpb.KeyData_ASYMMETRIC_PRIVATE}
}
func pub(url string, m proto.Message) *tinkpb.KeyData {
	return &tinkpb.KeyData{TypeUrl: tu + url, Value: mustMarshal(m), KeyMaterialType: tinkpb.KeyData_ASYMMETRIC_PUBLIC}
}

var weakNames = []string{
	"hmac-key8", "hmac-key15", "hmac-tag8", "hmac-tag9",
	"aesgcm-key24", "aesgcm-key8", "aesgcm-key33", "aesgcm-key0",
	"aesctrhmac-aes24", "aesctrhmac-hmackey8", "aesctrhmac-tag8",
	"aescmac-key24", "aescmacprf-key24", "aessiv-key48", "aesgcmsiv-key24",
	"hmacprf-key8", "hkdfprf-key16", "hkdfprf-key31",
	"rsapkcs1-pub-n1024", "rsapkcs1-pub-e3", "rsapkcs1-pub-e65539", "rsapkcs1-priv-n1024", "rsapkcs1-priv-e3", "rsapkcs1-pub-e2p64", "rsapkcs1-priv-e2p64", "rsapss-pub-e2p64", "jwtrs256-pub-e2p64",
	"rsapss-pub-n1024", "rsapss-pub-e3", "rsapss-priv-n1024", "rsapss-priv-e65539",
	"jwtrs256-pub-n1024", "jwtrs256-priv-e3", "jwtps256-pub-e3", "jwtps256-priv-n1024",
	"ecdsa-p384-sha256-pub", "ecdsa-p384-sha256-priv", "ecdsa-p521-sha256-pub", "ecdsa-p521-sha384-priv",
	"sgcmhkdf-derived24", "sctrhmac-derived24", "sctrhmac-tag8",
	"deriver-hkdf16",
	// exotic but VALID keys (rule ""): accepted handles built from them must behave (no panic in any accessor or export)
	"rsapkcs1-priv-unbalanced", "rsapss-priv-unbalanced",
}

// weak builds the named weak key. Key bytes come from the run's RNG stream.
func (w *world) weak(name string) weakKey {
	rnd := func(n int) []byte { return w.g.Bytes(10, 0, n) }
	k := weakKey{name: name}
	hmacKey := func(keyLen int, tag uint32) *hmacpb.HmacKey {
		return &hmacpb.HmacKey{Params: &hmacpb.HmacParams{Hash: commonpb.HashType_SHA256, TagSize: tag}, KeyValue: rnd(keyLen)}
	}
	ecPoint := func(c ecdh.Curve, size int) (x, y, d []byte) {
		d = rnd(size)
		d[0] &= 0x00 // far below the group order
		d[1] |= 0x01
		pk, err := c.NewPrivateKey(d)
		if err != nil {
			panic("atrest: " + err.Error())
		}
		pb := pk.PublicKey().Bytes()
		return pb[1 : 1+size], pb[1+size:], d
	}
	switch name {
	case "hmac-key8", "hmac-key15":
		n := map[string]int{"hmac-key8": 8, "hmac-key15": 15}[name]
		k.rule, k.class, k.data, k.sibling = ruleHMACKey, "mac", sym("HmacKey", hmacKey(n, 16)), "mac/hmac/k32-SHA256-t16/TINK"
	case "hmac-tag8", "hmac-tag9":
		n := map[string]uint32{"hmac-tag8": 8, "hmac-tag9": 9}[name]
		k.rule, k.class, k.data, k.sibling = ruleHMACTag, "mac", sym("HmacKey", hmacKey(32, n)), "mac/hmac/k32-SHA256-t16/TINK"
	case "aesgcm-key24", "aesgcm-key8", "aesgcm-key33", "aesgcm-key0":
		n := map[string]int{"aesgcm-key24": 24, "aesgcm-key8": 8, "aesgcm-key33": 33, "aesgcm-key0": 0}[name]
		k.rule, k.class, k.data, k.sibling = ruleAESKey, "aead", sym("AesGcmKey", &gcmpb.AesGcmKey{KeyValue: rnd(n)}), "aead/aesgcm/k16-iv12-t16/TINK"
	case "aesctrhmac-aes24", "aesctrhmac-hmackey8", "aesctrhmac-tag8":
		aes, hk, tag := 16, 32, uint32(16)
		k.rule = ruleAESKey
		switch name {
		case "aesctrhmac-aes24":
			aes = 24
		case "aesctrhmac-hmackey8":
			hk, k.rule = 8, ruleHMACKey
		case "aesctrhmac-tag8":
			tag, k.rule = 8, ruleHMACTag
		}
		k.class, k.sibling = "aead", "aead/aesctrhmac/a16-h32-iv16-SHA256-t16/TINK"
		k.data = sym("AesCtrHmacAeadKey", &ctrhmacpb.AesCtrHmacAeadKey{
			AesCtrKey: &ctrpb.AesCtrKey{Params: &ctrpb.AesCtrParams{IvSize: 16}, KeyValue: rnd(aes)},
			HmacKey:   hmacKey(hk, tag)})
	case "aescmac-key24":
		k.rule, k.class, k.sibling = ruleAESKey, "mac", "mac/aescmac/k32-t16/TINK"
		k.data = sym("AesCmacKey", &cmacpb.AesCmacKey{KeyValue: rnd(24), Params: &cmacpb.AesCmacParams{TagSize: 16}})
	case "aescmacprf-key24":
		k.rule, k.class, k.sibling = ruleAESKey, "prf", "prf/aescmacprf/k32/NONE"
		k.data = sym("AesCmacPrfKey", &cmacprfpb.AesCmacPrfKey{KeyValue: rnd(24)})
	case "aessiv-key48":
		k.rule, k.class, k.sibling = ruleAESKey, "daead", "daead/aessiv/k64/TINK"
		k.data = sym("AesSivKey", &sivpb.AesSivKey{KeyValue: rnd(48)})
	case "aesgcmsiv-key24":
		k.rule, k.class, k.sibling = ruleAESKey, "aead", "aead/aesgcmsiv/k16/TINK"
		k.data = sym("AesGcmSivKey", &gcmsivpb.AesGcmSivKey{KeyValue: rnd(24)})
	case "hmacprf-key8":
		k.rule, k.class, k.sibling = ruleHMACKey, "prf", "prf/hmacprf/k32-SHA256/NONE"
		k.data = sym("HmacPrfKey", &hmacprfpb.HmacPrfKey{Params: &hmacprfpb.HmacPrfParams{Hash: commonpb.HashType_SHA256}, KeyValue: rnd(8)})
	case "hkdfprf-key16", "hkdfprf-key31":
		n := map[string]int{"hkdfprf-key16": 16, "hkdfprf-key31": 31}[name]
		k.rule, k.class, k.sibling = ruleHKDFKey, "prf", "prf/hkdfprf/k32-SHA256-nosalt/NONE"
		k.data = sym("HkdfPrfKey", &hkdfprfpb.HkdfPrfKey{Params: &hkdfprfpb.HkdfPrfParams{Hash: commonpb.HashType_SHA256}, KeyValue: rnd(n)})
	case "rsapkcs1-pub-n1024", "rsapkcs1-pub-e3", "rsapkcs1-pub-e65539", "rsapkcs1-priv-n1024", "rsapkcs1-priv-e3", "rsapkcs1-priv-unbalanced", "rsapkcs1-pub-e2p64", "rsapkcs1-priv-e2p64":
		var r rsaParts
		switch name {
		case "rsapkcs1-pub-e2p64", "rsapkcs1-priv-e2p64":
			// the stored exponent is 2^64 + 65537 (not 65537); everything else belongs to a sound e = 65537 key
			r, k.rule = rsa2048unbalanced.parts(65537), ruleRSAExp
			r.e = exp2p64()
		case "rsapkcs1-priv-unbalanced":
			r, k.rule = rsa2048unbalanced.parts(65537), ""
		case "rsapkcs1-pub-n1024", "rsapkcs1-priv-n1024":
			r, k.rule = rsa1024.parts(65537), ruleRSAMod
		case "rsapkcs1-pub-e65539":
			r, k.rule = rsa2048e65539.parts(65539), ruleRSAExp
		default:
			r, k.rule = rsa2048e3.parts(3), ruleRSAExp
		}
		k.class = "signature"
		pk := &rsapkcs1pb.RsaSsaPkcs1PublicKey{Params: &rsapkcs1pb.RsaSsaPkcs1Params{HashType: commonpb.HashType_SHA256}, N: r.n, E: r.e}
		if name[9:12] == "pub" {
			k.data = pub("RsaSsaPkcs1PublicKey", pk)
			switch name {
			case "rsapkcs1-pub-n1024":
				k.sign = rsaSigner(rsa1024.goKey(65537), false)
			case "rsapkcs1-pub-e65539":
				k.sign = rsaSigner(rsa2048e65539.goKey(65539), false)
			case "rsapkcs1-pub-e2p64":
				k.sign = rsaSigner(rsa2048unbalanced.goKey(65537), false)
			default:
				k.sign = rsaSigner(rsa2048e3.goKey(3), false)
			}
		} else {
			k.data = priv("RsaSsaPkcs1PrivateKey", &rsapkcs1pb.RsaSsaPkcs1PrivateKey{PublicKey: pk, D: r.d, P: r.p, Q: r.q, Dp: r.dp, Dq: r.dq, Crt: r.crt})
			k.sibling = "signature/ed25519/k32/TINK"
		}
	case "rsapss-pub-n1024", "rsapss-pub-e3", "rsapss-priv-n1024", "rsapss-priv-e65539", "rsapss-priv-unbalanced", "rsapss-pub-e2p64":
		var r rsaParts
		switch name {
		case "rsapss-pub-e2p64":
			r, k.rule = rsa2048unbalanced.parts(65537), ruleRSAExp
			r.e = exp2p64()
		case "rsapss-priv-unbalanced":
			r, k.rule = rsa2048unbalanced.parts(65537), ""
		case "rsapss-pub-n1024", "rsapss-priv-n1024":
			r, k.rule = rsa1024.parts(65537), ruleRSAMod
		case "rsapss-priv-e65539":
			r, k.rule = rsa2048e65539.parts(65539), ruleRSAExp
		default:
			r, k.rule = rsa2048e3.parts(3), ruleRSAExp
		}
		k.class = "signature"
		pk := &rsapsspb.RsaSsaPssPublicKey{Params: &rsapsspb.RsaSsaPssParams{SigHash: commonpb.HashType_SHA256, Mgf1Hash: commonpb.HashType_SHA256, SaltLength: 32}, N: r.n, E: r.e}
		if name[7:10] == "pub" {
			k.data = pub("RsaSsaPssPublicKey", pk)
			if name == "rsapss-pub-n1024" {
				k.sign = rsaSigner(rsa1024.goKey(65537), true)
			} else if name == "rsapss-pub-e2p64" {
				k.sign = rsaSigner(rsa2048unbalanced.goKey(65537), true)
			} else {
				k.sign = rsaSigner(rsa2048e3.goKey(3), true)
			}
		} else {
			k.data = priv("RsaSsaPssPrivateKey", &rsapsspb.RsaSsaPssPrivateKey{PublicKey: pk, D: r.d, P: r.p, Q: r.q, Dp: r.dp, Dq: r.dq, Crt: r.crt})
			k.sibling = "signature/ed25519/k32/TINK"
		}
	case "jwtrs256-pub-n1024", "jwtrs256-priv-e3", "jwtrs256-pub-e2p64":
		k.class = "jwtsig"
		if name == "jwtrs256-pub-e2p64" {
			r := rsa2048unbalanced.parts(65537)
			k.rule = ruleRSAExp
			k.data = pub("JwtRsaSsaPkcs1PublicKey", &jwtrsapb.JwtRsaSsaPkcs1PublicKey{Algorithm: jwtrsapb.JwtRsaSsaPkcs1Algorithm_RS256, N: r.n, E: exp2p64()})
			k.sign, k.jwtAlg = rsaSigner(rsa2048unbalanced.goKey(65537), false), "RS256"
		} else if name == "jwtrs256-pub-n1024" {
			r := rsa1024.parts(65537)
			k.rule = ruleRSAMod
			k.data = pub("JwtRsaSsaPkcs1PublicKey", &jwtrsapb.JwtRsaSsaPkcs1PublicKey{Algorithm: jwtrsapb.JwtRsaSsaPkcs1Algorithm_RS256, N: r.n, E: r.e})
			k.sign, k.jwtAlg = rsaSigner(rsa1024.goKey(65537), false), "RS256"
		} else {
			r := rsa2048e3.parts(3)
			k.rule = ruleRSAExp
			k.data = priv("JwtRsaSsaPkcs1PrivateKey", &jwtrsapb.JwtRsaSsaPkcs1PrivateKey{
				PublicKey: &jwtrsapb.JwtRsaSsaPkcs1PublicKey{Algorithm: jwtrsapb.JwtRsaSsaPkcs1Algorithm_RS256, N: r.n, E: r.e},
				D:         r.d, P: r.p, Q: r.q, Dp: r.dp, Dq: r.dq, Crt: r.crt})
			k.sibling = "jwtsig/jwtecdsa/ES256/KID_BASE64"
		}
	case "jwtps256-pub-e3", "jwtps256-priv-n1024":
		k.class = "jwtsig"
		if name == "jwtps256-pub-e3" {
			r := rsa2048e3.parts(3)
			k.rule = ruleRSAExp
			k.data = pub("JwtRsaSsaPssPublicKey", &jwtpsspb.JwtRsaSsaPssPublicKey{Algorithm: jwtpsspb.JwtRsaSsaPssAlgorithm_PS256, N: r.n, E: r.e})
			k.sign, k.jwtAlg = rsaSigner(rsa2048e3.goKey(3), true), "PS256"
		} else {
			r := rsa1024.parts(65537)
			k.rule = ruleRSAMod
			k.data = priv("JwtRsaSsaPssPrivateKey", &jwtpsspb.JwtRsaSsaPssPrivateKey{
				PublicKey: &jwtpsspb.JwtRsaSsaPssPublicKey{Algorithm: jwtpsspb.JwtRsaSsaPssAlgorithm_PS256, N: r.n, E: r.e},
				D:         r.d, P: r.p, Q: r.q, Dp: r.dp, Dq: r.dq, Crt: r.crt})
			k.sibling = "jwtsig/jwtecdsa/ES256/KID_BASE64"
		}
	case "ecdsa-p384-sha256-pub", "ecdsa-p384-sha256-priv", "ecdsa-p521-sha256-pub", "ecdsa-p521-sha384-priv":
		k.rule, k.class = ruleECDSAHsh, "signature"
		curve, cpb, size, hash := ecdh.P384(), commonpb.EllipticCurveType_NIST_P384, 48, commonpb.HashType_SHA256
		switch name {
		case "ecdsa-p521-sha256-pub":
			curve, cpb, size = ecdh.P521(), commonpb.EllipticCurveType_NIST_P521, 66
		case "ecdsa-p521-sha384-priv":
			curve, cpb, size, hash = ecdh.P521(), commonpb.EllipticCurveType_NIST_P521, 66, commonpb.HashType_SHA384
		}
		x, y, d := ecPoint(curve, size)
		pk := &ecdsapb.EcdsaPublicKey{Params: &ecdsapb.EcdsaParams{HashType: hash, Curve: cpb, Encoding: ecdsapb.EcdsaSignatureEncoding_DER}, X: x, Y: y}
		if name[len(name)-3:] == "pub" {
			k.data = pub("EcdsaPublicKey", pk)
			if size == 48 {
				k.sign = ecdsaSigner(elliptic.P384(), d, crypto.SHA256)
			} else {
				k.sign = ecdsaSigner(elliptic.P521(), d, crypto.SHA256)
			}
		} else {
			k.data = priv("EcdsaPrivateKey", &ecdsapb.EcdsaPrivateKey{PublicKey: pk, KeyValue: d})
			k.sibling = "signature/ed25519/k32/TINK"
		}
	case "sgcmhkdf-derived24":
		k.rule, k.class, k.sibling = ruleAESKey, "streamingaead", "streamingaead/aesgcmhkdf/k32-dk32-SHA256-seg4096/NONE"
		k.data = sym("AesGcmHkdfStreamingKey", &gcmhkdfpb.AesGcmHkdfStreamingKey{
			Params: &gcmhkdfpb.AesGcmHkdfStreamingParams{CiphertextSegmentSize: 4096, DerivedKeySize: 24, HkdfHashType: commonpb.HashType_SHA256}, KeyValue: rnd(32)})
	case "sctrhmac-derived24", "sctrhmac-tag8":
		dk, tag := uint32(24), uint32(32)
		k.rule = ruleAESKey
		if name == "sctrhmac-tag8" {
			dk, tag, k.rule = 32, 8, ruleHMACTag
		}
		k.class, k.sibling = "streamingaead", "streamingaead/aesctrhmac/k32-dk32-hkdfSHA256-hmacSHA256-t32-seg4096/NONE"
		k.data = sym("AesCtrHmacStreamingKey", &ctrhmacstreampb.AesCtrHmacStreamingKey{
			Params: &ctrhmacstreampb.AesCtrHmacStreamingParams{CiphertextSegmentSize: 4096, DerivedKeySize: dk, HkdfHashType: commonpb.HashType_SHA256,
				HmacParams: &hmacpb.HmacParams{Hash: commonpb.HashType_SHA256, TagSize: tag}}, KeyValue: rnd(32)})
	case "deriver-hkdf16":
		k.rule, k.class = ruleHKDFKey, "keyderivation"
		k.sibling = "keyderivation/prfbasedkeyderivation/HKDFSHA256k32nosalt-to-aesgcm-k16/TINK"
		prfKey := sym("HkdfPrfKey", &hkdfprfpb.HkdfPrfKey{Params: &hkdfprfpb.HkdfPrfParams{Hash: commonpb.HashType_SHA256}, KeyValue: rnd(16)})
		tpl := &tinkpb.KeyTemplate{TypeUrl: tu + "AesGcmKey", Value: mustMarshal(&gcmpb.AesGcmKeyFormat{KeySize: 16}), OutputPrefixType: tinkpb.OutputPrefixType_TINK}
		k.data = sym("PrfBasedDeriverKey", &prfderpb.PrfBasedDeriverKey{PrfKey: prfKey, Params: &prfderpb.PrfBasedDeriverParams{DerivedKeyTemplate: tpl}})
	default:
		panic("atrest: unknown weak key " + name)
	}
	if k.sibling != "" {
		if _, ok := catalog.Find(k.sibling); !ok {
			panic("atrest: weak key sibling not in catalog: " + k.sibling)
		}
	}
	return k
}

// ---------------------------------------------------------------------------
// proto-level edits: each is a small set of byte changes of the stored image
// (a status byte, an ID, a dropped or added field) applied before the writer
// so that they land exactly; all of them are also reachable by medium faults.

var structEdits = []string{"struct-primary-disabled", "struct-primary-destroyed", "struct-unknown-status", "struct-unknown-prefix", "struct-duplicate-id",
	"struct-primary-absent", "struct-nil-keydata", "struct-no-keys", "struct-version-1", "struct-material-type", "struct-empty-value", "struct-all-disabled", "struct-prefix-type-5", "struct-jwt-custom-kid"}

// applyStruct edits ks in place; ok=false if the edit cannot apply.
func (w *world) applyStruct(kind string, ks *tinkpb.Keyset) bool {
	t := w.t
	if len(ks.Key) == 0 {
		return false
	}
	i := rapid.IntRange(0, len(ks.Key)-1).Draw(t, "structKey")
	k := ks.Key[i]
	primary := func() *tinkpb.Keyset_Key {
		for _, x := range ks.Key {
			if x.KeyId == ks.PrimaryKeyId {
				return x
			}
		}
		return nil
	}
	switch kind {
	case "struct-primary-disabled":
		p := primary()
		if p == nil {
			return false
		}
		p.Status = tinkpb.KeyStatusType_DISABLED
	case "struct-primary-destroyed":
		p := primary()
		if p == nil {
			return false
		}
		p.Status = tinkpb.KeyStatusType_DESTROYED
	case "struct-unknown-status":
		k.Status = tinkpb.KeyStatusType(rapid.SampledFrom([]int32{0, 4, 5, 127, 128, 1 << 20}).Draw(t, "structStatus"))
	case "struct-unknown-prefix":
		k.OutputPrefixType = tinkpb.OutputPrefixType(rapid.SampledFrom([]int32{0, 6, 127, 128, 1 << 20}).Draw(t, "structPrefix"))
	case "struct-prefix-type-5":
		// WITH_ID_REQUIREMENT: declared, emitted by the ML-DSA serializer; a reader may accept or reject it
		k.OutputPrefixType = tinkpb.OutputPrefixType_WITH_ID_REQUIREMENT
	case "struct-duplicate-id":
		if len(ks.Key) < 2 {
			// the same key stored twice
			ks.Key = append(ks.Key, proto.Clone(k).(*tinkpb.Keyset_Key))
			return true
		}
		j := (i + 1 + rapid.IntRange(0, len(ks.Key)-2).Draw(t, "structOther")) % len(ks.Key)
		ks.Key[j].KeyId = k.KeyId
	case "struct-primary-absent":
		id := rapid.Uint32().Draw(t, "structAbsentID")
		for _, x := range ks.Key {
			if x.KeyId == id {
				return false
			}
		}
		ks.PrimaryKeyId = id
	case "struct-nil-keydata":
		k.KeyData = nil
	case "struct-no-keys":
		ks.Key = nil
	case "struct-version-1":
		if k.KeyData == nil {
			return false
		}
		// every key proto has `uint32 version = 1`; version 0 is not on the wire, so a leading field-1 varint sets it
		v := rapid.SampledFrom([]byte{1, 2, 0x7f}).Draw(t, "structVersion")
		k.KeyData.Value = append([]byte{0x08, v}, k.KeyData.Value...)
	case "struct-material-type":
		if k.KeyData == nil {
			return false
		}
		old := k.KeyData.KeyMaterialType
		nw := tinkpb.KeyData_KeyMaterialType(rapid.SampledFrom([]int32{0, 1, 2, 3, 4, 9}).Draw(t, "structMaterial"))
		if nw == old {
			return false
		}
		k.KeyData.KeyMaterialType = nw
	case "struct-empty-value":
		if k.KeyData == nil {
			return false
		}
		k.KeyData.Value = nil
	case "struct-jwt-custom-kid":
		// JWT keys may carry a caller-chosen kid (field custom_kid of the key proto, of its public half for private
		// keys); no key generator produces one, a stored keyset may hold any string there, the empty one included
		var jk *tinkpb.Keyset_Key
		for _, x := range ks.Key {
			if x.KeyData != nil && strings.Contains(x.KeyData.TypeUrl, ".Jwt") {
				jk = x
			}
		}
		if jk == nil {
			return false
		}
		kid := rapid.SampledFrom([]string{"", "k", "custom-kid-1", "kid with space", "\u00e9\u4e16", strings.Repeat("x", 300)}).Draw(t, "structKid")
		nv, ok := setCustomKid(jk.KeyData.TypeUrl, jk.KeyData.Value, kid)
		if !ok {
			return false
		}
		jk.KeyData.Value = nv
		if rapid.IntRange(0, 3).Draw(t, "structKidKeepPrefix") != 0 {
			jk.OutputPrefixType = tinkpb.OutputPrefixType_RAW // a custom kid goes with RAW; with another prefix a reader may refuse
		}
	case "struct-all-disabled":
		for _, x := range ks.Key {
			x.Status = tinkpb.KeyStatusType_DISABLED
		}
	default:
		return false
	}
	return true
}

// setCustomKid sets custom_kid.value in a serialized JWT key (in its public_key for private keys), whatever the key type:
// the message type is looked up by URL in the protobuf registry.
func setCustomKid(typeURL string, value []byte, kid string) ([]byte, bool) {
	mt, err := protoregistry.GlobalTypes.FindMessageByURL(typeURL)
	if err != nil {
		return nil, false
	}
	m := mt.New()
	if err := proto.Unmarshal(value, m.Interface()); err != nil {
		return nil, false
	}
	target := m
	if fd := m.Descriptor().Fields().ByName("public_key"); fd != nil && fd.Message() != nil {
		target = m.Mutable(fd).Message()
	}
	fd := target.Descriptor().Fields().ByName("custom_kid")
	if fd == nil || fd.Message() == nil {
		return nil, false
	}
	ck := target.Mutable(fd).Message()
	vf := ck.Descriptor().Fields().ByName("value")
	if vf == nil {
		return nil, false
	}
	ck.Set(vf, protoreflect.ValueOfString(kid))
	out, err := proto.Marshal(m.Interface())
	if err != nil {
		return nil, false
	}
	return out, true
}

// exp2p64 is the big-endian encoding of 2^64 + 65537: an exponent other than 65537 whose low 64 bits are 65537.
func exp2p64() []byte {
	return new(big.Int).Add(new(big.Int).Lsh(big.NewInt(1), 64), big.NewInt(65537)).Bytes()
}
