package atrest

import (
	"fmt"

	"pgregory.net/rapid"
)

// Fault kinds of the stored medium (the reader-side and proto-level kinds are
// declared next to where they are applied).
const (
	fNone        = "none"
	fCut         = "cut"
	fTornWrite   = "torn-write"
	fTailZero    = "tail-zero"
	fTailGarbage = "tail-garbage"
	fBitFlip     = "bit-flip"
	fByteSub     = "byte-substitution"
	fDup         = "block-duplicated"
	fDrop        = "block-dropped"
	fSwap        = "blocks-swapped"
	fSplice      = "splice"
	fEmpty       = "file-empty"
	fRandom      = "file-random"
	fEncInfo     = "enc-flip-keyset-info"
	fEncCipher   = "enc-flip-ciphertext"
	fWrongReader = "wrong-reader"
)

var mediumFaults = []string{fBitFlip, fByteSub, fDup, fDrop, fSwap, fSplice, fTailZero, fTailGarbage, fEmpty, fRandom, fEncInfo, fEncCipher}

// the draw list: single bit flips and substitutions are what storage does most and what reaches the parsers best
var mediumFaultsWeighted = []string{fBitFlip, fBitFlip, fBitFlip, fBitFlip, fByteSub, fByteSub, fByteSub, fDup, fDup, fDrop, fDrop, fSwap, fSplice, fSplice,
	fTailZero, fTailGarbage, fEmpty, fRandom, fEncInfo, fEncCipher}

// class draw weights
var classWeight = map[string]int{cUniform: 1, cTag: 2, cLen: 2, cVarint: 3, cEnum: 3, cKeyID: 2, cTypeURL: 1, cMaterial: 4, cCipher: 1, cBoundary: 1}

func weightedClasses(cs []string) []string {
	var out []string
	for _, c := range cs {
		for i := 0; i < classWeight[c]; i++ {
			out = append(out, c)
		}
	}
	return out
}

// applied describes one fault that fired.
type applied struct {
	kind   string
	target string // class of the place it hit
	note   string
}

// pickOffset draws a byte offset inside data, biased onto the drawn class.
func pickOffset(t *rapid.T, l *layout, class, label string) (int, bool) {
	switch class {
	case cUniform:
		if l.size == 0 {
			return 0, false
		}
		return rapid.IntRange(0, l.size-1).Draw(t, label+"Off"), true
	case cBoundary:
		if len(l.bounds) == 0 || l.size == 0 {
			return 0, false
		}
		b := l.bounds[rapid.IntRange(0, len(l.bounds)-1).Draw(t, label+"Bound")].off
		if rapid.Bool().Draw(t, label+"Before") {
			b--
		}
		if b < 0 {
			b = 0
		}
		if b >= l.size {
			b = l.size - 1
		}
		return b, true
	}
	sp := l.spots[class]
	if len(sp) == 0 {
		return 0, false
	}
	s := sp[rapid.IntRange(0, len(sp)-1).Draw(t, label+"Spot")]
	return s.off + rapid.IntRange(0, s.n-1).Draw(t, label+"In"), true
}

// pickSpan draws a block: mostly a whole field, sometimes an arbitrary range.
func pickSpan(t *rapid.T, l *layout, label string) (int, int, string, bool) {
	if l.size == 0 {
		return 0, 0, "", false
	}
	if len(l.spans) == 0 || rapid.IntRange(0, 5).Draw(t, label+"Uniform") == 0 {
		a := rapid.IntRange(0, l.size-1).Draw(t, label+"A")
		n := rapid.IntRange(1, min(64, l.size-a)).Draw(t, label+"N")
		return a, a + n, "range", true
	}
	s := l.spans[rapid.IntRange(0, len(l.spans)-1).Draw(t, label+"Span")]
	return s.start, s.end, fmt.Sprintf("field-l%d", s.level), true
}

func cloneBytes(b []byte) []byte { return append([]byte(nil), b...) }

// applyFault applies one medium fault of the given kind to data. other is a
// second stored keyset (for splices). ok=false: the fault could not fire on
// this image (e.g. a swap on an empty file).
func (w *world) applyFault(kind string, data, other []byte, label string) ([]byte, applied, bool) {
	t := w.t
	l := walk(w.cfg.format, w.cfg.prot == "encrypted", data)
	classes := l.classes()
	drawClass := func() string {
		if len(classes) == 0 {
			return cUniform
		}
		return rapid.SampledFrom(weightedClasses(classes)).Draw(t, label+"Class")
	}
	switch kind {
	case fBitFlip, fByteSub:
		class := drawClass()
		off, ok := pickOffset(t, l, class, label)
		if !ok {
			return data, applied{}, false
		}
		out := cloneBytes(data)
		if kind == fBitFlip {
			bit := rapid.IntRange(0, 7).Draw(t, label+"Bit")
			out[off] ^= 1 << bit
			return out, applied{kind, class, fmt.Sprintf("byte %d bit %d", off, bit)}, true
		}
		// substitution values that mean something to the parsers, and any value
		v := rapid.OneOf(rapid.SampledFrom([]byte{0x00, 0xff, 0x80, 0x7f, 0x01, 0x02, 0x03, 0x04, 0x05, '0', '1', '"', '}', ',', 'A'}), rapid.Byte()).Draw(t, label+"Val")
		if out[off] == v {
			v ^= 0x01
		}
		out[off] = v
		return out, applied{kind, class, fmt.Sprintf("byte %d := %#02x", off, v)}, true
	case fEncInfo, fEncCipher:
		if w.cfg.prot != "encrypted" {
			return data, applied{}, false
		}
		var class string
		if kind == fEncCipher {
			class = cCipher
		} else {
			// everything that is not ciphertext: the clear keyset_info part (JSON) or the wrapper's own bytes (binary)
			var cs []string
			for _, c := range classes {
				if c != cCipher && c != cUniform && c != cBoundary {
					cs = append(cs, c)
				}
			}
			if len(cs) == 0 {
				return data, applied{}, false
			}
			class = rapid.SampledFrom(cs).Draw(t, label+"Class")
		}
		off, ok := pickOffset(t, l, class, label)
		if !ok {
			return data, applied{}, false
		}
		out := cloneBytes(data)
		bit := rapid.IntRange(0, 7).Draw(t, label+"Bit")
		out[off] ^= 1 << bit
		return out, applied{kind, class, fmt.Sprintf("byte %d bit %d", off, bit)}, true
	case fDup:
		a, b, what, ok := pickSpan(t, l, label)
		if !ok {
			return data, applied{}, false
		}
		out := append(cloneBytes(data[:b]), data[a:b]...)
		out = append(out, data[b:]...)
		return out, applied{kind, what, fmt.Sprintf("[%d,%d) written twice", a, b)}, true
	case fDrop:
		a, b, what, ok := pickSpan(t, l, label)
		if !ok {
			return data, applied{}, false
		}
		out := append(cloneBytes(data[:a]), data[b:]...)
		return out, applied{kind, what, fmt.Sprintf("[%d,%d) lost", a, b)}, true
	case fSwap:
		a1, b1, what, ok := pickSpan(t, l, label+"1")
		if !ok {
			return data, applied{}, false
		}
		a2, b2, _, ok := pickSpan(t, l, label+"2")
		if !ok {
			return data, applied{}, false
		}
		if a2 < a1 {
			a1, b1, a2, b2 = a2, b2, a1, b1
		}
		if b1 > a2 || (a1 == a2 && b1 == b2) {
			return data, applied{}, false // overlapping: not a swap
		}
		out := cloneBytes(data[:a1])
		out = append(out, data[a2:b2]...)
		out = append(out, data[b1:a2]...)
		out = append(out, data[a1:b1]...)
		out = append(out, data[b2:]...)
		if string(out) == string(data) {
			return data, applied{}, false
		}
		return out, applied{kind, what, fmt.Sprintf("[%d,%d) <-> [%d,%d)", a1, b1, a2, b2)}, true
	case fSplice:
		if len(other) == 0 || len(data) == 0 {
			return data, applied{}, false
		}
		lo := walk(w.cfg.format, w.cfg.prot == "encrypted", other)
		ba, bb := l.boundsUpTo(4), lo.boundsUpTo(4)
		if len(ba) == 0 || len(bb) == 0 {
			return data, applied{}, false
		}
		ca := ba[rapid.IntRange(0, len(ba)-1).Draw(t, label+"CutA")]
		cb := bb[rapid.IntRange(0, len(bb)-1).Draw(t, label+"CutB")]
		out := append(cloneBytes(data[:ca]), other[cb:]...)
		if string(out) == string(data) {
			return data, applied{}, false
		}
		return out, applied{kind, "boundary", fmt.Sprintf("A[:%d] + B[%d:]", ca, cb)}, true
	case fTailZero, fTailGarbage:
		// a pre-allocated file: from c on the old content of the blocks shows (zeros or garbage), possibly beyond the end
		var c int
		target := "boundary"
		bs := l.boundsUpTo(9)
		if len(bs) > 0 && rapid.IntRange(0, 3).Draw(t, label+"AtBound") != 0 {
			c = bs[rapid.IntRange(0, len(bs)-1).Draw(t, label+"Cut")]
		} else {
			c = rapid.IntRange(0, len(data)).Draw(t, label+"Cut")
			target = "uniform"
		}
		extra := rapid.SampledFrom([]int{0, 0, 1, 7, 64}).Draw(t, label+"Extra")
		total := len(data) + extra
		if total == c {
			total = c + 1
		}
		out := cloneBytes(data[:c])
		fill := make([]byte, total-c)
		if kind == fTailGarbage {
			copy(fill, w.g.Bytes(11, uint64(rapid.IntRange(0, 1<<16).Draw(t, label+"Seed")), len(fill)))
		}
		out = append(out, fill...)
		if string(out) == string(data) {
			return data, applied{}, false
		}
		return out, applied{kind, target, fmt.Sprintf("from %d on, %d bytes", c, len(fill))}, true
	case fEmpty:
		if len(data) == 0 {
			return data, applied{}, false
		}
		return []byte{}, applied{kind, "file", ""}, true
	case fRandom:
		n := rapid.OneOf(rapid.IntRange(1, 16), rapid.Just(len(data)), rapid.IntRange(1, 300)).Draw(t, label+"Len")
		if n == 0 {
			n = 1
		}
		out := w.g.Bytes(11, uint64(rapid.IntRange(0, 1<<16).Draw(t, label+"Seed")), n)
		if w.cfg.format == "json" && rapid.Bool().Draw(t, label+"Printable") {
			for i := range out {
				out[i] = "{}[]\":,0123456789abcdefKEYkey \\nulltrue"[int(out[i])%38]
			}
		}
		return out, applied{kind, "file", fmt.Sprintf("%d random bytes", n)}, true
	}
	return data, applied{}, false
}

// cutPoints enumerates the cut offsets of a "cut" run: every top-level and
// second-level field boundary (all of them, always), plus a sample of deeper
// boundaries and of arbitrary offsets.
func (w *world) cutPoints(data []byte) (cuts []int, classes []string) {
	t := w.t
	l := walk(w.cfg.format, w.cfg.prot == "encrypted", data)
	seen := map[int]bool{}
	for _, b := range l.bounds {
		if b.level <= 2 && b.off < len(data) && !seen[b.off] {
			seen[b.off] = true
			cuts = append(cuts, b.off)
			classes = append(classes, fmt.Sprintf("l%d", b.level))
		}
	}
	var deep []bound
	for _, b := range l.bounds {
		if b.level > 2 && b.off < len(data) && !seen[b.off] {
			deep = append(deep, b)
		}
	}
	nDeep := rapid.IntRange(0, 6).Draw(t, "cutDeep")
	for i := 0; i < nDeep && len(deep) > 0; i++ {
		b := deep[rapid.IntRange(0, len(deep)-1).Draw(t, "cutDeepIdx")]
		if !seen[b.off] {
			seen[b.off] = true
			cuts = append(cuts, b.off)
			classes = append(classes, "deep")
		}
	}
	nUni := rapid.IntRange(0, 4).Draw(t, "cutUniform")
	for i := 0; i < nUni && len(data) > 0; i++ {
		c := rapid.IntRange(0, len(data)-1).Draw(t, "cutAt")
		if !seen[c] {
			seen[c] = true
			cuts = append(cuts, c)
			classes = append(classes, "uniform")
		}
	}
	return cuts, classes
}
