// Package stream is the C07 world: producer → Device → Medium → Source →
// consumer around Tink's real streaming-AEAD code.
package stream

import (
	"bytes"
	"fmt"
	"io"
	"os"
	"testing"

	"github.com/tink-crypto/tink-go/v2/insecurecleartextkeyset"
	"github.com/tink-crypto/tink-go/v2/insecuresecretdataaccess"
	"github.com/tink-crypto/tink-go/v2/key"
	"github.com/tink-crypto/tink-go/v2/keyset"
	"github.com/tink-crypto/tink-go/v2/secretdata"
	"github.com/tink-crypto/tink-go/v2/streamingaead"
	"github.com/tink-crypto/tink-go/v2/streamingaead/aesctrhmac"
	"github.com/tink-crypto/tink-go/v2/streamingaead/aesgcmhkdf"
	"github.com/tink-crypto/tink-go/v2/streamingaead/subtle"
	"github.com/tink-crypto/tink-go/v2/tink"
	"github.com/tink-crypto/tink-go/v2/verifsim/core"
	"github.com/tink-crypto/tink-go/v2/verifsim/refimpl/streamref"
	"github.com/tink-crypto/tink-go/v2/verifsim/simio"
	"github.com/tink-crypto/tink-go/v2/verifsim/simrng"
	"pgregory.net/rapid"
)

const prop = "C07"

func TestMain(m *testing.M) {
	core.DeclareFaults("F1-writer-error", "F1-partial-accept", "F2-reader-error", "F3-cut", "F4-drop", "F4-dup", "F4-swap", "F4-splice",
		"F5-append", "F6-flip", "F7-aad", "F8-key", "src-short-read", "src-zero-read", "src-eof-with-data")
	core.DeclareProbes("reader-error-wraps-eof", "neighbour-writer-open-across-the-judged-stream", "stream-of-another-key-read-first", "lookahead-carried", "first-offset", "empty-plaintext", "exact-multiple", "write-spans-2-segments",
		"zero-length-write", "zero-length-read", "read-buffer-smaller-than-segment", "unreader-replay-2nd-key", "unreader-replay-3rd+-key",
		"error-in-header", "error-in-first-segment", "error-in-last-segment", "error-at-len-ct", "write-after-close", "double-close",
		"ref-decodes-tink", "tink-decodes-ref", "more-than-65536-segments", "crash-image-read-back", "keyset-through-serialization", "write-retried-after-error", "keyset-level", "subtle-level", "zero-nil-from-tink-reader")
	core.Main(m, prop, "stream", map[string]string{
		"streamingaead/subtle/noncebased": "real", "streamingaead/subtle aes_gcm_hkdf, aes_ctr_hmac": "real",
		"streamingaead key types (aesgcmhkdf, aesctrhmac)": "real", "streamingaead factory + decrypt_reader": "real",
		"subtle/hkdf": "real", "keyset manager/handle": "real",
		"io.Writer device": "stub (simio.Device)", "stored bytes": "stub (medium transforms)", "io.Reader source": "stub (simio.Source)",
		"crypto/rand": "stub (simrng)", "reference codec": "oracle only (refimpl/streamref)"})
}

func TestStream(t *testing.T) { rapid.Check(t, runStream) }

// ---------------------------------------------------------------------------
// configuration

type keyCfg struct {
	ref streamref.Params
}

var hashes = []string{"SHA1", "SHA256", "SHA512"}

func digestSize(h string) int {
	switch h {
	case "SHA1":
		return 20
	case "SHA256":
		return 32
	}
	return 64
}

func drawKeyCfg(t *rapid.T, subtleLevel bool, label string) streamref.Params {
	var p streamref.Params
	p.Alg = streamref.Alg(rapid.IntRange(0, 1).Draw(t, label+"alg"))
	p.K = 16 * rapid.IntRange(1, 2).Draw(t, label+"K/16")
	p.HKDFHash = rapid.SampledFrom(hashes).Draw(t, label+"hkdf")
	mk := p.K
	if subtleLevel {
		mk = p.K + rapid.SampledFrom([]int{0, 0, 1, 7, 16}).Draw(t, label+"mkExtra")
	} else if p.K == 16 && rapid.Bool().Draw(t, label+"mk32") {
		mk = 32
	}
	p.MainKey = rapid.SliceOfN(rapid.Byte(), mk, mk).Draw(t, label+"mainKey")
	p.T = 16
	if p.Alg == streamref.CTRHMAC {
		p.TagHash = rapid.SampledFrom(hashes).Draw(t, label+"tagHash")
		p.T = rapid.IntRange(10, digestSize(p.TagHash)).Draw(t, label+"T")
	}
	if subtleLevel {
		p.Off = rapid.SampledFrom([]int{0, 0, 1, 5, 16, 40}).Draw(t, label+"off")
	}
	min := p.HeaderLen() + p.Off + p.TagLen() + 1
	big := []int{64, 100, 128, 300}
	if core.Thorough() {
		big = append(big, 1024, 4096)
	}
	kind := rapid.IntRange(0, 2).Draw(t, label+"segKind")
	switch kind {
	case 0:
		p.S = min + rapid.IntRange(0, 3).Draw(t, label+"segExtra")
	case 1:
		p.S = min + rapid.IntRange(4, 60).Draw(t, label+"segExtra")
	default:
		p.S = rapid.SampledFrom(big).Draw(t, label+"segBig")
		if p.S < min {
			p.S = min
		}
	}
	return p
}

func tinkHashGCM(h string) aesgcmhkdf.HashType {
	switch h {
	case "SHA1":
		return aesgcmhkdf.SHA1
	case "SHA256":
		return aesgcmhkdf.SHA256
	}
	return aesgcmhkdf.SHA512
}

func tinkHashCTR(h string) aesctrhmac.HashType {
	switch h {
	case "SHA1":
		return aesctrhmac.SHA1
	case "SHA256":
		return aesctrhmac.SHA256
	}
	return aesctrhmac.SHA512
}

func makeSubtle(p streamref.Params) (tink.StreamingAEAD, error) {
	if p.Alg == streamref.GCMHKDF {
		return subtle.NewAESGCMHKDF(p.MainKey, p.HKDFHash, p.K, p.S, p.Off)
	}
	return subtle.NewAESCTRHMAC(p.MainKey, p.HKDFHash, p.K, p.TagHash, p.T, p.S, p.Off)
}

func makeKey(p streamref.Params) (key.Key, error) {
	kb := secretdata.NewBytesFromData(p.MainKey, insecuresecretdataaccess.Token{})
	if p.Alg == streamref.GCMHKDF {
		params, err := aesgcmhkdf.NewParameters(aesgcmhkdf.ParametersOpts{KeySizeInBytes: len(p.MainKey), DerivedKeySizeInBytes: p.K,
			HKDFHashType: tinkHashGCM(p.HKDFHash), SegmentSizeInBytes: int32(p.S)})
		if err != nil {
			return nil, err
		}
		return aesgcmhkdf.NewKey(params, kb)
	}
	params, err := aesctrhmac.NewParameters(aesctrhmac.ParametersOpts{KeySizeInBytes: len(p.MainKey), DerivedKeySizeInBytes: p.K,
		HkdfHashType: tinkHashCTR(p.HKDFHash), HmacHashType: tinkHashCTR(p.TagHash), HmacTagSizeInBytes: p.T, SegmentSizeInBytes: int32(p.S)})
	if err != nil {
		return nil, err
	}
	return aesctrhmac.NewKey(params, kb)
}

// makeKeyset builds a handle over the given keys with the primary at index prim.
func makeKeyset(ps []streamref.Params, prim int, viaStorage string) (*keyset.Handle, error) {
	h, err := makeKeyset0(ps, prim)
	if err != nil || viaStorage == "" {
		return h, err
	}
	// the handle as a deployment would obtain it: written out and read back (the key types' serializers and parsers run)
	var buf bytes.Buffer
	if viaStorage == "json" {
		if err := insecurecleartextkeyset.Write(h, keyset.NewJSONWriter(&buf)); err != nil {
			return nil, err
		}
		return insecurecleartextkeyset.Read(keyset.NewJSONReader(&buf))
	}
	if err := insecurecleartextkeyset.Write(h, keyset.NewBinaryWriter(&buf)); err != nil {
		return nil, err
	}
	return insecurecleartextkeyset.Read(keyset.NewBinaryReader(&buf))
}

func makeKeyset0(ps []streamref.Params, prim int) (*keyset.Handle, error) {
	m := keyset.NewManager()
	var ids []uint32
	for _, p := range ps {
		k, err := makeKey(p)
		if err != nil {
			return nil, err
		}
		id, err := m.AddKey(k)
		if err != nil {
			return nil, err
		}
		ids = append(ids, id)
	}
	if err := m.SetPrimary(ids[prim]); err != nil {
		return nil, err
	}
	return m.Handle()
}

// ---------------------------------------------------------------------------
// reading

type readCfg struct {
	bufSizes    []int
	chunks      []int
	zeroBudget  int
	eofWithData bool
	failAt      int
	failErr     error // what the failing source returns (nil = the plain sentinel)
}

type readResult struct {
	out     []byte
	ctorErr error
	err     error // first non-nil, non-EOF error from Read
	eof     bool  // ended with a clean io.EOF
	src     *simio.Source
	zeroNil int
}

func (rr *readResult) errored() bool { return rr.ctorErr != nil || rr.err != nil }

func readBack(r *core.Run, a tink.StreamingAEAD, data, aad []byte, rc readCfg, expectLen int) *readResult {
	src := simio.NewSource(data)
	src.Chunks = rc.chunks
	src.ZeroBudget = rc.zeroBudget
	src.EOFWithData = rc.eofWithData
	src.FailAt = rc.failAt
	src.FailErr = rc.failErr
	res := &readResult{src: src}
	defer func() {
		if r.Tracing() {
			r.Logf("  read %d stored bytes (bufs=%v srcChunks=%v zero=%d eofWithData=%v failAt=%d): ctor=%v delivered=%d err=%v cleanEOF=%v", len(data), rc.bufSizes, rc.chunks, rc.zeroBudget, rc.eofWithData, rc.failAt, res.ctorErr, len(res.out), res.err, res.eof)
		}
	}()
	var rd io.Reader
	var err error
	func() {
		defer catch(r, "NewDecryptingReader")
		rd, err = a.NewDecryptingReader(src, aad)
	}()
	if err != nil {
		res.ctorErr = err
		return res
	}
	if rd == nil {
		r.Violation("C07/nil-reader", "NewDecryptingReader returned (nil, nil)")
		return res
	}
	maxCalls := 2*expectLen + 2000
	stall, zeroLen := 0, 0
	bufs := map[int][]byte{}
	for i := 0; ; i++ {
		if i > maxCalls {
			r.Violation("C07/no-progress", fmt.Sprintf("reader did not terminate within %d Read calls", maxCalls))
			return res
		}
		size := 1 << 16
		if len(rc.bufSizes) > 0 {
			size = rc.bufSizes[i%len(rc.bufSizes)]
		}
		if size == 0 {
			zeroLen++
			if zeroLen > 16 {
				size = 1
			} else {
				r.Probe("zero-length-read")
			}
		}
		// one buffer per size is reused across the Read calls of a stream (the bytes are copied out below); a fresh
		// 64 KiB buffer per call would cost gigabytes on a 65 537-segment stream
		buf := bufs[size]
		if buf == nil {
			buf = make([]byte, size)
			bufs[size] = buf
		}
		var n int
		var err error
		func() {
			defer catch(r, "Read")
			n, err = rd.Read(buf)
		}()
		if n < 0 || n > len(buf) {
			r.Violation("C07/read-count-out-of-range", fmt.Sprintf("Read returned n=%d for a %d-byte buffer", n, len(buf)))
			return res
		}
		res.out = append(res.out, buf[:n]...)
		if err == io.EOF {
			res.eof = true
			// must stay at EOF
			for k := 0; k < 2; k++ {
				var n2 int
				var err2 error
				func() {
					defer catch(r, "Read-after-EOF")
					n2, err2 = rd.Read(make([]byte, 8))
				}()
				// C07 says "exactly the plaintext and then io.EOF": bytes after the end of stream contradict it; what a
				// further Read reports otherwise is outside the statement
				if n2 != 0 {
					r.Violation("C07/bytes-after-eof", fmt.Sprintf("Read after io.EOF returned %d more bytes (err %v)", n2, err2))
				}
			}
			return res
		}
		if err != nil {
			res.err = err
			return res
		}
		if n == 0 && len(buf) > 0 {
			stall++
			res.zeroNil++
			if stall > 64 {
				r.Violation("C07/no-progress", "more than 64 consecutive (0, nil) results for a non-empty buffer")
				return res
			}
		} else if n > 0 {
			stall = 0
		}
	}
}

func catch(r *core.Run, where string) {
	if p := recover(); p != nil {
		if s, ok := p.(fmt.Stringer); ok {
			_ = s
		}
		// rapid's own control-flow panics must pass through untouched
		if isRapidPanic(p) {
			panic(p)
		}
		r.Violation("C07/panic:"+where, fmt.Sprintf("%v", p))
	}
}

func isRapidPanic(p any) bool {
	s := fmt.Sprintf("%T", p)
	return s == "rapid.stopTest" || s == "rapid.invalidData"
}

// ---------------------------------------------------------------------------
// writing

type writeResult struct {
	dev      *simio.Device
	acked    []byte
	ctorErr  error
	writeErr error
	closeErr error
}

func (w *writeResult) anyErr() bool {
	return w.ctorErr != nil || w.writeErr != nil || w.closeErr != nil
}

func writeOut(r *core.Run, a tink.StreamingAEAD, pt, aad []byte, chunks []int, failAt int, partial bool, afterClose int, p streamref.Params) *writeResult {
	dev := simio.NewDevice(failAt, partial)
	res := &writeResult{dev: dev}
	var w io.WriteCloser
	var err error
	func() {
		defer catch(r, "NewEncryptingWriter")
		w, err = a.NewEncryptingWriter(dev, aad)
	}()
	if err != nil {
		res.ctorErr = err
		return res
	}
	if w == nil {
		r.Violation("C07/nil-writer", "NewEncryptingWriter returned (nil, nil)")
		return res
	}
	rest := pt
	segPlainFirst, segPlain := p.FirstPlain(), p.RestPlain()
	zeros := 0
	for i := 0; len(rest) > 0 || (i == 0 && len(chunks) > 0 && chunks[0] == 0); i++ {
		n := len(rest)
		if len(chunks) > 0 {
			n = chunks[i%len(chunks)]
			if n == 0 {
				zeros++
				if zeros > 8 && len(rest) > 0 {
					n = 1
				}
			}
		}
		if n > len(rest) {
			n = len(rest)
		}
		if n == 0 {
			r.Probe("zero-length-write")
		}
		if n >= segPlainFirst+segPlain || n >= 2*segPlain {
			r.Probe("write-spans-2-segments")
		}
		var wn int
		var werr error
		func() {
			defer catch(r, "Write")
			wn, werr = w.Write(rest[:n])
		}()
		if wn < 0 || wn > n {
			r.Violation("C07/write-count-out-of-range", fmt.Sprintf("Write returned n=%d for %d bytes", wn, n))
			return res
		}
		res.acked = append(res.acked, rest[:wn]...)
		if werr != nil {
			res.writeErr = werr
			if afterClose&1 != 0 && wn < n {
				// the caller retries once on the failing device before giving up; the fault is persistent, so no
				// outcome of this call is asserted beyond "no panic" — Close below must still not report overall success
				r.Probe("write-retried-after-error")
				func() {
					defer catch(r, "Write-retry")
					_, _ = w.Write(rest[wn:n])
				}()
			}
			break
		}
		if wn != n {
			r.Violation("C07/short-write-without-error", fmt.Sprintf("Write returned (%d, nil) for %d bytes", wn, n))
			return res
		}
		rest = rest[n:]
	}
	func() {
		defer catch(r, "Close")
		res.closeErr = w.Close()
	}()
	if res.closeErr == nil && res.writeErr == nil {
		lenAtClose := len(dev.Buf)
		// history continues after Close: writes must not be acknowledged into nowhere, closes must not emit bytes
		if afterClose&1 != 0 {
			r.Probe("write-after-close")
			var wn int
			var werr error
			func() {
				defer catch(r, "Write-after-Close")
				wn, werr = w.Write([]byte("late"))
			}()
			if werr == nil && wn > 0 {
				res.acked = append(res.acked, []byte("late")[:wn]...)
			}
		}
		if afterClose&2 != 0 {
			r.Probe("double-close")
			func() {
				defer catch(r, "second-Close")
				_ = w.Close()
			}()
		}
		_ = lenAtClose
	}
	return res
}

// ---------------------------------------------------------------------------
// the run

var ptKinds = []string{"0", "1", "first-1", "first", "first+1", "first+seg-1", "first+seg", "first+seg+1", "first+2seg", "random<=6seg", "long"}

// hugeOdds: one run in hugeOdds+1 (with a small enough segment size) writes more than 2^16 segments, so that the
// 32-bit segment counter of the nonce is exercised beyond its low 16 bits.
const hugeOdds = 15000

var forceHuge = os.Getenv("VSIM_FORCE_HUGE") != ""

func drawPlainLen(t *rapid.T, p streamref.Params) (int, string) {
	f, s := p.FirstPlain(), p.RestPlain()
	// (rapid's integer generators favour boundary and small values, so the coin is a residue of a 32-bit draw)
	if s <= 48 && (forceHuge || rapid.Uint32().Draw(t, "hugeStream")%(hugeOdds+1) == hugeOdds/2) {
		segs := 65536 + rapid.IntRange(1, 40).Draw(t, "hugeExtraSegs")
		return f + (segs-1)*s - rapid.IntRange(0, s-1).Draw(t, "ptTail"), "beyond-2^16-segments"
	}
	k := rapid.IntRange(0, len(ptKinds)-1).Draw(t, "ptKind")
	switch ptKinds[k] {
	case "0":
		return 0, "0"
	case "1":
		return 1, "1"
	case "first-1":
		return f - 1, ptKinds[k]
	case "first":
		return f, ptKinds[k]
	case "first+1":
		return f + 1, ptKinds[k]
	case "first+seg-1":
		return f + s - 1, ptKinds[k]
	case "first+seg":
		return f + s, ptKinds[k]
	case "first+seg+1":
		return f + s + 1, ptKinds[k]
	case "first+2seg":
		return f + 2*s, ptKinds[k]
	case "random<=6seg":
		return rapid.IntRange(0, f+5*s).Draw(t, "ptLen"), ptKinds[k]
	default:
		max := 12
		if core.Thorough() {
			max = 40
		}
		segs := rapid.IntRange(6, max).Draw(t, "ptSegs")
		n := f + (segs-1)*s - rapid.IntRange(0, s).Draw(t, "ptTail")
		if n > 1<<20 {
			n = 1 << 20
		}
		return n, "long"
	}
}

func classOfList(l []int, seg int) string {
	if len(l) == 0 {
		return "whole"
	}
	z, small := false, false
	for _, v := range l {
		switch {
		case v == 0:
			z = true
		case v < seg:
			small = true
		}
	}
	switch {
	case z:
		return "chunked+zero"
	case small:
		return "sub-segment"
	}
	return "multi-segment"
}

func nsegClass(n int) string {
	switch {
	case n <= 3:
		return fmt.Sprint(n)
	case n <= 8:
		return "4-8"
	}
	return "9+"
}

func sizeGen(p streamref.Params) *rapid.Generator[int] {
	s := p.RestPlain()
	return rapid.OneOf(rapid.SampledFrom([]int{0, 1, 2, 3, s - 1, s, s + 1, p.S - 1, p.S, p.S + 1, 2*p.S + 3, 1 << 14}), rapid.IntRange(0, 3*p.S))
}

func runStream(t *rapid.T) {
	r := core.Begin(t)
	g := simrng.New(rapid.Uint64().Draw(t, "rngSeed"))
	restore := simrng.Install(g)
	defer restore()

	level := rapid.SampledFrom([]string{"subtle", "keyset"}).Draw(t, "level")
	p := drawKeyCfg(t, level == "subtle", "k0.")
	var enc, dec, other tink.StreamingAEAD
	nKeys, primIdx := 1, 0
	var allKeys []streamref.Params // keyset level: the parameters (and key material) of every key of the keyset
	var err error
	switch level {
	case "subtle":
		r.Probe("subtle-level")
		enc, err = makeSubtle(p)
		if err != nil {
			r.Logf("config refused: %v", err)
			core.CountGlobal("config-refused")
			t.Skip("config refused")
		}
		dec = enc
		if p.Off > 0 {
			r.Probe("first-offset")
		}
	default:
		r.Probe("keyset-level")
		nKeys = rapid.IntRange(1, 4).Draw(t, "nKeys")
		primIdx = rapid.IntRange(0, nKeys-1).Draw(t, "primIdx")
		ps := make([]streamref.Params, nKeys)
		for i := range ps {
			if i == primIdx {
				ps[i] = p
			} else {
				ps[i] = drawKeyCfg(t, false, fmt.Sprintf("k%d.", i+1))
			}
		}
		allKeys = ps
		via := rapid.SampledFrom([]string{"", "", "binary", "json"}).Draw(t, "keysetVia")
		if via != "" {
			r.Probe("keyset-through-serialization")
		}
		h, err := makeKeyset(ps, primIdx, via)
		if err != nil {
			r.Logf("config refused: %v", err)
			core.CountGlobal("config-refused")
			t.Skip("config refused")
		}
		enc, err = streamingaead.New(h)
		if err != nil {
			r.Logf("config refused: %v", err)
			core.CountGlobal("config-refused")
			t.Skip("config refused")
		}
		dec = enc
		if primIdx == 1 {
			r.Probe("unreader-replay-2nd-key")
		} else if primIdx > 1 {
			r.Probe("unreader-replay-3rd+-key")
		}
	}
	r.Logf("config level=%s alg=%d K=%d hkdf=%s tag=%s/%d S=%d off=%d mainKey=%d keys=%d primary@%d", level, p.Alg, p.K, p.HKDFHash, p.TagHash, p.T, p.S, p.Off, len(p.MainKey), nKeys, primIdx)

	aadKind := rapid.SampledFrom([]string{"nil", "empty", "short", "long"}).Draw(t, "aad")
	var aad []byte
	switch aadKind {
	case "empty":
		aad = []byte{}
	case "short":
		aad = []byte("aad")
	case "long":
		aad = bytes.Repeat([]byte{0xa5, 0x5a, 0x01}, 100)
	}

	ptLen, ptClass := drawPlainLen(t, p)
	if ptLen < 0 {
		ptLen = 0
	}
	pt := g.Bytes(15, 0, ptLen)
	if ptLen == 0 {
		r.Probe("empty-plaintext")
	}
	if ptLen >= p.FirstPlain() && (ptLen-p.FirstPlain())%p.RestPlain() == 0 {
		r.Probe("exact-multiple")
	}
	nseg := p.NumSegments(ptLen)
	wChunks := rapid.SliceOfN(sizeGen(p), 0, 8).Draw(t, "writeChunks")
	afterClose := rapid.IntRange(0, 3).Draw(t, "afterClose")

	rc := readCfg{failAt: -1}
	rc.bufSizes = rapid.SliceOfN(sizeGen(p), 0, 6).Draw(t, "readBufs")
	rc.chunks = rapid.SliceOfN(rapid.OneOf(rapid.SampledFrom([]int{0, 1, 1, 2, 3, 7, p.S - 1, p.S, p.S + 1}), rapid.IntRange(1, 2*p.S)), 0, 6).Draw(t, "srcChunks")
	rc.zeroBudget = rapid.IntRange(0, 6).Draw(t, "srcZeroBudget")
	rc.eofWithData = rapid.Bool().Draw(t, "srcEOFWithData")
	for _, b := range rc.bufSizes {
		if b > 0 && b < p.RestPlain() {
			r.Probe("read-buffer-smaller-than-segment")
			break
		}
	}

	fault := rapid.SampledFrom([]string{"F0", "F0", "F0", "F1", "F1", "F2", "F2", "F3", "F3", "F4", "F5", "F6", "F7", "F8"}).Draw(t, "fault")
	if ptClass == "beyond-2^16-segments" {
		// a 65 537-segment stream costs tens of milliseconds: one plain round trip in both directions, nothing else
		r.Probe("more-than-65536-segments")
		fault, wChunks, rc.bufSizes, rc.chunks = "F0", nil, nil, nil
	}
	ctLen := p.CiphertextLen(ptLen)
	posClass := "-"
	r.Logf("plaintext %d bytes (%s, %d segments, ciphertext %d bytes) aad=%s writeChunks=%v afterClose=%d fault=%s", ptLen, ptClass, nseg, ctLen, aadKind, wChunks, afterClose, fault)

	// ---- write phase
	failAt, partial := -1, false
	if fault == "F1" {
		failAt, posClass = drawOffset(t, p, ctLen, false)
		partial = rapid.Bool().Draw(t, "partial")
		r.Logf("writer device fails from offset %d (%s) partial=%v", failAt, posClass, partial)
	}
	// One primitive serves many streams, also at the same time: sometimes a neighbour stream is opened on the same
	// primitive before the judged one and finished after it. The neighbour gets a fault-free device and must be a
	// well-formed stream of its own plaintext whatever happens to the judged stream in between.
	var nb *neighbour
	if ptClass != "beyond-2^16-segments" && rapid.IntRange(0, 3).Draw(t, "neighbourWriter") == 0 {
		nb = openNeighbour(r, enc, g.Bytes(13, 0, rapid.IntRange(0, 3*p.S).Draw(t, "neighbourLen")), []byte("neighbour-aad"))
	}
	wr := writeOut(r, enc, pt, aad, wChunks, failAt, partial, afterClose, p)
	if nb != nil {
		nb.finish(r, p, dec)
	}
	r.ObsErr("ctor", wr.ctorErr)
	r.ObsErr("write", wr.writeErr)
	r.ObsErr("close", wr.closeErr)
	r.Obs("device", wr.dev.Buf)
	if fault == "F1" && wr.dev.Failed {
		r.Fault("F1-writer-error")
		if partial {
			r.Fault("F1-partial-accept")
		}
		if !wr.anyErr() {
			r.Violation("C07/writer-error-swallowed", fmt.Sprintf("device failed persistently from offset %d of %d but constructor, every Write and Close reported success", failAt, ctLen))
		}
		noteErrPos(r, p, failAt, ctLen)
		// the bytes that reached the device are a crash image: reading them back must not look like a complete stream
		r.Probe("crash-image-read-back")
		rr := readBack(r, dec, wr.dev.Buf, aad, rc, ptLen)
		checkManipulated(r, rr, pt, "F1-crash-image", fmt.Sprintf("device content after writer failure at %d (%d bytes)", failAt, len(wr.dev.Buf)))
		r.End(sig(p, level, nseg, ptClass, wChunks, rc, "F1", posClass), true)
		return
	}
	// no writer fault fired: everything must have succeeded
	if wr.anyErr() {
		r.Violation("C07/spurious-write-error", fmt.Sprintf("fault-free device, but ctor=%v write=%v close=%v", wr.ctorErr, wr.writeErr, wr.closeErr))
		return
	}
	ct := wr.dev.Buf
	if !bytes.Equal(wr.acked, pt) {
		// only possible if a Write after Close was acknowledged
		r.Violation("C07/write-after-close-acknowledged", "a Write issued after Close reported success; its bytes are in no stream")
	}
	// format: the independent decoder must read Tink's bytes
	refPt, refErr := p.Decode(aad, ct)
	r.Probe("ref-decodes-tink")
	if refErr != nil || !bytes.Equal(refPt, pt) {
		r.Violation("C07/format-mismatch:tink-to-ref", fmt.Sprintf("reference decoder: err=%v, got %d bytes want %d (ciphertext %d bytes, expected %d)", refErr, len(refPt), len(pt), len(ct), ctLen))
	}
	// the documented format allows a final tag-only segment after full ones, so the length is not asserted; every
	// position computed from here on uses the real length
	if len(ct) != ctLen {
		r.Probe("ciphertext-longer-than-minimal-encoding")
		ctLen = len(ct)
	}

	nontrivial := len(rc.chunks) > 0 || len(rc.bufSizes) > 0 || len(wChunks) > 0 || fault != "F0"
	switch fault {
	case "F0", "F1":
		if len(allKeys) > 1 && rapid.Bool().Draw(t, "otherKeyFirst") {
			// a history on the decrypting primitive: a stream made (by the reference encoder) under ANOTHER key of the
			// keyset is read first, then the judged stream under the primary
			j := (primIdx + 1 + rapid.IntRange(0, len(allKeys)-2).Draw(t, "otherKeyIdx")) % len(allKeys)
			q := allKeys[j]
			opt := g.Bytes(13, 4096, rapid.IntRange(0, 2*q.S).Draw(t, "otherKeyLen"))
			oct, err := q.Encode(aad, g.Bytes(13, 8192, q.K), g.Bytes(13, 8300, 7), opt)
			if err != nil {
				t.Fatalf("harness: reference encoder failed: %v", err)
			}
			r.Probe("stream-of-another-key-read-first")
			rr0 := readBack(r, dec, oct, aad, readCfg{failAt: -1}, len(opt))
			checkClean(r, rr0, opt, fmt.Sprintf("reference-stream under key #%d of the keyset, read before the judged one", j))
		}
		rr := readBack(r, dec, ct, aad, rc, ptLen)
		noteSource(r, rr)
		checkClean(r, rr, pt, "tink-stream")
		if nseg >= 2 {
			r.Probe("lookahead-carried")
		}
		// the other direction: Tink must read what the reference writes
		salt := rapid.SliceOfN(rapid.Byte(), p.K, p.K).Draw(t, "refSalt")
		np := rapid.SliceOfN(rapid.Byte(), 7, 7).Draw(t, "refNoncePrefix")
		refCt, err := p.Encode(aad, salt, np, pt)
		if err != nil {
			t.Fatalf("harness: reference encoder failed: %v", err)
		}
		r.Probe("tink-decodes-ref")
		rr2 := readBack(r, dec, refCt, aad, rc, ptLen)
		checkClean(r, rr2, pt, "reference-stream")
		fault = "F0"
	case "F2":
		rc2 := rc
		rc2.failAt, posClass = drawOffset(t, p, ctLen, true)
		// the persistent error is the plain sentinel, or an error that merely wraps io.EOF / io.ErrUnexpectedEOF (a
		// transport error formatted with %w): a reader announces the end of its data with io.EOF itself, nothing else
		switch rapid.IntRange(0, 3).Draw(t, "readerErrKind") {
		case 2:
			rc2.failErr = simio.ErrInjectedWrapsEOF
			r.Probe("reader-error-wraps-eof")
		case 3:
			rc2.failErr = simio.ErrInjectedWrapsUnexpectedEOF
			r.Probe("reader-error-wraps-eof")
		}
		rr := readBack(r, dec, ct, aad, rc2, ptLen)
		noteSource(r, rr)
		if rr.src.FailHits > 0 {
			r.Fault("F2-reader-error")
			noteErrPos(r, p, rc2.failAt, ctLen)
			if !rr.errored() {
				r.Violation("C07/reader-error-swallowed", fmt.Sprintf("source failed persistently at offset %d of %d but the read sequence ended without an error (eof=%v, %d bytes)", rc2.failAt, ctLen, rr.eof, len(rr.out)))
			}
			if !bytes.HasPrefix(pt, rr.out) {
				r.Violation("C07/non-prefix-before-error", "bytes returned before the reader error are not a prefix of the plaintext")
			}
		} else {
			checkClean(r, rr, pt, "tink-stream(F2 not reached)")
		}
	case "F3":
		cuts := map[int]bool{}
		for _, b := range p.Bounds(ctLen) {
			if b < ctLen {
				cuts[b] = true
			}
		}
		for _, b := range wr.dev.WriteEnds {
			if b < ctLen {
				cuts[b] = true
			}
		}
		extra := rapid.SliceOfN(rapid.IntRange(0, ctLen-1), 1, 4).Draw(t, "cuts")
		for _, c := range extra {
			cuts[c] = true
		}
		var list []int
		for c := range cuts {
			list = append(list, c)
		}
		sortInts(list)
		if len(list) > 40 {
			// keep the drawn ones and an even sample of the enumerated ones
			step := len(list)/36 + 1
			var l2 []int
			for i, c := range list {
				if i%step == 0 || contains(extra, c) {
					l2 = append(l2, c)
				}
			}
			list = l2
		}
		for _, c := range list {
			r.Fault("F3-cut")
			rr := readBack(r, dec, ct[:c], aad, rc, ptLen)
			checkManipulated(r, rr, pt, "F3-cut", fmt.Sprintf("cut at %d of %d", c, ctLen))
		}
		posClass = "cuts:" + nsegClass(len(list))
	case "F4":
		b := p.Bounds(ctLen) // [0,H,e0,e1,...]
		segs := len(b) - 2
		op := rapid.SampledFrom([]string{"drop", "dup", "swap", "splice"}).Draw(t, "segOp")
		i := rapid.IntRange(0, segs-1).Draw(t, "segI")
		seg := func(k int) []byte { return ct[b[k+1]:b[k+2]] }
		var m []byte
		switch op {
		case "drop":
			m = append(append([]byte{}, ct[:b[i+1]]...), ct[b[i+2]:]...)
		case "dup":
			m = append(append(append([]byte{}, ct[:b[i+2]]...), seg(i)...), ct[b[i+2]:]...)
		case "swap":
			j := rapid.IntRange(0, segs-1).Draw(t, "segJ")
			if i == j {
				op = "dup"
				m = append(append(append([]byte{}, ct[:b[i+2]]...), seg(i)...), ct[b[i+2]:]...)
				break
			}
			if i > j {
				i, j = j, i
			}
			m = append([]byte{}, ct[:b[i+1]]...)
			m = append(m, seg(j)...)
			m = append(m, ct[b[i+2]:b[j+1]]...)
			m = append(m, seg(i)...)
			m = append(m, ct[b[j+2]:]...)
		case "splice":
			// a second stream of the same key and associated data, same plaintext; its segment i replaces ours
			wr2 := writeOut(r, enc, pt, aad, nil, -1, false, 0, p)
			if wr2.anyErr() || len(wr2.dev.Buf) != ctLen {
				r.Violation("C07/spurious-write-error", "second fault-free stream failed")
				return
			}
			m = append([]byte{}, ct[:b[i+1]]...)
			m = append(m, wr2.dev.Buf[b[i+1]:b[i+2]]...)
			m = append(m, ct[b[i+2]:]...)
		}
		if bytes.Equal(m, ct) {
			t.Skip("segment manipulation was the identity")
		}
		r.Fault("F4-" + op)
		posClass = op
		rr := readBack(r, dec, m, aad, rc, ptLen)
		checkManipulated(r, rr, pt, "F4-"+op, fmt.Sprintf("%s segment %d of %d", op, i, segs))
	case "F5":
		kind := rapid.SampledFrom([]string{"random", "copy-last-segment", "one-zero"}).Draw(t, "appendKind")
		var tail []byte
		switch kind {
		case "random":
			tail = rapid.SliceOfN(rapid.Byte(), 1, p.S+1).Draw(t, "tail")
		case "copy-last-segment":
			b := p.Bounds(ctLen)
			tail = ct[b[len(b)-2]:]
		default:
			tail = []byte{0}
		}
		r.Fault("F5-append")
		posClass = kind
		m := append(append([]byte{}, ct...), tail...)
		rr := readBack(r, dec, m, aad, rc, ptLen)
		checkManipulated(r, rr, pt, "F5-append", fmt.Sprintf("appended %d bytes (%s)", len(tail), kind))
	case "F6":
		var pos int
		pos, posClass = drawOffset(t, p, ctLen, false)
		bit := rapid.IntRange(0, 7).Draw(t, "bit")
		m := append([]byte{}, ct...)
		m[pos] ^= 1 << bit
		r.Fault("F6-flip")
		rr := readBack(r, dec, m, aad, rc, ptLen)
		checkManipulated(r, rr, pt, "F6-flip", fmt.Sprintf("bit %d of byte %d flipped (%s)", bit, pos, posClass))
	case "F7":
		var aad2 []byte
		switch rapid.IntRange(0, 2).Draw(t, "aad2") {
		case 0:
			aad2 = append(append([]byte{}, aad...), 1)
		case 1:
			if len(aad) > 0 {
				aad2 = aad[:len(aad)-1]
			} else {
				aad2 = []byte{0}
			}
		default:
			aad2 = []byte("other associated data")
		}
		r.Fault("F7-aad")
		rr := readBack(r, dec, ct, aad2, rc, ptLen)
		checkManipulated(r, rr, pt, "F7-aad", "read with other associated data")
	case "F8":
		p2 := p
		p2.MainKey = append([]byte{}, p.MainKey...)
		p2.MainKey[rapid.IntRange(0, len(p2.MainKey)-1).Draw(t, "keyByte")] ^= 0x40
		if level == "subtle" {
			other, err = makeSubtle(p2)
		} else {
			n2 := rapid.IntRange(1, 3).Draw(t, "otherKeys")
			ps := []streamref.Params{p2}
			for i := 1; i < n2; i++ {
				ps = append(ps, drawKeyCfg(t, false, fmt.Sprintf("o%d.", i)))
			}
			var h *keyset.Handle
			h, err = makeKeyset(ps, 0, "")
			if err == nil {
				other, err = streamingaead.New(h)
			}
		}
		if err != nil {
			t.Fatalf("harness: cannot build the other key: %v", err)
		}
		r.Fault("F8-key")
		rr := readBack(r, other, ct, aad, rc, ptLen)
		checkManipulated(r, rr, pt, "F8-key", "read with a key(set) that did not write the stream")
	}
	r.End(sig(p, level, nseg, ptClass, wChunks, rc, fault, posClass), nontrivial)
}

func sig(p streamref.Params, level string, nseg int, ptClass string, wChunks []int, rc readCfg, fault, posClass string) string {
	return fmt.Sprintf("alg%d/%s/nseg%s/pt:%s/w:%s/r:%s/src:%s/%s/%s", p.Alg, level, nsegClass(nseg), ptClass,
		classOfList(wChunks, p.RestPlain()), classOfList(rc.bufSizes, p.RestPlain()), classOfList(rc.chunks, p.S), fault, posClass)
}

func noteSource(r *core.Run, rr *readResult) {
	if rr.src.ShortReads > 0 {
		r.Fault("src-short-read")
	}
	if rr.src.ZeroReads > 0 {
		r.Fault("src-zero-read")
	}
	if rr.src.EOFWithData && rr.src.EOFs > 0 {
		r.Fault("src-eof-with-data")
	}
	if rr.zeroNil > 0 {
		r.Probe("zero-nil-from-tink-reader")
	}
}

// drawOffset draws a byte offset of the ciphertext biased to format positions.
// inclusiveEnd allows ctLen itself (a reader failing exactly at the end).
func drawOffset(t *rapid.T, p streamref.Params, ctLen int, inclusiveEnd bool) (int, string) {
	h := p.HeaderLen()
	b := p.Bounds(ctLen)
	lastStart := b[len(b)-2]
	kinds := []string{"header-len-byte", "salt", "nonce-prefix", "first-segment", "segment-body", "last-tag", "any"}
	if inclusiveEnd {
		kinds = append(kinds, "at-len-ct", "segment-boundary")
	}
	k := rapid.SampledFrom(kinds).Draw(t, "posKind")
	clamp := func(v int) int {
		max := ctLen - 1
		if inclusiveEnd {
			max = ctLen
		}
		if v > max {
			v = max
		}
		if v < 0 {
			v = 0
		}
		return v
	}
	switch k {
	case "header-len-byte":
		return 0, k
	case "salt":
		return clamp(1 + rapid.IntRange(0, p.K-1).Draw(t, "pos")), k
	case "nonce-prefix":
		return clamp(1 + p.K + rapid.IntRange(0, 6).Draw(t, "pos")), k
	case "first-segment":
		return clamp(h + rapid.IntRange(0, b[2]-h-1).Draw(t, "pos")), k
	case "last-tag":
		return clamp(ctLen - 1 - rapid.IntRange(0, p.TagLen()-1).Draw(t, "pos")), k
	case "at-len-ct":
		return ctLen, k
	case "segment-boundary":
		return clamp(b[rapid.IntRange(1, len(b)-1).Draw(t, "boundary")]), k
	case "segment-body":
		return clamp(lastStart + rapid.IntRange(0, ctLen-lastStart-1).Draw(t, "pos")), k
	}
	return clamp(rapid.IntRange(0, ctLen-1).Draw(t, "pos")), k
}

func noteErrPos(r *core.Run, p streamref.Params, at, ctLen int) {
	b := p.Bounds(ctLen)
	switch {
	case at < p.HeaderLen():
		r.Probe("error-in-header")
	case at == ctLen:
		r.Probe("error-at-len-ct")
	case at >= b[len(b)-2]:
		r.Probe("error-in-last-segment")
	case at < b[2]:
		r.Probe("error-in-first-segment")
	}
}

// checkClean is the fault-free oracle.
func checkClean(r *core.Run, rr *readResult, pt []byte, what string) {
	if rr.ctorErr != nil || rr.err != nil {
		r.Violation("C07/spurious-read-error", fmt.Sprintf("%s: fault-free read failed: ctor=%v read=%v after %d bytes", what, rr.ctorErr, rr.err, len(rr.out)))
		return
	}
	if !rr.eof {
		return // a no-progress violation has been raised already
	}
	if !bytes.Equal(rr.out, pt) {
		r.Violation("C07/wrong-plaintext", fmt.Sprintf("%s: read back %d bytes, want %d; equal prefix %d", what, len(rr.out), len(pt), commonPrefix(rr.out, pt)))
	}
}

// checkManipulated is the oracle for F3–F8 and crash images: never a clean
// end of stream, and everything delivered is a prefix of the plaintext.
func checkManipulated(r *core.Run, rr *readResult, pt []byte, kind, what string) {
	r.ObsI(kind+".delivered", int64(len(rr.out)))
	if !rr.errored() {
		if rr.eof {
			r.Violation("C07/manipulation-undetected:"+kind, fmt.Sprintf("%s: reader delivered %d bytes and a clean io.EOF", what, len(rr.out)))
		}
		return
	}
	if !bytes.HasPrefix(pt, rr.out) {
		r.Violation("C07/non-prefix-before-error:"+kind, fmt.Sprintf("%s: %d bytes delivered before the error are not a prefix of the plaintext (common prefix %d)", what, len(rr.out), commonPrefix(rr.out, pt)))
	}
}

func commonPrefix(a, b []byte) int {
	n := 0
	for n < len(a) && n < len(b) && a[n] == b[n] {
		n++
	}
	return n
}

func sortInts(l []int) {
	for i := 1; i < len(l); i++ {
		for j := i; j > 0 && l[j] < l[j-1]; j-- {
			l[j], l[j-1] = l[j-1], l[j]
		}
	}
}

func contains(l []int, v int) bool {
	for _, x := range l {
		if x == v {
			return true
		}
	}
	return false
}

// neighbour is a second encrypting writer on the primitive under test, kept open across the judged stream's life.
type neighbour struct {
	w    io.WriteCloser
	buf  bytes.Buffer
	pt   []byte
	aad  []byte
	done int
	err  error
}

func openNeighbour(r *core.Run, a tink.StreamingAEAD, pt, aad []byte) *neighbour {
	n := &neighbour{pt: pt, aad: aad}
	func() {
		defer catch(r, "neighbour NewEncryptingWriter")
		n.w, n.err = a.NewEncryptingWriter(&n.buf, aad)
	}()
	if n.err == nil && n.w != nil {
		half := len(pt) / 2
		func() {
			defer catch(r, "neighbour Write")
			_, n.err = n.w.Write(pt[:half])
		}()
		n.done = half
	}
	r.Probe("neighbour-writer-open-across-the-judged-stream")
	return n
}

func (n *neighbour) finish(r *core.Run, p streamref.Params, dec tink.StreamingAEAD) {
	if n.err == nil && n.w != nil {
		func() {
			defer catch(r, "neighbour Write/Close")
			if _, n.err = n.w.Write(n.pt[n.done:]); n.err == nil {
				n.err = n.w.Close()
			}
		}()
	}
	if n.err != nil || n.w == nil {
		r.Violation("C07/spurious-write-error", fmt.Sprintf("a second stream opened on the same primitive (fault-free device) failed: %v", n.err))
		return
	}
	got, err := p.Decode(n.aad, n.buf.Bytes())
	if err != nil || !bytes.Equal(got, n.pt) {
		r.Violation("C07/format-mismatch:tink-to-ref", fmt.Sprintf("a second stream written on the same primitive while the judged one was written: reference decoder err=%v, got %d bytes want %d", err, len(got), len(n.pt)))
		return
	}
	rr := readBack(r, dec, n.buf.Bytes(), n.aad, readCfg{failAt: -1}, len(n.pt))
	checkClean(r, rr, n.pt, "neighbour stream written on the same primitive")
}
