package entropy

// Key IDs. C20 says of them only: "key IDs handed out by one manager are
// pairwise distinct and spread uniformly over the 32-bit range". The world
// explains an ID in one of two ways:
//
//   - copy: the ID is the 32-bit value of four bytes issued during the call,
//     in either byte order (what tink does today) — exact, per call;
//   - function: the ID is a function of the bytes of the first request the call
//     made to the seam (same stream ⇒ same ID, flipping single bits of that
//     request changes it), and — necessary conditions for "balanced" judged
//     over everything a worker process has seen — every output bit reacts to
//     some flipped input bit and the IDs handed out are spread evenly.
//
// Pairwise distinctness per manager stays exact in both cases.

import (
	"bytes"
	"encoding/binary"
	"fmt"
	"math"

	"github.com/tink-crypto/tink-go/v2/verifsim/core"
	"pgregory.net/rapid"
)

// idStats accumulates, per worker process, every stream-drawn ID the managers
// handed out (runs whose RNG seed was seen before are not counted twice: rapid
// likes small seeds, and equal seeds give equal streams and equal IDs).
var idStats struct {
	seeds map[uint64]bool
	n     int
	ones  [32]int
	top   [256]int
	next  int    // next N at which the spread is judged
	bad   string // sticky: once the spread is off, every later ID operation reports it

	// single-bit flips of ID draws made while explaining IDs functionally
	flips    int    // flips at uniformly drawn bit positions
	flipMask uint32 // OR of (id ^ id') over all flips
}

const (
	idSpreadFirstN = 512
	// A conforming map may change a single output bit per flipped input bit
	// (XOR-fold). After n uniformly placed flips an output bit has never
	// changed with probability (31/32)^n; 32·(31/32)^n < 2^-100 for n ≥ 2300.
	idFlipsBeforeJudging = 4096
)

func (w *world) idStatsStart(seed uint64) {
	if idStats.seeds == nil {
		idStats.seeds = map[uint64]bool{}
		idStats.next = idSpreadFirstN
	}
	w.statsOn = !idStats.seeds[seed]
	ledgerOn = w.statsOn
	idStats.seeds[seed] = true
}

// noteID records an ID whose value came from the stream (not from the
// harness's script) and judges the spread at N = 512, 1024, 2048, ….
//
// Bounds: for a uniform source the ones-count of a bit over N IDs is
// Binomial(N, 1/2); by Hoeffding P(|ones − N/2| > 4·√N) ≤ 2·e^-32 < 2.6·10^-14,
// i.e. 8σ. With 32 bits and at most 24 judging points (N up to 2^32) a false
// alarm has probability < 2·10^-11 per process. The top-byte histogram is
// judged from N = 8192 on against χ²(255 d.o.f., mean 255, σ 22.6) with the
// threshold 700 (about 20σ).
func (w *world) noteID(id uint32) {
	if idStats.bad != "" {
		w.r.Violation("C20/keyid-not-uniform", idStats.bad)
		return
	}
	if !w.statsOn {
		return
	}
	idStats.n++
	for b := 0; b < 32; b++ {
		if id>>b&1 == 1 {
			idStats.ones[b]++
		}
	}
	idStats.top[id>>24]++
	if idStats.n < idStats.next {
		return
	}
	idStats.next *= 2
	if why := spreadFault(idStats.n, idStats.ones[:], idStats.top[:]); why != "" {
		idStats.bad = fmt.Sprintf("over the %d key IDs this worker process has seen handed out: %s", idStats.n, why)
		w.r.Violation("C20/keyid-not-uniform", idStats.bad)
	}
	w.r.Probe("keyid-spread-judged")
}

func spreadFault(n int, ones []int, top []int) string {
	lim := 4 * math.Sqrt(float64(n))
	for b, c := range ones {
		if d := math.Abs(float64(c) - float64(n)/2); d > lim {
			return fmt.Sprintf("bit %d is set in %d of %d IDs (expected %d ± %.0f)", b, c, n, n/2, lim)
		}
	}
	if n >= 8192 && top != nil {
		exp := float64(n) / 256
		chi := 0.0
		for _, c := range top {
			chi += (float64(c) - exp) * (float64(c) - exp) / exp
		}
		if chi > 700 {
			return fmt.Sprintf("the top byte is unevenly spread (χ² = %.0f over 256 values, 255 expected)", chi)
		}
	}
	return ""
}

// explainID explains the ID a call returned. redo re-executes the ID-drawing
// call on a scratch manager (ok=false if it fails). It returns the range of
// the window the ID draw occupies — the key material must come from the rest.
//
// noFeed (may be nil) tells whether the call issued no seam request that could
// have fed the ID: no seam bytes at all, or only the key's own material. If
// then no explanation holds, the ID may come from a generator the manager
// seeded from the seam earlier (its first ID went through the functional
// explanation): no verdict here — w.idRelaxed is set, the probe
// keyid-without-seam-bytes-in-call counted, and the ID is left to the
// necessary conditions every ID meets anyway (exact pairwise distinctness,
// the spread table, the 512-ID batch, and noSeamIDs below).
func (w *world) explainID(wn win, id uint32, redo func() (uint32, bool), noFeed func() bool) (from, to int, ok bool) {
	r := w.r
	w.idRelaxed = false
	if off := findID(id, wn.data); off >= 0 {
		w.oracles["id"] = true
		w.markEff(wn, off, off+4)
		w.noteLeftover(wn, off, 4)
		return off, off + 4, true
	}
	usedAgo := 0
	// four bytes of a bulk fetch of this call, or issued before the call and not
	// used by any judged field since (a library that buffers randomness)
	for _, pat := range [][]byte{binary.BigEndian.AppendUint32(nil, id), binary.LittleEndian.AppendUint32(nil, id)} {
		for _, b := range wn.bulk {
			if i := bytes.Index(wn.raw[b[0]:b[1]], pat); i >= 0 && !ledger.usedAny(wn.led0+b[0]+i, wn.led0+b[0]+i+4) {
				ledger.mark(wn.led0+b[0]+i, wn.led0+b[0]+i+4)
				pooledSeen = true
				w.oracles["id"], w.oracles["pooled"] = true, true
				r.Probe("keyid-from-earlier-issued-bytes")
				return 0, 0, true
			}
		}
		switch at, st := ledger.find(pat, wn.led0); st {
		case ledgerFresh:
			ledger.mark(at, at+4)
			pooledSeen = true
			w.oracles["id"], w.oracles["pooled"] = true, true
			r.Probe("keyid-from-earlier-issued-bytes")
			return 0, 0, true
		case ledgerUsed:
			usedAgo = wn.led0 - at
		}
	}
	fail := func(why string) (int, int, bool) {
		if noFeed != nil && noFeed() {
			w.idRelaxed = true
			r.Probe("keyid-without-seam-bytes-in-call")
			return 0, 0, true
		}
		if usedAgo > 0 {
			// Four bytes coincide with some of the last 2^20 issued bytes with
			// probability 2^-11, and a worker sees thousands of IDs: a match with USED
			// bytes proves neither reuse nor provenance. No verdict on this ID — reuse is
			// left to fields of 7 bytes or more, the exact pairwise-distinct check and
			// the spread statistics.
			r.Count("keyid-matches-only-used-bytes", 1)
			return 0, 0, true
		}
		r.Violation("C20/keyid-not-from-rng", fmt.Sprintf("manager returned key ID %08x; it is not the value of four bytes issued during the call (%s), and %s", id, core.Hex(wn.data, 16), why))
		return 0, 0, false
	}
	if len(wn.reqs) == 0 {
		return fail("the call drew nothing through crypto/rand.Reader")
	}
	q := wn.reqs[0] // the ID is drawn first
	from, to = int(q.off), int(q.off)+q.n
	if to > len(wn.data) {
		to = len(wn.data)
	}
	if to-from < 4 {
		return fail(fmt.Sprintf("its first request is for %d bytes only", to-from))
	}
	var id2 uint32
	var good bool
	w.replay(wn, "keyID", func() { id2, good = redo() })
	if !good || id2 != id {
		return fail(fmt.Sprintf("the same stream gives %08x the second time: not a function of the issued bytes", id2))
	}
	// single-bit flips inside the ID request
	type flip struct {
		pos     int
		bit     uint
		uniform bool
	}
	n := to - from
	flips := []flip{
		{from, uint(rapid.IntRange(0, 7).Draw(w.t, "idFlipBit")), false},
		{to - 1, uint(rapid.IntRange(0, 7).Draw(w.t, "idFlipBit")), false},
	}
	for i := 0; i < 3; i++ {
		b := rapid.IntRange(0, 8*n-1).Draw(w.t, "idFlip")
		flips = append(flips, flip{from + b/8, uint(b % 8), true})
	}
	any := false
	for _, f := range flips {
		var id3 uint32
		good = false
		w.rerunXor(wn, f.pos, 1<<f.bit, "keyID", func() { id3, good = redo() })
		if !good {
			continue
		}
		if id3 != id {
			any = true
		}
		idStats.flipMask |= id3 ^ id
		if f.uniform {
			idStats.flips++
		}
	}
	if !any {
		return fail(fmt.Sprintf("no single flipped bit of its first request (%d bytes; flipped %v) changes it", n, flips))
	}
	if idStats.flips >= idFlipsBeforeJudging && idStats.flipMask != 0xffffffff {
		idStats.bad = fmt.Sprintf("over %d single-bit flips of ID draws in this worker process the ID bits %032b (0 = never) never changed: the ID is not a balanced function of the drawn bytes", idStats.flips, idStats.flipMask)
		r.Violation("C20/keyid-not-uniform", idStats.bad)
		return 0, 0, false
	}
	w.oracles["id"] = true
	w.oracles["idfn"] = true
	r.Probe("keyid-derived-from-seam-bytes")
	return from, to, true
}

// without returns data with [from,to) removed.
func without(data []byte, from, to int) []byte {
	return append(append([]byte(nil), data[:from]...), data[to:]...)
}

// noSeamIDs: the IDs one manager handed out without any seam bytes in the call.
// From 8 such IDs on, a necessary condition for "uniform": at most two
// consecutive pairs may lie closer than 2^8 (a counter or a clock fails at
// once). For uniform IDs a pair is that close with probability 511/2^32 < 2^-23;
// three such pairs among fewer than 2^12 have probability < 2^-36·2^-… < 2^-40.
func (w *world) noSeamIDs(id uint32) {
	w.mgrNoSeam = append(w.mgrNoSeam, id)
	if len(w.mgrNoSeam) < 8 {
		return
	}
	close := 0
	for i := 1; i < len(w.mgrNoSeam); i++ {
		d := int64(w.mgrNoSeam[i]) - int64(w.mgrNoSeam[i-1])
		if d < 0 {
			d = -d
		}
		if d < 256 {
			close++
		}
	}
	if close > 2 {
		w.r.Violation("C20/keyid-not-uniform", fmt.Sprintf("%d of %d consecutive key IDs one manager handed out without drawing from the RNG differ by less than 256: %08x", close, len(w.mgrNoSeam)-1, w.mgrNoSeam))
	}
}
