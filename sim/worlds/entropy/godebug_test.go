//go:debug cryptocustomrand=1

package entropy

// The whole world rests on the reader tink passes to crypto/ecdsa, crypto/ecdh,
// crypto/rsa and crypto/elliptic being honoured. Under Go 1.26 that needs
// GODEBUG cryptocustomrand=1 (the default for a main module at go 1.25; the
// directive above pins it for this test binary whatever the go.mod says, and
// TestMain checks that it is in force).

import (
	"crypto/ecdsa"
	"crypto/elliptic"
	"fmt"
	"os"
)

type countingReader struct{ n int }

func (c *countingReader) Read(p []byte) (int, error) {
	for i := range p {
		c.n++
		p[i] = byte(c.n*7 + 1)
	}
	return len(p), nil
}

// requireCustomRand exits 2 (harness trouble, never a violation) when the
// standard library ignores custom readers in this environment.
func requireCustomRand() {
	cr := &countingReader{}
	_, err := ecdsa.GenerateKey(elliptic.P256(), cr)
	if err != nil || cr.n < 32 {
		fmt.Fprintf(os.Stderr, "harness: custom crypto/rand readers are ignored in this environment (GODEBUG cryptocustomrand); ecdsa.GenerateKey read %d bytes from the reader (err=%v)\n", cr.n, err)
		os.Exit(2)
	}
}
