package entropy

// Where the random field sits in each kind of output, and how many random
// bytes the scheme needs. Everything is read from the public parameter
// objects at run time; the only literals are the positions the wire formats
// fix (IV directly after the output prefix, header byte 0 = header length,
// KEM output sizes per KEM ID) and the randomness lengths the schemes define.

import (
	"crypto/ecdh"
	"fmt"
	"reflect"

	"github.com/tink-crypto/tink-go/v2/aead/aesctrhmac"
	"github.com/tink-crypto/tink-go/v2/aead/aesgcm"
	"github.com/tink-crypto/tink-go/v2/aead/aesgcmsiv"
	"github.com/tink-crypto/tink-go/v2/aead/chacha20poly1305"
	"github.com/tink-crypto/tink-go/v2/aead/xaesgcm"
	"github.com/tink-crypto/tink-go/v2/aead/xchacha20poly1305"
	"github.com/tink-crypto/tink-go/v2/daead/aessiv"
	"github.com/tink-crypto/tink-go/v2/hybrid/ecies"
	"github.com/tink-crypto/tink-go/v2/hybrid/hpke"
	"github.com/tink-crypto/tink-go/v2/insecuresecretdataaccess"
	internalcompmldsa "github.com/tink-crypto/tink-go/v2/internal/signature/compositemldsa"
	"github.com/tink-crypto/tink-go/v2/jwt/jwtecdsa"
	"github.com/tink-crypto/tink-go/v2/jwt/jwtmldsa"
	"github.com/tink-crypto/tink-go/v2/jwt/jwtrsassapkcs1"
	"github.com/tink-crypto/tink-go/v2/jwt/jwtrsassapss"
	"github.com/tink-crypto/tink-go/v2/key"
	"github.com/tink-crypto/tink-go/v2/secretdata"
	"github.com/tink-crypto/tink-go/v2/signature/compositemldsa"
	"github.com/tink-crypto/tink-go/v2/signature/ecdsa"
	"github.com/tink-crypto/tink-go/v2/signature/ed25519"
	"github.com/tink-crypto/tink-go/v2/signature/mldsa"
	"github.com/tink-crypto/tink-go/v2/signature/rsassapkcs1"
	"github.com/tink-crypto/tink-go/v2/signature/rsassapss"
	"github.com/tink-crypto/tink-go/v2/signature/slhdsa"
	saesctrhmac "github.com/tink-crypto/tink-go/v2/streamingaead/aesctrhmac"
	"github.com/tink-crypto/tink-go/v2/streamingaead/aesgcmhkdf"
	"github.com/tink-crypto/tink-go/v2/verifsim/catalog"
)

var tok = insecuresecretdataaccess.Token{}

// aeadIVLen is the length of the random field an AEAD ciphertext carries right
// after the output prefix; ok=false for parameters that are not a randomized AEAD.
func aeadIVLen(p key.Parameters) (n int, ok bool) {
	switch q := p.(type) {
	case *aesgcm.Parameters:
		return q.IVSizeInBytes(), true
	case *aesctrhmac.Parameters:
		return q.IVSizeInBytes(), true
	case *aesgcmsiv.Parameters:
		return 12, true
	case *chacha20poly1305.Parameters:
		return 12, true
	case *xchacha20poly1305.Parameters:
		return 24, true
	case *xaesgcm.Parameters:
		return q.SaltSizeInBytes() + 12, true
	case *aessiv.Parameters:
		return 0, false
	}
	return 0, false
}

// streamDerivedKeyLen is the salt length of a streaming header.
func streamDerivedKeyLen(p key.Parameters) (int, bool) {
	switch q := p.(type) {
	case *aesgcmhkdf.Parameters:
		return q.DerivedKeySizeInBytes(), true
	case *saesctrhmac.Parameters:
		return q.DerivedKeySizeInBytes(), true
	}
	return 0, false
}

func streamSegmentSize(p key.Parameters) int {
	switch q := p.(type) {
	case *aesgcmhkdf.Parameters:
		return int(q.SegmentSizeInBytes())
	case *saesctrhmac.Parameters:
		return int(q.SegmentSizeInBytes())
	}
	return 0
}

const streamNoncePrefixLen = 7

// kemInfo describes the sender-side KEM of a hybrid key type.
type kemInfo struct {
	name    string
	encLen  int        // bytes of the encapsulated key in the ciphertext
	curve   ecdh.Curve // curve whose ephemeral is drawn through crypto/rand.Reader (nil: none)
	randLen int        // bytes the ephemeral needs from the reader
	ecOff   int        // offset of the curve point inside the encapsulated key
	ecLen   int        // length of the encoded point
	format  string     // "raw" (X25519 u-coordinate), "uncompressed", "compressed", "legacy"
	mlkem   int        // leading bytes produced by ML-KEM from stdlib-internal randomness
	demIV   int        // ECIES only: random IV length at the start of the DEM ciphertext
}

func hpkeKEM(p *hpke.Parameters) (kemInfo, bool) {
	switch p.KEMID() {
	case hpke.DHKEM_X25519_HKDF_SHA256:
		return kemInfo{name: "X25519", encLen: 32, curve: ecdh.X25519(), randLen: 32, ecLen: 32, format: "raw"}, true
	case hpke.DHKEM_P256_HKDF_SHA256:
		return kemInfo{name: "P256", encLen: 65, curve: ecdh.P256(), randLen: 32, ecLen: 65, format: "uncompressed"}, true
	case hpke.DHKEM_P384_HKDF_SHA384:
		return kemInfo{name: "P384", encLen: 97, curve: ecdh.P384(), randLen: 48, ecLen: 97, format: "uncompressed"}, true
	case hpke.DHKEM_P521_HKDF_SHA512:
		return kemInfo{name: "P521", encLen: 133, curve: ecdh.P521(), randLen: 66, ecLen: 133, format: "uncompressed"}, true
	case hpke.X_WING:
		return kemInfo{name: "XWING", encLen: 1120, curve: ecdh.X25519(), randLen: 32, ecOff: 1088, ecLen: 32, format: "raw", mlkem: 1088}, true
	case hpke.ML_KEM768:
		return kemInfo{name: "MLKEM768", encLen: 1088, mlkem: 1088}, true
	case hpke.ML_KEM1024:
		return kemInfo{name: "MLKEM1024", encLen: 1568, mlkem: 1568}, true
	}
	return kemInfo{}, false
}

func eciesKEM(p *ecies.Parameters) (kemInfo, bool) {
	var k kemInfo
	var c int
	switch p.CurveType() {
	case ecies.NISTP256:
		k.name, k.curve, c = "P256", ecdh.P256(), 32
	case ecies.NISTP384:
		k.name, k.curve, c = "P384", ecdh.P384(), 48
	case ecies.NISTP521:
		k.name, k.curve, c = "P521", ecdh.P521(), 66
	default:
		return k, false
	}
	k.randLen = c
	switch p.NISTCurvePointFormat() {
	case ecies.UncompressedPointFormat:
		k.format, k.ecLen = "uncompressed", 1+2*c
	case ecies.CompressedPointFormat:
		k.format, k.ecLen = "compressed", 1+c
	case ecies.LegacyUncompressedPointFormat:
		k.format, k.ecLen = "legacy", 2*c
	default:
		return k, false
	}
	k.encLen = k.ecLen
	if n, ok := aeadIVLen(p.DEMParameters()); ok {
		k.demIV = n
	}
	return k, true
}

// nistScalar turns reader bytes into the scalar crypto/ecdh.GenerateKey and
// crypto/elliptic.GenerateKey (both: go1.26.8 src/crypto/internal/fips140/ecdh/ecdh.go
// GenerateKey, src/crypto/elliptic/elliptic.go GenerateKey) derive from them:
// byte 1 is XORed with 0x42 and, on P-521 only, the top seven bits of byte 0
// are cleared; a candidate that is not in [1, N-1] is rejected and the next
// block of the same size is read.
func nistScalar(curve ecdh.Curve, block []byte) []byte {
	s := append([]byte(nil), block...)
	if len(s) > 1 {
		s[1] ^= 0x42
	}
	if curve == ecdh.P521() {
		s[0] &= 1
	}
	return s
}

// expectedPoint recomputes, with crypto/ecdh only, the public value the
// issued bytes must lead to. rejected counts candidates the curve refused.
func expectedPoint(k kemInfo, issued []byte) (pub []byte, rejected int, err error) {
	if k.curve == nil {
		return nil, 0, fmt.Errorf("no curve")
	}
	if k.format == "raw" {
		if len(issued) < k.randLen {
			return nil, 0, fmt.Errorf("only %d bytes issued", len(issued))
		}
		priv, err := k.curve.NewPrivateKey(issued[:k.randLen])
		if err != nil {
			return nil, 0, err
		}
		return priv.PublicKey().Bytes(), 0, nil
	}
	for off := 0; off+k.randLen <= len(issued); off += k.randLen {
		priv, err := k.curve.NewPrivateKey(nistScalar(k.curve, issued[off:off+k.randLen]))
		if err != nil {
			rejected++
			continue
		}
		u := priv.PublicKey().Bytes() // 0x04 || X || Y
		c := (len(u) - 1) / 2
		switch k.format {
		case "uncompressed":
			return u, rejected, nil
		case "legacy":
			return u[1:], rejected, nil
		case "compressed":
			out := make([]byte, 1+c)
			out[0] = 2 | (u[len(u)-1] & 1)
			copy(out[1:], u[1:1+c])
			return out, rejected, nil
		}
	}
	return nil, rejected, fmt.Errorf("no acceptable scalar in %d issued bytes", len(issued))
}

// randNeed says how much randomness one signing call of a scheme needs:
// min = the scheme's randomness length (a call consuming less is a violation);
// exact = false means "every byte the call consumed is part of the scheme's
// random input" without the harness knowing the number in advance (RSA-PSS
// with tink's salt length 0, which crypto/rsa reads as PSSSaltLengthAuto).
type randNeed struct {
	min   int
	exact bool
}

func ecdsaCurveBytes(c ecdsa.CurveType) int {
	switch c {
	case ecdsa.NistP256:
		return 32
	case ecdsa.NistP384:
		return 48
	case ecdsa.NistP521:
		return 66
	}
	return 0
}

// signNeed: randomness of one Sign call. randomized=false for schemes outside C20.
func signNeed(p key.Parameters) (need randNeed, randomized bool) {
	switch q := p.(type) {
	case *ecdsa.Parameters:
		// crypto/internal/fips140/ecdsa.Sign reads len(priv.d) bytes (Z) and hashes all of them into the hedged DRBG.
		return randNeed{ecdsaCurveBytes(q.CurveType()), true}, true
	case *rsassapss.Parameters:
		if q.SaltLengthBytes() > 0 {
			return randNeed{q.SaltLengthBytes(), true}, true
		}
		return randNeed{1, false}, true
	case *mldsa.Parameters:
		return randNeed{32, true}, true
	case *slhdsa.Parameters:
		return randNeed{q.KeySize() / 4, true}, true
	case *compositemldsa.Parameters:
		cp, err := internalcompmldsa.ParametersForClassicalAlgorithm(internalcompmldsa.ClassicalAlgorithm(q.ClassicalAlgorithm()))
		if err != nil {
			return randNeed{32, false}, true
		}
		cn, _ := signNeed(cp)
		return randNeed{32 + cn.min, cn.exact || cn.min == 0}, true
	case *jwtecdsa.Parameters:
		switch q.Algorithm() {
		case jwtecdsa.ES256:
			return randNeed{32, true}, true
		case jwtecdsa.ES384:
			return randNeed{48, true}, true
		case jwtecdsa.ES512:
			return randNeed{66, true}, true
		}
	case *jwtrsassapss.Parameters:
		switch q.Algorithm() {
		case jwtrsassapss.PS256:
			return randNeed{32, true}, true
		case jwtrsassapss.PS384:
			return randNeed{48, true}, true
		case jwtrsassapss.PS512:
			return randNeed{64, true}, true
		}
	case *jwtmldsa.Parameters:
		return randNeed{32, true}, true
	case *ed25519.Parameters, *rsassapkcs1.Parameters, *jwtrsassapkcs1.Parameters:
		return randNeed{0, true}, false
	}
	return randNeed{}, false
}

// keygenNeed: bytes of key material (without the 4 key-ID bytes) a freshly
// generated asymmetric key needs from the reader.
func keygenNeed(e catalog.Entry) int {
	switch q := e.Params.(type) {
	case *ecdsa.Parameters:
		return ecdsaCurveBytes(q.CurveType())
	case *jwtecdsa.Parameters:
		n, _ := signNeed(q)
		return n.min
	case *ed25519.Parameters:
		return 32
	case *mldsa.Parameters, *jwtmldsa.Parameters:
		return 32
	case *slhdsa.Parameters:
		return 3 * q.KeySize() / 4
	case *hpke.Parameters:
		k, _ := hpkeKEM(q)
		if k.curve != nil && k.mlkem == 0 {
			return k.randLen
		}
		if k.name == "XWING" {
			return 32
		}
		return 64
	case *ecies.Parameters:
		k, _ := eciesKEM(q)
		return k.randLen
	case *compositemldsa.Parameters:
		cp, err := internalcompmldsa.ParametersForClassicalAlgorithm(internalcompmldsa.ClassicalAlgorithm(q.ClassicalAlgorithm()))
		if err != nil {
			return 32
		}
		return 32 + keygenNeed(catalog.Entry{Params: cp})
	}
	if b := rsaModulusBits(e); b != 0 {
		return b / 8
	}
	return 0
}

func rsaModulusBits(e catalog.Entry) int {
	switch q := e.Params.(type) {
	case *rsassapkcs1.Parameters:
		return q.ModulusSizeBits()
	case *rsassapss.Parameters:
		return q.ModulusSizeBits()
	case *jwtrsassapkcs1.Parameters:
		return q.ModulusSizeInBits()
	case *jwtrsassapss.Parameters:
		return q.ModulusSizeInBits()
	}
	return 0
}

// ---------------------------------------------------------------------------
// secret key material through the public accessors, found by reflection:
// every niladic method returning secretdata.Bytes, recursing into niladic
// methods that return another key (composite keys, key-derivation keys).

type secretField struct {
	name string
	data []byte
}

var (
	secretBytesType = reflect.TypeOf(secretdata.Bytes{})
	keyIfaceType    = reflect.TypeOf((*key.Key)(nil)).Elem()
)

func secretsOf(k any, prefix string, depth int, out *[]secretField) {
	v := reflect.ValueOf(k)
	if !v.IsValid() {
		return
	}
	t := v.Type()
	for i := 0; i < t.NumMethod(); i++ { // sorted by name: deterministic
		m := t.Method(i)
		mt := m.Type
		if mt.NumIn() != 1 || mt.NumOut() < 1 || mt.NumOut() > 2 {
			continue
		}
		if mt.NumOut() == 1 && mt.Out(0) == secretBytesType {
			res := v.Method(i).Call(nil)
			b := res[0].Interface().(secretdata.Bytes)
			*out = append(*out, secretField{prefix + m.Name, b.Data(tok)})
			continue
		}
		if depth < 2 && m.Name != "PublicKey" && mt.Out(0).Implements(keyIfaceType) {
			res := v.Method(i).Call(nil)
			if len(res) == 2 && !res[1].IsNil() {
				continue
			}
			r0 := res[0]
			if (r0.Kind() == reflect.Pointer || r0.Kind() == reflect.Interface) && r0.IsNil() {
				continue
			}
			secretsOf(r0.Interface(), prefix+m.Name+".", depth+1, out)
		}
	}
}
