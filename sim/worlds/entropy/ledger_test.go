package entropy

// The process-wide ledger of everything the seam has issued on the main
// stream, in issue order. C20 does not say WHEN the bytes of a random field
// were drawn, only that each field is fresh, full-length and uniform: a
// library that fetches randomness in bulk and hands each byte out once
// conforms. So a field that is not made of bytes issued during its own call
// may still be explained by earlier-issued bytes that no judged field has
// used yet; a field made of bytes that a judged field has used already is a
// reuse.
//
// The ledger is process state (like the library's own pool would be). On a
// tree where every field is explained by the bytes of its own call it is only
// written, never consulted, so a run's digest does not depend on it.

import "bytes"

const (
	ledgerKeep = 1 << 20 // bytes kept (the oldest are dropped)
	ledgerTrim = 1 << 16
)

type ledgerT struct {
	base int // absolute index of buf[0]
	buf  []byte
	used []bool
	// dup: issued by a run whose stream seed had occurred before in this process
	// (rapid repeats seeds): the harness itself issued these values twice, so they
	// neither explain a field nor prove a reuse. Such a run does not consult the
	// ledger either (ledgerOn).
	dup []bool
}

// ledgerOn: the current run's stream seed is new to this process.
var ledgerOn bool

var ledger ledgerT

// pooledSeen: some field of this process was explained by bytes issued before
// its call, i.e. the library under test buffers randomness.
var pooledSeen bool

// leftoverSeen: some call of this process asked the seam for more bytes than the field
// it put them into.
var leftoverSeen bool

// runsStarted counts the runs of this process.
var runsStarted uint64

func (l *ledgerT) end() int { return l.base + len(l.buf) }

func (l *ledgerT) add(b []byte) {
	l.buf = append(l.buf, b...)
	l.used = append(l.used, make([]bool, len(b))...)
	for range b {
		l.dup = append(l.dup, !ledgerOn)
	}
	if len(l.buf) > ledgerKeep+ledgerTrim {
		drop := len(l.buf) - ledgerKeep
		l.buf = append(l.buf[:0], l.buf[drop:]...)
		l.used = append(l.used[:0], l.used[drop:]...)
		l.dup = append(l.dup[:0], l.dup[drop:]...)
		l.base += drop
	}
}

// mark records that the bytes [from,to) (absolute indices) explain a judged field.
func (l *ledgerT) mark(from, to int) {
	for i := from; i < to; i++ {
		if j := i - l.base; j >= 0 && j < len(l.used) {
			l.used[j] = true
		}
	}
}

func (l *ledgerT) usedAny(from, to int) bool {
	for i := from; i < to; i++ {
		if j := i - l.base; j >= 0 && j < len(l.used) && l.used[j] {
			return true
		}
	}
	return false
}

const (
	ledgerNone = iota
	ledgerFresh
	ledgerUsed
)

// find looks v up among the bytes issued before absolute index before. It
// prefers the most recent occurrence none of whose bytes has been used.
func (l *ledgerT) find(v []byte, before int) (at int, state int) {
	hi := before - l.base
	if hi > len(l.buf) {
		hi = len(l.buf)
	}
	if len(v) == 0 || hi < len(v) || !ledgerOn {
		return 0, ledgerNone
	}
	state = ledgerNone
	for pos := 0; pos+len(v) <= hi; {
		i := bytes.Index(l.buf[pos:hi], v)
		if i < 0 {
			break
		}
		a := l.base + pos + i
		isDup := false
		for k := pos + i; k < pos+i+len(v); k++ {
			isDup = isDup || l.dup[k]
		}
		if isDup {
			pos += i + 1
			continue
		}
		if !l.usedAny(a, a+len(v)) {
			at, state = a, ledgerFresh
		} else if state == ledgerNone {
			at, state = a, ledgerUsed
		}
		pos += i + 1
	}
	return at, state
}
