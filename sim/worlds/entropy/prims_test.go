package entropy

// Producing primitives of a key: through the real factories (classes package)
// and, where one exists, through the legacy subtle constructors (no keyset, no
// output prefix).

import (
	"bytes"
	"context"
	"errors"
	"fmt"

	"github.com/tink-crypto/tink-go/v2/aead"
	"github.com/tink-crypto/tink-go/v2/aead/aesctrhmac"
	"github.com/tink-crypto/tink-go/v2/aead/aesgcm"
	"github.com/tink-crypto/tink-go/v2/aead/aesgcmsiv"
	"github.com/tink-crypto/tink-go/v2/aead/chacha20poly1305"
	aeadsubtle "github.com/tink-crypto/tink-go/v2/aead/subtle"
	"github.com/tink-crypto/tink-go/v2/aead/xchacha20poly1305"
	"github.com/tink-crypto/tink-go/v2/internal/protoserialization"
	"github.com/tink-crypto/tink-go/v2/key"
	"github.com/tink-crypto/tink-go/v2/keyset"
	macsubtle "github.com/tink-crypto/tink-go/v2/mac/subtle"
	tinkpb "github.com/tink-crypto/tink-go/v2/proto/tink_go_proto"
	"github.com/tink-crypto/tink-go/v2/signature"
	"github.com/tink-crypto/tink-go/v2/signature/ecdsa"
	"github.com/tink-crypto/tink-go/v2/signature/mldsa"
	sigsubtle "github.com/tink-crypto/tink-go/v2/signature/subtle"
	"github.com/tink-crypto/tink-go/v2/signprehash"
	saesctrhmac "github.com/tink-crypto/tink-go/v2/streamingaead/aesctrhmac"
	"github.com/tink-crypto/tink-go/v2/streamingaead/aesgcmhkdf"
	streamsubtle "github.com/tink-crypto/tink-go/v2/streamingaead/subtle"
	"github.com/tink-crypto/tink-go/v2/tink"
	"github.com/tink-crypto/tink-go/v2/verifsim/classes"
)

type prim struct {
	kind      string // "factory" | "subtle" | "prehash"
	prefixLen int
	produce   func(msg, aad []byte) ([]byte, error)
	verify    func(out, msg []byte) error // optional: the ordinary accepting primitive
	// envelope only: the key-encryption AEAD and the DEK's IV length
	kek   tink.AEAD
	dekIV int
	fkek  *faultyKEK
}

// faultyKEK is the harness-owned key-encryption AEAD of an envelope primitive:
// the key's factory AEAD, whose failAt-th Encrypt call (counted over the
// original calls only, not over re-runs) fails once — a transient KMS error.
type faultyKEK struct {
	a      tink.AEAD
	failAt int // 0: never
	calls  int
	failed int // Encrypt calls refused so far
	live   func() bool
}

var errKEKDown = errors.New("harness: the key-encryption service is temporarily unavailable")

func (f *faultyKEK) Encrypt(pt, ad []byte) ([]byte, error) {
	if f.live == nil || f.live() {
		f.calls++
		if f.calls == f.failAt {
			f.failed++
			return nil, errKEKDown
		}
	}
	return f.a.Encrypt(pt, ad)
}

func (f *faultyKEK) Decrypt(ct, ad []byte) ([]byte, error) { return f.a.Decrypt(ct, ad) }

// DEK templates aead.NewKMSEnvelopeAEAD2 accepts.
var dekTemplates = []struct {
	name string
	f    func() *tinkpb.KeyTemplate
}{
	{"AES128GCM", aead.AES128GCMKeyTemplate},
	{"AES256GCM", aead.AES256GCMKeyTemplate},
	{"XCHACHA20POLY1305", aead.XChaCha20Poly1305KeyTemplate},
	{"CHACHA20POLY1305", aead.ChaCha20Poly1305KeyTemplate},
	{"AES128CTRHMACSHA256", aead.AES128CTRHMACSHA256KeyTemplate},
	{"AES256GCMSIV", aead.AES256GCMSIVKeyTemplate},
}

// envelopePrim wraps the key's factory AEAD as the key-encryption AEAD of a
// KMS envelope AEAD: every Encrypt generates a fresh DEK, encrypts it under
// the KEK (KEK IV) and encrypts the data under the DEK (DEK IV).
func envelopePrim(k key.Key, h *keyset.Handle, tpl int, withContext bool, failAt int, live func() bool) (*prim, error) {
	inner, err := aead.New(h)
	if err != nil {
		return nil, err
	}
	kek := &faultyKEK{a: inner, failAt: failAt, live: live}
	kt := dekTemplates[tpl].f()
	par, err := protoserialization.ParseParameters(kt)
	if err != nil {
		return nil, err
	}
	iv, ok := aeadIVLen(par)
	if !ok {
		return nil, fmt.Errorf("no IV layout for DEK template %s", dekTemplates[tpl].name)
	}
	if withContext {
		// the context-aware envelope type, over the same KEK behind tink.AEADWithContext
		env, err := aead.NewKMSEnvelopeAEADWithContext(kt, ctxAEAD{kek})
		if err != nil {
			return nil, err
		}
		return &prim{kind: "envelope-ctx", prefixLen: outputPrefixLen(k), kek: kek, dekIV: iv, fkek: kek,
			produce: func(msg, aad []byte) ([]byte, error) { return env.EncryptWithContext(context.Background(), msg, aad) }}, nil
	}
	env := aead.NewKMSEnvelopeAEAD2(kt, kek)
	return &prim{kind: "envelope", prefixLen: outputPrefixLen(k), produce: env.Encrypt, kek: kek, dekIV: iv, fkek: kek}, nil
}

func outputPrefixLen(k key.Key) int {
	if op, ok := k.(interface{ OutputPrefix() []byte }); ok {
		return len(op.OutputPrefix())
	}
	if pk, ok := k.(interface{ PublicKey() (key.Key, error) }); ok {
		if pub, err := pk.PublicKey(); err == nil {
			if op, ok := pub.(interface{ OutputPrefix() []byte }); ok {
				return len(op.OutputPrefix())
			}
		}
	}
	return 0
}

func factoryPrim(class string, k key.Key, h *keyset.Handle) (*prim, error) {
	p, err := classes.NewProducer(class, h)
	if err != nil {
		return nil, err
	}
	return &prim{kind: "factory", prefixLen: outputPrefixLen(k), produce: p.Produce}, nil
}

func streamAll(s tink.StreamingAEAD) func(msg, aad []byte) ([]byte, error) {
	return func(msg, aad []byte) ([]byte, error) {
		var buf bytes.Buffer
		w, err := s.NewEncryptingWriter(&buf, aad)
		if err != nil {
			return nil, err
		}
		if _, err := w.Write(msg); err != nil {
			return nil, err
		}
		if err := w.Close(); err != nil {
			return nil, err
		}
		return buf.Bytes(), nil
	}
}

// subtlePrim builds the legacy constructor's primitive for key types that
// have one; ok=false otherwise.
func subtlePrim(k key.Key) (p *prim, ok bool, err error) {
	switch q := k.(type) {
	case *aesgcm.Key:
		a, err := aeadsubtle.NewAESGCM(q.KeyBytes().Data(tok))
		if err != nil {
			return nil, true, err
		}
		return &prim{kind: "subtle", produce: a.Encrypt}, true, nil
	case *aesgcmsiv.Key:
		a, err := aeadsubtle.NewAESGCMSIV(q.KeyBytes().Data(tok))
		if err != nil {
			return nil, true, err
		}
		return &prim{kind: "subtle", produce: a.Encrypt}, true, nil
	case *chacha20poly1305.Key:
		a, err := aeadsubtle.NewChaCha20Poly1305(q.KeyBytes().Data(tok))
		if err != nil {
			return nil, true, err
		}
		return &prim{kind: "subtle", produce: a.Encrypt}, true, nil
	case *xchacha20poly1305.Key:
		a, err := aeadsubtle.NewXChaCha20Poly1305(q.KeyBytes().Data(tok))
		if err != nil {
			return nil, true, err
		}
		return &prim{kind: "subtle", produce: a.Encrypt}, true, nil
	case *aesctrhmac.Key:
		par := q.Parameters().(*aesctrhmac.Parameters)
		ctr, err := aeadsubtle.NewAESCTR(q.AESKeyBytes().Data(tok), par.IVSizeInBytes())
		if err != nil {
			return nil, true, err
		}
		m, err := macsubtle.NewHMAC(par.HashType().String(), q.HMACKeyBytes().Data(tok), uint32(par.TagSizeInBytes()))
		if err != nil {
			return nil, true, err
		}
		a, err := aeadsubtle.NewEncryptThenAuthenticate(ctr, m, par.TagSizeInBytes())
		if err != nil {
			return nil, true, err
		}
		return &prim{kind: "subtle", produce: a.Encrypt}, true, nil
	case *aesgcmhkdf.Key:
		par := q.Parameters().(*aesgcmhkdf.Parameters)
		s, err := streamsubtle.NewAESGCMHKDF(q.KeyBytes().Data(tok), par.HKDFHashType().String(), par.DerivedKeySizeInBytes(), int(par.SegmentSizeInBytes()), 0)
		if err != nil {
			return nil, true, err
		}
		return &prim{kind: "subtle", produce: streamAll(s)}, true, nil
	case *saesctrhmac.Key:
		par := q.Parameters().(*saesctrhmac.Parameters)
		s, err := streamsubtle.NewAESCTRHMAC(q.KeyBytes().Data(tok), par.HkdfHashType().String(), par.DerivedKeySizeInBytes(),
			par.HmacHashType().String(), par.HmacTagSizeInBytes(), int(par.SegmentSizeInBytes()), 0)
		if err != nil {
			return nil, true, err
		}
		return &prim{kind: "subtle", produce: streamAll(s)}, true, nil
	case *ecdsa.PrivateKey:
		par := q.Parameters().(*ecdsa.Parameters)
		s, err := sigsubtle.NewECDSASigner(par.HashType().String(), par.CurveType().String(), par.SignatureEncoding().String(), q.PrivateKeyValue().Data(tok))
		if err != nil {
			return nil, true, err
		}
		return &prim{kind: "subtle", produce: func(msg, _ []byte) ([]byte, error) { return s.Sign(msg) }}, true, nil
	}
	return nil, false, nil
}

// prehashPrim is the external-mu signing path of ML-DSA keys that carry an ID
// requirement: signprehash.NewPrehash(public).ComputePrehash(msg) followed by
// signprehash.NewPrehashSigner(private).SignPrehash(prehash). Its output is an
// ordinary ML-DSA signature of msg, checked with signature.NewVerifier.
func prehashPrim(k key.Key, h *keyset.Handle) (p *prim, ok bool, err error) {
	pk, isML := k.(*mldsa.PrivateKey)
	if !isML {
		return nil, false, nil
	}
	if par, isPar := pk.Parameters().(*mldsa.Parameters); !isPar || par.Variant() == mldsa.VariantNoPrefix {
		return nil, false, nil
	}
	pub, err := h.Public()
	if err != nil {
		return nil, true, err
	}
	ph, err := signprehash.NewPrehash(pub)
	if err != nil {
		return nil, true, err
	}
	sg, err := signprehash.NewPrehashSigner(h)
	if err != nil {
		return nil, true, err
	}
	vf, err := signature.NewVerifier(pub)
	if err != nil {
		return nil, true, err
	}
	var prefix []byte
	if pubKey, perr := pk.PublicKey(); perr == nil {
		if op, isOP := pubKey.(interface{ OutputPrefix() []byte }); isOP {
			prefix = op.OutputPrefix()
		}
	}
	return &prim{kind: "prehash", prefixLen: outputPrefixLen(k),
		produce: func(msg, _ []byte) ([]byte, error) {
			d, err := ph.ComputePrehash(msg)
			if err != nil {
				return nil, err
			}
			return sg.SignPrehash(d)
		},
		// The prehash signer returns the bare ML-DSA signature; for VariantTink the
		// ordinary verifier wants the key's output prefix in front (not a C20 matter:
		// either form verifying shows the output is a real signature of msg).
		verify: func(out, msg []byte) error {
			err := vf.Verify(out, msg)
			if err != nil && len(prefix) > 0 {
				if vf.Verify(append(append([]byte(nil), prefix...), out...), msg) == nil {
					return nil
				}
			}
			return err
		}}, true, nil
}

// ctxAEAD presents a tink.AEAD as a tink.AEADWithContext.
type ctxAEAD struct{ a tink.AEAD }

func (c ctxAEAD) EncryptWithContext(_ context.Context, pt, ad []byte) ([]byte, error) {
	return c.a.Encrypt(pt, ad)
}

func (c ctxAEAD) DecryptWithContext(_ context.Context, ct, ad []byte) ([]byte, error) {
	return c.a.Decrypt(ct, ad)
}

func describe(err error) string {
	if err == nil {
		return "ok"
	}
	return fmt.Sprintf("error: %v", err)
}
