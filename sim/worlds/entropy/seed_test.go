package entropy

import (
	"bytes"
	"testing"
	"testing/cryptotest"

	"github.com/tink-crypto/tink-go/v2/hybrid/hpke"
	"github.com/tink-crypto/tink-go/v2/verifsim/catalog"
	"github.com/tink-crypto/tink-go/v2/verifsim/simrng"
)

// TestEntropyGlobalSeed is the seed-differential half of the ML-KEM oracle
// (not run by the orchestrator; TestEntropy holds the "consecutive
// encapsulations differ" half): the encapsulated key of the KEMs whose
// randomness is drawn inside crypto/mlkem is a function of the global seed —
// equal seed ⇒ equal encapsulation, different seed ⇒ different — and two
// consecutive encapsulations under one seed differ over their whole length.
func TestEntropyGlobalSeed(t *testing.T) {
	msg, aad := []byte("m"), []byte("ctx")
	n := 0
	for _, e := range catalog.ByKeyType(catalog.Hybrid, "hpke") {
		kem, ok := hpkeKEM(e.Params.(*hpke.Parameters))
		if !ok || kem.mlkem == 0 {
			continue
		}
		n++
		g0 := simrng.New(1)
		restore := simrng.Install(g0)
		k, err := catalog.NewKey(e)
		if err != nil {
			t.Fatalf("%s: %v", e.Name, err)
		}
		h, err := catalog.HandleOf(k)
		if err != nil {
			t.Fatalf("%s: %v", e.Name, err)
		}
		p, err := factoryPrim(string(e.Class), k, h)
		restore()
		if err != nil {
			t.Fatalf("%s: %v", e.Name, err)
		}
		enc := func(seed uint64, calls int) [][]byte {
			cryptotest.SetGlobalRandom(t, seed)
			defer simrng.Install(simrng.New(99))()
			var out [][]byte
			for i := 0; i < calls; i++ {
				ct, err := p.produce(msg, aad)
				if err != nil {
					t.Fatalf("%s: %v", e.Name, err)
				}
				out = append(out, ct[p.prefixLen:p.prefixLen+kem.mlkem])
			}
			return out
		}
		a, b, c := enc(1, 2), enc(1, 2), enc(2, 1)
		if !bytes.Equal(a[0], b[0]) || !bytes.Equal(a[1], b[1]) {
			t.Errorf("C20/seed-not-honoured:%s: equal global seed gave different ML-KEM encapsulations", e.Name)
		}
		if bytes.Equal(a[0], c[0]) {
			t.Errorf("C20/seed-ignored:%s: different global seeds gave the same ML-KEM encapsulation", e.Name)
		}
		if bytes.Equal(a[0], a[1]) {
			t.Errorf("C20/repeat:%s: consecutive ML-KEM encapsulations are equal", e.Name)
		}
		// not merely a differing prefix or suffix: both halves differ
		half := kem.mlkem / 2
		if bytes.Equal(a[0][:half], a[1][:half]) || bytes.Equal(a[0][half:], a[1][half:]) {
			t.Errorf("C20/repeat:%s: consecutive ML-KEM encapsulations share a half", e.Name)
		}
	}
	if n == 0 {
		t.Fatalf("harness: no ML-KEM based HPKE entry in the catalog")
	}
}
