// Package entropy is the C20 world: with crypto/rand.Reader replaced by a
// deterministic, logged stream, "fresh, full-length randomness on every call"
// becomes two exact statements checked over drawn, interleaved call histories:
//
//   - provenance ("copy"): every field tink copies from the RNG into an output
//     equals a contiguous range issued during that very call;
//   - sensitivity ("fn"): every output that is a function of the draw changes
//     when any single byte the call consumed is flipped, and the call consumes
//     at least the scheme's randomness length.
//
// Randomness the standard library draws without a reader (ML-KEM) is covered
// by the differential oracle under testing/cryptotest.SetGlobalRandom.
package entropy

import (
	"bytes"
	"crypto/rand"
	"encoding/binary"
	"fmt"
	"io"
	"sort"
	"strings"
	"sync"
	"testing"
	"testing/cryptotest"

	"github.com/tink-crypto/tink-go/v2/aead"
	"github.com/tink-crypto/tink-go/v2/core/registry"
	"github.com/tink-crypto/tink-go/v2/hybrid/ecies"
	"github.com/tink-crypto/tink-go/v2/hybrid/hpke"
	"github.com/tink-crypto/tink-go/v2/internal/internalapi"
	"github.com/tink-crypto/tink-go/v2/key"
	"github.com/tink-crypto/tink-go/v2/keyset"
	tinkpb "github.com/tink-crypto/tink-go/v2/proto/tink_go_proto"
	"github.com/tink-crypto/tink-go/v2/signature/slhdsa"
	subtlerandom "github.com/tink-crypto/tink-go/v2/subtle/random"
	"github.com/tink-crypto/tink-go/v2/testing/fakekms"
	"github.com/tink-crypto/tink-go/v2/verifsim/catalog"
	"github.com/tink-crypto/tink-go/v2/verifsim/core"
	"github.com/tink-crypto/tink-go/v2/verifsim/simrng"
	"github.com/tink-crypto/tink-go/v2/verifsim/stubkm"
	"pgregory.net/rapid"
)

const prop = "C20"

// slowSignerOneIn: share of quick-tier runs given to the slow SLH-DSA "s" sets
// (64 000 runs of a default quick check → about 23 such runs, 3 signatures each).
const slowSignerOneIn = 2800

// outerT is the *testing.T of TestEntropy: cryptotest.SetGlobalRandom needs it.
var outerT *testing.T

func TestMain(m *testing.M) {
	requireCustomRand()
	// Nothing here may make tink draw randomness: a library that buffers random
	// bytes would carry bytes the harness never saw into the first runs. So the
	// fake-KMS client is registered directly and the KEK URI is a constant.
	stubkm.Register()
	if c, err := fakekms.NewClient("fake-kms://"); err != nil {
		panic(err)
	} else {
		registry.RegisterKMSClient(c)
	}
	core.DeclareFaults("rng-short-read", "maybe-read-byte", "id-collision-scripted", "id-collision-deleted-scripted", "forced-scalar-rejection", "kek-transient-failure")
	core.DeclareProbes("redraw-on-collision", "scripted-fresh-id", "raw-key-id-draw", "same-message-signed-twice", "second-primitive-same-key",
		"second-handle-same-key", "subtle-constructor", "writer-repeat-on-primitive", "interleaved-keys", "full-sweep", "edge-position",
		"field-delivered-by-short-reads", "ecdh-recompute-x25519", "ecdh-recompute-nist", "p521-masked-byte-flipped", "mlkem-consecutive",
		"xwing-both-halves", "ecies-dem-iv", "ecies-compressed-point", "composite-two-draws", "dead-position-swept", "keygen-symmetric-copy",
		"keygen-asymmetric-copy", "keygen-asymmetric-fn", "keygen-nonrandomized-type", "pooled-key", "jwt-signature", "id-spread-batch", "keyid-spread-judged", "caller-appends-to-random-bytes", "repeated-signature-direct", "manager-add-legacy-key-manager", "envelope-with-context",
		"kms-envelope-fresh-dek", "manager-delete", "manager-setprimary", "manager-disable-enable", "add-after-delete", "mldsa-prehash-signer", "output-verified")
	if core.Thorough() {
		core.DeclareProbes("rsa-primes-located-in-stream", "slhdsa-keygen-seeds-copied", "cost2-produce")
	} else {
		core.DeclareProbes("slow-signer-run")
	}
	core.Main(m, prop, "entropy", map[string]string{
		"aead / streamingaead / hybrid / signature / jwt factories and key types": "real",
		"aead/subtle, streamingaead/subtle, signature/subtle constructors":        "real",
		"keyset.Manager (ID draw, key generation)":                                "real",
		"internal/random, secretdata.NewBytesFromRand":                            "real",
		"crypto/ecdsa, crypto/ecdh, crypto/rsa, crypto/mlkem (Go 1.26.8)":         "real",
		"crypto/rand.Reader": "stub (simrng behind a short-read wrapper)",
		"stdlib-internal DRBG (ML-KEM, Miller-Rabin bases)":    "stub (testing/cryptotest.SetGlobalRandom, seeded per run)",
		"crypto/ecdh recomputation of ephemeral public values": "oracle only",
	})
}

func TestEntropy(t *testing.T) {
	outerT = t
	rapid.Check(t, run)
}

// ---------------------------------------------------------------------------
// the reader tink sees: simrng behind legal short reads.
//
// simrng serves every 1-byte request from a side channel (the stdlib's
// MaybeReadByte coin), so a short read must never leave a 1-byte remainder and
// never ask simrng for a single byte; the wrapper therefore does the
// shortening itself instead of using simrng.ShortMax. A 4-byte read is passed
// through whole while a key-ID script is queued.

// req is one logical request served from the main stream.
type req struct {
	off uint64
	n   int
}

type shortReader struct {
	g     *simrng.RNG
	max   int
	fired int
	// forced-rejection fault: when armed, the next 32- or 48-byte request gets a
	// leading pattern that makes a P-256 / P-384 scalar candidate ≥ N (so the
	// stdlib's rejection sampling loops once). The overridden stream bytes are
	// kept by offset, so re-runs of the call and the harness's view of the
	// issued bytes see the same values.
	// pending: bytes still owed to the request whose first part was served short;
	// the next request of exactly that size is its continuation, not a new draw.
	pending int
	reqs    []req // logical stream requests of the current call (continuations, 1-byte coins and scripted reads excluded)
	armed   bool
	forced  map[uint64]byte // stream offset → XOR mask (composes with the byte-flip perturbation of re-runs)
	nForce  int

	// lane of the request being served: 0 = the main stream, 1 = fresh bytes
	// handed out during re-runs to requests the original call did not make.
	lane int
	// re-run mode: the library may keep state (a buffer of random bytes), so a
	// re-run must never let it see main-stream bytes a second time except as the
	// very request that got them the first time. A request of the re-run gets
	// the bytes of the next not yet replayed request of the original call that
	// has the same size; every other request gets fresh bytes from lane 1.
	replaying bool
	plan      []req // the original call's requests, absolute offsets
	cur       int
	desync    bool
}

// rejectPattern: leading bytes that, after the stdlib's key[1] ^= 0x42, read
// FF FF FF FF … — above the order of P-256 (FFFFFFFF 00000000 …) as soon as
// four bytes are FF and the next word is not zero, above P-384's after 25.
func rejectPattern(n int) []byte {
	k := 0
	switch n {
	case 32:
		k = 4
	case 48:
		k = 25
	default:
		return nil
	}
	b := bytes.Repeat([]byte{0xff}, k)
	b[1] = 0xbd
	return b
}

func (s *shortReader) Read(p []byte) (int, error) {
	cont := s.pending > 0 && len(p) == s.pending
	// simrng hands a queued key-ID script to ANY 4-byte read: only a genuine
	// 4-byte request may see it, never a 4-byte piece of a larger request.
	scripted := len(p) == 4 && s.g.ScriptLen() > 0 && !cont
	if !cont {
		s.lane = 0
		if s.replaying && !scripted && len(p) > 1 {
			s.lane = 1
			// the next request of the original call that has this size (requests the
			// re-run does not repeat, e.g. a read-ahead that is still stocked, are skipped)
			for k := s.cur; k < len(s.plan); k++ {
				if s.plan[k].n == len(p) {
					s.lane = 0
					s.g.SetOffset(0, s.plan[k].off)
					s.cur = k + 1
					break
				}
			}
		}
	}
	off := s.g.Offset(s.lane)
	if s.armed && !scripted && !cont && !s.replaying {
		if pat := rejectPattern(len(p)); pat != nil {
			s.armed = false
			s.nForce++
			for i, b := range pat {
				s.forced[off+uint64(i)] = b ^ s.g.ByteAt(0, off+uint64(i))
			}
		}
	}
	if !cont && !scripted && len(p) > 1 && !s.replaying {
		s.reqs = append(s.reqs, req{off, len(p)})
	}
	n, err := s.read(p, scripted)
	if cont || n < len(p) {
		s.pending = len(p) - n
	} else {
		s.pending = 0
	}
	if len(p) == 1 || scripted {
		return n, err
	}
	if s.lane == 0 && len(s.forced) > 0 {
		for i := 0; i < n; i++ {
			if m, ok := s.forced[off+uint64(i)]; ok {
				p[i] ^= m
			}
		}
	}
	if s.lane == 1 || !s.replaying {
		ledger.add(p[:n]) // issued for the first time
	}
	return n, err
}

func (s *shortReader) read(p []byte, scripted bool) (int, error) {
	n := len(p)
	if scripted || n <= 2 {
		return s.g.Read(p)
	}
	m := n
	if s.max > 0 && n > s.max {
		m = s.max
		if m < 2 {
			m = 2
		}
	}
	if s.g.ScriptLen() > 0 && m == 4 {
		m = 3 // a 4-byte piece (or a 4-byte continuation) would be served from the script
		if n == 4 {
			m = 2
		}
	}
	if n-m == 1 {
		if m > 2 && !(s.g.ScriptLen() > 0 && m-1 == 4) {
			m--
		} else {
			m = n
			if s.g.ScriptLen() > 0 && m == 4 {
				m = 2
			}
		}
	}
	if m < n {
		if s.max > 0 {
			s.fired++
		}
		return s.g.Read(p[:m])
	}
	return s.g.Read(p)
}

// ---------------------------------------------------------------------------
// entry lists

type tiers [3][]catalog.Entry

var (
	listOnce sync.Once
	prodList tiers // randomized producing entries by cost
	genList  tiers // every entry (key generation) by cost
	cheapSym []catalog.Entry
)

func symmetricClass(c catalog.Class) bool {
	switch c {
	case catalog.AEAD, catalog.DAEAD, catalog.MAC, catalog.PRF, catalog.JWTMAC, catalog.StreamingAEAD, catalog.KeyDerivation:
		return true
	}
	return false
}

// fastPooled: Cost-2 entries whose *producing* call is cheap enough for the
// quick tier once the key comes from the pool.
func fastPooled(e catalog.Entry) bool {
	if !catalog.Pooled(e) {
		return false
	}
	if e.RSABased() {
		return !strings.Contains(e.Name, "4096")
	}
	if p, ok := e.Params.(*slhdsa.Parameters); ok {
		return p.KeySize() == 64 && p.SignatureType() == slhdsa.FastSigning
	}
	return false
}

func buildLists() {
	listOnce.Do(func() {
		th := core.Thorough()
		for _, e := range catalog.All() {
			c := e.Cost
			if c > 2 {
				c = 2
			}
			if th || c <= 1 {
				genList[c] = append(genList[c], e)
			}
			if symmetricClass(e.Class) && e.Cost == 0 && e.Class != catalog.KeyDerivation && e.Class != catalog.StreamingAEAD {
				cheapSym = append(cheapSym, e)
			}
			if !e.Randomized {
				continue
			}
			if catalog.Quirk(e) != "" {
				// rsassapss with SaltLengthBytes 0: C20 speaks of "RSA-PSS with salt"; outside the statement
				core.CountGlobal("producing-entries-skipped-for-quirk")
				continue
			}
			switch e.Class {
			case catalog.AEAD, catalog.Signature, catalog.Hybrid, catalog.JWTSignature, catalog.StreamingAEAD:
			default:
				continue
			}
			if !th && e.Class == catalog.StreamingAEAD && streamSegmentSize(e.Params) >= 1<<20 {
				continue
			}
			if c == 2 && !th && !fastPooled(e) {
				continue
			}
			prodList[c] = append(prodList[c], e)
		}
	})
}

// about 78 % cheap, 20 % Cost 1, 2 % Cost 2 (shrinks towards cheap)
var tierWeights = func() []int {
	var l []int
	for i := 0; i < 39; i++ {
		l = append(l, 0)
	}
	for i := 0; i < 10; i++ {
		l = append(l, 1)
	}
	return append(l, 2)
}()

func drawEntry(t *rapid.T, l *tiers, label string) catalog.Entry {
	tier := rapid.SampledFrom(tierWeights).Draw(t, label+"Tier")
	for len(l[tier]) == 0 {
		tier--
	}
	return l[tier][rapid.IntRange(0, len(l[tier])-1).Draw(t, label)]
}

// ---------------------------------------------------------------------------
// world

type keyState struct {
	e       catalog.Entry
	loc     string // class/keytype
	k       key.Key
	handles []*keyset.Handle
	prims   []*prim
	seen    map[string]map[string]bool // field → values seen under this key
	sigs    map[string][][]byte        // message → outputs so far
	calls   int
	fnRuns  int
}

// fnSkip: slow keys get the byte-flip re-runs on their first calls only.
func (ks *keyState) fnSkip() bool {
	ks.fnRuns++
	switch {
	case ks.e.Cost == 0:
		return false
	case ks.e.Cost == 1:
		return ks.fnRuns > 2
	case core.Thorough():
		return ks.fnRuns > 2
	}
	return ks.fnRuns > 1
}

type world struct {
	r  *core.Run
	t  *rapid.T
	g  *simrng.RNG
	sr *shortReader

	keys    []*keyState
	mgr     *keyset.Manager
	used    map[uint32]bool // every ID the persistent manager has ever handed out (deleted ones stay in)
	mgrIDs  []uint32        // the same, in order of issue
	mgrLive []uint32        // IDs currently in the keyset
	mgrGone map[uint32]bool // handed out earlier, deleted since
	mgrOff  map[uint32]bool // currently disabled
	mgrPrim uint32
	keyMat  map[string]bool // secret material of every key generated in this run
	lastEnd uint64
	lastKey int

	oracles map[string]bool
	faults  map[string]bool
	calls   int
	reruns  int

	rawSeen   map[string]bool
	idRelaxed bool      // the last explainID left the ID to the necessary conditions (no seam bytes for it in the call)
	mgrNoSeam []uint32  // such IDs of the persistent manager, in order
	statsOn   bool      // this run's IDs count towards the process-wide spread statistics
	base      io.Reader // crypto/rand.Reader outside the run
	gseed     uint64    // seed of the library-internal source for this run
	seedCtr   uint64
	internal  map[string]int // loc.field → times confirmed as library-internal randomness in this run
}

func (w *world) catch(where string) {
	if p := recover(); p != nil {
		s := fmt.Sprintf("%T", p)
		if s == "rapid.stopTest" || s == "rapid.invalidData" {
			panic(p)
		}
		w.r.Violation("C20/panic:"+where, fmt.Sprintf("%v", p))
	}
}

// win is what one call drew from the main stream.
type win struct {
	start, end uint64
	// data: the issued bytes, unperturbed, WITHOUT those of bulk requests
	// (≥ bulkMin bytes in one request: a library filling a pool). All consumption
	// accounting and all byte positions of the oracles refer to data; raw is
	// everything issued, eff[i] the position in raw of data[i].
	data     []byte
	raw      []byte
	eff      []int
	bulk     [][2]int // ranges of raw issued to bulk requests
	plan     []req    // every request of the call, absolute offsets (for re-runs)
	led0     int      // ledger index of raw[0]
	scripted int      // scripted 4-byte reads served during the call
	short    bool     // a short read was served during the call
	forced   bool     // the forced-rejection pattern was planted into a read of this call
	reqs     []req    // logical stream requests of the call, offsets relative to start
}

// bracket runs one call of tink and returns its consumption window.
func (w *world) bracket(where string, f func()) win {
	g := w.g
	g.Mark++
	g.Log = g.Log[:0]
	start, sl, ob, sf, nf := g.Offset(0), g.ScriptServed, g.OneByteReads, w.sr.fired, w.sr.nForce
	w.sr.reqs = w.sr.reqs[:0]
	led0 := ledger.end()
	func() {
		defer w.catch(where)
		f()
	}()
	end := g.Offset(0)
	off := start
	for _, rd := range g.Log {
		if rd.Scr {
			continue
		}
		if rd.Lane != 0 || rd.Off != off {
			w.t.Fatalf("harness: RNG log is not contiguous in %s: read at lane %d off %d, expected off %d", where, rd.Lane, rd.Off, off)
		}
		off += uint64(rd.N)
	}
	if off != end {
		w.t.Fatalf("harness: RNG log ends at %d, stream at %d (%s)", off, end, where)
	}
	if start < w.lastEnd {
		w.r.Violation("C20/window-not-advancing", fmt.Sprintf("%s starts at stream offset %d, before the end %d of the previous call", where, start, w.lastEnd))
	}
	w.lastEnd = end
	wn := win{start: start, end: end, raw: g.Bytes(0, start, int(end-start)), scripted: g.ScriptServed - sl, short: w.sr.fired > sf, led0: led0}
	for i := range wn.raw {
		if m, ok := w.sr.forced[start+uint64(i)]; ok {
			wn.raw[i] ^= m
		}
	}
	wn.forced = w.sr.nForce > nf
	wn.plan = append([]req(nil), w.sr.reqs...)
	// every issued byte belongs to the window; which of them a call leaves
	// behind for later (a library that reads ahead) is decided by what its
	// judged fields turn out to use, never by the size of a request
	wn.data = wn.raw
	wn.eff = make([]int, len(wn.raw))
	for i := range wn.eff {
		wn.eff[i] = i
	}
	for _, q := range wn.plan {
		if q.off >= start && q.off < end {
			wn.reqs = append(wn.reqs, req{q.off - start, q.n})
		}
	}
	w.sr.armed = false
	if g.OneByteReads > ob {
		// whether the stdlib's MaybeReadByte coin fires is decided by a runtime select: counted, but kept
		// out of the run signature and the digest
		w.r.Fault("maybe-read-byte")
	}
	if wn.short {
		w.r.Fault("rng-short-read")
		w.faults["short"] = true
	}
	w.calls++
	w.r.ObsI(where+" consumed", int64(len(wn.data)))
	return wn
}

// armRejection draws whether the next 32/48-byte request of the coming call
// gets the forced-rejection pattern.
func (w *world) armRejection() {
	w.sr.armed = rapid.SampledFrom([]bool{false, false, false, false, false, false, false, true}).Draw(w.t, "forceRejection")
}

// rerun executes f on the identical stream with byte j of the window flipped.
func (w *world) rerun(wn win, j int, where string, f func()) { w.rerunXor(wn, j, 0xff, where, f) }

// rerunXor executes f on the identical stream with byte j of the window XORed with x.
func (w *world) rerunXor(wn win, j int, x byte, where string, f func()) {
	g := w.g
	w.beginReplay(wn)
	g.Perturb(0, wn.start+uint64(wn.eff[j]), x)
	g.LogOn = false
	func() {
		defer w.catch(where + " (re-run)")
		f()
	}()
	g.LogOn = true
	g.Unperturb()
	w.endReplay(wn)
}

func (w *world) beginReplay(wn win) {
	w.g.SetOffset(0, wn.start)
	w.sr.replaying, w.sr.plan, w.sr.cur, w.sr.desync, w.sr.pending = true, wn.plan, 0, false, 0
}

func (w *world) endReplay(wn win) {
	w.sr.replaying, w.sr.lane, w.sr.pending = false, 0, 0
	w.g.SetOffset(0, wn.end)
	w.reruns++
}

// replay executes f again on the identical, unperturbed seam stream.
func (w *world) replay(wn win, where string, f func()) {
	g := w.g
	w.beginReplay(wn)
	g.LogOn = false
	func() {
		defer w.catch(where + " (replay)")
		f()
	}()
	g.LogOn = true
	w.endReplay(wn)
}

// reseed restarts the library-internal randomness source (the one crypto/mlkem,
// cipher.NewGCMWithRandomNonce, ... draw from) with a seed; the seam reader
// stays installed.
func (w *world) reseed(seed uint64) {
	cur := rand.Reader
	rand.Reader = w.base
	cryptotest.SetGlobalRandom(outerT, seed)
	rand.Reader = cur
}

func (w *world) nextSeed() uint64 {
	w.seedCtr++
	return w.gseed ^ (w.seedCtr * 0x9e3779b97f4a7c15) ^ 0x5851f42d4c957f2d
}

// internalSeeds: differently seeded re-runs made before a field is accepted as
// library-internal randomness. A truly random byte stays constant over the
// n+3 samples with probability 2^-8(n+2): "some byte position constant" is a
// safe sign of a partly fixed field.
const internalSeeds = 16

// fromInternal decides whether a random field the seam cannot explain is
// fresh randomness of the seeded library-internal source ("everything tink
// draws goes through crypto/rand.Reader" is the harness's assumption, not
// C20's). redo re-executes the very same call on the restored seam stream and
// returns the field (nil if the call failed). Accepted only if
//  1. the field is a function of (seam stream, library seed): same seed ⇒ same field;
//  2. a different seed gives a different field — every time, and for a field
//     that is a copy of random bytes no byte position stays constant;
//  3. two consecutive calls under one seed differ.
func (w *world) fromInternal(wn win, loc, field string, orig []byte, perByte bool, redo func() []byte) (bool, string) {
	key := loc + "." + field
	again := func() []byte {
		var v []byte
		w.replay(wn, key, func() { v = append([]byte(nil), redo()...) })
		return v
	}
	if len(orig) == 0 {
		return false, "empty field"
	}
	s0 := w.nextSeed()
	w.reseed(s0)
	a1 := again()
	b1 := again()
	if len(a1) == 0 || len(b1) == 0 {
		return false, "the call fails when repeated"
	}
	if bytes.Equal(a1, b1) {
		return false, "two consecutive calls under one library seed give the same " + field
	}
	w.reseed(s0)
	a2 := again()
	if !bytes.Equal(a1, a2) {
		return false, "the " + field + " is a function neither of the bytes issued through crypto/rand.Reader nor of the seeded library-internal source (counter, clock or cached state?)"
	}
	samples := [][]byte{orig, a1, b1}
	n := internalSeeds
	if w.internal[key] >= 2 {
		n = 1 // confirmed twice in this run already: one differently seeded re-run and the no-repeat sets
	}
	for i := 0; i < n; i++ {
		w.reseed(w.nextSeed())
		x := again()
		if len(x) == 0 {
			return false, "the call fails when repeated"
		}
		for _, y := range samples {
			if bytes.Equal(x, y) {
				return false, "the " + field + " does not change with the seed of the library-internal source"
			}
		}
		samples = append(samples, x)
	}
	if perByte && n == internalSeeds {
		for pos := range orig {
			same := true
			for _, y := range samples[1:] {
				if len(y) != len(orig) || y[pos] != orig[pos] {
					same = false
					break
				}
			}
			if same {
				return false, fmt.Sprintf("byte %d of the %s is %02x under %d different seeds", pos, field, orig[pos], len(samples))
			}
		}
	}
	w.internal[key]++
	w.oracles["seed"] = true
	w.r.Probe("field-from-library-internal-randomness:" + key)
	if w.r.Tracing() {
		w.r.Logf("  %s: not issued through crypto/rand.Reader; accepted as library-internal randomness after %d re-runs", key, len(samples)+1)
	}
	return true, ""
}

// markEff records in the ledger that data[from:to) of the call explains a judged field.
func (w *world) markEff(wn win, from, to int) {
	for i := from; i < to && i < len(wn.eff); i++ {
		a := wn.led0 + wn.eff[i]
		ledger.mark(a, a+1)
	}
}

// noteLeftover: the field at data[a:a+n) was served by a request that asked for
// more than the field: the call leaves issued bytes behind (a read-ahead
// buffer, or candidates it discards). From then on the process treats the
// library as possibly stateful (every run gets its own stream).
func (w *world) noteLeftover(wn win, a, n int) {
	for _, q := range wn.reqs {
		if int(q.off) <= a && a+n <= int(q.off)+q.n && q.n > n {
			leftoverSeen = true
			return
		}
	}
}

func overlaps(a, b int, excl [][2]int) bool {
	for _, x := range excl {
		if a < x[1] && x[0] < b {
			return true
		}
	}
	return false
}

// explainCopy explains a field that is a copy of random bytes, in this order:
//
//	a. a contiguous range of data[lo:hi) — the bytes issued to ordinary requests
//	   during this very call — outside excl (ranges sibling fields use); idx ≥ 0;
//	b. bytes of a bulk fetch made during this call, or bytes issued before the
//	   call, that no judged field has used yet (a library that buffers
//	   randomness); if only USED bytes match, the randomness is handed out twice:
//	   C20/randomness-reused;
//	c. fresh randomness of the seeded library-internal source (fromInternal);
//	d. otherwise the violation origKey.
//
// Whatever explains the field is marked used in the ledger.
func (w *world) explainCopy(wn win, loc, field string, v []byte, lo, hi int, excl [][2]int, origKey, origDetail string, redo func() []byte) (idx int, ok bool) {
	r := w.r
	if hi > len(wn.data) {
		hi = len(wn.data)
	}
	if lo > hi {
		lo = hi
	}
	if len(v) > 0 {
		for pos := lo; pos+len(v) <= hi; {
			i := bytes.Index(wn.data[pos:hi], v)
			if i < 0 {
				break
			}
			if a := pos + i; !overlaps(a, a+len(v), excl) {
				w.markEff(wn, a, a+len(v))
				w.noteLeftover(wn, a, len(v))
				w.oracles["copy"] = true
				if wn.short {
					r.Probe("field-delivered-by-short-reads")
				}
				return a, true
			}
			pos += i + 1
		}
	}
	key := loc + "." + field
	reused := func(where string) (int, bool) {
		r.Violation("C20/randomness-reused:"+key, fmt.Sprintf("the %s %s consists of bytes %s that already make up an earlier judged field: the same random bytes were handed out twice", field, core.Hex(v, 40), where))
		return -1, false
	}
	if len(v) > 0 {
		for _, b := range wn.bulk {
			if i := bytes.Index(wn.raw[b[0]:b[1]], v); i >= 0 {
				a := wn.led0 + b[0] + i
				if ledger.usedAny(a, a+len(v)) {
					if len(v) >= 7 {
						return reused("of a bulk fetch made during this call")
					}
					continue
				}
				ledger.mark(a, a+len(v))
				pooledSeen = true
				w.oracles["pooled"] = true
				r.Probe("field-from-bulk-fetch-of-this-call:" + key)
				return -1, true
			}
		}
		switch at, st := ledger.find(v, wn.led0); st {
		case ledgerFresh:
			ledger.mark(at, at+len(v))
			pooledSeen = true
			w.oracles["pooled"] = true
			r.Probe("field-from-earlier-issued-bytes:" + key)
			if r.Tracing() {
				r.Logf("  %s: made of bytes issued %d bytes before this call and not used since", key, wn.led0-at)
			}
			return -1, true
		case ledgerUsed:
			if len(v) >= 7 { // a shorter field can coincide with some of the last 2^20 issued bytes by chance
				return reused(fmt.Sprintf("issued %d bytes before this call", wn.led0-at))
			}
		}
	}
	if good, why := w.fromInternal(wn, loc, field, v, true, redo); !good {
		r.Violation(origKey, origDetail+"; nor bytes issued earlier and still unused, nor library-internal randomness: "+why)
		return -1, false
	}
	return -1, true
}

// underPooledRNG: an output that is a function of the draw got fewer seam
// bytes during its call than its scheme needs. If this process has seen the
// library buffer randomness (some field was explained by earlier-issued
// bytes), the missing bytes may come out of that buffer, which the harness
// cannot see into: the call is then repeated twice on the restored stream and
// the three outputs must be pairwise different. Without observed buffering the
// strict rule stays.
func (w *world) underPooledRNG(wn win, loc, field string, orig []byte, redo func() []byte) bool {
	if !pooledSeen || len(orig) == 0 {
		return false
	}
	var a, b []byte
	w.replay(wn, loc+"."+field, func() { a = append([]byte(nil), redo()...) })
	w.replay(wn, loc+"."+field, func() { b = append([]byte(nil), redo()...) })
	if len(a) == 0 || len(b) == 0 || bytes.Equal(a, b) || bytes.Equal(a, orig) || bytes.Equal(b, orig) {
		return false
	}
	w.oracles["pooled"] = true
	w.r.Probe("function-output-under-pooled-rng:" + loc + "." + field)
	return true
}

// fnSpec describes one sensitivity check.
type fnSpec struct {
	loc     string
	need    randNeed
	cost    int
	probe   string
	skip    bool     // consumption is still checked, the re-runs are not made (economy on slow keys)
	exclude [][2]int // positions that belong to another explanation (the key-ID bytes of a key generation)
	all     bool     // sweep at once
	// changed re-runs the call with byte j flipped and reports whether the
	// random-dependent output field for position j differs from the original.
	changed func(j int) bool
}

// sensitivity is the "fn" oracle: the output of the call depends on the
// randomness it drew. It is a NECESSARY condition only — a conforming library
// may draw bytes it then discards (candidates of a rejection sampler, spare
// key-ID candidates, read-ahead it keeps for later), so no particular
// position has to matter. What must hold: the number of positions whose flip
// (XOR 0xFF) changes the output is at least the scheme's randomness length L
// (every byte of a scalar, a hedging value, a salt, a seed influences the
// output: ECDSA hashes all of Z into its DRBG, PSS hashes the whole salt,
// ML-DSA/SLH-DSA absorb rnd/addrnd, X25519 clamping and the P-521 mask keep
// at least one bit of every byte).
//
// A handful of positions is flipped first. If all of them matter, the check is
// done (that is the whole cost on a tree that draws exactly what it needs). If
// one does not, the positions outside s.exclude are swept — those of the
// smallest requests first, stopping as soon as L influential ones are found —
// and fewer than L is the violation.
func (w *world) sensitivity(wn win, s fnSpec) {
	T := len(wn.data)
	if T < s.need.min {
		w.r.Violation("C20/short-consumption:"+s.loc, fmt.Sprintf("the call consumed %d random bytes, the scheme needs %d", T, s.need.min))
		return
	}
	if T == 0 || s.skip {
		return
	}
	L := s.need.min
	var univ []int
	for j := 0; j < T; j++ {
		if !overlaps(j, j+1, s.exclude) {
			univ = append(univ, j)
		}
	}
	if len(univ) == 0 || L == 0 {
		return
	}
	tested := map[int]bool{} // position → influential
	test := func(j int) bool {
		if v, ok := tested[j]; ok {
			return v
		}
		v := s.changed(j)
		tested[j] = v
		return v
	}
	influential := func() int {
		n := 0
		for _, v := range tested {
			if v {
				n++
			}
		}
		return n
	}
	mode := "sample"
	if s.all {
		mode = "all"
	} else if s.cost == 0 && len(univ) <= 80 {
		mode = rapid.SampledFrom([]string{"sample", "sample", "sample", "sample", "all"}).Draw(w.t, "fnMode")
	}
	var pos, dead []int
	if mode == "all" {
		pos = univ
		w.r.Probe("full-sweep")
	} else {
		k := 2
		switch s.cost {
		case 0:
			k = rapid.IntRange(2, 5).Draw(w.t, "fnCount")
		case 1:
			k = rapid.IntRange(2, 3).Draw(w.t, "fnCount")
		default:
			k = rapid.IntRange(2, 3).Draw(w.t, "fnCount")
		}
		for i := 0; i < k; i++ {
			switch rapid.SampledFrom([]string{"any", "any", "any", "first", "last"}).Draw(w.t, "fnPosKind") {
			case "first":
				pos = append(pos, univ[0])
				w.r.Probe("edge-position")
			case "last":
				pos = append(pos, univ[len(univ)-1])
				w.r.Probe("edge-position")
			default:
				pos = append(pos, univ[rapid.IntRange(0, len(univ)-1).Draw(w.t, "fnPos")])
			}
		}
	}
	for _, j := range pos {
		if !test(j) {
			dead = append(dead, j)
		}
	}
	w.oracles["fn"] = true
	if s.probe != "" {
		w.r.Probe(s.probe)
	}
	swept := false
	if len(dead) > 0 && influential() < L {
		// some flipped byte does not matter: count the ones that do
		swept = true
		w.r.Probe("dead-position-swept")
		size := make([]int, T) // size of the request a position belongs to
		for _, q := range wn.reqs {
			for j := int(q.off); j < int(q.off)+q.n && j < T; j++ {
				size[j] = q.n
			}
		}
		order := append([]int(nil), univ...)
		sort.SliceStable(order, func(x, y int) bool { return size[order[x]] < size[order[y]] })
		for _, j := range order {
			if influential() >= L {
				break
			}
			test(j)
		}
	}
	n := influential()
	if w.r.Tracing() {
		w.r.Logf("  fn %s: flipped %v of %d consumed bytes, output unchanged at %v; swept=%v, %d of %d tested positions matter (scheme needs %d)", s.loc, pos, T, dead, swept, n, len(tested), L)
	}
	if (len(dead) > 0 && n < L) || n == 0 {
		w.r.Violation("C20/insensitive:"+s.loc, fmt.Sprintf("only %d of the %d consumed bytes (%d tested) influence the output, the scheme's randomness is %d bytes; flipping %v changed nothing", n, T, len(tested), L, dead))
	}
}

func (w *world) noRepeat(ks *keyState, field string, v []byte) {
	m := ks.seen[field]
	if m == nil {
		m = map[string]bool{}
		ks.seen[field] = m
	}
	if m[string(v)] {
		w.r.Violation("C20/repeat:"+ks.loc+"."+field, fmt.Sprintf("%s %s appeared twice under one key", field, core.Hex(v, 40)))
	}
	m[string(v)] = true
}

// ---------------------------------------------------------------------------
// key generation

func newKeyVia(e catalog.Entry) (uint32, key.Key, error) {
	m := keyset.NewManager()
	id, err := m.AddNewKeyFromParameters(e.Params)
	if err != nil {
		return 0, nil, err
	}
	if err := m.SetPrimary(id); err != nil {
		return 0, nil, err
	}
	h, err := m.Handle()
	if err != nil {
		return 0, nil, err
	}
	ent, err := h.Entry(0)
	if err != nil {
		return 0, nil, err
	}
	return id, ent.Key(), nil
}

// onlyMaterial: the call drew no seam bytes, or every byte it drew is the
// key's own material (for a key without secret accessors — opaque legacy key
// data — at most the one request that fetched that material).
func onlyMaterial(wn win, k key.Key) bool {
	if len(wn.reqs) == 0 {
		return true
	}
	var secrets []secretField
	secretsOf(k, "", 0, &secrets)
	if len(secrets) == 0 {
		return len(wn.reqs) == 1
	}
	n := 0
	for _, s := range secrets {
		n += len(s.data)
	}
	return n >= len(wn.data) && copiedDisjoint(wn.data, secrets)
}

// idIs: the ID is the 32-bit value of the four issued bytes, in either byte order.
func idIs(id uint32, b []byte) bool {
	return binary.BigEndian.Uint32(b) == id || binary.LittleEndian.Uint32(b) == id
}

// findID returns the offset of four issued bytes whose 32-bit value (either
// byte order) is id, preferring the start of the window; -1 if there are none.
func findID(id uint32, data []byte) int {
	for off := 0; off+4 <= len(data); off++ {
		if idIs(id, data[off:off+4]) {
			return off
		}
	}
	return -1
}

func bswap(v uint32) uint32 { return v<<24 | (v&0xff00)<<8 | (v>>8)&0xff00 | v>>24 }

func entryLoc(e catalog.Entry) string { return string(e.Class) + "/" + e.KeyType }

// findMaterial locates secret v in the issued bytes: v occurs in the issued
// material, or (keys that append derived bytes to their seeds: SLH-DSA
// sk = seeds ‖ root) v starts with all of the issued material. It returns the
// range of material that v copies, ok=false if v is not a copy.
func findMaterial(material, v []byte) (from, to int, ok bool) {
	if len(v) == 0 {
		return 0, 0, false
	}
	if len(material) >= len(v) {
		i := bytes.Index(material, v)
		return i, i + len(v), i >= 0
	}
	if len(material) >= 16 && 2*len(material) >= len(v) && bytes.HasPrefix(v, material) {
		return 0, len(material), true
	}
	return 0, 0, false
}

// copiedDisjoint: every secret is a copy of issued bytes and no issued byte
// serves two secrets (two halves of a key drawn once and used twice would
// otherwise pass).
func copiedDisjoint(material []byte, secrets []secretField) bool {
	if len(secrets) == 0 {
		return false
	}
	type rg struct{ a, b int }
	var got []rg
	for _, s := range secrets {
		a, b, ok := findMaterial(material, s.data)
		if !ok {
			return false
		}
		for _, o := range got {
			if a < o.b && o.a < b {
				return false
			}
		}
		got = append(got, rg{a, b})
	}
	return true
}

// markMaterial marks, in the ledger, exactly the issued bytes the secrets copy
// (material = data without [idFrom,idTo)); what else the call drew stays unused.
func (w *world) markMaterial(wn win, idFrom, idTo int, secrets []secretField) {
	material := without(wn.data, idFrom, idTo)
	for _, s := range secrets {
		a, b, ok := findMaterial(material, s.data)
		if !ok {
			continue
		}
		for p := a; p < b; p++ {
			q := p
			if p >= idFrom {
				q = p + idTo - idFrom
			}
			w.markEff(wn, q, q+1)
		}
		if a >= idFrom {
			a, b = a+idTo-idFrom, b+idTo-idFrom
		}
		w.noteLeftover(wn, a, b-a)
	}
}

// explainSecrets: the key material is not made of bytes of ordinary requests
// of its own call; each secret must then be explained by the rest of the
// ladder (bulk fetch / earlier-issued unused bytes), or the material as a
// whole by the library-internal source.
func (w *world) explainSecrets(wn win, loc string, secrets []secretField, cat []byte, origKey, origDetail string, redoCat func() []byte) bool {
	all := len(secrets) > 0
	for _, sec := range secrets {
		if len(sec.data) < 7 {
			all = false
			break
		}
		found := false
		for _, b := range wn.bulk {
			if i := bytes.Index(wn.raw[b[0]:b[1]], sec.data); i >= 0 && !ledger.usedAny(wn.led0+b[0]+i, wn.led0+b[0]+i+len(sec.data)) {
				ledger.mark(wn.led0+b[0]+i, wn.led0+b[0]+i+len(sec.data))
				found = true
				break
			}
		}
		if !found {
			switch at, st := ledger.find(sec.data, wn.led0); st {
			case ledgerFresh:
				ledger.mark(at, at+len(sec.data))
				found = true
			case ledgerUsed:
				w.r.Violation("C20/randomness-reused:"+loc+".key", fmt.Sprintf("key material %s consists of bytes issued %d bytes before this call that already make up an earlier judged field", sec.name, wn.led0-at))
				return false
			}
		}
		if !found {
			all = false
			break
		}
	}
	if all {
		pooledSeen = true
		w.oracles["pooled"] = true
		w.r.Probe("field-from-earlier-issued-bytes:" + loc + ".key")
		return true
	}
	if good, why := w.fromInternal(wn, loc, "key", cat, true, redoCat); !good {
		w.r.Violation(origKey, origDetail+"; nor of bytes issued earlier and still unused, nor library-internal randomness: "+why)
		return false
	}
	return true
}

func (w *world) genKey(e catalog.Entry) key.Key {
	r := w.r
	loc := entryLoc(e)
	var id uint32
	var k key.Key
	var err error
	w.armRejection()
	wn := w.bracket(loc+".keygen", func() { id, k, err = newKeyVia(e) })
	r.Logf("keygen %s -> id=%08x %s, consumed %d", e.Name, id, describe(err), len(wn.data))
	if err != nil || k == nil {
		r.Violation("C20/call-failed:"+loc+".keygen", fmt.Sprintf("%s: %v", e.Name, err))
		return nil
	}
	T := len(wn.data)
	// the ID is the 32-bit value of some four issued bytes (either byte order) or a
	// function of the call's first request; the key material must come from the
	// other issued bytes
	idOff, idEnd, idOK := w.explainID(wn, id, func() (uint32, bool) {
		id2, k2, err2 := newKeyVia(e)
		return id2, err2 == nil && k2 != nil
	}, func() bool { return onlyMaterial(wn, k) })
	if !idOK {
		return nil
	}
	idLen := idEnd - idOff
	w.noteID(id)
	material := without(wn.data, idOff, idEnd)
	keyField := func() []byte {
		_, k2, err2 := newKeyVia(e)
		if err2 != nil || k2 == nil {
			return nil
		}
		var sec []secretField
		secretsOf(k2, "", 0, &sec)
		var c []byte
		for _, s := range sec {
			c = append(c, s.data...)
		}
		return c
	}
	var secrets []secretField
	secretsOf(k, "", 0, &secrets)
	var cat []byte
	for _, s := range secrets {
		cat = append(cat, s.data...)
	}
	allCopied := copiedDisjoint(material, secrets)
	if allCopied {
		w.markMaterial(wn, idOff, idEnd, secrets)
	}
	r.Obs("key material", cat)
	if !e.Randomized {
		r.Probe("keygen-nonrandomized-type")
	}
	keyInternal := false // the key material was accepted as library-internal randomness
	mandatory := symmetricClass(e.Class) || e.KeyType == "mldsa" || e.KeyType == "jwtmldsa" || e.KeyType == "slhdsa"
	if mandatory {
		if len(secrets) == 0 {
			w.t.Fatalf("harness: no secret accessor found on %T", k)
		}
		if !allCopied {
			if !w.explainSecrets(wn, loc, secrets, cat, "C20/key-not-from-rng:"+loc,
				fmt.Sprintf("%s: key material %s is not made of disjoint ranges of the %d bytes issued during key generation", e.Name, core.Hex(cat, 40), len(material)), keyField) {
				return nil
			}
			keyInternal = true
		} else {
			w.oracles["keycopy"] = true
		}
		if keyInternal {
			// nothing more to say about seam bytes
		} else if symmetricClass(e.Class) {
			r.Probe("keygen-symmetric-copy")
		} else {
			r.Probe("keygen-asymmetric-copy")
		}
		if e.KeyType == "slhdsa" {
			r.Probe("slhdsa-keygen-seeds-copied")
		}
	} else if allCopied {
		r.Probe("keygen-asymmetric-copy")
	}
	if !symmetricClass(e.Class) {
		need := keygenNeed(e)
		if bits := rsaModulusBits(e); bits != 0 || e.RSABased() {
			w.rsaKeygen(e, loc, wn, id, k, secrets)
		} else if T < idLen+need {
			// the key did not (fully) come through the seam
			if !keyInternal && !w.underPooledRNG(wn, loc, "key", cat, keyField) {
				if good, why := w.fromInternal(wn, loc, "key", cat, false, keyField); !good {
					r.Violation("C20/short-consumption:"+loc+".keygen", fmt.Sprintf("%s: key generation consumed %d random bytes, the scheme needs %d; nor is the key library-internal randomness: %s", e.Name, T, idLen+need, why))
					return nil
				}
			}
		} else {
			if wn.forced && T > idLen+need {
				r.Fault("forced-scalar-rejection")
				w.faults["rejection"] = true
			}
			// The ID's bytes belong to the ID explanation; the key must depend on at
			// least `need` of the other bytes (judged by its secret material, so that a
			// changed ID requirement does not count as a changed key).
			var excl [][2]int
			if idLen > 0 {
				excl = [][2]int{{idOff, idEnd}}
			}
			w.sensitivity(wn, fnSpec{loc: loc + ".keygen", need: randNeed{need, true}, cost: e.Cost, probe: "keygen-asymmetric-fn", exclude: excl,
				changed: func(j int) bool {
					var k2 key.Key
					var err2 error
					w.rerun(wn, j, loc+".keygen", func() { _, k2, err2 = newKeyVia(e) })
					if err2 != nil || k2 == nil {
						return true
					}
					if len(cat) > 0 {
						var sec []secretField
						secretsOf(k2, "", 0, &sec)
						var c []byte
						for _, s := range sec {
							c = append(c, s.data...)
						}
						return !bytes.Equal(c, cat)
					}
					return !k.Equal(k2)
				}})
			w.oracles["keyfn"] = true
		}
	}
	if len(cat) > 0 {
		if w.keyMat[string(cat)] {
			r.Violation("C20/repeat:"+loc+".key", fmt.Sprintf("%s: two generated keys carry the same material", e.Name))
		}
		w.keyMat[string(cat)] = true
	}
	return k
}

// rsaKeygen: crypto/internal/fips140/rsa.randomPrime reads (bits/2)/8 bytes per
// candidate, ORs 0xC0 into the first and 1 into the last byte and tests it;
// Miller-Rabin bases come from the global DRBG, not the reader. So P and Q
// must each be such a masked block issued during this call, and flipping a
// byte inside either accepted block must change the key.
func (w *world) rsaKeygen(e catalog.Entry, loc string, wn win, id uint32, k key.Key, secrets []secretField) {
	material := wn.data
	var primes [][]byte
	for _, s := range secrets {
		if strings.HasSuffix(s.name, "P") || strings.HasSuffix(s.name, "Q") {
			if n := s.name[strings.LastIndex(s.name, ".")+1:]; n == "P" || n == "Q" {
				primes = append(primes, s.data)
			}
		}
	}
	if len(primes) < 2 {
		return // composite keys expose the RSA part as a nested key; reflection reaches it, otherwise nothing to compare
	}
	var offs []int
	for _, p := range primes[:2] {
		bl := len(p)
		found := -1
		for off := 0; bl >= 2 && off+bl <= len(material); off++ {
			b := material[off : off+bl]
			if b[0]|0xc0 == p[0] && b[bl-1]|1 == p[bl-1] && bytes.Equal(b[1:bl-1], p[1:bl-1]) {
				found = off
				break
			}
		}
		if found < 0 {
			w.r.Violation("C20/key-not-from-rng:"+loc, fmt.Sprintf("%s: an RSA prime is not a (masked) candidate block issued during key generation", e.Name))
			return
		}
		offs = append(offs, found)
	}
	w.oracles["keycopy"] = true
	w.r.Probe("keygen-asymmetric-copy")
	w.r.Probe("rsa-primes-located-in-stream")
	for i, off := range offs {
		j := off + rapid.IntRange(0, len(primes[i])-1).Draw(w.t, "rsaPos")
		var k2 key.Key
		var err2 error
		w.rerun(wn, j, loc+".keygen", func() { _, k2, err2 = newKeyVia(e) })
		if err2 == nil && k2 != nil && k.Equal(k2) {
			w.r.Violation("C20/insensitive:"+loc+".keygen", fmt.Sprintf("%s: flipping byte %d of an accepted prime candidate left the key unchanged", e.Name, j))
		}
	}
	w.oracles["keyfn"] = true
	w.r.Probe("keygen-asymmetric-fn")
}

// wrap puts the key into a one-key handle; a key without ID requirement gets
// its ID from the RNG.
func (w *world) wrap(ks *keyState) *keyset.Handle {
	var h *keyset.Handle
	var id uint32
	var err error
	wn := w.bracket("keyset.Manager.AddKey", func() {
		m := keyset.NewManager()
		if id, err = m.AddKeyWithOpts(ks.k, internalapi.Token{}, keyset.AsPrimary()); err == nil {
			h, err = m.Handle()
		}
	})
	if err != nil || h == nil {
		w.t.Fatalf("harness: cannot wrap %s into a handle: %v", ks.e.Name, err)
	}
	if _, has := ks.k.IDRequirement(); !has {
		if _, _, ok := w.explainID(wn, id, func() (uint32, bool) {
			id2, err2 := keyset.NewManager().AddKeyWithOpts(ks.k, internalapi.Token{}, keyset.AsPrimary())
			return id2, err2 == nil
		}, func() bool { return len(wn.reqs) == 0 }); !ok {
			return h
		}
		w.noteID(id)
		w.r.Probe("raw-key-id-draw")
	}
	return h
}

func (w *world) addKey() { w.addKeyFor(drawEntry(w.t, &prodList, "keyEntry")) }

func (w *world) addKeyFor(e catalog.Entry) {
	t := w.t
	ks := &keyState{e: e, loc: entryLoc(e), seen: map[string]map[string]bool{}, sigs: map[string][][]byte{}}
	if catalog.Pooled(e) {
		var k key.Key
		var err error
		idx := rapid.IntRange(0, catalog.PoolKeysPerGroup-1).Draw(t, "poolIdx")
		id := rapid.Uint32().Draw(t, "poolKeyID")
		w.bracket("catalog.PoolKey", func() { k, _, err = catalog.PoolKey(e, idx, id) })
		if err != nil || k == nil {
			t.Fatalf("harness: PoolKey(%s): %v", e.Name, err)
		}
		ks.k = k
		w.r.Probe("pooled-key")
		w.r.Logf("key %d: %s from the pool (#%d)", len(w.keys), e.Name, idx)
	} else {
		ks.k = w.genKey(e)
		if ks.k == nil {
			return
		}
	}
	h := w.wrap(ks)
	ks.handles = append(ks.handles, h)
	p, err := factoryPrim(string(e.Class), ks.k, h)
	if err != nil {
		t.Fatalf("harness: factory refuses %s: %v", e.Name, err)
	}
	ks.prims = append(ks.prims, p)
	// every other producing path the handle offers for this key type
	var alt *prim
	var ok bool
	w.bracket(ks.loc+".prehash-factory", func() { alt, ok, err = prehashPrim(ks.k, h) })
	if ok {
		if err != nil {
			t.Fatalf("harness: signprehash refuses %s: %v", e.Name, err)
		}
		ks.prims = append(ks.prims, alt)
	}
	w.keys = append(w.keys, ks)
	if e.Class == catalog.Signature || e.Class == catalog.JWTSignature {
		for _, sp := range ks.prims {
			w.repeatedSign(ks, sp, false)
		}
	}
}

// repeatedSign asserts C20's clause "repeated signing of one message with a
// randomized scheme gives different signatures" directly, for every signing
// primitive of every randomized signature key of a run, independently of the
// provenance / sensitivity ladder: one signer signs the SAME message twice in
// a row, then another message; the two signatures of the one message must differ.
func (w *world) repeatedSign(ks *keyState, p *prim, third bool) {
	r := w.r
	loc := ks.loc
	if p.kind != "factory" {
		loc += "[" + p.kind + "]"
	}
	sign := func(msg []byte) []byte {
		var out []byte
		var err error
		w.bracket(loc+".repeated-sign", func() { out, err = p.produce(msg, nil) })
		if err != nil {
			r.Violation("C20/call-failed:"+loc, fmt.Sprintf("%s: %v", ks.e.Name, err))
			return nil
		}
		r.Obs("sig", out)
		return append([]byte(nil), out...)
	}
	s1 := sign(messages[0])
	s2 := sign(messages[0])
	if s1 == nil || s2 == nil {
		return
	}
	if bytes.Equal(s1, s2) {
		r.Violation("C20/repeated-signature:"+loc, fmt.Sprintf("%s: one signer signed one message twice in a row and returned the same signature %s", ks.e.Name, core.Hex(s1, 32)))
		return
	}
	ks.sigs[p.kind+"/0"] = append(ks.sigs[p.kind+"/0"], s1, s2)
	if third { // and the signer goes on signing other messages afresh
		s3 := sign(messages[2])
		if s3 == nil {
			return
		}
		if bytes.Equal(s3, s1) || bytes.Equal(s3, s2) {
			r.Violation("C20/repeated-signature:"+loc, fmt.Sprintf("%s: the signature of another message equals the previous one", ks.e.Name))
			return
		}
		ks.sigs[p.kind+"/2"] = append(ks.sigs[p.kind+"/2"], s3)
	}
	w.oracles["resign"] = true
	r.Probe("repeated-signature-direct")
}

// slowSignerRun is the quick tier's rare run for the slow small-signature
// SLH-DSA sets (about 0.7 s per signature): a pooled key, one signer, and only
// the repeated-signing clause — no byte-flip re-runs, no further history.
func (w *world) slowSignerRun() {
	var cands []catalog.Entry
	for _, e := range catalog.ByKeyType(catalog.Signature, "slhdsa") {
		if p, ok := e.Params.(*slhdsa.Parameters); ok && p.KeySize() == 64 && p.SignatureType() == slhdsa.SmallSignature {
			cands = append(cands, e)
		}
	}
	if len(cands) == 0 {
		w.t.Fatalf("harness: no SLH-DSA 128s entry in the catalog")
	}
	w.addKeyFor(cands[rapid.IntRange(0, len(cands)-1).Draw(w.t, "slowEntry")])
	if len(w.keys) > 0 {
		ks := w.keys[len(w.keys)-1]
		var s3 []byte
		var err error
		w.bracket(ks.loc+".repeated-sign", func() { s3, err = ks.prims[0].produce(messages[2], nil) })
		if err != nil {
			w.r.Violation("C20/call-failed:"+ks.loc, fmt.Sprintf("%s: %v", ks.e.Name, err))
			return
		}
		for _, prev := range ks.sigs["factory/0"] {
			if bytes.Equal(prev, s3) {
				w.r.Violation("C20/repeated-signature:"+ks.loc, fmt.Sprintf("%s: the signature of another message equals the previous one", ks.e.Name))
				return
			}
		}
	}
	w.r.Probe("slow-signer-run")
}

// ---------------------------------------------------------------------------
// manager with scripted collisions

// legacyTemplates: key templates whose key type has no parameters parser, so that
// Manager.Add takes its legacy-registry path (registry.NewKeyData + key serialization).
type legacyTemplate struct {
	name, typ string
	f         func() *tinkpb.KeyTemplate
}

var legacyList []legacyTemplate

func legacyTemplates() []legacyTemplate {
	if legacyList != nil {
		return legacyList
	}
	prefixes := []tinkpb.OutputPrefixType{tinkpb.OutputPrefixType_RAW, tinkpb.OutputPrefixType_TINK, tinkpb.OutputPrefixType_LEGACY, tinkpb.OutputPrefixType_CRUNCHY}
	for _, st := range []struct{ typ, url string }{{"stub-mac", stubkm.MACURL}, {"stub-aead", stubkm.AEADURL}} {
		for _, pf := range prefixes {
			legacyList = append(legacyList, legacyTemplate{st.typ + "/" + pf.String(), st.typ, func() *tinkpb.KeyTemplate {
				return &tinkpb.KeyTemplate{TypeUrl: st.url, OutputPrefixType: pf}
			}})
		}
	}
	for _, pf := range prefixes[:2] {
		legacyList = append(legacyList, legacyTemplate{"kms-envelope/" + pf.String(), "kms-envelope", func() *tinkpb.KeyTemplate {
			kt, err := aead.CreateKMSEnvelopeAEADKeyTemplate(fakeKEKURI, aead.AES128GCMKeyTemplate())
			if err != nil {
				panic("harness: " + err.Error())
			}
			kt.OutputPrefixType = pf
			return kt
		}})
	}
	return legacyList
}

// fakeKEKURI: a fake-kms key URI (an AES128-GCM test keyset encoded in the URI, generated once with fakekms.NewKeyURI).
const fakeKEKURI = "fake-kms://CM-F1JMOElQKSAowdHlwZS5nb29nbGVhcGlzLmNvbS9nb29nbGUuY3J5cHRvLnRpbmsuQWVzR2NtS2V5EhIaEE1U0GicPNfwgYIBMyus-mwYARABGM-F1JMOIAE"

func (w *world) mgrAdd() {
	t, r, g := w.t, w.r, w.g
	// what is added: a key type of the catalog (new registry: parameters → key), or a
	// key type that only has a legacy registry.KeyManager (Manager.Add's fallback
	// path: stub key managers, the KMS-envelope AEAD key type), with any prefix type
	var name, eloc string
	var add func(m *keyset.Manager) (uint32, error)
	if rapid.SampledFrom([]string{"catalog", "catalog", "legacy"}).Draw(t, "mgrKind") == "legacy" {
		lt := legacyTemplates()[rapid.IntRange(0, len(legacyTemplates())-1).Draw(t, "legacyTemplate")]
		name, eloc = lt.name, "legacy/"+lt.typ
		add = func(m *keyset.Manager) (uint32, error) { return m.Add(lt.f()) }
		r.Probe("manager-add-legacy-key-manager")
	} else {
		e := cheapSym[rapid.IntRange(0, len(cheapSym)-1).Draw(t, "mgrEntry")]
		name, eloc = name, eloc
		add = func(m *keyset.Manager) (uint32, error) { return m.AddNewKeyFromParameters(e.Params) }
	}
	scratch := func() (uint32, key.Key, error) { // the same add on a scratch manager
		m := keyset.NewManager()
		id, err := add(m)
		if err != nil {
			return 0, nil, err
		}
		if err := m.SetPrimary(id); err != nil {
			return 0, nil, err
		}
		h, err := m.Handle()
		if err != nil {
			return 0, nil, err
		}
		ent, err := h.Entry(0)
		if err != nil {
			return 0, nil, err
		}
		return id, ent.Key(), nil
	}
	var vals []uint32
	if len(w.mgrIDs) > 0 {
		// IDs this manager handed out earlier: live ones and ones deleted since
		var gone []uint32
		for _, id := range w.mgrIDs {
			if w.mgrGone[id] {
				gone = append(gone, id)
			}
		}
		n := rapid.IntRange(0, 3).Draw(t, "collisions")
		for i := 0; i < n; i++ {
			if len(gone) > 0 && rapid.SampledFrom([]string{"deleted", "deleted", "any"}).Draw(t, "collideKind") == "deleted" {
				vals = append(vals, gone[rapid.IntRange(0, len(gone)-1).Draw(t, "collideWithDeleted")])
				continue
			}
			vals = append(vals, w.mgrIDs[rapid.IntRange(0, len(w.mgrIDs)-1).Draw(t, "collideWith")])
		}
	}
	switch rapid.SampledFrom([]string{"stream", "stream", "zero", "max", "drawn"}).Draw(t, "freshKind") {
	case "zero":
		vals = append(vals, 0)
	case "max":
		vals = append(vals, 0xffffffff)
	case "drawn":
		vals = append(vals, rapid.Uint32().Draw(t, "freshID"))
	}
	g.ClearScript()
	g.Script4(vals...)
	var id uint32
	var err error
	wn := w.bracket("keyset.Manager.Add", func() { id, err = add(w.mgr) })
	g.ClearScript()
	r.Logf("manager.Add(%s) scripted=%08x -> id=%08x %s (scripted reads served: %d, stream bytes: %d)", name, vals, id, describe(err), wn.scripted, len(wn.data))
	if err != nil {
		r.Violation("C20/call-failed:keyset.Manager.Add", fmt.Sprintf("%s: %v", name, err))
		return
	}
	// The scripted collisions only reach an implementation that draws IDs with
	// 4-byte reads; values it did not consume are dropped (never a failure).
	consumed := vals
	if wn.scripted < len(vals) {
		consumed = vals[:wn.scripted]
		r.Count("scripted-id-not-consumed", int64(len(vals)-wn.scripted))
	}
	// what a manager that re-draws until the ID is unused must return, reading
	// its four bytes big-endian (what tink does) or little-endian (equally fine)
	walk := func(le bool) (exp uint32, ok bool, collisions, goneCollisions, off int) {
		for _, v := range consumed {
			if le {
				v = bswap(v)
			}
			if !w.used[v] {
				return v, true, collisions, goneCollisions, 0
			}
			collisions++
			if w.mgrGone[v] {
				goneCollisions++
			}
		}
		for off+4 <= len(wn.data) {
			v := binary.BigEndian.Uint32(wn.data[off : off+4])
			if le {
				v = bswap(v)
			}
			off += 4
			if !w.used[v] {
				return v, true, collisions, goneCollisions, off
			}
		}
		return 0, false, collisions, goneCollisions, off
	}
	exp, ok, collisions, goneCollisions, off := walk(false)
	if !ok || exp != id {
		if e2, ok2, c2, g2, o2 := walk(true); ok2 && e2 == id {
			exp, ok, collisions, goneCollisions, off = e2, ok2, c2, g2, o2
		}
	}
	if collisions > 0 {
		r.Fault("id-collision-scripted")
		w.faults["collision"] = true
	}
	if goneCollisions > 0 {
		r.Fault("id-collision-deleted-scripted")
		w.faults["collision-deleted"] = true
	}
	if w.mgrGone[id] {
		r.Violation("C20/keyid-reissued-after-delete", fmt.Sprintf("manager handed out key ID %08x again after the key carrying it was deleted (scripted draws %08x)", id, vals))
		return
	}
	if w.used[id] {
		r.Violation("C20/keyid-not-redrawn", fmt.Sprintf("manager handed out key ID %08x a second time (IDs in use: %d, scripted draws %08x)", id, len(w.used), vals))
		return
	}
	idFrom, idTo := 0, off
	if !ok || id != exp {
		if len(consumed) > 0 {
			r.Violation("C20/keyid-not-from-rng", fmt.Sprintf("manager returned key ID %08x; the first unused value among its draws (scripted %08x, then stream %s) is %08x", id, consumed, core.Hex(wn.data, 12), exp))
			return
		}
		// not a copy of four issued bytes: a function of the first request?
		var fine bool
		idFrom, idTo, fine = w.explainID(wn, id, func() (uint32, bool) {
			id2, k2, err2 := scratch() // the same ID draw on a scratch manager
			return id2, err2 == nil && k2 != nil
		}, func() bool {
			hh, herr := w.mgr.Handle()
			if herr != nil && len(w.mgrIDs) > 0 {
				return false
			}
			if herr != nil { // first key, no primary yet: look at it after making it primary
				if w.mgr.SetPrimary(id) != nil {
					return false
				}
				w.mgrPrim = id
				if hh, herr = w.mgr.Handle(); herr != nil {
					return false
				}
			}
			ent, eerr := hh.Entry(hh.Len() - 1)
			return eerr == nil && ent.KeyID() == id && onlyMaterial(wn, ent.Key())
		})
		if !fine {
			return
		}
		if w.idRelaxed {
			w.noSeamIDs(id)
		}
		off = idTo
	}
	if collisions > 0 {
		r.Probe("redraw-on-collision")
	}
	if len(consumed) > 0 && off == 0 {
		r.Probe("scripted-fresh-id")
	} else {
		w.noteID(id) // drawn by the manager, not taken from the harness's script
	}
	w.oracles["id"] = true
	w.used[id] = true
	w.mgrIDs = append(w.mgrIDs, id)
	w.mgrLive = append(w.mgrLive, id)
	if len(w.mgrGone) > 0 {
		r.Probe("add-after-delete")
	}
	r.ObsI("manager id", int64(id))
	// the key added under that ID is a copy of the bytes issued after the ID draws
	if len(w.mgrIDs) == 1 {
		if err := w.mgr.SetPrimary(id); err != nil {
			t.Fatalf("harness: SetPrimary: %v", err)
		}
		w.mgrPrim = id
	}
	h, err := w.mgr.Handle()
	if err != nil {
		t.Fatalf("harness: manager handle: %v", err)
	}
	ent, err := h.Entry(h.Len() - 1)
	if err != nil || ent.KeyID() != id {
		t.Fatalf("harness: last entry of the manager's handle is not the added key (%v)", err)
	}
	var secrets []secretField
	secretsOf(ent.Key(), "", 0, &secrets)
	var cat []byte
	for _, s := range secrets {
		cat = append(cat, s.data...)
	}
	if len(secrets) == 0 {
		// a legacy key (opaque proto key data) exposes no secret accessor: only its ID is judged
		r.Count("manager-key-without-secret-accessor", 1)
	} else if !copiedDisjoint(without(wn.data, idFrom, idTo), secrets) {
		if !w.explainSecrets(wn, eloc, secrets, cat, "C20/key-not-from-rng:"+eloc,
			fmt.Sprintf("%s added to a manager: key material is not made of disjoint ranges of the bytes issued during the call", name),
			func() []byte {
				_, k2, err2 := scratch() // the same key-creation path on a scratch manager
				if err2 != nil || k2 == nil {
					return nil
				}
				var sec []secretField
				secretsOf(k2, "", 0, &sec)
				var c []byte
				for _, s := range sec {
					c = append(c, s.data...)
				}
				return c
			}) {
			return
		}
	} else {
		w.markMaterial(wn, idFrom, idTo, secrets)
	}
	if len(cat) > 0 {
		if w.keyMat[string(cat)] {
			r.Violation("C20/repeat:"+eloc+".key", fmt.Sprintf("%s: two generated keys carry the same material", name))
		}
		w.keyMat[string(cat)] = true
		w.oracles["keycopy"] = true
	}
}

// idSpread: one manager hands out 512 IDs in a row. They must be pairwise
// distinct, and every bit must be set in 256 ± 4·√512 of them (8σ; see noteID
// for the bound) — a self-contained, replayable necessary condition for
// "spread uniformly over the 32-bit range" that does not depend on how the
// manager turns random bytes into an ID.
func (w *world) idSpread() {
	const n = idSpreadFirstN
	e := cheapSym[rapid.IntRange(0, len(cheapSym)-1).Draw(w.t, "spreadEntry")]
	m := keyset.NewManager()
	ids := make([]uint32, 0, n)
	var err error
	wn := w.bracket("keyset.Manager.Add×512", func() {
		for i := 0; i < n && err == nil; i++ {
			var id uint32
			if id, err = m.AddNewKeyFromParameters(e.Params); err == nil {
				ids = append(ids, id)
			}
		}
	})
	if err != nil {
		w.r.Violation("C20/call-failed:keyset.Manager.Add", fmt.Sprintf("%s: %v", e.Name, err))
		return
	}
	seen := make(map[uint32]bool, n)
	var ones [32]int
	for _, id := range ids {
		if seen[id] {
			w.r.Violation("C20/keyid-not-redrawn", fmt.Sprintf("one manager handed out key ID %08x twice among %d consecutive IDs", id, n))
			return
		}
		seen[id] = true
		for b := 0; b < 32; b++ {
			if id>>b&1 == 1 {
				ones[b]++
			}
		}
		w.noteID(id)
	}
	if why := spreadFault(n, ones[:], nil); why != "" {
		w.r.Violation("C20/keyid-not-uniform", fmt.Sprintf("%d consecutive key IDs of one manager (%d random bytes consumed): %s", n, len(wn.data), why))
		return
	}
	w.oracles["idspread"] = true
	w.r.Probe("id-spread-batch")
}

// rawRandom uses the public subtle/random API the way a caller may: take n
// random bytes, then append to the returned slice and write into its spare
// capacity. The bytes handed out are a copy-type field like any other; and
// whatever the caller does to ITS slice must not reach random bytes the
// library hands out later (they would no longer be explained by anything).
func (w *world) rawRandom() {
	n := rapid.IntRange(8, 96).Draw(w.t, "rawLen")
	loc := "subtle/random.GetRandomBytes"
	var b []byte
	wn := w.bracket(loc, func() { b = subtlerandom.GetRandomBytes(uint32(n)) })
	got := append([]byte(nil), b...)
	w.r.Obs("raw random", got)
	if len(got) != n {
		w.r.Violation("C20/provenance:"+loc+".bytes", fmt.Sprintf("asked for %d bytes, got %d", n, len(got)))
		return
	}
	key, detail := "C20/provenance:"+loc+".bytes", fmt.Sprintf("%d bytes %s are not a contiguous range of the bytes issued during this call [%d,%d)", n, core.Hex(got, 40), wn.start, wn.end)
	if len(wn.data) < n {
		key, detail = "C20/short-consumption:"+loc+".bytes", fmt.Sprintf("the call consumed %d random bytes for a result of %d", len(wn.data), n)
	}
	if _, ok := w.explainCopy(wn, loc, "bytes", got, 0, len(wn.data), nil, key, detail, func() []byte { return subtlerandom.GetRandomBytes(uint32(n)) }); !ok {
		return
	}
	if w.rawSeen[string(got)] {
		w.r.Violation("C20/repeat:"+loc+".bytes", fmt.Sprintf("GetRandomBytes(%d) returned %s twice", n, core.Hex(got, 40)))
		return
	}
	w.rawSeen[string(got)] = true
	// the caller's use of its own slice
	payload := bytes.Repeat([]byte{0xee}, 64)
	b = append(b, payload...)
	spare := b[len(b):cap(b)]
	for i := range spare {
		spare[i] = 0xee
	}
	w.r.Probe("caller-appends-to-random-bytes")
}

// mgrOp drives the other operations of the persistent manager; none of them
// may make an ID it handed out available again.
func (w *world) mgrOp(op string) {
	t, r := w.t, w.r
	var cand []uint32
	for _, id := range w.mgrLive {
		switch op {
		case "mgrdelete", "mgrdisable":
			if id != w.mgrPrim {
				cand = append(cand, id)
			}
		case "mgrsetprimary":
			if !w.mgrOff[id] {
				cand = append(cand, id)
			}
		}
	}
	if len(cand) == 0 {
		w.mgrAdd()
		return
	}
	id := cand[rapid.IntRange(0, len(cand)-1).Draw(t, "mgrTarget")]
	var err error
	what := op
	wn := w.bracket("keyset.Manager."+op, func() {
		switch op {
		case "mgrdelete":
			err = w.mgr.Delete(id)
		case "mgrsetprimary":
			err = w.mgr.SetPrimary(id)
		case "mgrdisable":
			if w.mgrOff[id] {
				what = "mgrenable"
				err = w.mgr.Enable(id)
			} else {
				err = w.mgr.Disable(id)
			}
		}
	})
	r.Logf("manager %s(%08x) -> %s, consumed %d", what, id, describe(err), len(wn.data))
	if err != nil {
		t.Fatalf("harness: manager %s(%08x) refused: %v", what, id, err)
	}
	switch op {
	case "mgrdelete":
		for i, v := range w.mgrLive {
			if v == id {
				w.mgrLive = append(w.mgrLive[:i:i], w.mgrLive[i+1:]...)
				break
			}
		}
		w.mgrGone[id] = true
		delete(w.mgrOff, id)
		r.Probe("manager-delete")
	case "mgrsetprimary":
		w.mgrPrim = id
		r.Probe("manager-setprimary")
	case "mgrdisable":
		if w.mgrOff[id] {
			delete(w.mgrOff, id)
		} else {
			w.mgrOff[id] = true
		}
		r.Probe("manager-disable-enable")
	}
}

// ---------------------------------------------------------------------------
// producing calls

var messages = [][]byte{
	[]byte("the one message"),
	{},
	bytes.Repeat([]byte{0xa5}, 150),
}

func (w *world) newPrim(ks *keyState) {
	t := w.t
	switch rapid.SampledFrom([]string{"factory", "new-handle", "subtle", "envelope"}).Draw(t, "primKind") {
	case "envelope":
		if ks.e.Class == catalog.AEAD {
			tpl := rapid.IntRange(0, len(dekTemplates)-1).Draw(t, "dekTemplate")
			var p *prim
			var err error
			withCtx := rapid.Bool().Draw(t, "envelopeWithContext")
			if withCtx {
				w.r.Probe("envelope-with-context")
			}
			// the KEK fails its k-th wrap once (0: never): a transient error of the key-encryption service
			failAt := rapid.IntRange(0, 3).Draw(t, "kekFailsAtCall")
			w.bracket(ks.loc+".envelope-constructor", func() {
				p, err = envelopePrim(ks.k, ks.handles[0], tpl, withCtx, failAt, func() bool { return !w.sr.replaying })
			})
			if err != nil {
				t.Fatalf("harness: envelope AEAD over %s: %v", ks.e.Name, err)
			}
			ks.prims = append(ks.prims, p)
			w.r.Logf("key %s: KMS-envelope primitive #%d with DEK template %s", ks.e.Name, len(ks.prims)-1, dekTemplates[tpl].name)
			return
		}
		fallthrough
	case "subtle":
		var p *prim
		var ok bool
		var err error
		w.bracket(ks.loc+".subtle-constructor", func() { p, ok, err = subtlePrim(ks.k) })
		if ok {
			if err != nil {
				t.Fatalf("harness: subtle constructor for %s: %v", ks.e.Name, err)
			}
			ks.prims = append(ks.prims, p)
			w.r.Probe("subtle-constructor")
			w.r.Logf("key %s: subtle primitive #%d", ks.e.Name, len(ks.prims)-1)
			return
		}
		fallthrough
	case "factory":
		var p *prim
		var err error
		h := ks.handles[rapid.IntRange(0, len(ks.handles)-1).Draw(t, "handleIdx")]
		w.bracket(ks.loc+".factory", func() { p, err = factoryPrim(string(ks.e.Class), ks.k, h) })
		if err != nil {
			t.Fatalf("harness: factory refuses %s: %v", ks.e.Name, err)
		}
		ks.prims = append(ks.prims, p)
		w.r.Probe("second-primitive-same-key")
	case "new-handle":
		h := w.wrap(ks)
		ks.handles = append(ks.handles, h)
		var p *prim
		var err error
		w.bracket(ks.loc+".factory", func() { p, err = factoryPrim(string(ks.e.Class), ks.k, h) })
		if err != nil {
			t.Fatalf("harness: factory refuses %s: %v", ks.e.Name, err)
		}
		ks.prims = append(ks.prims, p)
		w.r.Probe("second-handle-same-key")
	}
}

func (w *world) produce(ki int) {
	t, r := w.t, w.r
	ks := w.keys[ki]
	if w.lastKey >= 0 && w.lastKey != ki {
		r.Probe("interleaved-keys")
	}
	w.lastKey = ki
	pi := rapid.IntRange(0, len(ks.prims)-1).Draw(t, "prim")
	p := ks.prims[pi]
	mi := rapid.IntRange(0, len(messages)-1).Draw(t, "msg")
	msg := messages[mi]
	aad := []byte("aad")
	loc := ks.loc
	if p.kind != "factory" {
		loc += "[" + p.kind + "]"
	}
	var out []byte
	var err error
	call := func() { out, err = p.produce(msg, aad) }
	kekFailedBefore := 0
	if p.fkek != nil {
		kekFailedBefore = p.fkek.failed
	}
	w.armRejection()
	wn := w.bracket(loc, call)
	ks.calls++
	if ks.e.Cost == 2 {
		r.Probe("cost2-produce")
	}
	r.Logf("key %d %s prim %d (%s) msg %d -> %d bytes %s, consumed [%d,%d)", ki, ks.e.Name, pi, p.kind, mi, len(out), describe(err), wn.start, wn.end)
	if p.fkek != nil && p.fkek.failed > kekFailedBefore {
		// the injected KEK failure hit this call: it must surface as an error; nothing else
		// about this call is judged, every later call on the primitive is judged as usual
		r.Fault("kek-transient-failure")
		w.faults["kek-failure"] = true
		if err == nil {
			r.Violation("C20/call-failed:"+loc, fmt.Sprintf("%s: the KEK refused to wrap the DEK, yet Encrypt reported success", ks.e.Name))
		}
		return
	}
	if err != nil {
		r.Violation("C20/call-failed:"+loc, fmt.Sprintf("%s: %v", ks.e.Name, err))
		return
	}
	r.Obs("out", out)
	orig := append([]byte(nil), out...)
	if p.verify != nil {
		if verr := p.verify(orig, msg); verr != nil {
			r.Violation("C20/invalid-output:"+loc, fmt.Sprintf("%s: the ordinary verifier rejects the output: %v", ks.e.Name, verr))
			return
		}
		r.Probe("output-verified")
	}
	if p.kind == "prehash" {
		r.Probe("mldsa-prehash-signer")
	}
	T := len(wn.data)
	// field re-extracted from a replay of the call (nil if it failed or is too short)
	redoField := func(extract func(o []byte) []byte) func() []byte {
		return func() []byte {
			call()
			if err != nil {
				err = nil
				return nil
			}
			return extract(out)
		}
	}
	// explain: a field that is a copy of random bytes is either a contiguous
	// range of hay (bytes issued through the seam during this call; idx ≥ 0) or
	// fresh library-internal randomness (idx = -1, ok). Otherwise the violation
	// the seam oracle would have raised is raised: short consumption if the
	// call drew fewer than shortNeed bytes, provenance if not.
	explain := func(field string, v []byte, lo, hi int, excl [][2]int, shortField string, shortNeed int, extract func(o []byte) []byte) (idx int, ok bool) {
		key := "C20/provenance:" + loc + "." + field
		detail := fmt.Sprintf("%s: %s %s is not a contiguous range of the bytes issued during this call [%d,%d) = %s", ks.e.Name, field, core.Hex(v, 40), wn.start, wn.end, core.Hex(wn.data, 48))
		if T < shortNeed {
			key = "C20/short-consumption:" + loc + "." + shortField
			detail = fmt.Sprintf("%s: the call consumed %d random bytes, the %s needs %d", ks.e.Name, T, shortField, shortNeed)
		}
		return w.explainCopy(wn, loc, field, v, lo, hi, excl, key, detail, redoField(extract))
	}
	// explainFn: the same for an output that is a function of the draw and got
	// fewer seam bytes than its scheme needs.
	explainFn := func(field string, v []byte, need int, extract func(o []byte) []byte) bool {
		if w.underPooledRNG(wn, loc, field, v, redoField(extract)) {
			return true
		}
		good, why := w.fromInternal(wn, loc, field, v, false, redoField(extract))
		if !good {
			r.Violation("C20/short-consumption:"+loc+"."+field, fmt.Sprintf("%s: the call consumed %d random bytes, the %s needs %d; nor is it library-internal randomness: %s", ks.e.Name, T, field, need, why))
		}
		return good
	}
	rerunOut := func(j int) []byte {
		w.rerun(wn, j, loc, call)
		if err != nil {
			err = nil
			return nil
		}
		return out
	}

	switch ks.e.Class {
	case catalog.AEAD:
		n, ok := aeadIVLen(ks.e.Params)
		if !ok {
			t.Fatalf("harness: no IV layout for %T", ks.e.Params)
		}
		if strings.HasPrefix(p.kind, "envelope") {
			w.checkEnvelope(ks, p, loc, wn, orig, n, msg, aad)
			return
		}
		if len(orig) < p.prefixLen+n {
			r.Violation("C20/provenance:"+loc+".iv", fmt.Sprintf("ciphertext of %d bytes cannot hold prefix %d + iv %d", len(orig), p.prefixLen, n))
			return
		}
		iv := orig[p.prefixLen : p.prefixLen+n]
		if _, ok := explain("iv", iv, 0, T, nil, "iv", n, func(o []byte) []byte {
			if len(o) < p.prefixLen+n {
				return nil
			}
			return o[p.prefixLen : p.prefixLen+n]
		}); !ok {
			return
		}
		w.noRepeat(ks, "iv", iv)

	case catalog.StreamingAEAD:
		k, ok := streamDerivedKeyLen(ks.e.Params)
		if !ok {
			t.Fatalf("harness: no header layout for %T", ks.e.Params)
		}
		if len(orig) < 1+k+streamNoncePrefixLen {
			r.Violation("C20/provenance:"+loc+".salt", fmt.Sprintf("ciphertext of %d bytes cannot hold a header of %d", len(orig), 1+k+streamNoncePrefixLen))
			return
		}
		salt, np := orig[1:1+k], orig[1+k:1+k+streamNoncePrefixLen]
		hdr := func(from, to int) func(o []byte) []byte {
			return func(o []byte) []byte {
				if len(o) < to {
					return nil
				}
				return o[from:to]
			}
		}
		a, ok := explain("salt", salt, 0, T, nil, "header", k+streamNoncePrefixLen, hdr(1, 1+k))
		if !ok {
			return
		}
		// the nonce prefix is a separate draw: a range disjoint from the salt's
		var excl [][2]int
		if a >= 0 {
			excl = [][2]int{{a, a + k}}
		}
		if _, ok := explain("noncePrefix", np, 0, T, excl, "header", k+streamNoncePrefixLen, hdr(1+k, 1+k+streamNoncePrefixLen)); !ok {
			return
		}
		w.noRepeat(ks, "salt", salt)
		w.noRepeat(ks, "noncePrefix", np)
		w.noRepeat(ks, "header", orig[1:1+k+streamNoncePrefixLen])
		if ks.calls > 1 {
			r.Probe("writer-repeat-on-primitive")
		}

	case catalog.Hybrid:
		var kem kemInfo
		var ok bool
		switch q := ks.e.Params.(type) {
		case *hpke.Parameters:
			kem, ok = hpkeKEM(q)
		case *ecies.Parameters:
			kem, ok = eciesKEM(q)
		}
		if !ok {
			t.Fatalf("harness: no KEM layout for %s", ks.e.Name)
		}
		loc += "." + kem.name
		pl := p.prefixLen
		if len(orig) < pl+kem.encLen+kem.demIV {
			r.Violation("C20/provenance:"+loc+".enc", fmt.Sprintf("ciphertext of %d bytes cannot hold prefix %d + encapsulated key %d", len(orig), pl, kem.encLen))
			return
		}
		enc := orig[pl : pl+kem.encLen]
		part := func(from, to int) func(o []byte) []byte {
			return func(o []byte) []byte {
				if len(o) < to {
					return nil
				}
				return o[from:to]
			}
		}
		w.noRepeat(ks, "enc", enc)
		if kem.mlkem > 0 {
			// randomness drawn inside crypto/mlkem: differential oracle only — the full
			// seed-differential check on the first calls of a key, no-repeat on all
			w.noRepeat(ks, "mlkem-ciphertext", enc[:kem.mlkem])
			w.oracles["seed"] = true
			if len(ks.seen["mlkem-ciphertext"]) > 1 {
				r.Probe("mlkem-consecutive")
			}
			if len(ks.seen["mlkem-ciphertext"]) <= 2 {
				if good, why := w.fromInternal(wn, loc, "mlkem-ciphertext", enc[:kem.mlkem], false, redoField(part(pl, pl+kem.mlkem))); !good {
					r.Violation("C20/repeat:"+ks.loc+".mlkem-ciphertext", fmt.Sprintf("%s: the ML-KEM encapsulation is not fresh library-internal randomness: %s", ks.e.Name, why))
					return
				}
			}
		}
		// per-field accounting: the DEM IV may come through the seam or from the
		// library-internal source, independently of the ephemeral key
		seamNeed := kem.randLen
		demAt := -1 // where in the window the DEM IV was found
		if kem.demIV > 0 {
			iv := orig[pl+kem.encLen : pl+kem.encLen+kem.demIV]
			from := kem.randLen
			if from > T {
				from = T
			}
			idx, ok := explain("dem-iv", iv, from, T, nil, "ephemeral", kem.randLen+kem.demIV, part(pl+kem.encLen, pl+kem.encLen+kem.demIV))
			if !ok {
				return
			}
			if idx >= 0 {
				seamNeed += kem.demIV
				demAt = idx
			}
			w.noRepeat(ks, "dem-iv", iv)
			r.Probe("ecies-dem-iv")
		}
		demSeam := seamNeed - kem.randLen // DEM IV bytes that came through the seam
		if kem.curve != nil && T < seamNeed {
			// the ephemeral key did not (fully) come through the seam
			got := enc[kem.ecOff : kem.ecOff+kem.ecLen]
			if !explainFn("ephemeral", got, seamNeed, part(pl+kem.ecOff, pl+kem.ecOff+kem.ecLen)) {
				return
			}
		} else if kem.curve != nil {
			got := enc[kem.ecOff : kem.ecOff+kem.ecLen]
			want, rejected, perr := expectedPoint(kem, wn.data)
			// A different public value than crypto/ecdh derives from the issued bytes is
			// a violation only if the value is also not a function of every issued byte:
			// an implementation mapping the bytes to a scalar in another way still
			// satisfies C20. So on a mismatch every live position is flipped.
			mismatch := perr != nil || !bytes.Equal(got, want)
			if rejected > 0 {
				r.Count("nist-scalar-candidates-rejected", int64(rejected))
				if wn.forced {
					r.Fault("forced-scalar-rejection")
					w.faults["rejection"] = true
				}
			}
			_ = demSeam
			skip := ks.fnSkip()
			w.sensitivity(wn, fnSpec{loc: loc, need: randNeed{seamNeed, true}, cost: ks.e.Cost, skip: skip && !mismatch, all: mismatch,
				changed: func(j int) bool {
					o := rerunOut(j)
					if len(o) != len(orig) {
						return true
					}
					if j == 0 && kem.name == "P521" {
						r.Probe("p521-masked-byte-flipped")
					}
					if demAt >= 0 && j >= demAt && j < demAt+kem.demIV {
						return !bytes.Equal(o, orig) // a byte of the DEM IV: the ciphertext changes
					}
					return !bytes.Equal(o[pl+kem.ecOff:pl+kem.ecOff+kem.ecLen], got)
				}})
			if mismatch {
				r.Count("ecdh-mismatch-but-every-byte-matters", 1)
				r.Logf("  %s: public value differs from crypto/ecdh's derivation (%v) but depends on every issued byte: accepted", loc, perr)
			} else {
				w.oracles["ecdh"] = true
				if kem.format == "raw" {
					r.Probe("ecdh-recompute-x25519")
				} else {
					r.Probe("ecdh-recompute-nist")
				}
				if kem.format == "compressed" {
					r.Probe("ecies-compressed-point")
				}
				if kem.mlkem > 0 {
					r.Probe("xwing-both-halves")
				}
			}
		}

	case catalog.Signature, catalog.JWTSignature:
		need, randomized := signNeed(ks.e.Params)
		if !randomized {
			t.Fatalf("harness: %s is listed as randomized but has no randomness length", ks.e.Name)
		}
		viaSeam := T >= need.min && T > 0
		if !viaSeam {
			// fewer seam bytes than the scheme needs: the signing randomness must then be library-internal
			if !explainFn("rnd", orig, need.min, func(o []byte) []byte { return o }) {
				return
			}
		}
		mk := fmt.Sprintf("%s/%d", p.kind, mi)
		for _, prev := range ks.sigs[mk] {
			if bytes.Equal(prev, orig) {
				r.Violation("C20/repeat:"+loc+".signature", fmt.Sprintf("%s: signing one message twice gave the same signature %s", ks.e.Name, core.Hex(orig, 32)))
				return
			}
		}
		if len(ks.sigs[mk]) > 0 {
			r.Probe("same-message-signed-twice")
		}
		ks.sigs[mk] = append(ks.sigs[mk], orig)
		if ks.e.Class == catalog.JWTSignature {
			r.Probe("jwt-signature")
		}
		if ks.e.KeyType == "compositemldsa" && len(wn.data) > 32 {
			r.Probe("composite-two-draws")
		}
		if viaSeam {
			w.sensitivity(wn, fnSpec{loc: loc, need: need, cost: ks.e.Cost, skip: ks.fnSkip(),
				changed: func(j int) bool { return !bytes.Equal(rerunOut(j), orig) }})
		}
	default:
		t.Fatalf("harness: class %s has no producing oracle", ks.e.Class)
	}
}

// checkEnvelope: output = len(4) ‖ KEK-ciphertext of the fresh DEK ‖ DEK-ciphertext
// of the data. The KEK IV and the DEK IV are copies of bytes issued during the
// call, the DEK (seen by opening the first part with the KEK) carries key
// bytes issued during the call, and no DEK is used twice.
func (w *world) checkEnvelope(ks *keyState, p *prim, loc string, wn win, out []byte, kekIV int, msg, aad []byte) {
	r := w.r
	bad := func(field, why string) {
		r.Violation("C20/provenance:"+loc+"."+field, fmt.Sprintf("%s: %s; issued during the call [%d,%d) = %s", ks.e.Name, why, wn.start, wn.end, core.Hex(wn.data, 48)))
	}
	if len(out) < 4 {
		bad("kek-iv", "output too short")
		return
	}
	L := int(binary.BigEndian.Uint32(out[:4]))
	if L <= 0 || 4+L > len(out) || L < p.prefixLen+kekIV || len(out)-4-L < p.dekIV {
		bad("kek-iv", fmt.Sprintf("envelope of %d bytes with encrypted-DEK length %d cannot hold the IVs", len(out), L))
		return
	}
	encDEK, payload := out[4:4+L], out[4+L:]
	iv1 := encDEK[p.prefixLen : p.prefixLen+kekIV]
	iv2 := payload[:p.dekIV]
	// each IV is either a range of the issued bytes (disjoint from the other's) or library-internal randomness
	redo := func(which int) func() []byte {
		return func() []byte {
			o, err := p.produce(msg, aad)
			if err != nil || len(o) < 4 {
				return nil
			}
			l := int(binary.BigEndian.Uint32(o[:4]))
			if l <= 0 || 4+l > len(o) || l < p.prefixLen+kekIV || len(o)-4-l < p.dekIV {
				return nil
			}
			if which == 1 {
				return o[4+p.prefixLen : 4+p.prefixLen+kekIV]
			}
			return o[4+l : 4+l+p.dekIV]
		}
	}
	T := len(wn.data)
	detail := func(what string, v []byte) string {
		return fmt.Sprintf("%s: %s %s is not a range of the bytes issued during the call [%d,%d) = %s", ks.e.Name, what, core.Hex(v, 24), wn.start, wn.end, core.Hex(wn.data, 48))
	}
	a, ok := w.explainCopy(wn, loc, "kek-iv", iv1, 0, T, nil, "C20/provenance:"+loc+".kek-iv", detail("KEK IV", iv1), redo(1))
	if !ok {
		return
	}
	var excl [][2]int
	seamIV := 0
	if a >= 0 {
		excl = append(excl, [2]int{a, a + kekIV})
		seamIV += kekIV
	}
	a2, ok := w.explainCopy(wn, loc, "dek-iv", iv2, 0, T, excl, "C20/provenance:"+loc+".dek-iv", detail("DEK IV", iv2), redo(2))
	if !ok {
		return
	}
	if a2 >= 0 {
		seamIV += p.dekIV
	}
	var dek []byte
	var err error
	func() {
		defer w.catch(loc + ".kek-decrypt")
		dek, err = p.kek.Decrypt(encDEK, []byte{})
	}()
	if err != nil {
		r.Violation("C20/invalid-output:"+loc, fmt.Sprintf("%s: the KEK cannot open the encrypted DEK: %v", ks.e.Name, err))
		return
	}
	// the DEK's key bytes: a 16-byte run of the bytes issued during the call, or of
	// unused earlier-issued bytes (the rest of the ladder)
	found := false
	for i := 0; i+16 <= len(wn.data) && !found; i++ {
		found = bytes.Contains(dek, wn.data[i:i+16])
	}
	if found {
		if T < 16+seamIV {
			r.Violation("C20/short-consumption:"+loc, fmt.Sprintf("%s: the call consumed %d random bytes; a fresh DEK and the IVs drawn during the call need at least %d", ks.e.Name, T, 16+seamIV))
			return
		}
	} else {
		for i := 0; i+16 <= len(dek) && !found; i++ {
			run := dek[i : i+16]
			for _, b := range wn.bulk {
				if j := bytes.Index(wn.raw[b[0]:b[1]], run); j >= 0 && !ledger.usedAny(wn.led0+b[0]+j, wn.led0+b[0]+j+16) {
					ledger.mark(wn.led0+b[0]+j, wn.led0+b[0]+j+16)
					found = true
				}
			}
			if !found {
				switch at, st := ledger.find(run, wn.led0); st {
				case ledgerFresh:
					ledger.mark(at, at+16)
					found = true
				case ledgerUsed:
					r.Violation("C20/randomness-reused:"+loc+".dek", fmt.Sprintf("%s: the DEK holds bytes issued %d bytes before this call that already make up an earlier judged field", ks.e.Name, wn.led0-at))
					return
				}
			}
		}
		if found {
			pooledSeen = true
			w.oracles["pooled"] = true
			r.Probe("field-from-earlier-issued-bytes:" + loc + ".dek")
		}
	}
	if !found {
		bad("dek", "the serialized DEK holds no 16-byte run of the bytes issued during the call, nor of unused earlier-issued bytes")
		return
	}
	w.oracles["copy"] = true
	w.noRepeat(ks, "kek-iv", iv1)
	w.noRepeat(ks, "dek-iv", iv2)
	w.noRepeat(ks, "dek", dek)
	r.Probe("kms-envelope-fresh-dek")
}

// ---------------------------------------------------------------------------
// the run

func run(t *rapid.T) {
	if outerT == nil {
		t.Fatalf("harness: run outside TestEntropy")
	}
	buildLists()
	r := core.Begin(t)
	rngSeed := rapid.Uint64().Draw(t, "rngSeed")
	// rapid repeats seeds (small values, shrinking re-executions), and equal seeds
	// give equal streams. That is harmless for a library without memory; one that
	// buffers random bytes across calls would be handed the same bytes twice BY
	// THE HARNESS and then rightly be seen to reuse them. So from the moment this
	// process has seen the library fetch in bulk or serve a field from earlier
	// bytes, every run gets a stream of its own. (On a tree that never does, the
	// stream stays the pure function of the drawn seed it has always been.)
	runsStarted++
	if pooledSeen || leftoverSeen {
		rngSeed ^= (runsStarted + 1) * 0x9e3779b97f4a7c15
		r.Probe("stream-made-unique-for-stateful-library")
	}
	g := simrng.New(rngSeed)
	g.LogOn = true
	// stdlib-internal randomness (ML-KEM encapsulation, Miller-Rabin bases) becomes a function of the run, too
	gseed := rapid.Uint64().Draw(t, "globalSeed")
	cryptotest.SetGlobalRandom(outerT, gseed)
	sr := &shortReader{g: g, forced: map[uint64]byte{}, max: rapid.SampledFrom([]int{0, 0, 0, 7, 5, 3, 2, 4, 6, 1}).Draw(t, "shortMax")}
	g.SetLaneFunc(func() int { return sr.lane })
	old := rand.Reader
	rand.Reader = sr
	defer func() { rand.Reader = old }()

	w := &world{r: r, t: t, g: g, sr: sr, mgr: keyset.NewManager(), used: map[uint32]bool{}, mgrGone: map[uint32]bool{}, mgrOff: map[uint32]bool{}, keyMat: map[string]bool{},
		oracles: map[string]bool{}, faults: map[string]bool{}, lastKey: -1, base: old, gseed: gseed, internal: map[string]int{}, rawSeen: map[string]bool{}}
	r.Logf("short reads: max %d", sr.max)
	w.idStatsStart(rngSeed)
	if rapid.IntRange(0, 31).Draw(t, "idSpreadBatch") == 31 {
		w.idSpread()
	}

	// one run in about 2000 of the quick tier: a slow "s" SLH-DSA signer, repeated-signing clause only
	// (decided by a hash of the two drawn seeds: rapid's integer generators favour the ends of their range,
	// a drawn "1 in 2000" would fire far more often)
	if !core.Thorough() && rareHash(rngSeed, gseed)%slowSignerOneIn == 0 {
		w.slowSignerRun()
		g.ClearScript()
		r.End(fmt.Sprintf("%s|slow-signer|%s|%s", w.keys[0].loc+"/"+w.keys[0].e.Variant, joinSet(w.oracles), joinSet(w.faults)), true)
		return
	}
	nKeys := rapid.IntRange(1, 4).Draw(t, "nKeys")
	for i := 0; i < nKeys; i++ {
		w.addKey()
	}
	maxCalls := 24
	if core.Thorough() {
		maxCalls = 50
	}
	nCalls := rapid.IntRange(1, maxCalls).Draw(t, "nCalls")
	ops := []string{"produce", "produce", "produce", "produce", "produce", "produce", "newprim", "newkey", "mgradd", "mgradd", "mgradd",
		"mgrdelete", "mgrdelete", "mgrsetprimary", "mgrdisable", "rawrandom"}
	for i := 0; i < nCalls; i++ {
		op := rapid.SampledFrom(ops).Draw(t, "op")
		if len(w.keys) == 0 && (op == "produce" || op == "newprim") {
			op = "newkey"
		}
		switch op {
		case "produce":
			w.produce(rapid.IntRange(0, len(w.keys)-1).Draw(t, "key"))
		case "newprim":
			w.newPrim(w.keys[rapid.IntRange(0, len(w.keys)-1).Draw(t, "key")])
		case "newkey":
			w.genKey(drawEntry(t, &genList, "genEntry"))
		case "mgradd":
			w.mgrAdd()
		case "mgrdelete", "mgrsetprimary", "mgrdisable":
			w.mgrOp(op)
		case "rawrandom":
			w.rawRandom()
		}
	}
	g.ClearScript()

	first := "none"
	if len(w.keys) > 0 {
		first = string(w.keys[0].e.Class) + "/" + w.keys[0].e.KeyType + "/" + w.keys[0].e.Variant
	}
	cc := "1"
	switch {
	case w.calls > 40:
		cc = "41+"
	case w.calls > 15:
		cc = "16-40"
	case w.calls > 5:
		cc = "6-15"
	case w.calls > 1:
		cc = "2-5"
	}
	sig := fmt.Sprintf("%s|keys%d|%s|%s|calls%s", first, len(w.keys), joinSet(w.oracles), joinSet(w.faults), cc)
	r.ObsI("reruns", int64(w.reruns))
	r.End(sig, len(w.oracles) > 0 && (len(w.faults) > 0 || w.calls > 3))
}

// rareHash mixes two drawn values into a uniformly spread one (splitmix64 finaliser).
func rareHash(a, b uint64) uint64 {
	x := a*0x9e3779b97f4a7c15 + b + 0x2545f4914f6cdd1d
	x = (x ^ (x >> 30)) * 0xbf58476d1ce4e5b9
	x = (x ^ (x >> 27)) * 0x94d049bb133111eb
	return x ^ (x >> 31)
}

func joinSet(m map[string]bool) string {
	var l []string
	for k := range m {
		l = append(l, k)
	}
	sort.Strings(l)
	if len(l) == 0 {
		return "-"
	}
	return strings.Join(l, ",")
}
