// Package classes gives every primitive class of tink-go one uniform
// produce/accept view built through the real factories, so that worlds can
// drive "whatever the handle yields" without per-class code.
package classes

import (
	"bytes"
	"encoding/hex"
	"errors"
	"fmt"
	"io"

	"github.com/tink-crypto/tink-go/v2/aead"
	"github.com/tink-crypto/tink-go/v2/daead"
	"github.com/tink-crypto/tink-go/v2/hybrid"
	"github.com/tink-crypto/tink-go/v2/jwt"
	"github.com/tink-crypto/tink-go/v2/keyderivation"
	"github.com/tink-crypto/tink-go/v2/keyset"
	"github.com/tink-crypto/tink-go/v2/mac"
	"github.com/tink-crypto/tink-go/v2/prf"
	"github.com/tink-crypto/tink-go/v2/signature"
	"github.com/tink-crypto/tink-go/v2/streamingaead"
)

// Class names match catalog.Class values.
const (
	AEAD          = "aead"
	DAEAD         = "daead"
	MAC           = "mac"
	Signature     = "signature"
	Hybrid        = "hybrid"
	PRF           = "prf"
	JWTMAC        = "jwtmac"
	JWTSignature  = "jwtsig"
	StreamingAEAD = "streamingaead"
	KeyDerivation = "keyderivation"
)

// Producer is the side of a primitive that creates outputs.
type Producer struct {
	Class string
	// Produce creates an output for (msg, aux): Encrypt(msg, aux) / EncryptDeterministically /
	// ComputeMAC(msg) / Sign(msg) / hybrid Encrypt(msg, aux as context info) / a complete
	// streaming ciphertext / a compact JWT whose subject is hex(msg) / ComputePrimaryPRF(msg, 32).
	Produce func(msg, aux []byte) ([]byte, error)
	// Deterministic: equal inputs give equal outputs without consulting the RNG.
	Deterministic bool
	Raw           any // the factory primitive itself
}

// Acceptor is the side that accepts (opens, verifies) outputs.
type Acceptor struct {
	Class string
	// Accept returns nil iff out is accepted for (msg, aux); for encrypting
	// classes the recovered plaintext must equal msg, otherwise ErrWrongContent.
	Accept func(out, msg, aux []byte) error
	Raw    any
}

// ErrWrongContent: the primitive accepted the input but returned other content than was sent.
var ErrWrongContent = errors.New("classes: accepted, but the recovered content differs from what was sent")

// PublicOf returns the handle the accepting/encrypting counterpart uses.
func PublicOf(class string, h *keyset.Handle) (*keyset.Handle, error) {
	switch class {
	case Signature, Hybrid, JWTSignature:
		return h.Public()
	}
	return h, nil
}

// NewProducer builds the producing primitive from the handle that holds the
// secret (private or symmetric) keys. For hybrid encryption the producer is
// built from the public handle.
func NewProducer(class string, h *keyset.Handle) (*Producer, error) {
	p := &Producer{Class: class}
	switch class {
	case AEAD:
		a, err := aead.New(h)
		if err != nil {
			return nil, err
		}
		p.Raw, p.Produce = a, func(msg, aux []byte) ([]byte, error) { return a.Encrypt(msg, aux) }
	case DAEAD:
		d, err := daead.New(h)
		if err != nil {
			return nil, err
		}
		p.Deterministic = true
		p.Raw, p.Produce = d, func(msg, aux []byte) ([]byte, error) { return d.EncryptDeterministically(msg, aux) }
	case MAC:
		m, err := mac.New(h)
		if err != nil {
			return nil, err
		}
		p.Deterministic = true
		p.Raw, p.Produce = m, func(msg, aux []byte) ([]byte, error) { return m.ComputeMAC(msg) }
	case Signature:
		s, err := signature.NewSigner(h)
		if err != nil {
			return nil, err
		}
		p.Raw, p.Produce = s, func(msg, aux []byte) ([]byte, error) { return s.Sign(msg) }
	case Hybrid:
		pub, err := h.Public()
		if err != nil {
			return nil, err
		}
		e, err := hybrid.NewHybridEncrypt(pub)
		if err != nil {
			return nil, err
		}
		p.Raw, p.Produce = e, func(msg, aux []byte) ([]byte, error) { return e.Encrypt(msg, aux) }
	case PRF:
		s, err := prf.NewPRFSet(h)
		if err != nil {
			return nil, err
		}
		p.Deterministic = true
		p.Raw, p.Produce = s, func(msg, aux []byte) ([]byte, error) { return s.ComputePrimaryPRF(msg, 16) }
	case StreamingAEAD:
		s, err := streamingaead.New(h)
		if err != nil {
			return nil, err
		}
		p.Raw, p.Produce = s, func(msg, aux []byte) ([]byte, error) {
			var buf bytes.Buffer
			w, err := s.NewEncryptingWriter(&buf, aux)
			if err != nil {
				return nil, err
			}
			if _, err := w.Write(msg); err != nil {
				return nil, err
			}
			if err := w.Close(); err != nil {
				return nil, err
			}
			return buf.Bytes(), nil
		}
	case JWTMAC:
		m, err := jwt.NewMAC(h)
		if err != nil {
			return nil, err
		}
		p.Deterministic = true
		p.Raw, p.Produce = m, func(msg, aux []byte) ([]byte, error) {
			raw, err := rawJWT(msg)
			if err != nil {
				return nil, err
			}
			s, err := m.ComputeMACAndEncode(raw)
			return []byte(s), err
		}
	case JWTSignature:
		sg, err := jwt.NewSigner(h)
		if err != nil {
			return nil, err
		}
		p.Raw, p.Produce = sg, func(msg, aux []byte) ([]byte, error) {
			raw, err := rawJWT(msg)
			if err != nil {
				return nil, err
			}
			s, err := sg.SignAndEncode(raw)
			return []byte(s), err
		}
	case KeyDerivation:
		d, err := keyderivation.New(h)
		if err != nil {
			return nil, err
		}
		p.Deterministic = true
		p.Raw, p.Produce = d, func(msg, aux []byte) ([]byte, error) {
			dh, err := d.DeriveKeyset(msg)
			if err != nil {
				return nil, err
			}
			return []byte(dh.String()), nil
		}
	default:
		return nil, fmt.Errorf("classes: unknown class %q", class)
	}
	return p, nil
}

func rawJWT(msg []byte) (*jwt.RawJWT, error) {
	sub := "m" + hex.EncodeToString(msg)
	return jwt.NewRawJWT(&jwt.RawJWTOptions{Subject: &sub, WithoutExpiration: true})
}

// NewAcceptor builds the accepting primitive from the handle holding the
// secret keys (it derives the public handle itself where the class needs it).
func NewAcceptor(class string, h *keyset.Handle) (*Acceptor, error) {
	a := &Acceptor{Class: class}
	switch class {
	case AEAD:
		p, err := aead.New(h)
		if err != nil {
			return nil, err
		}
		a.Raw, a.Accept = p, func(out, msg, aux []byte) error {
			pt, err := p.Decrypt(out, aux)
			if err != nil {
				return err
			}
			if !bytes.Equal(pt, msg) {
				return ErrWrongContent
			}
			return nil
		}
	case DAEAD:
		p, err := daead.New(h)
		if err != nil {
			return nil, err
		}
		a.Raw, a.Accept = p, func(out, msg, aux []byte) error {
			pt, err := p.DecryptDeterministically(out, aux)
			if err != nil {
				return err
			}
			if !bytes.Equal(pt, msg) {
				return ErrWrongContent
			}
			return nil
		}
	case MAC:
		p, err := mac.New(h)
		if err != nil {
			return nil, err
		}
		a.Raw, a.Accept = p, func(out, msg, aux []byte) error { return p.VerifyMAC(out, msg) }
	case Signature:
		pub, err := h.Public()
		if err != nil {
			return nil, err
		}
		v, err := signature.NewVerifier(pub)
		if err != nil {
			return nil, err
		}
		a.Raw, a.Accept = v, func(out, msg, aux []byte) error { return v.Verify(out, msg) }
	case Hybrid:
		d, err := hybrid.NewHybridDecrypt(h)
		if err != nil {
			return nil, err
		}
		a.Raw, a.Accept = d, func(out, msg, aux []byte) error {
			pt, err := d.Decrypt(out, aux)
			if err != nil {
				return err
			}
			if !bytes.Equal(pt, msg) {
				return ErrWrongContent
			}
			return nil
		}
	case PRF:
		s, err := prf.NewPRFSet(h)
		if err != nil {
			return nil, err
		}
		a.Raw, a.Accept = s, func(out, msg, aux []byte) error {
			// a PRF output is "accepted" if some PRF of the set reproduces it
			for _, id := range sortedIDs(s) {
				o, err := s.PRFs[id].ComputePRF(msg, 16)
				if err == nil && bytes.Equal(o, out) {
					return nil
				}
			}
			return errors.New("classes: no PRF of the set reproduces the output")
		}
	case StreamingAEAD:
		s, err := streamingaead.New(h)
		if err != nil {
			return nil, err
		}
		a.Raw, a.Accept = s, func(out, msg, aux []byte) error {
			r, err := s.NewDecryptingReader(&oneByteLater{data: out}, aux)
			if err != nil {
				return err
			}
			pt, err := io.ReadAll(r)
			if err != nil {
				return err
			}
			if !bytes.Equal(pt, msg) {
				return ErrWrongContent
			}
			return nil
		}
	case JWTMAC:
		m, err := jwt.NewMAC(h)
		if err != nil {
			return nil, err
		}
		a.Raw, a.Accept = m, func(out, msg, aux []byte) error {
			v, err := jwt.NewValidator(&jwt.ValidatorOpts{AllowMissingExpiration: true})
			if err != nil {
				return err
			}
			tok, err := m.VerifyMACAndDecode(string(out), v)
			if err != nil {
				return err
			}
			return checkSubject(tok, msg)
		}
	case JWTSignature:
		pub, err := h.Public()
		if err != nil {
			return nil, err
		}
		vf, err := jwt.NewVerifier(pub)
		if err != nil {
			return nil, err
		}
		a.Raw, a.Accept = vf, func(out, msg, aux []byte) error {
			v, err := jwt.NewValidator(&jwt.ValidatorOpts{AllowMissingExpiration: true})
			if err != nil {
				return err
			}
			tok, err := vf.VerifyAndDecode(string(out), v)
			if err != nil {
				return err
			}
			return checkSubject(tok, msg)
		}
	default:
		return nil, fmt.Errorf("classes: class %q has no accepting side", class)
	}
	return a, nil
}

func checkSubject(tok *jwt.VerifiedJWT, msg []byte) error {
	sub, err := tok.Subject()
	if err != nil {
		return ErrWrongContent
	}
	if sub != "m"+hex.EncodeToString(msg) {
		return ErrWrongContent
	}
	return nil
}

func sortedIDs(s *prf.Set) []uint32 {
	ids := make([]uint32, 0, len(s.PRFs))
	for id := range s.PRFs {
		ids = append(ids, id)
	}
	for i := 1; i < len(ids); i++ {
		for j := i; j > 0 && ids[j] < ids[j-1]; j-- {
			ids[j], ids[j-1] = ids[j-1], ids[j]
		}
	}
	return ids
}

// oneByteLater is a short-reading source: first read yields at most 1 byte,
// later reads at most 7, so the keyset-level decrypting reader's re-read path runs.
type oneByteLater struct {
	data []byte
	pos  int
	n    int
}

func (o *oneByteLater) Read(p []byte) (int, error) {
	if o.pos >= len(o.data) {
		return 0, io.EOF
	}
	max := 7
	if o.n == 0 {
		max = 1
	}
	o.n++
	if len(p) < max {
		max = len(p)
	}
	if o.pos+max > len(o.data) {
		max = len(o.data) - o.pos
	}
	copy(p, o.data[o.pos:o.pos+max])
	o.pos += max
	return max, nil
}
