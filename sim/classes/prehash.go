package classes

import (
	"github.com/tink-crypto/tink-go/v2/keyset"
	"github.com/tink-crypto/tink-go/v2/signprehash"
)

// NewPrehashProducer builds the two-step "external mu" signing path (tink.Prehash over the public handle, then
// tink.PrehashSigner over the private one) as a Producer: Produce(msg) = SignPrehash(ComputePrehash(msg)). Its
// outputs verify under the ordinary signature Acceptor. Only ML-DSA keys with an ID requirement support it; for
// any other handle an error is returned.
func NewPrehashProducer(h *keyset.Handle) (*Producer, error) {
	pub, err := h.Public()
	if err != nil {
		return nil, err
	}
	pre, err := signprehash.NewPrehash(pub)
	if err != nil {
		return nil, err
	}
	signer, err := signprehash.NewPrehashSigner(h)
	if err != nil {
		return nil, err
	}
	return &Producer{Class: Signature, Raw: signer, Produce: func(msg, aux []byte) ([]byte, error) {
		ph, err := pre.ComputePrehash(msg)
		if err != nil {
			return nil, err
		}
		return signer.SignPrehash(ph)
	}}, nil
}
