// Package simrng is the simulator-owned randomness seam. An *RNG is installed
// as crypto/rand.Reader; everything Tink (and the standard library on Tink's
// behalf) draws comes from a deterministic stream that is a pure function of
// (seed, lane, offset), and every read is logged with the offsets it was
// served from.
//
// All methods are //go:norace and lock-free on purpose: under the sched world
// only the task holding the baton runs, and ThreadSanitizer must not see the
// harness as a synchronisation point between tasks.
package simrng

import (
	"crypto/rand"
	"io"
)

// Read is one logged read of the main stream.
type Read struct {
	Lane   int
	Off    uint64 // stream offset of the first byte
	N      int    // bytes served
	Scr    bool   // served from the script, not the stream
	OpMark int    // value of Mark at the time of the read
}

// RNG is a deterministic, logged, scriptable random source.
type RNG struct {
	seed    uint64
	lanes   [MaxLanes]laneState
	laneOf  func() int // current lane (task); nil = lane 0
	Log     []Read
	LogOn   bool
	Mark    int
	script4 [][4]byte // values served to the next 4-byte reads, in order
	// perturbation: stream byte (lane, off) is XORed with xor
	pertOn   bool
	pertLane int
	pertOff  uint64
	pertXor  byte
	// short reads: when >0, a Read call serves at most this many bytes
	ShortMax int
	// counters
	OneByteReads int
	ShortServed  int
	ScriptServed int
	side         uint64
}

// MaxLanes bounds the number of independent streams (tasks).
const MaxLanes = 16

type laneState struct {
	off uint64
}

// New returns an RNG for a seed.
func New(seed uint64) *RNG { return &RNG{seed: seed} }

// SetLaneFunc installs the function that tells which lane the caller is on.
//
//go:norace
func (g *RNG) SetLaneFunc(f func() int) { g.laneOf = f }

//go:norace
func mix(x uint64) uint64 {
	x += 0x9e3779b97f4a7c15
	x = (x ^ (x >> 30)) * 0xbf58476d1ce4e5b9
	x = (x ^ (x >> 27)) * 0x94d049bb133111eb
	return x ^ (x >> 31)
}

// ByteAt returns the unperturbed stream byte at (lane, off).
//
//go:norace
func (g *RNG) ByteAt(lane int, off uint64) byte {
	w := mix(g.seed ^ mix(uint64(lane)+1) ^ mix((off>>3)*0x2545f4914f6cdd1d+0x1234567))
	return byte(w >> (8 * (off & 7)))
}

// Bytes returns the unperturbed stream bytes [off, off+n) of a lane.
//
//go:norace
func (g *RNG) Bytes(lane int, off uint64, n int) []byte {
	b := make([]byte, n)
	for i := range b {
		b[i] = g.ByteAt(lane, off+uint64(i))
	}
	return b
}

// Offset returns the current offset of a lane.
//
//go:norace
func (g *RNG) Offset(lane int) uint64 { return g.lanes[lane].off }

// SetOffset repositions a lane (used to re-run a call on the same bytes).
//
//go:norace
func (g *RNG) SetOffset(lane int, off uint64) { g.lanes[lane].off = off }

// Perturb XORs one stream byte from now on; Unperturb removes it.
//
//go:norace
func (g *RNG) Perturb(lane int, off uint64, x byte) {
	g.pertOn, g.pertLane, g.pertOff, g.pertXor = true, lane, off, x
}

//go:norace
func (g *RNG) Unperturb() { g.pertOn = false }

// Script4 queues values for the next 4-byte reads (key-ID draws).
//
//go:norace
func (g *RNG) Script4(vals ...uint32) {
	for _, v := range vals {
		g.script4 = append(g.script4, [4]byte{byte(v >> 24), byte(v >> 16), byte(v >> 8), byte(v)})
	}
}

// ScriptLen returns how many scripted values are still queued.
//
//go:norace
func (g *RNG) ScriptLen() int { return len(g.script4) }

// ClearScript drops queued scripted values.
//
//go:norace
func (g *RNG) ClearScript() { g.script4 = g.script4[:0] }

// Read implements io.Reader.
//
// One-byte reads are the standard library's MaybeReadByte coin (whether it
// fires is decided by a runtime select and is not reproducible): they are
// served from a side counter and never advance the main stream, so the main
// stream stays a function of the seed alone.
//
//go:norace
func (g *RNG) Read(p []byte) (int, error) {
	if len(p) == 0 {
		return 0, nil
	}
	if len(p) == 1 {
		g.OneByteReads++
		g.side++
		p[0] = byte(mix(g.seed^0xabcdef^g.side) >> 7)
		return 1, nil
	}
	lane := 0
	if g.laneOf != nil {
		lane = g.laneOf()
		if lane < 0 || lane >= MaxLanes {
			lane = MaxLanes - 1 // a caller outside any task (or after the scheduler let go): never index out of range
		}
	}
	if len(p) == 4 && len(g.script4) > 0 {
		copy(p, g.script4[0][:])
		g.script4 = g.script4[1:]
		g.ScriptServed++
		if g.LogOn {
			g.Log = append(g.Log, Read{Lane: lane, Off: g.lanes[lane].off, N: 4, Scr: true, OpMark: g.Mark})
		}
		return 4, nil
	}
	n := len(p)
	if g.ShortMax > 0 && n > g.ShortMax {
		n = g.ShortMax
		g.ShortServed++
	}
	ls := &g.lanes[lane]
	off := ls.off
	for i := 0; i < n; i++ {
		o := off + uint64(i)
		w := mix(g.seed ^ mix(uint64(lane)+1) ^ mix((o>>3)*0x2545f4914f6cdd1d+0x1234567))
		b := byte(w >> (8 * (o & 7)))
		if g.pertOn && g.pertLane == lane && g.pertOff == o {
			b ^= g.pertXor
		}
		p[i] = b
	}
	ls.off = off + uint64(n)
	if g.LogOn {
		g.Log = append(g.Log, Read{Lane: lane, Off: off, N: n, OpMark: g.Mark})
	}
	return n, nil
}

// Install makes g the process-wide crypto/rand.Reader and returns a function
// restoring the previous one.
func Install(g *RNG) (restore func()) {
	old := rand.Reader
	rand.Reader = g
	return func() { rand.Reader = old }
}

var _ io.Reader = (*RNG)(nil)
