// Package stubkm registers custom ("legacy", non-full) key types through the
// public registry.RegisterKeyManager API, so that the factories' full*Adapter
// wrappers — the code path that adds output prefixes and the LEGACY 0x00
// suffix around RAW primitives — run inside the simulation. The stub
// primitives are small but real (stdlib crypto), so round trips work.
package stubkm

import (
	"bytes"
	"crypto/aes"
	"crypto/cipher"
	"crypto/ecdh"
	"crypto/ed25519"
	"crypto/hmac"
	"crypto/rand"
	"crypto/sha256"
	"errors"
	"fmt"
	"io"
	"sync"

	"google.golang.org/protobuf/proto"
	"google.golang.org/protobuf/types/known/wrapperspb"

	"github.com/tink-crypto/tink-go/v2/core/registry"
	"github.com/tink-crypto/tink-go/v2/insecurecleartextkeyset"
	"github.com/tink-crypto/tink-go/v2/keyset"
	tinkpb "github.com/tink-crypto/tink-go/v2/proto/tink_go_proto"
)

// Type URLs of the stub key types.
const (
	MACURL     = "type.googleapis.com/verifsim.StubMacKey"
	AEADURL    = "type.googleapis.com/verifsim.StubAeadKey"
	DAEADURL   = "type.googleapis.com/verifsim.StubDaeadKey"
	SigPrivURL = "type.googleapis.com/verifsim.StubSigPrivateKey"
	SigPubURL  = "type.googleapis.com/verifsim.StubSigPublicKey"
	HybPrivURL = "type.googleapis.com/verifsim.StubHybridPrivateKey"
	HybPubURL  = "type.googleapis.com/verifsim.StubHybridPublicKey"
)

var once sync.Once

// Register registers all stub key managers (idempotent).
func Register() {
	once.Do(func() {
		for _, km := range []registry.KeyManager{
			&km{url: MACURL, mat: tinkpb.KeyData_SYMMETRIC, prim: func(k []byte) (any, error) { return &stubMAC{key: bytes.Clone(k)}, nil }},
			&km{url: AEADURL, mat: tinkpb.KeyData_SYMMETRIC, prim: func(k []byte) (any, error) { return newStubAEAD(k) }},
			&km{url: DAEADURL, mat: tinkpb.KeyData_SYMMETRIC, prim: func(k []byte) (any, error) { return &stubDAEAD{key: bytes.Clone(k)}, nil }},
			&privKM{km: km{url: SigPrivURL, mat: tinkpb.KeyData_ASYMMETRIC_PRIVATE, prim: func(k []byte) (any, error) {
				if len(k) != ed25519.SeedSize {
					return nil, errors.New("stubkm: bad seed")
				}
				return &stubSigner{priv: ed25519.NewKeyFromSeed(k)}, nil
			}}, pubURL: SigPubURL, pub: func(k []byte) ([]byte, error) {
				if len(k) != ed25519.SeedSize {
					return nil, errors.New("stubkm: bad seed")
				}
				return ed25519.NewKeyFromSeed(k).Public().(ed25519.PublicKey), nil
			}},
			&km{url: SigPubURL, mat: tinkpb.KeyData_ASYMMETRIC_PUBLIC, prim: func(k []byte) (any, error) {
				if len(k) != ed25519.PublicKeySize {
					return nil, errors.New("stubkm: bad public key")
				}
				return &stubVerifier{pub: ed25519.PublicKey(bytes.Clone(k))}, nil
			}},
			&privKM{km: km{url: HybPrivURL, mat: tinkpb.KeyData_ASYMMETRIC_PRIVATE, prim: func(k []byte) (any, error) {
				p, err := ecdh.X25519().NewPrivateKey(k)
				if err != nil {
					return nil, err
				}
				return &stubHybridDec{priv: p}, nil
			}}, pubURL: HybPubURL, pub: func(k []byte) ([]byte, error) {
				p, err := ecdh.X25519().NewPrivateKey(k)
				if err != nil {
					return nil, err
				}
				return p.PublicKey().Bytes(), nil
			}},
			&km{url: HybPubURL, mat: tinkpb.KeyData_ASYMMETRIC_PUBLIC, prim: func(k []byte) (any, error) {
				p, err := ecdh.X25519().NewPublicKey(k)
				if err != nil {
					return nil, err
				}
				return &stubHybridEnc{pub: p}, nil
			}},
		} {
			if err := registry.RegisterKeyManager(km); err != nil {
				panic(fmt.Sprintf("stubkm: %v", err))
			}
		}
	})
}

// ---------------------------------------------------------------------------
// key managers

type km struct {
	url  string
	mat  tinkpb.KeyData_KeyMaterialType
	prim func(key []byte) (any, error)
}

func (m *km) Primitive(serializedKey []byte) (any, error) { return m.prim(serializedKey) }
func (m *km) DoesSupport(typeURL string) bool             { return typeURL == m.url }
func (m *km) TypeURL() string                             { return m.url }
func (m *km) NewKey(format []byte) (proto.Message, error) {
	b := make([]byte, 32)
	if _, err := io.ReadFull(rand.Reader, b); err != nil {
		return nil, err
	}
	return wrapperspb.Bytes(b), nil
}
func (m *km) NewKeyData(format []byte) (*tinkpb.KeyData, error) {
	b := make([]byte, 32)
	if _, err := io.ReadFull(rand.Reader, b); err != nil {
		return nil, err
	}
	return &tinkpb.KeyData{TypeUrl: m.url, Value: b, KeyMaterialType: m.mat}, nil
}

type privKM struct {
	km
	pubURL string
	pub    func(priv []byte) ([]byte, error)
}

func (m *privKM) PublicKeyData(serializedKey []byte) (*tinkpb.KeyData, error) {
	p, err := m.pub(serializedKey)
	if err != nil {
		return nil, err
	}
	return &tinkpb.KeyData{TypeUrl: m.pubURL, Value: p, KeyMaterialType: tinkpb.KeyData_ASYMMETRIC_PUBLIC}, nil
}

var _ registry.PrivateKeyManager = (*privKM)(nil)

// ---------------------------------------------------------------------------
// keysets

// PrefixType maps "TINK"/"LEGACY"/"RAW"/"CRUNCHY".
func PrefixType(name string) tinkpb.OutputPrefixType {
	switch name {
	case "TINK":
		return tinkpb.OutputPrefixType_TINK
	case "LEGACY":
		return tinkpb.OutputPrefixType_LEGACY
	case "CRUNCHY":
		return tinkpb.OutputPrefixType_CRUNCHY
	}
	return tinkpb.OutputPrefixType_RAW
}

// ClassURL returns the (private or symmetric) stub type URL of a class
// ("mac", "aead", "daead", "signature", "hybrid"); ok=false if the class has no stub.
func ClassURL(class string) (string, bool) {
	switch class {
	case "mac":
		return MACURL, true
	case "aead":
		return AEADURL, true
	case "daead":
		return DAEADURL, true
	case "signature":
		return SigPrivURL, true
	case "hybrid":
		return HybPrivURL, true
	}
	return "", false
}

// ProtoKey returns one keyset entry of a stub key type with 32 key bytes.
func ProtoKey(url string, keyBytes []byte, prefix string, id uint32, status tinkpb.KeyStatusType) *tinkpb.Keyset_Key {
	mat := tinkpb.KeyData_SYMMETRIC
	if url == SigPrivURL || url == HybPrivURL {
		mat = tinkpb.KeyData_ASYMMETRIC_PRIVATE
	}
	return &tinkpb.Keyset_Key{
		KeyData:          &tinkpb.KeyData{TypeUrl: url, Value: bytes.Clone(keyBytes), KeyMaterialType: mat},
		Status:           status,
		KeyId:            id,
		OutputPrefixType: PrefixType(prefix),
	}
}

// Handle builds a one-key handle of a stub key type.
func Handle(url string, keyBytes []byte, prefix string, id uint32) (*keyset.Handle, error) {
	Register()
	ks := &tinkpb.Keyset{PrimaryKeyId: id, Key: []*tinkpb.Keyset_Key{ProtoKey(url, keyBytes, prefix, id, tinkpb.KeyStatusType_ENABLED)}}
	return insecurecleartextkeyset.Read(&keyset.MemReaderWriter{Keyset: ks})
}

// MACHandle is a one-key stub MAC keyset with a fixed key.
func MACHandle(prefix string, id uint32) (*keyset.Handle, error) {
	return Handle(MACURL, bytes.Repeat([]byte{0x42}, 32), prefix, id)
}

// ---------------------------------------------------------------------------
// stub RAW primitives

type stubMAC struct{ key []byte }

func (m *stubMAC) ComputeMAC(data []byte) ([]byte, error) {
	h := hmac.New(sha256.New, m.key)
	h.Write(data)
	return h.Sum(nil), nil
}

func (m *stubMAC) VerifyMAC(mac, data []byte) error {
	want, _ := m.ComputeMAC(data)
	if !hmac.Equal(want, mac) {
		return errors.New("stubkm: invalid MAC")
	}
	return nil
}

type stubAEAD struct{ gcm cipher.AEAD }

func newStubAEAD(k []byte) (*stubAEAD, error) {
	b, err := aes.NewCipher(k)
	if err != nil {
		return nil, err
	}
	g, err := cipher.NewGCM(b)
	if err != nil {
		return nil, err
	}
	return &stubAEAD{gcm: g}, nil
}

func (a *stubAEAD) Encrypt(pt, ad []byte) ([]byte, error) {
	nonce := make([]byte, 12)
	if _, err := io.ReadFull(rand.Reader, nonce); err != nil {
		return nil, err
	}
	return a.gcm.Seal(nonce, nonce, pt, ad), nil
}

func (a *stubAEAD) Decrypt(ct, ad []byte) ([]byte, error) {
	if len(ct) < 28 {
		return nil, errors.New("stubkm: ciphertext too short")
	}
	return a.gcm.Open(nil, ct[:12], ct[12:], ad)
}

type stubDAEAD struct{ key []byte }

func (d *stubDAEAD) tag(pt, ad []byte) []byte {
	h := hmac.New(sha256.New, d.key)
	h.Write([]byte{byte(len(ad) >> 24), byte(len(ad) >> 16), byte(len(ad) >> 8), byte(len(ad))})
	h.Write(ad)
	h.Write(pt)
	return h.Sum(nil)[:16]
}

func (d *stubDAEAD) EncryptDeterministically(pt, ad []byte) ([]byte, error) {
	tag := d.tag(pt, ad)
	b, err := aes.NewCipher(d.key)
	if err != nil {
		return nil, err
	}
	out := make([]byte, 16+len(pt))
	copy(out, tag)
	cipher.NewCTR(b, tag).XORKeyStream(out[16:], pt)
	return out, nil
}

func (d *stubDAEAD) DecryptDeterministically(ct, ad []byte) ([]byte, error) {
	if len(ct) < 16 {
		return nil, errors.New("stubkm: ciphertext too short")
	}
	b, err := aes.NewCipher(d.key)
	if err != nil {
		return nil, err
	}
	pt := make([]byte, len(ct)-16)
	cipher.NewCTR(b, ct[:16]).XORKeyStream(pt, ct[16:])
	if !hmac.Equal(d.tag(pt, ad), ct[:16]) {
		return nil, errors.New("stubkm: invalid ciphertext")
	}
	return pt, nil
}

type stubSigner struct{ priv ed25519.PrivateKey }

func (s *stubSigner) Sign(data []byte) ([]byte, error) { return ed25519.Sign(s.priv, data), nil }

type stubVerifier struct{ pub ed25519.PublicKey }

func (v *stubVerifier) Verify(sig, data []byte) error {
	if !ed25519.Verify(v.pub, data, sig) {
		return errors.New("stubkm: invalid signature")
	}
	return nil
}

type stubHybridEnc struct{ pub *ecdh.PublicKey }

func hybridAEAD(shared, enc, info []byte) (cipher.AEAD, error) {
	h := sha256.New()
	h.Write(shared)
	h.Write(enc)
	h.Write(info)
	b, err := aes.NewCipher(h.Sum(nil))
	if err != nil {
		return nil, err
	}
	return cipher.NewGCM(b)
}

func (e *stubHybridEnc) Encrypt(pt, info []byte) ([]byte, error) {
	seed := make([]byte, 32)
	if _, err := io.ReadFull(rand.Reader, seed); err != nil {
		return nil, err
	}
	eph, err := ecdh.X25519().NewPrivateKey(seed)
	if err != nil {
		return nil, err
	}
	shared, err := eph.ECDH(e.pub)
	if err != nil {
		return nil, err
	}
	enc := eph.PublicKey().Bytes()
	g, err := hybridAEAD(shared, enc, info)
	if err != nil {
		return nil, err
	}
	return g.Seal(bytes.Clone(enc), make([]byte, 12), pt, nil), nil
}

type stubHybridDec struct{ priv *ecdh.PrivateKey }

func (d *stubHybridDec) Decrypt(ct, info []byte) ([]byte, error) {
	if len(ct) < 32+16 {
		return nil, errors.New("stubkm: ciphertext too short")
	}
	pub, err := ecdh.X25519().NewPublicKey(ct[:32])
	if err != nil {
		return nil, err
	}
	shared, err := d.priv.ECDH(pub)
	if err != nil {
		return nil, err
	}
	g, err := hybridAEAD(shared, ct[:32], info)
	if err != nil {
		return nil, err
	}
	return g.Open(nil, make([]byte, 12), ct[32:], nil)
}
