// Package simio provides the simulated storage/transport ends that Tink's
// streaming and keyset I/O code reads from and writes to: a Device (io.Writer
// with a persistent failure from a byte offset), and a Source (io.Reader with
// scripted short reads, (0,nil) returns, two EOF styles and a persistent
// failure at an offset). Nothing here draws randomness: all behaviour is
// scripted by the world from rapid draws.
package simio

import (
	"errors"
	"fmt"
	"io"
)

// ErrInjected is the sentinel returned by failing devices. It is deliberately
// neither io.EOF nor io.ErrUnexpectedEOF.
var ErrInjected = errors.New("simio: injected persistent I/O error")

// Device is the io.Writer Tink writes ciphertext to.
type Device struct {
	Buf      []byte
	FailAt   int  // -1: never; otherwise the device accepts bytes [0,FailAt) and fails from then on
	Partial  bool // on the failing write, accept the bytes that still fit and report n<len with the error
	Failed   bool // the failure has fired at least once
	Writes   int
	FailHits int
	// FailErr is the error a failing device returns (nil = ErrInjected).
	FailErr error
	// WriteSizes logs the size of each Write call (flush boundaries = possible crash cuts).
	WriteEnds []int
}

// NewDevice returns a device failing persistently from offset failAt (-1 = never).
func NewDevice(failAt int, partial bool) *Device { return &Device{FailAt: failAt, Partial: partial} }

func (d *Device) Write(p []byte) (int, error) {
	d.Writes++
	if d.Failed || (d.FailAt >= 0 && len(d.Buf)+len(p) > d.FailAt) {
		// persistent: once the device has failed, every later write fails too (also a smaller one that would fit)
		n := 0
		if d.Partial && !d.Failed {
			n = d.FailAt - len(d.Buf)
			if n < 0 {
				n = 0
			}
			d.Buf = append(d.Buf, p[:n]...)
		}
		d.Failed = true
		d.FailHits++
		if d.FailErr != nil {
			return n, d.FailErr
		}
		return n, ErrInjected
	}
	d.Buf = append(d.Buf, p...)
	d.WriteEnds = append(d.WriteEnds, len(d.Buf))
	return len(p), nil
}

// Source is the io.Reader Tink reads ciphertext (or a serialized keyset) from.
type Source struct {
	Data   []byte
	Pos    int
	FailAt int // -1: never; otherwise Read fails persistently once Pos reaches FailAt (bytes before are delivered)
	// Chunks scripts how many bytes successive Read calls yield at most (cycled);
	// 0 entries mean "return (0,nil) once" (bounded by ZeroBudget).
	Chunks     []int
	ci         int
	ZeroBudget int
	// EOFWithData: deliver the final bytes together with io.EOF ((n>0, EOF)).
	EOFWithData bool
	Failed      bool
	FailHits    int
	// FailErr is the error a failing source returns (nil = ErrInjected). An error that merely WRAPS io.EOF or
	// io.ErrUnexpectedEOF is still an I/O error: a reader signals the end of its data with io.EOF itself.
	FailErr    error
	Reads      int
	ShortReads int
	ZeroReads  int
	EOFs       int
}

// NewSource returns a well-behaved source over data.
func NewSource(data []byte) *Source { return &Source{Data: data, FailAt: -1} }

func (s *Source) Read(p []byte) (int, error) {
	s.Reads++
	if s.FailAt >= 0 && s.Pos >= s.FailAt {
		s.Failed = true
		s.FailHits++
		return 0, s.failErr()
	}
	if len(p) == 0 {
		return 0, nil
	}
	limit := len(s.Data)
	if s.FailAt >= 0 && s.FailAt < limit {
		limit = s.FailAt
	}
	if s.Pos >= len(s.Data) {
		s.EOFs++
		return 0, io.EOF
	}
	n := len(p)
	if len(s.Chunks) > 0 {
		c := s.Chunks[s.ci%len(s.Chunks)]
		s.ci++
		if c == 0 {
			if s.ZeroBudget > 0 {
				s.ZeroBudget--
				s.ZeroReads++
				return 0, nil
			}
			c = 1
		}
		if c < n {
			n = c
			s.ShortReads++
		}
	}
	if s.Pos+n > limit {
		n = limit - s.Pos
	}
	copy(p, s.Data[s.Pos:s.Pos+n])
	s.Pos += n
	if s.EOFWithData && s.Pos == len(s.Data) && (s.FailAt < 0 || s.FailAt > len(s.Data)) {
		s.EOFs++
		return n, io.EOF
	}
	if n == 0 {
		// limit reached exactly: the next call fails
		s.Failed = true
		s.FailHits++
		return 0, s.failErr()
	}
	return n, nil
}

func (s *Source) failErr() error {
	if s.FailErr != nil {
		return s.FailErr
	}
	return ErrInjected
}

// Injected error values that wrap the end-of-data sentinels without being them.
var (
	ErrInjectedWrapsEOF           = fmt.Errorf("simio: connection reset (%w)", io.EOF)
	ErrInjectedWrapsUnexpectedEOF = fmt.Errorf("simio: transport closed (%w)", io.ErrUnexpectedEOF)
)
