// Package core is the part of the simulation harness shared by every world:
// per-run trace and event digest, coverage collection, violation reporting
// (with known-findings handling) and the worker-side half of the protocol
// spoken with the orchestrator (/verif/tools/vsim).
//
// Rules kept here: nothing in this package draws randomness, reads a clock to
// take a decision, or iterates a map without sorting its keys.
package core

import (
	"encoding/json"
	"fmt"
	"os"
	"path/filepath"
	"sort"
	"strings"
	"sync"
	"testing"
	"time"

	"pgregory.net/rapid"
)

// ---------------------------------------------------------------------------
// collector (process-wide)

type finding struct {
	Property string `json:"property"`
	Key      string `json:"key"`
	Status   string `json:"status"`
	Commit   string `json:"commit,omitempty"`
	What     string `json:"what"`
}

// Coverage is what one worker process reports to the orchestrator.
type Coverage struct {
	Property    string              `json:"property"`
	World       string              `json:"world"`
	Tier        string              `json:"tier"`
	Evaluations int64               `json:"evaluations"`
	Nontrivial  int64               `json:"nontrivial_runs"`
	Signatures  []string            `json:"signatures"` // distinct non-trivial run signatures (hashed)
	SigExamples []string            `json:"signature_examples"`
	Faults      map[string]int64    `json:"faults_fired"`
	Probes      map[string]int64    `json:"probes_hit"`
	Counters    map[string]int64    `json:"counters"`
	Sets        map[string][]string `json:"sets"`
	Samples     []Sample            `json:"samples"`
	Digest      string              `json:"digest"`
	KnownHits   map[string]int64    `json:"known_hits"`
	Violations  int64               `json:"violations"`
	SimNanos    int64               `json:"simulated_ns"`
	WallS       float64             `json:"wall_s"`
	Components  map[string]string   `json:"components"`
}

// Sample is one complete run written out.
type Sample struct {
	Signature string   `json:"signature"`
	Trace     []string `json:"trace"`
}

// Violation is written by the worker when an unknown violation fires; the
// last one written belongs to rapid's final re-execution of the minimal case.
type Violation struct {
	Property string   `json:"property"`
	Key      string   `json:"key"`
	Detail   string   `json:"detail"`
	Trace    []string `json:"trace"`
}

type collector struct {
	mu        sync.Mutex
	cov       Coverage
	sigs      map[uint64]struct{}
	sets      map[string]map[string]struct{}
	digest    uint64
	known     map[string]finding
	outDir    string
	sawViol   bool
	start     time.Time
	maxSample int
}

var col = &collector{}

const (
	fnvOff   = 14695981039346656037
	fnvPrime = 1099511628211
)

func fnvAdd(h uint64, s string) uint64 {
	for i := 0; i < len(s); i++ {
		h ^= uint64(s[i])
		h *= fnvPrime
	}
	h ^= 0xff
	h *= fnvPrime
	return h
}

func fnvAddBytes(h uint64, b []byte) uint64 {
	for _, c := range b {
		h ^= uint64(c)
		h *= fnvPrime
	}
	h ^= 0xfe
	h *= fnvPrime
	return h
}

// Main is called from each world's TestMain.
func Main(m *testing.M, property, world string, components map[string]string) {
	col.start = time.Now()
	declaredP, declaredF := col.cov.Probes, col.cov.Faults
	col.cov = Coverage{Property: property, World: world, Tier: Tier(),
		Faults: map[string]int64{}, Probes: map[string]int64{}, Counters: map[string]int64{},
		KnownHits: map[string]int64{}, Components: components}
	for k := range declaredP {
		col.cov.Probes[k] = 0
	}
	for k := range declaredF {
		col.cov.Faults[k] = 0
	}
	col.sigs = map[uint64]struct{}{}
	col.sets = map[string]map[string]struct{}{}
	col.digest = fnvOff
	col.outDir = os.Getenv("VSIM_OUT")
	col.maxSample = 3
	col.known = map[string]finding{}
	if p := os.Getenv("VSIM_KNOWN"); p != "" {
		if b, err := os.ReadFile(p); err == nil {
			var fs struct {
				Findings []finding `json:"findings"`
			}
			if err := json.Unmarshal(b, &fs); err != nil {
				fmt.Fprintf(os.Stderr, "vsim: cannot parse %s: %v\n", p, err)
				os.Exit(2)
			}
			for _, f := range fs.Findings {
				if f.Property == property && f.Status == "known" {
					col.known[f.Key] = f
				}
			}
		}
	}
	code := m.Run()
	col.flush()
	os.Exit(code)
}

func (c *collector) flush() {
	if c.outDir == "" {
		return
	}
	c.mu.Lock()
	defer c.mu.Unlock()
	c.cov.Signatures = c.cov.Signatures[:0]
	keys := make([]uint64, 0, len(c.sigs))
	for k := range c.sigs {
		keys = append(keys, k)
	}
	sort.Slice(keys, func(i, j int) bool { return keys[i] < keys[j] })
	for _, k := range keys {
		c.cov.Signatures = append(c.cov.Signatures, fmt.Sprintf("%016x", k))
	}
	c.cov.Sets = map[string][]string{}
	for name, s := range c.sets {
		var l []string
		for k := range s {
			l = append(l, k)
		}
		sort.Strings(l)
		c.cov.Sets[name] = l
	}
	c.cov.Digest = fmt.Sprintf("%016x", c.digest)
	c.cov.WallS = time.Since(c.start).Seconds()
	b, _ := json.Marshal(&c.cov)
	_ = os.MkdirAll(c.outDir, 0o755)
	_ = os.WriteFile(filepath.Join(c.outDir, "coverage.json"), b, 0o644)
}

// Tier returns "quick" or "thorough".
func Tier() string {
	if os.Getenv("VSIM_TIER") == "thorough" {
		return "thorough"
	}
	return "quick"
}

// Thorough reports whether the thorough tier is running.
func Thorough() bool { return Tier() == "thorough" }

// ---------------------------------------------------------------------------
// one simulated run

// Run carries the per-run trace, digest and counters.
type Run struct {
	T       *rapid.T
	trace   []string
	tracing bool
	digest  uint64
	faults  map[string]int64
	probes  map[string]int64
	ctrs    map[string]int64
	setadds [][2]string
	simNs   int64
	ended   bool
}

// Begin starts a run. Tracing (building human-readable strings) is on for the
// first runs of a process (samples) and for every run after a violation has
// been seen (so that rapid's final re-execution of the minimal case is traced).
func Begin(t *rapid.T) *Run {
	col.mu.Lock()
	tr := len(col.cov.Samples) < col.maxSample || col.sawViol || os.Getenv("VSIM_TRACE") != ""
	col.mu.Unlock()
	return &Run{T: t, tracing: tr, digest: fnvOff,
		faults: map[string]int64{}, probes: map[string]int64{}, ctrs: map[string]int64{}}
}

// Tracing tells callers whether formatting a trace line is worth it.
func (r *Run) Tracing() bool { return r.tracing }

// Logf appends a line to the trace (not to the digest).
func (r *Run) Logf(format string, args ...any) {
	if r.tracing {
		if len(r.trace) < 4000 {
			r.trace = append(r.trace, fmt.Sprintf(format, args...))
		}
	}
}

// Obs folds an observation into the event digest and, if tracing, the trace.
func (r *Run) Obs(tag string, data []byte) {
	r.digest = fnvAdd(r.digest, tag)
	r.digest = fnvAddBytes(r.digest, data)
	if r.tracing {
		r.Logf("%s %s", tag, Hex(data, 48))
	}
}

// ObsS folds a string observation.
func (r *Run) ObsS(tag, s string) {
	r.digest = fnvAdd(r.digest, tag)
	r.digest = fnvAdd(r.digest, s)
	if r.tracing {
		r.Logf("%s %s", tag, s)
	}
}

// ObsI folds an integer observation.
func (r *Run) ObsI(tag string, v int64) {
	r.digest = fnvAdd(r.digest, tag)
	for i := 0; i < 8; i++ {
		r.digest ^= uint64(byte(v >> (8 * i)))
		r.digest *= fnvPrime
	}
	if r.tracing {
		r.Logf("%s %d", tag, v)
	}
}

// ObsErr folds the presence of an error (not its text: error strings may embed
// addresses or map orders outside the harness's control) into the digest; the
// text goes to the trace only.
func (r *Run) ObsErr(tag string, err error) {
	if err == nil {
		r.ObsS(tag, "ok")
		return
	}
	r.digest = fnvAdd(r.digest, tag)
	r.digest = fnvAdd(r.digest, "err")
	if r.tracing {
		r.Logf("%s error: %v", tag, err)
	}
}

// Fault records that a fault of this kind actually fired.
func (r *Run) Fault(kind string) { r.faults[kind]++ }

// Probe records that a rare condition / branch of interest was reached.
func (r *Run) Probe(name string) { r.probes[name]++ }

// Count adds to a free-form counter.
func (r *Run) Count(name string, n int64) { r.ctrs[name] += n }

// SetAdd adds an element to a named distinct-set (bounded use only).
func (r *Run) SetAdd(set, elem string) { r.setadds = append(r.setadds, [2]string{set, elem}) }

// SimTime adds simulated nanoseconds covered by the run.
func (r *Run) SimTime(ns int64) { r.simNs += ns }

// FaultsFired reports how many faults have fired so far in this run.
func (r *Run) FaultsFired() int64 {
	var n int64
	for _, v := range r.faults {
		n += v
	}
	return n
}

// Violation reports a property violation. key is the stable finding key
// (class plus smallest stable location); it is the whole failure message so
// that shrinking cannot slide into another bug. Known findings are counted
// and the run continues.
func (r *Run) Violation(key, detail string) {
	col.mu.Lock()
	if _, ok := col.known[key]; ok {
		col.cov.KnownHits[key]++
		col.mu.Unlock()
		r.Logf("KNOWN-FINDING %s: %s", key, detail)
		return
	}
	first := !col.sawViol
	col.sawViol = true
	col.cov.Violations++
	col.mu.Unlock()
	if first && !r.tracing {
		// the trace of this very run is incomplete; rapid re-executes it
	}
	r.Logf("VIOLATION %s: %s", key, detail)
	if col.outDir != "" {
		v := Violation{Property: col.cov.Property, Key: key, Detail: detail, Trace: r.trace}
		b, _ := json.MarshalIndent(&v, "", " ")
		_ = os.MkdirAll(col.outDir, 0o755)
		_ = os.WriteFile(filepath.Join(col.outDir, "violation.json"), b, 0o644)
	}
	r.T.Fatalf("%s", key)
}

// End closes the run: signature is the property-specific run signature;
// nontrivial says whether it counts towards distinct_nontrivial.
func (r *Run) End(signature string, nontrivial bool) {
	if r.ended {
		return
	}
	r.ended = true
	col.mu.Lock()
	defer col.mu.Unlock()
	col.cov.Evaluations++
	col.digest = fnvAdd(col.digest, signature)
	col.digest ^= r.digest
	col.digest *= fnvPrime
	if nontrivial {
		col.cov.Nontrivial++
		h := fnvAdd(fnvOff, signature)
		if _, ok := col.sigs[h]; !ok {
			col.sigs[h] = struct{}{}
			if len(col.cov.SigExamples) < 12 {
				col.cov.SigExamples = append(col.cov.SigExamples, signature)
			}
		}
	}
	for k, v := range r.faults {
		col.cov.Faults[k] += v
	}
	for k, v := range r.probes {
		col.cov.Probes[k] += v
	}
	for k, v := range r.ctrs {
		col.cov.Counters[k] += v
	}
	for _, sa := range r.setadds {
		s := col.sets[sa[0]]
		if s == nil {
			s = map[string]struct{}{}
			col.sets[sa[0]] = s
		}
		if len(s) < 200000 {
			s[sa[1]] = struct{}{}
		}
	}
	col.cov.SimNanos += r.simNs
	if r.tracing && len(col.cov.Samples) < col.maxSample && nontrivial {
		tr := r.trace
		if len(tr) > 120 {
			tr = append(append([]string{}, tr[:100]...), fmt.Sprintf("… (%d more lines)", len(tr)-100))
		}
		col.cov.Samples = append(col.cov.Samples, Sample{Signature: signature, Trace: tr})
	}
}

// DeclareProbes makes probes appear with a zero count when never hit, so the
// orchestrator can warn about them.
func DeclareProbes(names ...string) {
	col.mu.Lock()
	defer col.mu.Unlock()
	if col.cov.Probes == nil {
		col.cov.Probes = map[string]int64{}
	}
	for _, n := range names {
		if _, ok := col.cov.Probes[n]; !ok {
			col.cov.Probes[n] = 0
		}
	}
}

// DeclareFaults does the same for fault kinds.
func DeclareFaults(names ...string) {
	col.mu.Lock()
	defer col.mu.Unlock()
	if col.cov.Faults == nil {
		col.cov.Faults = map[string]int64{}
	}
	for _, n := range names {
		if _, ok := col.cov.Faults[n]; !ok {
			col.cov.Faults[n] = 0
		}
	}
}

// Hex renders at most max bytes of b.
func Hex(b []byte, max int) string {
	if b == nil {
		return "nil"
	}
	const digits = "0123456789abcdef"
	n := len(b)
	cut := false
	if n > max {
		n = max
		cut = true
	}
	var sb strings.Builder
	for i := 0; i < n; i++ {
		sb.WriteByte(digits[b[i]>>4])
		sb.WriteByte(digits[b[i]&15])
	}
	if cut {
		fmt.Fprintf(&sb, "…(%d bytes)", len(b))
	}
	if len(b) == 0 {
		return "\"\""
	}
	return sb.String()
}

// SortedKeys returns the sorted keys of a string-keyed map.
func SortedKeys[V any](m map[string]V) []string {
	ks := make([]string, 0, len(m))
	for k := range m {
		ks = append(ks, k)
	}
	sort.Strings(ks)
	return ks
}

// CountGlobal bumps a process-wide counter outside any run (used for runs
// that are skipped before they end).
func CountGlobal(name string) {
	col.mu.Lock()
	defer col.mu.Unlock()
	col.cov.Counters[name]++
}
