// Package kmsfake builds keysets holding KMS-envelope AEAD keys ("remote" key material: a KEK URI and the template of
// the data-encryption keys) over tink's own in-tree fake KMS (testing/fakekms: an AES128-GCM keyset encoded in the
// URI). The KmsEnvelopeAeadKey key manager, the legacy adapter and the envelope AEAD are the real code.
package kmsfake

import (
	"context"

	"google.golang.org/protobuf/proto"

	"github.com/tink-crypto/tink-go/v2/core/registry"
	"github.com/tink-crypto/tink-go/v2/insecurecleartextkeyset"
	"github.com/tink-crypto/tink-go/v2/keyset"
	kmsepb "github.com/tink-crypto/tink-go/v2/proto/kms_envelope_go_proto"
	tinkpb "github.com/tink-crypto/tink-go/v2/proto/tink_go_proto"
	"github.com/tink-crypto/tink-go/v2/testing/fakekms"
	"github.com/tink-crypto/tink-go/v2/tink"
	"github.com/tink-crypto/tink-go/v2/verifsim/simrng"
)

// EnvelopeURL is the type URL of KMS-envelope AEAD keys.
const EnvelopeURL = "type.googleapis.com/google.crypto.tink.KmsEnvelopeAeadKey"

var kekURI string

// Register registers tink's fake KMS client and fixes one KEK URI (drawn under a throw-away deterministic RNG so that
// every process sees the same bytes). Call it once from TestMain.
func Register() {
	restore := simrng.Install(simrng.New(0x4b4d53))
	defer restore()
	uri, err := fakekms.NewKeyURI()
	if err != nil {
		panic(err)
	}
	c, err := fakekms.NewClient("fake-kms://")
	if err != nil {
		panic(err)
	}
	registry.RegisterKMSClient(c)
	kekURI = uri
}

// Key returns a keyset entry holding a KMS-envelope AEAD key with the given DEK template.
func Key(dek *tinkpb.KeyTemplate, id uint32, pfx tinkpb.OutputPrefixType) *tinkpb.Keyset_Key {
	v, _ := proto.Marshal(&kmsepb.KmsEnvelopeAeadKey{Version: 0, Params: &kmsepb.KmsEnvelopeAeadKeyFormat{KekUri: kekURI, DekTemplate: dek}})
	return &tinkpb.Keyset_Key{KeyId: id, Status: tinkpb.KeyStatusType_ENABLED, OutputPrefixType: pfx,
		KeyData: &tinkpb.KeyData{TypeUrl: EnvelopeURL, Value: v, KeyMaterialType: tinkpb.KeyData_REMOTE}}
}

// Handle returns a one-key handle around Key.
func Handle(dek *tinkpb.KeyTemplate, id uint32, pfx tinkpb.OutputPrefixType, opts ...keyset.Option) (*keyset.Handle, error) {
	ks := &tinkpb.Keyset{PrimaryKeyId: id, Key: []*tinkpb.Keyset_Key{Key(dek, id, pfx)}}
	return insecurecleartextkeyset.Read(&keyset.MemReaderWriter{Keyset: ks}, opts...)
}

// KEKWithContext returns the fake KMS's key-encryption AEAD for the fixed KEK URI behind the context-aware interface
// (a cancelled context fails the call, as a remote KMS client would).
func KEKWithContext() (tink.AEADWithContext, error) {
	c, err := registry.GetKMSClient(kekURI)
	if err != nil {
		return nil, err
	}
	a, err := c.GetAEAD(kekURI)
	if err != nil {
		return nil, err
	}
	return &ctxKEK{a: a}, nil
}

type ctxKEK struct{ a tink.AEAD }

func (k *ctxKEK) EncryptWithContext(ctx context.Context, plaintext, associatedData []byte) ([]byte, error) {
	if err := ctx.Err(); err != nil {
		return nil, err
	}
	return k.a.Encrypt(plaintext, associatedData)
}

func (k *ctxKEK) DecryptWithContext(ctx context.Context, ciphertext, associatedData []byte) ([]byte, error) {
	if err := ctx.Err(); err != nil {
		return nil, err
	}
	return k.a.Decrypt(ciphertext, associatedData)
}
