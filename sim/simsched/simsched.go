//go:build instr

// Package simsched is the seeded task scheduler of the sched world (C18).
//
// Tasks are real goroutines, but only the task holding the baton executes;
// the others wait in a spin (runtime.Gosched loop) on a plain memory word.
// At every yield point (inserted into tink's sources by /verif/tools/instr)
// the running task consults the pre-drawn plan and may hand the baton to
// another task. Everything here is //go:norace and free of sync primitives on
// purpose: ThreadSanitizer must see no synchronisation between tasks other
// than what the code under test performs itself, so that two conflicting
// accesses by two tasks are reported even though the simulator serialised
// them — and the report is a deterministic function of the plan.
package simsched

import (
	"runtime"
	"time"

	"github.com/tink-crypto/tink-go/v2/internal/simhook"
)

// Step is one entry of the plan: after RunFor more yields of the running task,
// pass the baton to task SwitchTo (modulo the number of unfinished tasks).
type Step struct {
	RunFor   uint32
	SwitchTo uint8
}

// Pass records one baton pass.
type Pass struct {
	From, To int
	Site     int  // yield site at which From was preempted; -1 = task finished
	Blocked  bool // From found a lock taken at Site (a TryLock loop of instrumented code) and handed the baton on
}

// MaxTasks bounds the number of tasks.
const MaxTasks = 8

// Sched is one simulation.
type Sched struct {
	cur    int // index of the task holding the baton; -1 = nobody (plain word, spun on)
	n      int
	plan   []Step
	pi     int
	left   uint32
	done   [MaxTasks]bool
	Trace  []Pass
	Yields uint64
	// OnPass, if set, is called (on the goroutine giving up the baton, before
	// the hand-over) at every baton pass; it must be //go:norace itself.
	OnPass func(from, to, site int)
	active bool
	Panics []any
	// First, if non-nil (length = number of yield sites), receives for every site the yield index at which
	// it was first reached (-1 = never). Used on single-task runs to learn where a task's code goes.
	First []int32
	// Aborted: a task blocked in a real synchronisation primitive while holding the baton (no yield for
	// several seconds); the scheduler let all tasks run freely to completion. The run's results are still
	// checked, but its interleaving was not decided by the plan.
	Aborted bool
	abort   bool
	// LockAt receives (only while First is recorded, i.e. on single-task runs) the yield index of every lock
	// acquisition of the task: where its critical sections begin.
	LockAt []uint32
	// lock-aware scheduling: instrumented "X.Lock()" statements spin on TryLock and call blocked() each time the lock
	// is taken. blockedNow[i] = task i found its lock taken and nobody has made progress since. When every unfinished
	// task is in that state no baton pass can ever help: Deadlock is set (with the sites), and the tasks are unwound by
	// a DeadlockPanic so that the run ends.
	blockedNow      [MaxTasks]bool
	lastBlockedSite [MaxTasks]int
	allRounds       int
	allSince        time.Time
	nBlocked        int
	Deadlock        bool
	DeadlockAt      []int // per task: the site it was blocked at (-1 = not blocked / finished)
	BlockedPasses   int
}

// DeadlockGrace is how long "every unfinished task waits for a lock" must persist before it is called a deadlock.
var DeadlockGrace = 2 * time.Second

// DeadlockPanic is what a task is unwound with once the scheduler has established a deadlock.
type DeadlockPanic struct{ Site int }

// New returns a scheduler for a plan.
func New(plan []Step) *Sched { return &Sched{cur: -1, plan: plan} }

// Current returns the index of the running task (-1 outside a simulation).
//
//go:norace
func (s *Sched) Current() int { return s.cur }

//go:norace
//go:noinline
func (s *Sched) wait(me int) {
	for s.cur != me && !s.abort {
		runtime.Gosched()
	}
}

// others lists the unfinished tasks other than me, in index order.
//
//go:norace
func (s *Sched) others(me int, cand *[MaxTasks]int) int {
	k := 0
	for i := 0; i < s.n; i++ {
		if !s.done[i] && i != me {
			cand[k] = i
			k++
		}
	}
	return k
}

// Next as a Step.SwitchTo value means "the next unfinished task in cyclic index order" (round-robin).
const Next = 255

//go:norace
func (s *Sched) choose(me int, cand *[MaxTasks]int, k int) int {
	sel := s.plan[s.pi].SwitchTo
	if sel == Next {
		for i := 0; i < k; i++ {
			if cand[i] > me {
				return cand[i]
			}
		}
		return cand[0]
	}
	return cand[int(sel)%k]
}

// yield is installed as simhook.Hook.
//
//go:norace
func (s *Sched) yield(site int) {
	if !s.active || s.abort {
		return
	}
	me := s.cur
	if me < 0 {
		return
	}
	if s.First != nil && site >= 0 && site < len(s.First) && s.First[site] < 0 {
		s.First[site] = int32(s.Yields)
	}
	s.Yields++
	if s.nBlocked != 0 {
		// somebody made progress: locks may have been released since
		s.blockedNow = [MaxTasks]bool{}
		s.nBlocked = 0
		s.allRounds = 0
	}
	if s.left > 0 {
		s.left--
		return
	}
	s.pi++
	if s.pi >= len(s.plan) {
		s.left = ^uint32(0) // plan exhausted: run to completion
		return
	}
	s.left = s.plan[s.pi].RunFor
	var cand [MaxTasks]int
	k := s.others(me, &cand)
	if k == 0 {
		return
	}
	to := s.choose(me, &cand, k)
	s.Trace = append(s.Trace, Pass{From: me, To: to, Site: site})
	if s.OnPass != nil {
		s.OnPass(me, to, site)
	}
	s.cur = to
	s.wait(me)
}

// acquired is installed as simhook.AcquiredHook.
//
//go:norace
func (s *Sched) acquired(site int) {
	if s.active && !s.abort && s.First != nil && len(s.LockAt) < 256 {
		s.LockAt = append(s.LockAt, uint32(s.Yields))
	}
}

// blocked is installed as simhook.BlockedHook: the running task found the lock it wants taken. The baton goes to the
// next unfinished task in cyclic order (the plan is not consumed: this pass is forced, not drawn).
//
//go:norace
func (s *Sched) blocked(site int) {
	if !s.active || s.abort {
		runtime.Gosched()
		return
	}
	me := s.cur
	if me < 0 {
		runtime.Gosched()
		return
	}
	if s.Deadlock {
		panic(DeadlockPanic{Site: site})
	}
	if !s.blockedNow[me] {
		s.blockedNow[me] = true
		s.nBlocked++
	}
	var cand [MaxTasks]int
	k := s.others(me, &cand)
	all := true
	for i := 0; i < k; i++ {
		if !s.blockedNow[cand[i]] {
			all = false
		}
	}
	s.lastBlockedSite[me] = site
	if all {
		// Every unfinished task (possibly only this one) waits for a lock and none of them has moved since. If only
		// tasks can hold locks this is a deadlock already; a goroutine the library started itself may still be about to
		// release one, so the verdict also needs the state to persist (2 s and 1000 rounds of everybody retrying, with
		// the processor offered to other goroutines in between).
		if s.allRounds == 0 {
			s.allSince = time.Now()
		}
		s.allRounds++
		if s.allRounds >= 1000 && time.Since(s.allSince) >= DeadlockGrace {
			s.Deadlock = true
			s.DeadlockAt = make([]int, s.n)
			for i := range s.DeadlockAt {
				s.DeadlockAt[i] = -1
			}
			s.DeadlockAt[me] = site
			for i := 0; i < k; i++ {
				s.DeadlockAt[cand[i]] = s.lastBlockedSite[cand[i]]
			}
			panic(DeadlockPanic{Site: site})
		}
		runtime.Gosched()
		if k == 0 {
			return // retry
		}
	}
	to := cand[0]
	for i := 0; i < k; i++ {
		if cand[i] > me {
			to = cand[i]
			break
		}
	}
	s.BlockedPasses++
	if !all && len(s.Trace) < 1<<16 {
		s.Trace = append(s.Trace, Pass{From: me, To: to, Site: site, Blocked: true})
	}
	if !all && s.OnPass != nil {
		s.OnPass(me, to, site)
	}
	s.cur = to
	s.wait(me)
}

//go:norace
func (s *Sched) finish(me int, panicked any) {
	if panicked != nil {
		if _, dl := panicked.(DeadlockPanic); !dl {
			s.Panics = append(s.Panics, panicked)
		}
	}
	if s.blockedNow[me] {
		s.blockedNow[me] = false
		s.nBlocked--
	}
	if s.nBlocked != 0 && !s.Deadlock {
		// a finishing task has run its deferred unlocks
		s.blockedNow = [MaxTasks]bool{}
		s.nBlocked = 0
		s.allRounds = 0
	}
	s.done[me] = true
	var cand [MaxTasks]int
	k := s.others(me, &cand)
	to := -1
	if k > 0 {
		s.pi++
		if s.pi < len(s.plan) {
			to = s.choose(me, &cand, k)
			s.left = s.plan[s.pi].RunFor
		} else {
			to = cand[0]
			s.left = ^uint32(0)
		}
		s.Trace = append(s.Trace, Pass{From: me, To: to, Site: -1})
		if s.OnPass != nil {
			s.OnPass(me, to, -1)
		}
	}
	s.cur = to
}

// Run executes the tasks under the plan and returns when all have finished.
// It must be called from a goroutine that is not itself a task. The go
// statements and the final join are the only happens-before edges the
// harness adds — the same a real program has around a group of goroutines.
func (s *Sched) Run(tasks []func()) {
	s.n = len(tasks)
	if s.n == 0 || s.n > MaxTasks {
		panic("simsched: bad task count")
	}
	s.pi = 0
	first := 0
	s.left = ^uint32(0)
	if len(s.plan) > 0 {
		if s.plan[0].SwitchTo != Next {
			first = int(s.plan[0].SwitchTo) % s.n
		}
		s.left = s.plan[0].RunFor
	}
	simhook.Hook = s.yield
	simhook.BlockedHook = s.blocked
	simhook.AcquiredHook = s.acquired
	simhook.ResetOnce()
	finished := make([]chan struct{}, s.n)
	s.active = true
	for i := range tasks {
		finished[i] = make(chan struct{}, 1)
		go func(me int) {
			s.wait(me)
			defer func() {
				// a panicking task must still release the baton, or the run hangs
				s.finish(me, recover())
				finished[me] <- struct{}{}
			}()
			tasks[me]()
		}(i)
	}
	s.start(first)
	last, stalls := s.progress(), 0
	for i := 0; i < s.n; {
		select {
		case <-finished[i]:
			i++
		case <-time.After(StallCheck):
			if p := s.progress(); p == last {
				stalls++
				if stalls >= 6 {
					s.setAbort()
				}
			} else {
				last, stalls = p, 0
			}
		}
	}
	s.active = false
	simhook.Hook = nil
	simhook.BlockedHook = nil
	simhook.AcquiredHook = nil
}

//go:norace
func (s *Sched) start(first int) { s.cur = first }

// StallCheck is the real-time interval of the stall watchdog (6 intervals = 30 s without a yield or pass = stall;
// generous on purpose: on an overloaded machine a false stall costs the run, see Aborted).
var StallCheck = 5 * time.Second

//go:norace
func (s *Sched) progress() uint64 { return s.Yields + uint64(len(s.Trace))<<40 }

//go:norace
func (s *Sched) setAbort() { s.abort, s.Aborted = true, true }
