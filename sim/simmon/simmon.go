// Package simmon is the simulator-owned monitoring client. It records every
// Log / LogFailure call together with the lane (task) that made it. Methods are
// //go:norace and lock-free on purpose (see simsched): under the sched world
// only the baton holder runs, and the harness must not add synchronisation
// between tasks.
package simmon

import (
	"fmt"

	"github.com/tink-crypto/tink-go/v2/internal/internalregistry"
	"github.com/tink-crypto/tink-go/v2/monitoring"
)

// Event is one logged call.
type Event struct {
	Primitive, API string
	KeyID          uint32
	NumBytes       int
	Failure        bool
}

func (e Event) String() string {
	if e.Failure {
		return fmt.Sprintf("%s.%s:FAILURE", e.Primitive, e.API)
	}
	return fmt.Sprintf("%s.%s:key=%d:n=%d", e.Primitive, e.API, e.KeyID, e.NumBytes)
}

// MaxLanes bounds the number of lanes.
const MaxLanes = 16

// Client implements monitoring.Client.
type Client struct {
	lane   func() int
	Events [MaxLanes][]Event
	// Loggers counts NewLogger calls.
	Loggers int
}

var global = &Client{}

// Global returns the process-wide client, registering it with tink on first use.
func Global() *Client {
	if !registered {
		internalregistry.ClearMonitoringClient()
		if err := internalregistry.RegisterMonitoringClient(global); err != nil {
			panic(err)
		}
		registered = true
	}
	return global
}

var registered bool

// SetLaneFunc installs the lane selector (nil = lane 0).
//
//go:norace
func (c *Client) SetLaneFunc(f func() int) { c.lane = f }

// Reset drops all recorded events.
//
//go:norace
func (c *Client) Reset() {
	for i := range c.Events {
		c.Events[i] = nil
	}
}

//go:norace
func (c *Client) cur() int {
	if c.lane == nil {
		return 0
	}
	l := c.lane()
	if l < 0 || l >= MaxLanes {
		return -1 // outside any task: the event is dropped
	}
	return l
}

// NewLogger implements monitoring.Client.
//
//go:norace
func (c *Client) NewLogger(ctx *monitoring.Context) (monitoring.Logger, error) {
	c.Loggers++
	return &logger{c: c, prim: ctx.Primitive, api: ctx.APIFunction}, nil
}

type logger struct {
	c         *Client
	prim, api string
}

//go:norace
func (l *logger) Log(keyID uint32, numBytes int) {
	i := l.c.cur()
	if i < 0 {
		return
	}
	l.c.Events[i] = append(l.c.Events[i], Event{Primitive: l.prim, API: l.api, KeyID: keyID, NumBytes: numBytes})
}

//go:norace
func (l *logger) LogFailure() {
	i := l.c.cur()
	if i < 0 {
		return
	}
	l.c.Events[i] = append(l.c.Events[i], Event{Primitive: l.prim, API: l.api, Failure: true})
}

//go:norace
func (l *logger) LogKeyExport(keyID uint32) {
	i := l.c.cur()
	if i < 0 {
		return
	}
	l.c.Events[i] = append(l.c.Events[i], Event{Primitive: l.prim, API: l.api + "/export", KeyID: keyID})
}
