package catalog

import (
	"bytes"
	"crypto/rand"
	"encoding/base64"
	"fmt"
	"io"
	"os"
	"reflect"
	"sort"
	"strings"
	"sync/atomic"
	"testing"
	"time"

	"github.com/tink-crypto/tink-go/v2/aead"
	"github.com/tink-crypto/tink-go/v2/aead/aesgcm"
	"github.com/tink-crypto/tink-go/v2/daead"
	"github.com/tink-crypto/tink-go/v2/daead/aessiv"
	"github.com/tink-crypto/tink-go/v2/hybrid"
	"github.com/tink-crypto/tink-go/v2/hybrid/ecies"
	"github.com/tink-crypto/tink-go/v2/jwt"
	"github.com/tink-crypto/tink-go/v2/jwt/jwtecdsa"
	"github.com/tink-crypto/tink-go/v2/key"
	"github.com/tink-crypto/tink-go/v2/keyderivation"
	"github.com/tink-crypto/tink-go/v2/keyderivation/prfbasedkeyderivation"
	"github.com/tink-crypto/tink-go/v2/mac"
	"github.com/tink-crypto/tink-go/v2/mac/aescmac"
	"github.com/tink-crypto/tink-go/v2/prf"
	"github.com/tink-crypto/tink-go/v2/prf/aescmacprf"
	"github.com/tink-crypto/tink-go/v2/prf/hkdfprf"
	"github.com/tink-crypto/tink-go/v2/signature"
	"github.com/tink-crypto/tink-go/v2/signature/rsassapss"
	"github.com/tink-crypto/tink-go/v2/streamingaead"
	saesctrhmac "github.com/tink-crypto/tink-go/v2/streamingaead/aesctrhmac"
	"github.com/tink-crypto/tink-go/v2/streamingaead/aesgcmhkdf"
)

// wantKeyTypes is the coverage contract: every key type of the snapshot and
// the variants (kid strategies) each must appear with.
var wantKeyTypes = []struct {
	class    Class
	keyType  string
	variants []string
}{
	{AEAD, "aesgcm", []string{VTink, VCrunchy, VRaw}},
	{AEAD, "aesctrhmac", []string{VTink, VCrunchy, VRaw}},
	{AEAD, "aesgcmsiv", []string{VTink, VCrunchy, VRaw}},
	{AEAD, "chacha20poly1305", []string{VTink, VCrunchy, VRaw}},
	{AEAD, "xchacha20poly1305", []string{VTink, VCrunchy, VRaw}},
	{AEAD, "xaesgcm", []string{VTink, VRaw}},
	{DAEAD, "aessiv", []string{VTink, VCrunchy, VRaw}},
	{MAC, "hmac", []string{VTink, VCrunchy, VLegacy, VRaw}},
	{MAC, "aescmac", []string{VTink, VCrunchy, VLegacy, VRaw}},
	{PRF, "hmacprf", []string{VNone}},
	{PRF, "hkdfprf", []string{VNone}},
	{PRF, "aescmacprf", []string{VNone}},
	{Signature, "ecdsa", []string{VTink, VCrunchy, VLegacy, VRaw}},
	{Signature, "ed25519", []string{VTink, VCrunchy, VLegacy, VRaw}},
	{Signature, "rsassapkcs1", []string{VTink, VCrunchy, VLegacy, VRaw}},
	{Signature, "rsassapss", []string{VTink, VCrunchy, VLegacy, VRaw}},
	{Signature, "mldsa", []string{VTink, VRaw, VRawPrehashID}},
	{Signature, "slhdsa", []string{VTink, VRaw}},
	{Signature, "compositemldsa", []string{VTink, VRaw}},
	{Hybrid, "hpke", []string{VTink, VCrunchy, VRaw}},
	{Hybrid, "ecies", []string{VTink, VCrunchy, VRaw}},
	{JWTMAC, "jwthmac", []string{KIDBase64, KIDIgnored}},
	{JWTSignature, "jwtecdsa", []string{KIDBase64, KIDIgnored}},
	{JWTSignature, "jwtrsassapkcs1", []string{KIDBase64, KIDIgnored}},
	{JWTSignature, "jwtrsassapss", []string{KIDBase64, KIDIgnored}},
	{JWTSignature, "jwtmldsa", []string{KIDBase64, KIDIgnored}},
	{StreamingAEAD, "aesgcmhkdf", []string{VNone}},
	{StreamingAEAD, "aesctrhmac", []string{VNone}},
	{KeyDerivation, "prfbasedkeyderivation", []string{VTink, VCrunchy, VLegacy, VRaw, VNone}},
}

func TestInventory(t *testing.T) {
	es := All()
	if len(es) == 0 || len(es) > 600 {
		t.Fatalf("catalog has %d entries, want 1..600", len(es))
	}
	if r := Refused(); len(r) != 0 {
		t.Errorf("constructors refused %d candidate combinations (tables should only hold accepted ones):\n%s", len(r), strings.Join(r, "\n"))
	}
	seen := map[string]bool{}
	perClass := map[Class]int{}
	have := map[string]map[string]bool{}
	for i, e := range es {
		if seen[e.Name] {
			t.Errorf("duplicate name %s", e.Name)
		}
		seen[e.Name] = true
		if want := string(e.Class) + "/" + e.KeyType + "/"; !strings.HasPrefix(e.Name, want) || !strings.HasSuffix(e.Name, "/"+e.Variant) {
			t.Errorf("name %q does not spell class/keytype/…/variant (%s, %s, %s)", e.Name, e.Class, e.KeyType, e.Variant)
		}
		if e.Params == nil {
			t.Fatalf("%s: nil Params", e.Name)
		}
		if e.HasIDReq != e.Params.HasIDRequirement() {
			t.Errorf("%s: HasIDReq=%v, Params say %v", e.Name, e.HasIDReq, e.Params.HasIDRequirement())
		}
		if noID := e.Variant == VRaw || e.Variant == VNone || e.Variant == KIDIgnored; noID == e.HasIDReq {
			t.Errorf("%s: variant %s but HasIDReq=%v", e.Name, e.Variant, e.HasIDReq)
		}
		if e.Cost < 0 || e.Cost > 2 {
			t.Errorf("%s: Cost %d", e.Name, e.Cost)
		}
		if f, ok := Find(e.Name); !ok || f.Name != e.Name || f.Params != e.Params {
			t.Errorf("Find(%s) does not return the entry", e.Name)
		}
		// Two different entries must not carry equal parameters.
		for _, o := range es[:i] {
			if reflect.TypeOf(o.Params) == reflect.TypeOf(e.Params) && o.Params.Equal(e.Params) {
				t.Errorf("%s and %s carry equal parameters", o.Name, e.Name)
			}
		}
		perClass[e.Class]++
		kt := string(e.Class) + "/" + e.KeyType
		if have[kt] == nil {
			have[kt] = map[string]bool{}
		}
		have[kt][e.Variant] = true
	}
	if _, ok := Find("no/such/entry"); ok {
		t.Errorf("Find of an unknown name succeeded")
	}

	// deterministic order, caller-owned slice
	again := All()
	again[0].Name = "clobbered"
	for i, e := range All() {
		if e.Name != es[i].Name {
			t.Fatalf("All() is not stable at %d: %s vs %s", i, e.Name, es[i].Name)
		}
	}
	total := 0
	for _, c := range Classes() {
		l := ByClass(c)
		if len(l) == 0 {
			t.Errorf("class %s is empty", c)
		}
		for _, e := range l {
			if e.Class != c {
				t.Errorf("ByClass(%s) returned %s", c, e.Name)
			}
		}
		total += len(l)
		t.Logf("class %-14s %3d entries", c, len(l))
	}
	if total != len(es) {
		t.Errorf("classes sum to %d, All() has %d", total, len(es))
	}
	t.Logf("total %d entries", len(es))

	// coverage contract
	wantSet := map[string]bool{}
	for _, w := range wantKeyTypes {
		kt := string(w.class) + "/" + w.keyType
		wantSet[kt] = true
		for _, v := range w.variants {
			if !have[kt][v] {
				t.Errorf("key type %s has no %s entry", kt, v)
			}
		}
		if len(have[kt]) != len(w.variants) {
			t.Errorf("key type %s has variants %v, want exactly %v", kt, keys(have[kt]), w.variants)
		}
	}
	for kt := range have {
		if !wantSet[kt] {
			t.Errorf("key type %s is in the catalog but not in the coverage contract", kt)
		}
	}
}

func keys(m map[string]bool) []string {
	var l []string
	for k := range m {
		l = append(l, k)
	}
	sort.Strings(l)
	return l
}

func TestEntries(t *testing.T) {
	for idx, e := range All() {
		t.Run(e.Name, func(t *testing.T) {
			t.Parallel()
			k, err := NewKey(e)
			if err != nil {
				t.Fatalf("NewKey: %v", err)
			}
			if !k.Parameters().Equal(e.Params) {
				t.Fatalf("NewKey: parameters %v differ from the entry's %v", k.Parameters(), e.Params)
			}
			if _, req := k.IDRequirement(); req != e.HasIDReq {
				t.Fatalf("NewKey: IDRequirement required=%v, entry says %v", req, e.HasIDReq)
			}

			use := k
			const wantID = 0x5a17c0de
			pk, ok, err := PoolKey(e, idx, wantID)
			if ok != Pooled(e) || Pooled(e) != (e.Cost == 2 || e.RSABased()) {
				t.Fatalf("PoolKey ok=%v, Pooled=%v, Cost=%d, RSABased=%v", ok, Pooled(e), e.Cost, e.RSABased())
			}
			if !ok {
				if pk != nil || err != nil {
					t.Fatalf("PoolKey of an unpooled entry returned (%v, %v)", pk, err)
				}
			} else {
				if err != nil {
					t.Fatalf("PoolKey: %v", err)
				}
				if !pk.Parameters().Equal(e.Params) {
					t.Fatalf("PoolKey: parameters %v differ from the entry's %v", pk.Parameters(), e.Params)
				}
				id, req := pk.IDRequirement()
				if req != e.HasIDReq || (req && id != wantID) {
					t.Fatalf("PoolKey: IDRequirement = (%#x, %v), want (%#x, %v)", id, req, wantID, e.HasIDReq)
				}
				if n := PoolSize(e); n < 3 {
					t.Fatalf("PoolSize = %d, want >= 3", n)
				} else {
					// distinct keys inside the pool, same key modulo the size
					a, _, _ := PoolKey(e, 0, wantID)
					b, _, _ := PoolKey(e, 1, wantID)
					c, _, _ := PoolKey(e, n, wantID)
					if a.Equal(b) {
						t.Fatalf("pool keys 0 and 1 are equal")
					}
					if !a.Equal(c) {
						t.Fatalf("pool keys 0 and %d (= pool size) differ", n)
					}
				}
				if pk.Equal(k) {
					t.Fatalf("pool key equals the freshly generated key")
				}
				use = pk // the generated key only had to exist; the pool key is what gets exercised
			}
			// The round trip is run for the slow entries too (SLH-DSA "s" signing
			// is 1–2 s, but there are only twelve of them and subtests are parallel).
			if err := exercise(e, use, true); err != nil {
				t.Fatal(err)
			}
		})
	}
}

// exercise builds the class's primitive from a one-key keyset of k through
// the public factory and, if ops is set, runs one produce/consume round trip
// and checks Entry.Randomized against two produce calls on the same input.
func exercise(e Entry, k key.Key, ops bool) error {
	h, err := HandleOf(k)
	if err != nil {
		return fmt.Errorf("HandleOf: %v", err)
	}
	if h.Len() != 1 {
		return fmt.Errorf("handle has %d keys", h.Len())
	}
	msg := []byte("catalog test message")
	ctx := []byte("catalog context")
	var out1, out2 []byte
	switch e.Class {
	case AEAD:
		p, err := aead.New(h)
		if err != nil {
			return fmt.Errorf("aead.New: %v", err)
		}
		if !ops {
			return nil
		}
		if out1, err = p.Encrypt(msg, ctx); err != nil {
			return err
		}
		if out2, err = p.Encrypt(msg, ctx); err != nil {
			return err
		}
		if pt, err := p.Decrypt(out1, ctx); err != nil || !bytes.Equal(pt, msg) {
			return fmt.Errorf("Decrypt: %v", err)
		}
	case DAEAD:
		p, err := daead.New(h)
		if err != nil {
			return fmt.Errorf("daead.New: %v", err)
		}
		if !ops {
			return nil
		}
		if out1, err = p.EncryptDeterministically(msg, ctx); err != nil {
			return err
		}
		if out2, err = p.EncryptDeterministically(msg, ctx); err != nil {
			return err
		}
		if pt, err := p.DecryptDeterministically(out1, ctx); err != nil || !bytes.Equal(pt, msg) {
			return fmt.Errorf("DecryptDeterministically: %v", err)
		}
	case MAC:
		p, err := mac.New(h)
		if err != nil {
			return fmt.Errorf("mac.New: %v", err)
		}
		if !ops {
			return nil
		}
		if out1, err = p.ComputeMAC(msg); err != nil {
			return err
		}
		if out2, err = p.ComputeMAC(msg); err != nil {
			return err
		}
		if err := p.VerifyMAC(out1, msg); err != nil {
			return fmt.Errorf("VerifyMAC: %v", err)
		}
	case PRF:
		p, err := prf.NewPRFSet(h)
		if err != nil {
			return fmt.Errorf("prf.NewPRFSet: %v", err)
		}
		if !ops {
			return nil
		}
		if out1, err = p.ComputePrimaryPRF(msg, 16); err != nil {
			return err
		}
		if out2, err = p.ComputePrimaryPRF(msg, 16); err != nil {
			return err
		}
	case Signature:
		s, err := signature.NewSigner(h)
		if err != nil {
			return fmt.Errorf("signature.NewSigner: %v", err)
		}
		pub, err := h.Public()
		if err != nil {
			return fmt.Errorf("Public: %v", err)
		}
		v, err := signature.NewVerifier(pub)
		if err != nil {
			return fmt.Errorf("signature.NewVerifier: %v", err)
		}
		if !ops {
			return nil
		}
		if out1, err = s.Sign(msg); err != nil {
			return err
		}
		if out2, err = s.Sign(msg); err != nil {
			return err
		}
		if err := v.Verify(out1, msg); err != nil {
			return fmt.Errorf("Verify: %v", err)
		}
	case Hybrid:
		pub, err := h.Public()
		if err != nil {
			return fmt.Errorf("Public: %v", err)
		}
		enc, err := hybrid.NewHybridEncrypt(pub)
		if err != nil {
			return fmt.Errorf("hybrid.NewHybridEncrypt: %v", err)
		}
		dec, err := hybrid.NewHybridDecrypt(h)
		if err != nil {
			return fmt.Errorf("hybrid.NewHybridDecrypt: %v", err)
		}
		if !ops {
			return nil
		}
		if out1, err = enc.Encrypt(msg, ctx); err != nil {
			return err
		}
		if out2, err = enc.Encrypt(msg, ctx); err != nil {
			return err
		}
		if pt, err := dec.Decrypt(out1, ctx); err != nil || !bytes.Equal(pt, msg) {
			return fmt.Errorf("Decrypt: %v", err)
		}
	case JWTMAC, JWTSignature:
		sub := "catalog"
		raw, err := jwt.NewRawJWT(&jwt.RawJWTOptions{Subject: &sub, WithoutExpiration: true})
		if err != nil {
			return err
		}
		val, err := jwt.NewValidator(&jwt.ValidatorOpts{AllowMissingExpiration: true})
		if err != nil {
			return err
		}
		var s1, s2 string
		if e.Class == JWTMAC {
			p, err := jwt.NewMAC(h)
			if err != nil {
				return fmt.Errorf("jwt.NewMAC: %v", err)
			}
			if !ops {
				return nil
			}
			if s1, err = p.ComputeMACAndEncode(raw); err != nil {
				return err
			}
			if s2, err = p.ComputeMACAndEncode(raw); err != nil {
				return err
			}
			if _, err := p.VerifyMACAndDecode(s1, val); err != nil {
				return fmt.Errorf("VerifyMACAndDecode: %v", err)
			}
		} else {
			s, err := jwt.NewSigner(h)
			if err != nil {
				return fmt.Errorf("jwt.NewSigner: %v", err)
			}
			pub, err := h.Public()
			if err != nil {
				return fmt.Errorf("Public: %v", err)
			}
			v, err := jwt.NewVerifier(pub)
			if err != nil {
				return fmt.Errorf("jwt.NewVerifier: %v", err)
			}
			if !ops {
				return nil
			}
			if s1, err = s.SignAndEncode(raw); err != nil {
				return err
			}
			if s2, err = s.SignAndEncode(raw); err != nil {
				return err
			}
			if _, err := v.VerifyAndDecode(s1, val); err != nil {
				return fmt.Errorf("VerifyAndDecode: %v", err)
			}
		}
		if hasKID := strings.Contains(headerOf(s1), `"kid"`); hasKID != (e.Variant == KIDBase64) {
			return fmt.Errorf("token header %s, kid strategy %s", headerOf(s1), e.Variant)
		}
		out1, out2 = []byte(s1), []byte(s2)
	case StreamingAEAD:
		p, err := streamingaead.New(h)
		if err != nil {
			return fmt.Errorf("streamingaead.New: %v", err)
		}
		if !ops {
			return nil
		}
		long := bytes.Repeat(msg, 40) // several segments for the small segment sizes
		produce := func() ([]byte, error) {
			var buf bytes.Buffer
			w, err := p.NewEncryptingWriter(&buf, ctx)
			if err != nil {
				return nil, err
			}
			if _, err := w.Write(long); err != nil {
				return nil, err
			}
			if err := w.Close(); err != nil {
				return nil, err
			}
			return buf.Bytes(), nil
		}
		if out1, err = produce(); err != nil {
			return err
		}
		if out2, err = produce(); err != nil {
			return err
		}
		r, err := p.NewDecryptingReader(bytes.NewReader(out1), ctx)
		if err != nil {
			return err
		}
		if pt, err := io.ReadAll(r); err != nil || !bytes.Equal(pt, long) {
			return fmt.Errorf("decrypting reader: %v", err)
		}
	case KeyDerivation:
		p, err := keyderivation.New(h)
		if err != nil {
			return fmt.Errorf("keyderivation.New: %v", err)
		}
		if !ops {
			return nil
		}
		d1, err := p.DeriveKeyset(msg)
		if err != nil {
			return err
		}
		d2, err := p.DeriveKeyset(msg)
		if err != nil {
			return err
		}
		e1, _ := d1.Entry(0)
		e2, _ := d2.Entry(0)
		want := e.Params.(*prfbasedkeyderivation.Parameters).DerivedKeyParameters()
		if !e1.Key().Parameters().Equal(want) {
			return fmt.Errorf("derived key has parameters %v, want %v", e1.Key().Parameters(), want)
		}
		out1, out2 = []byte{1}, []byte{1}
		if !e1.Key().Equal(e2.Key()) {
			out2 = []byte{2}
		}
	default:
		return fmt.Errorf("unknown class %s", e.Class)
	}
	if differs := !bytes.Equal(out1, out2); differs != e.Randomized {
		return fmt.Errorf("Randomized=%v but two produce calls on the same input differ=%v", e.Randomized, differs)
	}
	return nil
}

func headerOf(compact string) string {
	h, _, _ := strings.Cut(compact, ".")
	b, err := base64.RawURLEncoding.DecodeString(h)
	if err != nil {
		return "?"
	}
	return string(b)
}

// countingReader is swapped in for crypto/rand.Reader.
type countingReader struct {
	r     io.Reader
	reads atomic.Int64
	bytes atomic.Int64
}

func (c *countingReader) Read(p []byte) (int, error) {
	c.reads.Add(1)
	c.bytes.Add(int64(len(p)))
	return c.r.Read(p)
}

// TestPoolKeyRNG pins down what "never touches the RNG" means for PoolKey:
// zero reads of crypto/rand.Reader, except the PSS salt the library's own
// rsassapss.NewPrivateKey self-check draws. Not parallel: it swaps the
// global reader.
func TestPoolKeyRNG(t *testing.T) {
	orig := rand.Reader
	cr := &countingReader{r: orig}
	rand.Reader = cr
	defer func() { rand.Reader = orig }()
	var pooled, drawing int
	for _, e := range All() {
		if !Pooled(e) {
			continue
		}
		pooled++
		r0, b0 := cr.reads.Load(), cr.bytes.Load()
		if _, _, err := PoolKey(e, 1, 7); err != nil {
			t.Fatalf("%s: %v", e.Name, err)
		}
		reads, n := cr.reads.Load()-r0, cr.bytes.Load()-b0
		want := int64(pssSelfCheckSalt(e))
		if n != want {
			t.Errorf("%s: PoolKey drew %d bytes in %d reads from crypto/rand.Reader, want %d", e.Name, n, reads, want)
		}
		if n > 0 {
			drawing++
		}
	}
	t.Logf("%d pooled entries; %d of them (RSA-PSS) draw the self-check salt inside the library constructor, the rest draw nothing", pooled, drawing)
}

// pssSelfCheckSalt is the number of salt bytes the library's RSA-SSA-PSS
// NewPrivateKey self-check draws for e.
func pssSelfCheckSalt(e Entry) int {
	switch e.KeyType {
	case "rsassapss":
		p := e.Params.(*rsassapss.Parameters)
		if p.SaltLengthBytes() == 0 {
			// crypto/rsa reads SaltLength 0 as PSSSaltLengthAuto: the signer uses
			// the longest salt that fits, emLen - hLen - 2.
			hLen := map[rsassapss.HashType]int{rsassapss.SHA256: 32, rsassapss.SHA384: 48, rsassapss.SHA512: 64}[p.SigHashType()]
			return p.ModulusSizeBits()/8 - hLen - 2
		}
		return p.SaltLengthBytes()
	case "compositemldsa":
		switch {
		case strings.Contains(e.Name, "RSA3072PSS"):
			return 32
		case strings.Contains(e.Name, "RSA4096PSS"):
			return 48
		}
	}
	return 0 // jwtrsassapss.NewPrivateKey runs no self-check
}

// TestLeftOut documents, executably, the combinations the constructors accept
// but the key-generation path refuses (or silently turns into something
// else); they are the reason the corresponding tables in catalog.go are
// narrower than the constructors.
func TestLeftOut(t *testing.T) {
	type c struct {
		name string
		p    key.Parameters
		err  error
	}
	mk := func(name string) func(p key.Parameters, err error) c {
		return func(p key.Parameters, err error) c { return c{name, p, err} }
	}
	acp16, acpErr := aescmacprf.NewParameters(16)
	var cases = []c{
		mk("aessiv k32")(aessiv.NewParameters(32, aessiv.VariantTink)),
		mk("aessiv k48")(aessiv.NewParameters(48, aessiv.VariantTink)),
		mk("aescmac k16")(aescmac.NewParameters(aescmac.ParametersOpts{KeySizeInBytes: 16, TagSizeInBytes: 16, Variant: aescmac.VariantTink})),
		mk("aescmacprf k16")(&acp16, acpErr),
		mk("hkdfprf k16")(hkdfprf.NewParameters(16, hkdfprf.SHA256, nil)),
		mk("hkdfprf SHA1")(hkdfprf.NewParameters(32, hkdfprf.SHA1, nil)),
		mk("hkdfprf SHA224")(hkdfprf.NewParameters(32, hkdfprf.SHA224, nil)),
		mk("hkdfprf SHA384")(hkdfprf.NewParameters(32, hkdfprf.SHA384, nil)),
		mk("aesgcm k24")(aesgcm.NewParameters(aesgcm.ParametersOpts{KeySizeInBytes: 24, IVSizeInBytes: 12, TagSizeInBytes: 16, Variant: aesgcm.VariantTink})),
		mk("aesgcm iv16")(aesgcm.NewParameters(aesgcm.ParametersOpts{KeySizeInBytes: 16, IVSizeInBytes: 16, TagSizeInBytes: 16, Variant: aesgcm.VariantTink})),
		mk("aesgcm tag12")(aesgcm.NewParameters(aesgcm.ParametersOpts{KeySizeInBytes: 16, IVSizeInBytes: 12, TagSizeInBytes: 12, Variant: aesgcm.VariantTink})),
		mk("streaming aesgcmhkdf k48")(aesgcmhkdf.NewParameters(aesgcmhkdf.ParametersOpts{KeySizeInBytes: 48, DerivedKeySizeInBytes: 32, HKDFHashType: aesgcmhkdf.SHA256, SegmentSizeInBytes: 4096})),
		mk("streaming aesctrhmac hkdf SHA1")(saesctrhmac.NewParameters(saesctrhmac.ParametersOpts{KeySizeInBytes: 16, DerivedKeySizeInBytes: 16, HkdfHashType: saesctrhmac.SHA1, HmacHashType: saesctrhmac.SHA256, HmacTagSizeInBytes: 16, SegmentSizeInBytes: 4096})),
		mk("streaming aesctrhmac hmac SHA1")(saesctrhmac.NewParameters(saesctrhmac.ParametersOpts{KeySizeInBytes: 16, DerivedKeySizeInBytes: 16, HkdfHashType: saesctrhmac.SHA256, HmacHashType: saesctrhmac.SHA1, HmacTagSizeInBytes: 16, SegmentSizeInBytes: 4096})),
		mk("jwtecdsa custom kid")(jwtecdsa.NewParameters(jwtecdsa.CustomKID, jwtecdsa.ES256)),
	}
	for _, tc := range cases {
		if tc.err != nil {
			t.Errorf("%s: the constructor now refuses it: %v", tc.name, tc.err)
			continue
		}
		k, err := NewKey(Entry{Name: tc.name, Params: tc.p})
		switch {
		case err != nil:
			t.Logf("left out: %-34s refused: %v", tc.name, err)
		case !k.Parameters().Equal(tc.p):
			// The parameters do not survive the key-template round trip the
			// manager performs, so what is generated is a different key type.
			t.Logf("left out: %-34s generates a key with other parameters: %v", tc.name, k.Parameters())
		default:
			t.Errorf("%s: key generation now yields exactly these parameters; widen the catalog table", tc.name)
		}
	}

	// Key generation works but the class factory refuses the key.
	dems := eciesDEMs()
	for _, tc := range []c{
		mk("ecies X25519")(ecies.NewParameters(ecies.ParametersOpts{CurveType: ecies.X25519, HashType: ecies.SHA256,
			NISTCurvePointFormat: ecies.UnspecifiedPointFormat, DEMParameters: dems[0].v, Variant: ecies.VariantTink})),
		mk("ecies XChaCha20-Poly1305 DEM")(ecies.NewParameters(ecies.ParametersOpts{CurveType: ecies.NISTP256, HashType: ecies.SHA256,
			NISTCurvePointFormat: ecies.UncompressedPointFormat, DEMParameters: dems[3].v, Variant: ecies.VariantTink})),
	} {
		if tc.err != nil {
			t.Errorf("%s: the constructor now refuses it: %v", tc.name, tc.err)
			continue
		}
		e := Entry{Name: tc.name, Class: Hybrid, Params: tc.p, Randomized: true}
		k, err := NewKey(e)
		if err != nil || !k.Parameters().Equal(tc.p) {
			t.Errorf("%s: key generation: %v", tc.name, err)
			continue
		}
		if err := exercise(e, k, true); err == nil {
			t.Errorf("%s: the hybrid factories now accept it; add it to the catalog", tc.name)
		} else {
			t.Logf("left out: %-34s key generates, but %v", tc.name, err)
		}
	}
}

// TestCalibrate measures keygen + one produce operation per entry and
// compares the bucket with Entry.Cost. It only runs with CATALOG_CALIBRATE=1
// (serial, ~3 minutes) and is how cost.go was derived.
func TestCalibrate(t *testing.T) {
	if os.Getenv("CATALOG_CALIBRATE") == "" {
		t.Skip("set CATALOG_CALIBRATE=1 to measure")
	}
	const reps = 3
	type row struct {
		name     string
		keygen   time.Duration
		op       time.Duration
		declared int
	}
	var rows []row
	for _, e := range All() {
		var ks, ops []time.Duration
		for r := 0; r < reps; r++ {
			t0 := time.Now()
			k, err := NewKey(e)
			if err != nil {
				t.Fatalf("%s: %v", e.Name, err)
			}
			t1 := time.Now()
			if err := produceOnce(e, k); err != nil {
				t.Fatalf("%s: %v", e.Name, err)
			}
			t2 := time.Now()
			ks, ops = append(ks, t1.Sub(t0)), append(ops, t2.Sub(t1))
		}
		// median, except RSA key generation (geometric-ish run time): mean
		sort.Slice(ks, func(i, j int) bool { return ks[i] < ks[j] })
		sort.Slice(ops, func(i, j int) bool { return ops[i] < ops[j] })
		kg := ks[reps/2]
		if e.RSABased() {
			kg = (ks[0] + ks[1] + ks[2]) / 3
		}
		rows = append(rows, row{e.Name, kg, ops[reps/2], e.Cost})
	}
	bad := 0
	for _, r := range rows {
		tot := r.keygen + r.op
		// "well under 1 ms" is read as < 0.8 ms; 0.8–1 ms may be declared 0 or 1.
		lo, hi := 0, 0
		switch {
		case tot >= 20*time.Millisecond:
			lo, hi = 2, 2
		case tot >= time.Millisecond:
			lo, hi = 1, 1
		case tot >= 800*time.Microsecond:
			lo, hi = 0, 1
		}
		flag := ""
		if r.declared < lo || r.declared > hi {
			flag = "  <-- declared differs"
			bad++
		}
		t.Logf("%-90s keygen %10.3fms op %10.3fms total %10.3fms measured %d..%d declared %d%s", r.name,
			float64(r.keygen.Microseconds())/1000, float64(r.op.Microseconds())/1000, float64(tot.Microseconds())/1000, lo, hi, r.declared, flag)
	}
	t.Logf("%d of %d entries measured outside their declared bucket", bad, len(rows))
	if bad*50 > len(rows) { // a stray outlier on a busy machine is noise; 2% is not
		t.Errorf("cost.go no longer matches this machine")
	}
}

// produceOnce builds the primitive and runs the producing operation once
// (primitive construction is part of "one op": it is what a caller pays).
func produceOnce(e Entry, k key.Key) error {
	h, err := HandleOf(k)
	if err != nil {
		return err
	}
	msg := []byte("catalog test message")
	switch e.Class {
	case AEAD:
		p, err := aead.New(h)
		if err != nil {
			return err
		}
		_, err = p.Encrypt(msg, nil)
		return err
	case DAEAD:
		p, err := daead.New(h)
		if err != nil {
			return err
		}
		_, err = p.EncryptDeterministically(msg, nil)
		return err
	case MAC:
		p, err := mac.New(h)
		if err != nil {
			return err
		}
		_, err = p.ComputeMAC(msg)
		return err
	case PRF:
		p, err := prf.NewPRFSet(h)
		if err != nil {
			return err
		}
		_, err = p.ComputePrimaryPRF(msg, 16)
		return err
	case Signature:
		p, err := signature.NewSigner(h)
		if err != nil {
			return err
		}
		_, err = p.Sign(msg)
		return err
	case Hybrid:
		pub, err := h.Public()
		if err != nil {
			return err
		}
		p, err := hybrid.NewHybridEncrypt(pub)
		if err != nil {
			return err
		}
		_, err = p.Encrypt(msg, nil)
		return err
	case JWTMAC, JWTSignature:
		sub := "catalog"
		raw, err := jwt.NewRawJWT(&jwt.RawJWTOptions{Subject: &sub, WithoutExpiration: true})
		if err != nil {
			return err
		}
		if e.Class == JWTMAC {
			p, err := jwt.NewMAC(h)
			if err != nil {
				return err
			}
			_, err = p.ComputeMACAndEncode(raw)
			return err
		}
		p, err := jwt.NewSigner(h)
		if err != nil {
			return err
		}
		_, err = p.SignAndEncode(raw)
		return err
	case StreamingAEAD:
		p, err := streamingaead.New(h)
		if err != nil {
			return err
		}
		var buf bytes.Buffer
		w, err := p.NewEncryptingWriter(&buf, nil)
		if err != nil {
			return err
		}
		if _, err := w.Write(msg); err != nil {
			return err
		}
		return w.Close()
	case KeyDerivation:
		p, err := keyderivation.New(h)
		if err != nil {
			return err
		}
		_, err = p.DeriveKeyset(msg)
		return err
	}
	return fmt.Errorf("unknown class %s", e.Class)
}
