package catalog

import (
	"github.com/tink-crypto/tink-go/v2/signature/rsassapss"
)

// Quirk names a known oddity of the pinned tink-go snapshot for an entry ("" = none), so that worlds whose
// property it does not concern can steer around it instead of tripping over it:
//
//   - "unserializable-salt0": rsassapss with SaltLengthBytes 0 — parameters and key generation accept it, key
//     serialization refuses it, and Handle.KeysetInfo()/String() (and Manager.Handle() with annotations) panic
//     (recorded under C05 in /verif/known_findings.json).
func Quirk(e Entry) string {
	if p, ok := e.Params.(*rsassapss.Parameters); ok && p.SaltLengthBytes() == 0 {
		return "unserializable-salt0"
	}
	return ""
}
