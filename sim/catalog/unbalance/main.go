// Command unbalance replaces the LAST key of every RSA group of the embedded pool by a key of the same modulus size
// whose primes have unequal byte lengths (q longer than p) — legal, accepted by tink and by crypto/rsa, but never
// produced by rsa.GenerateKey — so that every world drawing pooled RSA keys also meets this encoding corner.
//
//	cd /verif/sim && go1.26.8 run ./catalog/unbalance
package main

import (
	"crypto/rand"
	"encoding/hex"
	"encoding/json"
	"fmt"
	"math/big"
	"os"
	"strconv"
	"strings"
)

func main() {
	path := "catalog/pooldata/pool.json"
	b, err := os.ReadFile(path)
	if err != nil {
		panic(err)
	}
	var pf map[string]json.RawMessage
	if err := json.Unmarshal(b, &pf); err != nil {
		panic(err)
	}
	var rsa map[string][]map[string]string
	if err := json.Unmarshal(pf["rsa"], &rsa); err != nil {
		panic(err)
	}
	e := big.NewInt(65537)
	one := big.NewInt(1)
	for g, keys := range rsa {
		bits, _ := strconv.Atoi(g[strings.LastIndexByte(g, '/')+1:])
		for {
			p, _ := rand.Prime(rand.Reader, bits/2-24)
			q, _ := rand.Prime(rand.Reader, bits/2+24)
			n := new(big.Int).Mul(p, q)
			if n.BitLen() != bits {
				continue
			}
			phi := new(big.Int).Mul(new(big.Int).Sub(p, one), new(big.Int).Sub(q, one))
			d := new(big.Int).ModInverse(e, phi)
			if d == nil {
				continue
			}
			keys[len(keys)-1] = map[string]string{"n": hex.EncodeToString(n.Bytes()), "p": hex.EncodeToString(p.Bytes()), "q": hex.EncodeToString(q.Bytes()), "d": hex.EncodeToString(d.Bytes())}
			fmt.Fprintf(os.Stderr, "%s: last key now has a %d-byte p and a %d-byte q\n", g, len(p.Bytes()), len(q.Bytes()))
			break
		}
	}
	pf["rsa"], _ = json.Marshal(rsa)
	out, _ := json.MarshalIndent(pf, "", " ")
	if err := os.WriteFile(path, append(out, '\n'), 0o644); err != nil {
		panic(err)
	}
}
