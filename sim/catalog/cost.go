package catalog

// costOf is filled in from measurements (see TestCalibrate).
func costOf(e Entry) int { return 0 }
