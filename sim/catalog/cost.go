package catalog

import (
	"github.com/tink-crypto/tink-go/v2/hybrid/ecies"
	"github.com/tink-crypto/tink-go/v2/hybrid/hpke"
	"github.com/tink-crypto/tink-go/v2/jwt/jwtecdsa"
	"github.com/tink-crypto/tink-go/v2/signature/ecdsa"
)

// costOf assigns Entry.Cost: the bucket of (NewKey + build the primitive + one
// produce operation) on the harness machine, 0: well under 1 ms, 1: 1–20 ms,
// 2: slower.
//
// The rules below are a transcription of one serial measurement of every
// entry (CATALOG_CALIBRATE=1 go test -run TestCalibrate -v ./catalog/, Go
// 1.26.8, linux/amd64), not estimates:
//
//	RSA-based (2048/3072/4096, incl. JWT and composite)  keygen 30–1500 ms (mean), sign 1–21 ms   → 2
//	SLH-DSA "s" sets                                      keygen 95–255 ms, sign 0.85–2.3 s        → 2
//	SLH-DSA "f" sets                                      keygen 1.3–10 ms, sign 41–215 ms         → 2
//	ML-DSA-44/65/87, JWT ML-DSA                           keygen 0.3–1.2 ms, sign 0.6–2.7 ms       → 1
//	composite ML-DSA with Ed25519/ECDSA                   1.7–5.3 ms                               → 1
//	ECDSA P-521, JWT ES512                                1.2–2.4 ms                               → 1
//	HPKE / ECIES on P-521                                 2.2–2.4 ms                               → 1
//	HPKE / ECIES on P-384                                 0.83–1.14 ms (not "well under" 1 ms)     → 1
//	everything else (incl. ECDSA P-256/P-384 ≤ 0.54 ms, X-Wing / ML-KEM HPKE ≤ 0.5 ms,
//	X25519/P-256 hybrid, all symmetric, streaming, key derivation)                                  → 0
func costOf(e Entry) int {
	if rsaBits(e) != 0 {
		return 2
	}
	switch e.KeyType {
	case "slhdsa":
		return 2
	case "mldsa", "jwtmldsa", "compositemldsa":
		return 1
	}
	switch p := e.Params.(type) {
	case *ecdsa.Parameters:
		if p.CurveType() == ecdsa.NistP521 {
			return 1
		}
	case *jwtecdsa.Parameters:
		if p.Algorithm() == jwtecdsa.ES512 {
			return 1
		}
	case *hpke.Parameters:
		if k := p.KEMID(); k == hpke.DHKEM_P384_HKDF_SHA384 || k == hpke.DHKEM_P521_HKDF_SHA512 {
			return 1
		}
	case *ecies.Parameters:
		if c := p.CurveType(); c == ecies.NISTP384 || c == ecies.NISTP521 {
			return 1
		}
	}
	return 0
}
