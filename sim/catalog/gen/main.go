// Command gen regenerates the embedded key pool of package catalog.
//
//	cd /verif/sim && go1.26.8 run ./catalog/gen
//
// It generates catalog.PoolKeysPerGroup keys for every pool group through the
// library's real key-generation path (about a minute, dominated by RSA-4096)
// and overwrites catalog/pooldata/pool.json. The file must already exist for
// the package to compile (it is embedded); `echo '{}' > catalog/pooldata/pool.json`
// is enough to bootstrap.
package main

import (
	"flag"
	"fmt"
	"os"
	"path/filepath"
	"runtime"

	"github.com/tink-crypto/tink-go/v2/verifsim/catalog"
)

func main() {
	_, self, _, _ := runtime.Caller(0)
	def := filepath.Join(filepath.Dir(filepath.Dir(self)), "pooldata", "pool.json")
	out := flag.String("o", def, "output file")
	n := flag.Int("n", catalog.PoolKeysPerGroup, "keys per group")
	flag.Parse()
	b, err := catalog.GeneratePool(*n, func(s string) { fmt.Fprintln(os.Stderr, "gen:", s) })
	if err != nil {
		fmt.Fprintln(os.Stderr, "gen: FAILED:", err)
		os.Exit(1)
	}
	if err := os.WriteFile(*out, append(b, '\n'), 0o644); err != nil {
		fmt.Fprintln(os.Stderr, "gen: FAILED:", err)
		os.Exit(1)
	}
	fmt.Fprintf(os.Stderr, "gen: wrote %s (%d bytes)\n", *out, len(b)+1)
}
