package catalog

import (
	_ "embed"
	"encoding/hex"
	"encoding/json"
	"fmt"
	"sort"
	"sync"

	"github.com/tink-crypto/tink-go/v2/insecuresecretdataaccess"
	internalcompmldsa "github.com/tink-crypto/tink-go/v2/internal/signature/compositemldsa"
	"github.com/tink-crypto/tink-go/v2/jwt/jwtrsassapkcs1"
	"github.com/tink-crypto/tink-go/v2/jwt/jwtrsassapss"
	"github.com/tink-crypto/tink-go/v2/key"
	"github.com/tink-crypto/tink-go/v2/secretdata"
	"github.com/tink-crypto/tink-go/v2/signature/compositemldsa"
	"github.com/tink-crypto/tink-go/v2/signature/mldsa"
	"github.com/tink-crypto/tink-go/v2/signature/rsassapkcs1"
	"github.com/tink-crypto/tink-go/v2/signature/rsassapss"
	"github.com/tink-crypto/tink-go/v2/signature/slhdsa"
)

// The embedded pool. It holds raw private key material only, so that one
// stored key can be re-keyed to the exact Parameters of any entry of its
// group (same key type and modulus size / parameter set) with any ID:
//
//	rsa["<keytype>/<bits>"]   RSA private keys as big-endian hex n, p, q, d (e = 65537);
//	                          keytype ∈ rsassapkcs1, rsassapss, jwtrsassapkcs1,
//	                          jwtrsassapss, compositemldsa; bits ∈ 2048, 3072, 4096
//	slhdsa["<HASH>-<n>{s,f}"] SLH-DSA private key bytes (hex), all twelve sets
//	mldsa["MLDSA<k>"]         ML-DSA 32-byte seeds (hex), k ∈ 44, 65, 87; the ML-DSA half of composite keys
//
// Regenerate with:  cd /verif/sim && go1.26.8 run ./catalog/gen
//
//go:embed pooldata/pool.json
var poolJSON []byte

// PoolKeysPerGroup is how many keys the generator stores per group.
const PoolKeysPerGroup = 4

type rsaRaw struct {
	N string `json:"n"`
	P string `json:"p"`
	Q string `json:"q"`
	D string `json:"d"`
}

type poolFile struct {
	Comment string              `json:"comment,omitempty"`
	RSA     map[string][]rsaRaw `json:"rsa"`
	SLHDSA  map[string][]string `json:"slhdsa"`
	MLDSA   map[string][]string `json:"mldsa"`
}

var (
	poolOnce sync.Once
	pool     poolFile
	poolErr  error
)

func loadPool() (*poolFile, error) {
	poolOnce.Do(func() {
		if err := json.Unmarshal(poolJSON, &pool); err != nil {
			poolErr = fmt.Errorf("catalog: embedded pool is unreadable: %v", err)
		}
	})
	return &pool, poolErr
}

// rsaBits returns the RSA modulus size of the key material of e, 0 if none.
func rsaBits(e Entry) int {
	switch p := e.Params.(type) {
	case *rsassapkcs1.Parameters:
		return p.ModulusSizeBits()
	case *rsassapss.Parameters:
		return p.ModulusSizeBits()
	case *jwtrsassapkcs1.Parameters:
		return p.ModulusSizeInBits()
	case *jwtrsassapss.Parameters:
		return p.ModulusSizeInBits()
	case *compositemldsa.Parameters:
		switch p.ClassicalAlgorithm() {
		case compositemldsa.RSA3072PSS, compositemldsa.RSA3072PKCS1:
			return 3072
		case compositemldsa.RSA4096PSS, compositemldsa.RSA4096PKCS1:
			return 4096
		}
	}
	return 0
}

func rsaGroup(e Entry) string {
	if b := rsaBits(e); b != 0 {
		return fmt.Sprintf("%s/%d", e.KeyType, b)
	}
	return ""
}

func slhdsaGroup(p *slhdsa.Parameters) string {
	h := "SHA2"
	if p.HashType() == slhdsa.SHAKE {
		h = "SHAKE"
	}
	t := "s"
	if p.SignatureType() == slhdsa.FastSigning {
		t = "f"
	}
	return fmt.Sprintf("%s-%d%s", h, p.KeySize()*2, t)
}

// Pooled reports whether PoolKey serves e: every Cost==2 entry and every
// RSA-based entry.
func Pooled(e Entry) bool { return e.Cost == 2 || e.RSABased() }

// PoolSize returns the number of distinct pool keys available for e (0 when
// e is not pooled).
func PoolSize(e Entry) int {
	if !Pooled(e) {
		return 0
	}
	pf, err := loadPool()
	if err != nil {
		return 0
	}
	if g := rsaGroup(e); g != "" {
		return len(pf.RSA[g])
	}
	if p, ok := e.Params.(*slhdsa.Parameters); ok {
		return len(pf.SLHDSA[slhdsaGroup(p)])
	}
	return 0
}

func pick[T any](l []T, i int) (T, bool) {
	var zero T
	if len(l) == 0 {
		return zero, false
	}
	i %= len(l)
	if i < 0 {
		i += len(l)
	}
	return l[i], true
}

func unhex(s string) []byte {
	b, err := hex.DecodeString(s)
	if err != nil {
		panic("catalog: corrupt pool hex: " + err.Error())
	}
	return b
}

func secret(s string) secretdata.Bytes {
	return secretdata.NewBytesFromData(unhex(s), insecuresecretdataaccess.Token{})
}

// PoolKey returns the i-th (mod pool size) pre-generated private key for e,
// re-keyed to e's exact Parameters and to idRequirement, without generating
// anything. ok is false for entries that are not pooled (see Pooled).
// idRequirement is ignored (taken as 0) when e has no ID requirement.
//
// PoolKey itself draws no randomness. The library's rsassapss.NewPrivateKey,
// however, runs a sign/verify self-check, and that signature draws its salt
// from crypto/rand.Reader in one read (SaltLengthBytes bytes; for salt length
// 0 crypto/rsa takes it as "auto" and draws modulus bytes - hash bytes - 2).
// This applies to rsassapss entries and to the composite ML-DSA sets with an
// RSA-PSS component; all other pooled entries (rsassapkcs1, both JWT RSA key
// types, SLH-DSA, composite with RSA-PKCS1) are built without a single RNG
// read. TestPoolKeyRNG asserts exactly this.
func PoolKey(e Entry, i int, idRequirement uint32) (k key.Key, ok bool, err error) {
	if !Pooled(e) {
		return nil, false, nil
	}
	pf, err := loadPool()
	if err != nil {
		return nil, true, err
	}
	if !e.HasIDReq {
		idRequirement = 0
	}
	fail := func(err error) (key.Key, bool, error) {
		return nil, true, fmt.Errorf("catalog.PoolKey(%s, %d): %w", e.Name, i, err)
	}
	missing := func(group string) (key.Key, bool, error) {
		return fail(fmt.Errorf("no pool material for group %q; regenerate the pool (go run ./catalog/gen)", group))
	}

	switch p := e.Params.(type) {
	case *rsassapkcs1.Parameters:
		raw, found := pick(pf.RSA[rsaGroup(e)], i)
		if !found {
			return missing(rsaGroup(e))
		}
		k, err = buildPKCS1(raw, idRequirement, p)
	case *rsassapss.Parameters:
		raw, found := pick(pf.RSA[rsaGroup(e)], i)
		if !found {
			return missing(rsaGroup(e))
		}
		k, err = buildPSS(raw, idRequirement, p)
	case *jwtrsassapkcs1.Parameters:
		raw, found := pick(pf.RSA[rsaGroup(e)], i)
		if !found {
			return missing(rsaGroup(e))
		}
		var pub *jwtrsassapkcs1.PublicKey
		pub, err = jwtrsassapkcs1.NewPublicKey(jwtrsassapkcs1.PublicKeyOpts{Modulus: unhex(raw.N), IDRequirement: idRequirement, Parameters: p})
		if err == nil {
			k, err = jwtrsassapkcs1.NewPrivateKey(jwtrsassapkcs1.PrivateKeyOpts{PublicKey: pub, D: secret(raw.D), P: secret(raw.P), Q: secret(raw.Q)})
		}
	case *jwtrsassapss.Parameters:
		raw, found := pick(pf.RSA[rsaGroup(e)], i)
		if !found {
			return missing(rsaGroup(e))
		}
		var pub *jwtrsassapss.PublicKey
		pub, err = jwtrsassapss.NewPublicKey(jwtrsassapss.PublicKeyOpts{Modulus: unhex(raw.N), IDRequirement: idRequirement, Parameters: p})
		if err == nil {
			k, err = jwtrsassapss.NewPrivateKey(jwtrsassapss.PrivateKeyOpts{PublicKey: pub, D: secret(raw.D), P: secret(raw.P), Q: secret(raw.Q)})
		}
	case *compositemldsa.Parameters:
		raw, found := pick(pf.RSA[rsaGroup(e)], i)
		if !found {
			return missing(rsaGroup(e))
		}
		mlParams, perr := internalcompmldsa.ParametersForMLDSA(internalcompmldsa.MLDSAInstance(p.MLDSAInstance()))
		if perr != nil {
			return fail(perr)
		}
		seed, found := pick(pf.MLDSA[mlParams.Instance().String()], i)
		if !found {
			return missing(mlParams.Instance().String())
		}
		classicalParams, perr := internalcompmldsa.ParametersForClassicalAlgorithm(internalcompmldsa.ClassicalAlgorithm(p.ClassicalAlgorithm()))
		if perr != nil {
			return fail(perr)
		}
		var classical key.Key
		switch cp := classicalParams.(type) {
		case *rsassapkcs1.Parameters:
			classical, err = buildPKCS1(raw, 0, cp)
		case *rsassapss.Parameters:
			classical, err = buildPSS(raw, 0, cp)
		default:
			err = fmt.Errorf("composite entry with non-RSA classical part %T is not pooled", classicalParams)
		}
		if err != nil {
			return fail(err)
		}
		mlKey, merr := mldsa.NewPrivateKey(secret(seed), 0, mlParams)
		if merr != nil {
			return fail(merr)
		}
		k, err = compositemldsa.NewPrivateKey(mlKey, classical, idRequirement, p)
	case *slhdsa.Parameters:
		g := slhdsaGroup(p)
		raw, found := pick(pf.SLHDSA[g], i)
		if !found {
			return missing(g)
		}
		k, err = slhdsa.NewPrivateKey(secret(raw), idRequirement, p)
	default:
		err = fmt.Errorf("entry is marked pooled but its key type %T has no pool builder", e.Params)
	}
	if err != nil {
		return fail(err)
	}
	return k, true, nil
}

func buildPKCS1(raw rsaRaw, id uint32, p *rsassapkcs1.Parameters) (key.Key, error) {
	pub, err := rsassapkcs1.NewPublicKey(unhex(raw.N), id, p)
	if err != nil {
		return nil, err
	}
	return rsassapkcs1.NewPrivateKey(pub, rsassapkcs1.PrivateKeyValues{P: secret(raw.P), Q: secret(raw.Q), D: secret(raw.D)})
}

func buildPSS(raw rsaRaw, id uint32, p *rsassapss.Parameters) (key.Key, error) {
	pub, err := rsassapss.NewPublicKey(unhex(raw.N), id, p)
	if err != nil {
		return nil, err
	}
	return rsassapss.NewPrivateKey(pub, rsassapss.PrivateKeyValues{P: secret(raw.P), Q: secret(raw.Q), D: secret(raw.D)})
}

// ---------------------------------------------------------------------------
// generation (used by ./gen only)

type rsaPrivate interface {
	P() secretdata.Bytes
	Q() secretdata.Bytes
	D() secretdata.Bytes
	PublicKey() (key.Key, error)
}

func extractRSA(k key.Key) (rsaRaw, error) {
	priv, ok := k.(rsaPrivate)
	if !ok {
		return rsaRaw{}, fmt.Errorf("%T is not an RSA private key", k)
	}
	pubK, err := priv.PublicKey()
	if err != nil {
		return rsaRaw{}, err
	}
	pub, ok := pubK.(interface{ Modulus() []byte })
	if !ok {
		return rsaRaw{}, fmt.Errorf("%T has no modulus", pubK)
	}
	tok := insecuresecretdataaccess.Token{}
	return rsaRaw{N: hex.EncodeToString(pub.Modulus()), P: hex.EncodeToString(priv.P().Data(tok)),
		Q: hex.EncodeToString(priv.Q().Data(tok)), D: hex.EncodeToString(priv.D().Data(tok))}, nil
}

// GeneratePool creates fresh pool material for every group the catalog needs
// (n keys per group) through the library's key-generation path and returns
// the JSON to be written to pooldata/pool.json. progress may be nil.
func GeneratePool(n int, progress func(string)) ([]byte, error) {
	if progress == nil {
		progress = func(string) {}
	}
	out := poolFile{
		Comment: "TEST KEYS ONLY. Written by `go run ./catalog/gen`; see catalog/pool.go for the layout.",
		RSA:     map[string][]rsaRaw{}, SLHDSA: map[string][]string{}, MLDSA: map[string][]string{},
	}
	tok := insecuresecretdataaccess.Token{}
	for _, e := range All() {
		if g := rsaGroup(e); g != "" && out.RSA[g] == nil {
			src := e
			if e.KeyType == "compositemldsa" {
				// The classical half of a composite key is a plain rsassapkcs1 /
				// rsassapss key (F4, no prefix); size is all that matters here.
				found := false
				for _, c := range ByKeyType(Signature, "rsassapkcs1") {
					if rsaBits(c) == rsaBits(e) {
						src, found = c, true
						break
					}
				}
				if !found {
					return nil, fmt.Errorf("no rsassapkcs1 entry with %d-bit modulus to generate %s from", rsaBits(e), g)
				}
			}
			for j := 0; j < n; j++ {
				progress(fmt.Sprintf("rsa %s key %d/%d", g, j+1, n))
				k, err := NewKey(src)
				if err != nil {
					return nil, err
				}
				raw, err := extractRSA(k)
				if err != nil {
					return nil, err
				}
				out.RSA[g] = append(out.RSA[g], raw)
			}
		}
		switch p := e.Params.(type) {
		case *slhdsa.Parameters:
			g := slhdsaGroup(p)
			if out.SLHDSA[g] != nil {
				continue
			}
			for j := 0; j < n; j++ {
				progress(fmt.Sprintf("slhdsa %s key %d/%d", g, j+1, n))
				k, err := NewKey(e)
				if err != nil {
					return nil, err
				}
				out.SLHDSA[g] = append(out.SLHDSA[g], hex.EncodeToString(k.(*slhdsa.PrivateKey).PrivateKeyBytes().Data(tok)))
			}
		case *mldsa.Parameters:
			g := p.Instance().String()
			if out.MLDSA[g] != nil {
				continue
			}
			for j := 0; j < n; j++ {
				progress(fmt.Sprintf("mldsa %s seed %d/%d", g, j+1, n))
				k, err := NewKey(e)
				if err != nil {
					return nil, err
				}
				out.MLDSA[g] = append(out.MLDSA[g], hex.EncodeToString(k.(*mldsa.PrivateKey).PrivateKeyBytes().Data(tok)))
			}
		}
	}
	return json.MarshalIndent(&out, "", " ")
}

// PoolGroups lists the groups present in the embedded pool with their sizes
// ("rsa:rsassapss/2048=4"), sorted.
func PoolGroups() []string {
	pf, err := loadPool()
	if err != nil {
		return nil
	}
	var out []string
	for g, l := range pf.RSA {
		out = append(out, fmt.Sprintf("rsa:%s=%d", g, len(l)))
	}
	for g, l := range pf.SLHDSA {
		out = append(out, fmt.Sprintf("slhdsa:%s=%d", g, len(l)))
	}
	for g, l := range pf.MLDSA {
		out = append(out, fmt.Sprintf("mldsa:%s=%d", g, len(l)))
	}
	sort.Strings(out)
	return out
}
