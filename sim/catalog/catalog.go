// Package catalog is the harness's single inventory of the key types tink-go
// supports at the pinned snapshot. Every entry carries a key.Parameters value
// built through the owning package's public NewParameters constructor, for
// every output-prefix variant (or JWT kid strategy) the key type allows.
// Worlds iterate the catalog instead of hard-coding key types.
//
// Rules kept here: the entry list is built once, in a fixed order, from
// literal tables (no map iteration, no randomness, no clock); combinations a
// constructor refuses are dropped and remembered in Refused(); combinations
// the constructor accepts but the key-generation path refuses are not listed
// at all (see the comments next to each table).
package catalog

import (
	"fmt"
	"sort"
	"strings"
	"sync"

	"github.com/tink-crypto/tink-go/v2/aead/aesctrhmac"
	"github.com/tink-crypto/tink-go/v2/aead/aesgcm"
	"github.com/tink-crypto/tink-go/v2/aead/aesgcmsiv"
	"github.com/tink-crypto/tink-go/v2/aead/chacha20poly1305"
	"github.com/tink-crypto/tink-go/v2/aead/xaesgcm"
	"github.com/tink-crypto/tink-go/v2/aead/xchacha20poly1305"
	"github.com/tink-crypto/tink-go/v2/daead/aessiv"
	"github.com/tink-crypto/tink-go/v2/hybrid/ecies"
	"github.com/tink-crypto/tink-go/v2/hybrid/hpke"
	"github.com/tink-crypto/tink-go/v2/internal/internalapi"
	"github.com/tink-crypto/tink-go/v2/jwt/jwtecdsa"
	"github.com/tink-crypto/tink-go/v2/jwt/jwthmac"
	"github.com/tink-crypto/tink-go/v2/jwt/jwtmldsa"
	"github.com/tink-crypto/tink-go/v2/jwt/jwtrsassapkcs1"
	"github.com/tink-crypto/tink-go/v2/jwt/jwtrsassapss"
	"github.com/tink-crypto/tink-go/v2/key"
	"github.com/tink-crypto/tink-go/v2/keyderivation/prfbasedkeyderivation"
	"github.com/tink-crypto/tink-go/v2/keyset"
	"github.com/tink-crypto/tink-go/v2/mac/aescmac"
	"github.com/tink-crypto/tink-go/v2/mac/hmac"
	"github.com/tink-crypto/tink-go/v2/prf/aescmacprf"
	"github.com/tink-crypto/tink-go/v2/prf/hkdfprf"
	"github.com/tink-crypto/tink-go/v2/prf/hmacprf"
	"github.com/tink-crypto/tink-go/v2/signature/compositemldsa"
	"github.com/tink-crypto/tink-go/v2/signature/ecdsa"
	"github.com/tink-crypto/tink-go/v2/signature/ed25519"
	"github.com/tink-crypto/tink-go/v2/signature/mldsa"
	"github.com/tink-crypto/tink-go/v2/signature/rsassapkcs1"
	"github.com/tink-crypto/tink-go/v2/signature/rsassapss"
	"github.com/tink-crypto/tink-go/v2/signature/slhdsa"
	saesctrhmac "github.com/tink-crypto/tink-go/v2/streamingaead/aesctrhmac"
	"github.com/tink-crypto/tink-go/v2/streamingaead/aesgcmhkdf"

	// Registries (key managers, parsers, key creators, primitive constructors)
	// of every class; the per-key-type packages imported above register the rest.
	_ "github.com/tink-crypto/tink-go/v2/aead"
	_ "github.com/tink-crypto/tink-go/v2/daead"
	_ "github.com/tink-crypto/tink-go/v2/hybrid"
	_ "github.com/tink-crypto/tink-go/v2/jwt"
	_ "github.com/tink-crypto/tink-go/v2/keyderivation"
	_ "github.com/tink-crypto/tink-go/v2/mac"
	_ "github.com/tink-crypto/tink-go/v2/prf"
	_ "github.com/tink-crypto/tink-go/v2/signature"
	_ "github.com/tink-crypto/tink-go/v2/streamingaead"
)

// Class is the primitive class of a catalog entry.
type Class string

// The classes.
const (
	AEAD          Class = "aead"
	DAEAD         Class = "daead"
	MAC           Class = "mac"
	Signature     Class = "signature"
	Hybrid        Class = "hybrid"
	PRF           Class = "prf"
	JWTMAC        Class = "jwtmac"
	JWTSignature  Class = "jwtsig"
	StreamingAEAD Class = "streamingaead"
	KeyDerivation Class = "keyderivation"
)

// Classes lists the classes in catalog order.
func Classes() []Class {
	return []Class{AEAD, DAEAD, MAC, PRF, Signature, Hybrid, JWTMAC, JWTSignature, StreamingAEAD, KeyDerivation}
}

// Variant names used in Entry.Variant. JWT entries carry the kid strategy
// name instead (KIDBase64, KIDIgnored).
const (
	VTink    = "TINK"
	VCrunchy = "CRUNCHY"
	VLegacy  = "LEGACY"
	VRaw     = "RAW"
	// VRawPrehashID is ML-DSA's NO_PREFIX_WITH_PREHASH_ID: no output prefix but
	// the key still carries an ID requirement.
	VRawPrehashID = "RAW_PREHASH_ID"
	// VNone marks key types that have no output-prefix notion at all (PRF,
	// streaming AEAD); they never have an ID requirement.
	VNone = "NONE"

	KIDBase64  = "KID_BASE64"
	KIDIgnored = "KID_IGNORED"
)

// Entry is one (key type, parameter values, variant) combination.
type Entry struct {
	Name       string         // unique and stable, e.g. "aead/aesgcm/k16-iv12-t16/TINK"
	Class      Class          // primitive class
	KeyType    string         // package name of the key type, e.g. "aesgcm", "hpke", "mldsa"
	Variant    string         // "TINK", "CRUNCHY", "LEGACY", "RAW", … (for JWT: the kid strategy name)
	Params     key.Parameters // built with the public constructor
	Randomized bool           // the producing operation draws randomness on each call
	Cost       int            // 0: keygen+one op well under 1 ms; 1: 1–20 ms; 2: slower
	HasIDReq   bool           // Params.HasIDRequirement()
}

// RSABased reports whether the key material of e contains an RSA private key
// whose generation dominates NewKey (signature and JWT RSA-SSA key types and
// the composite ML-DSA sets with an RSA component).
func (e Entry) RSABased() bool { return rsaBits(e) != 0 }

var (
	once    sync.Once
	all     []Entry
	byName  map[string]int
	refused []string
)

func ensure() {
	once.Do(func() {
		b := &builder{seen: map[string]bool{}}
		b.buildAEAD()
		b.buildDAEAD()
		b.buildMAC()
		b.buildPRF()
		b.buildSignature()
		b.buildHybrid()
		b.buildJWT()
		b.buildStreaming()
		b.buildKeyDerivation()
		all = b.entries
		refused = b.refused
		byName = make(map[string]int, len(all))
		for i, e := range all {
			byName[e.Name] = i
		}
	})
}

// All returns every entry in a deterministic order. The returned slice is a
// copy; the Params values are shared and must not be mutated (they expose no
// mutators).
func All() []Entry {
	ensure()
	return append([]Entry(nil), all...)
}

// ByClass returns the entries of one class, in catalog order.
func ByClass(c Class) []Entry {
	ensure()
	var out []Entry
	for _, e := range all {
		if e.Class == c {
			out = append(out, e)
		}
	}
	return out
}

// ByKeyType returns the entries of one class and key type, in catalog order.
func ByKeyType(c Class, keyType string) []Entry {
	ensure()
	var out []Entry
	for _, e := range all {
		if e.Class == c && e.KeyType == keyType {
			out = append(out, e)
		}
	}
	return out
}

// Find looks an entry up by name.
func Find(name string) (Entry, bool) {
	ensure()
	i, ok := byName[name]
	if !ok {
		return Entry{}, false
	}
	return all[i], true
}

// Refused lists the candidate combinations a NewParameters constructor
// rejected while the catalog was built ("name: error"), sorted.
func Refused() []string {
	ensure()
	out := append([]string(nil), refused...)
	sort.Strings(out)
	return out
}

// NewKey generates a fresh key for e through the library's real
// key-generation path (scratch keyset.Manager → AddNewKeyFromParameters →
// Handle → Entry(0).Key()), so it draws from crypto/rand.Reader. For entries
// with an ID requirement the key carries whatever ID the manager drew.
func NewKey(e Entry) (key.Key, error) {
	if e.Params == nil {
		return nil, fmt.Errorf("catalog.NewKey: entry %q has no parameters", e.Name)
	}
	m := keyset.NewManager()
	id, err := m.AddNewKeyFromParameters(e.Params)
	if err != nil {
		return nil, fmt.Errorf("catalog.NewKey(%s): %w", e.Name, err)
	}
	if err := m.SetPrimary(id); err != nil {
		return nil, fmt.Errorf("catalog.NewKey(%s): %w", e.Name, err)
	}
	h, err := m.Handle()
	if err != nil {
		return nil, fmt.Errorf("catalog.NewKey(%s): %w", e.Name, err)
	}
	ent, err := h.Entry(0)
	if err != nil {
		return nil, fmt.Errorf("catalog.NewKey(%s): %w", e.Name, err)
	}
	return ent.Key(), nil
}

// HandleOf wraps k into a one-key keyset handle (k enabled and primary). Keys
// without an ID requirement get a random key ID from the manager.
func HandleOf(k key.Key) (*keyset.Handle, error) {
	m := keyset.NewManager()
	if _, err := m.AddKeyWithOpts(k, internalapi.Token{}, keyset.AsPrimary()); err != nil {
		return nil, err
	}
	return m.Handle()
}

// ---------------------------------------------------------------------------
// builder

type builder struct {
	entries []Entry
	seen    map[string]bool
	refused []string
}

// add records one entry; a constructor error drops the combination.
func (b *builder) add(class Class, keyType, desc, variant string, randomized bool, p key.Parameters, err error) {
	name := string(class) + "/" + keyType + "/" + desc + "/" + variant
	if err != nil {
		b.refused = append(b.refused, name+": "+err.Error())
		return
	}
	if b.seen[name] {
		panic("catalog: duplicate entry name " + name)
	}
	b.seen[name] = true
	e := Entry{Name: name, Class: class, KeyType: keyType, Variant: variant, Params: p,
		Randomized: randomized, HasIDReq: p.HasIDRequirement()}
	e.Cost = costOf(e)
	b.entries = append(b.entries, e)
}

type named[T any] struct {
	n string
	v T
}

// ---------------------------------------------------------------------------
// AEAD

func (b *builder) buildAEAD() {
	// aesgcm: the constructor also takes 24-byte keys (key generation refuses
	// them) and other IV/tag sizes (the key template cannot express them, so
	// the manager silently generates an IV-12/tag-16 key instead).
	gv := []named[aesgcm.Variant]{{VTink, aesgcm.VariantTink}, {VCrunchy, aesgcm.VariantCrunchy}, {VRaw, aesgcm.VariantNoPrefix}}
	for _, ks := range []int{16, 32} {
		for _, v := range gv {
			p, err := aesgcm.NewParameters(aesgcm.ParametersOpts{KeySizeInBytes: ks, IVSizeInBytes: 12, TagSizeInBytes: 16, Variant: v.v})
			b.add(AEAD, "aesgcm", fmt.Sprintf("k%d-iv12-t16", ks), v.n, true, p, err)
		}
	}

	// aesctrhmac: a spread of (AES key, HMAC key, IV, hash, tag), not the product.
	type ch struct {
		aes, mac, iv int
		h            aesctrhmac.HashType
		tag          int
	}
	combos := []ch{
		{16, 16, 12, aesctrhmac.SHA1, 10},
		{16, 32, 16, aesctrhmac.SHA1, 16},
		{32, 16, 16, aesctrhmac.SHA1, 20},
		{16, 16, 16, aesctrhmac.SHA224, 16},
		{32, 32, 12, aesctrhmac.SHA224, 28},
		{16, 32, 16, aesctrhmac.SHA256, 16}, // AES128_CTR_HMAC_SHA256 template
		{32, 32, 16, aesctrhmac.SHA256, 32}, // AES256_CTR_HMAC_SHA256 template
		{16, 16, 12, aesctrhmac.SHA256, 10},
		{32, 16, 12, aesctrhmac.SHA256, 32},
		{32, 32, 16, aesctrhmac.SHA384, 16},
		{16, 32, 12, aesctrhmac.SHA384, 48},
		{16, 16, 16, aesctrhmac.SHA512, 10},
		{32, 32, 12, aesctrhmac.SHA512, 32},
		{32, 32, 16, aesctrhmac.SHA512, 64},
	}
	cv := []named[aesctrhmac.Variant]{{VTink, aesctrhmac.VariantTink}, {VCrunchy, aesctrhmac.VariantCrunchy}, {VRaw, aesctrhmac.VariantNoPrefix}}
	for _, c := range combos {
		for _, v := range cv {
			p, err := aesctrhmac.NewParameters(aesctrhmac.ParametersOpts{AESKeySizeInBytes: c.aes, HMACKeySizeInBytes: c.mac,
				IVSizeInBytes: c.iv, TagSizeInBytes: c.tag, HashType: c.h, Variant: v.v})
			b.add(AEAD, "aesctrhmac", fmt.Sprintf("a%d-h%d-iv%d-%s-t%d", c.aes, c.mac, c.iv, c.h, c.tag), v.n, true, p, err)
		}
	}

	sv := []named[aesgcmsiv.Variant]{{VTink, aesgcmsiv.VariantTink}, {VCrunchy, aesgcmsiv.VariantCrunchy}, {VRaw, aesgcmsiv.VariantNoPrefix}}
	for _, ks := range []int{16, 32} {
		for _, v := range sv {
			p, err := aesgcmsiv.NewParameters(ks, v.v)
			b.add(AEAD, "aesgcmsiv", fmt.Sprintf("k%d", ks), v.n, true, p, err)
		}
	}

	for _, v := range []named[chacha20poly1305.Variant]{{VTink, chacha20poly1305.VariantTink}, {VCrunchy, chacha20poly1305.VariantCrunchy}, {VRaw, chacha20poly1305.VariantNoPrefix}} {
		p, err := chacha20poly1305.NewParameters(v.v)
		b.add(AEAD, "chacha20poly1305", "k32", v.n, true, p, err)
	}
	for _, v := range []named[xchacha20poly1305.Variant]{{VTink, xchacha20poly1305.VariantTink}, {VCrunchy, xchacha20poly1305.VariantCrunchy}, {VRaw, xchacha20poly1305.VariantNoPrefix}} {
		p, err := xchacha20poly1305.NewParameters(v.v)
		b.add(AEAD, "xchacha20poly1305", "k32", v.n, true, p, err)
	}

	// xaesgcm has no CRUNCHY variant; salt sizes 8..12 are allowed.
	for _, salt := range []int{8, 10, 12} {
		for _, v := range []named[xaesgcm.Variant]{{VTink, xaesgcm.VariantTink}, {VRaw, xaesgcm.VariantNoPrefix}} {
			p, err := xaesgcm.NewParameters(v.v, salt)
			b.add(AEAD, "xaesgcm", fmt.Sprintf("k32-salt%d", salt), v.n, true, p, err)
		}
	}
}

// ---------------------------------------------------------------------------
// DAEAD

func (b *builder) buildDAEAD() {
	// aessiv: see daeadKeySizes.
	for _, ks := range daeadKeySizes {
		for _, v := range []named[aessiv.Variant]{{VTink, aessiv.VariantTink}, {VCrunchy, aessiv.VariantCrunchy}, {VRaw, aessiv.VariantNoPrefix}} {
			p, err := aessiv.NewParameters(ks, v.v)
			b.add(DAEAD, "aessiv", fmt.Sprintf("k%d", ks), v.n, false, p, err)
		}
	}
}

// ---------------------------------------------------------------------------
// MAC

func (b *builder) buildMAC() {
	hv := []named[hmac.Variant]{{VTink, hmac.VariantTink}, {VCrunchy, hmac.VariantCrunchy}, {VLegacy, hmac.VariantLegacy}, {VRaw, hmac.VariantNoPrefix}}
	hashes := []hmac.HashType{hmac.SHA1, hmac.SHA224, hmac.SHA256, hmac.SHA384, hmac.SHA512}
	// 32-byte keys: every hash × every tag size of {10,16,32,64} the hash allows.
	// 16-byte keys: every hash with tag 16 (keeps the class below ~80 entries).
	for _, ks := range []int{32, 16} {
		for _, h := range hashes {
			tags := []int{10, 16, 32, 64}
			if ks == 16 {
				tags = []int{16}
			}
			for _, tag := range tags {
				for _, v := range hv {
					p, err := hmac.NewParameters(hmac.ParametersOpts{KeySizeInBytes: ks, TagSizeInBytes: tag, HashType: h, Variant: v.v})
					if err != nil && tag > 16 {
						continue // tag longer than the digest: expected refusal, not worth recording 4×
					}
					b.add(MAC, "hmac", fmt.Sprintf("k%d-%s-t%d", ks, h, tag), v.n, false, p, err)
				}
			}
		}
	}

	av := []named[aescmac.Variant]{{VTink, aescmac.VariantTink}, {VCrunchy, aescmac.VariantCrunchy}, {VLegacy, aescmac.VariantLegacy}, {VRaw, aescmac.VariantNoPrefix}}
	for _, c := range aescmacCombos {
		for _, v := range av {
			p, err := aescmac.NewParameters(aescmac.ParametersOpts{KeySizeInBytes: c[0], TagSizeInBytes: c[1], Variant: v.v})
			b.add(MAC, "aescmac", fmt.Sprintf("k%d-t%d", c[0], c[1]), v.n, false, p, err)
		}
	}
}

// ---------------------------------------------------------------------------
// PRF

func (b *builder) buildPRF() {
	for _, ks := range []int{16, 32} {
		for _, h := range []hmacprf.HashType{hmacprf.SHA1, hmacprf.SHA224, hmacprf.SHA256, hmacprf.SHA384, hmacprf.SHA512} {
			p, err := hmacprf.NewParameters(ks, h)
			b.add(PRF, "hmacprf", fmt.Sprintf("k%d-%s", ks, h), VNone, false, p, err)
		}
	}
	salt := []byte("catalog-hkdf-salt")
	for _, ks := range hkdfprfKeySizes {
		for _, h := range hkdfprfHashes {
			p, err := hkdfprf.NewParameters(ks, h, nil)
			b.add(PRF, "hkdfprf", fmt.Sprintf("k%d-%s-nosalt", ks, h), VNone, false, p, err)
			p, err = hkdfprf.NewParameters(ks, h, append([]byte(nil), salt...))
			b.add(PRF, "hkdfprf", fmt.Sprintf("k%d-%s-salt%d", ks, h, len(salt)), VNone, false, p, err)
		}
	}
	for _, ks := range aescmacprfKeySizes {
		p, err := aescmacprf.NewParameters(ks)
		b.add(PRF, "aescmacprf", fmt.Sprintf("k%d", ks), VNone, false, &p, err)
	}
}

// ---------------------------------------------------------------------------
// Signature

func (b *builder) buildSignature() {
	// ecdsa
	type ec struct {
		c ecdsa.CurveType
		h ecdsa.HashType
	}
	ev := []named[ecdsa.Variant]{{VTink, ecdsa.VariantTink}, {VCrunchy, ecdsa.VariantCrunchy}, {VLegacy, ecdsa.VariantLegacy}, {VRaw, ecdsa.VariantNoPrefix}}
	for _, c := range []ec{{ecdsa.NistP256, ecdsa.SHA256}, {ecdsa.NistP384, ecdsa.SHA384}, {ecdsa.NistP384, ecdsa.SHA512}, {ecdsa.NistP521, ecdsa.SHA512}} {
		for _, enc := range []named[ecdsa.SignatureEncoding]{{"DER", ecdsa.DER}, {"P1363", ecdsa.IEEEP1363}} {
			for _, v := range ev {
				p, err := ecdsa.NewParameters(c.c, c.h, enc.v, v.v)
				b.add(Signature, "ecdsa", fmt.Sprintf("%s-%s-%s", c.c, c.h, enc.n), v.n, true, p, err)
			}
		}
	}

	// ed25519
	for _, v := range []named[ed25519.Variant]{{VTink, ed25519.VariantTink}, {VCrunchy, ed25519.VariantCrunchy}, {VLegacy, ed25519.VariantLegacy}, {VRaw, ed25519.VariantNoPrefix}} {
		p, err := ed25519.NewParameters(v.v)
		b.add(Signature, "ed25519", "k32", v.n, false, &p, err)
	}

	// rsassapkcs1: every modulus × every hash appears; the full variant list is
	// attached to one hash per modulus (RSA-4096 key generation is what makes
	// the catalog test slow, so the RSA tables are deliberately not products).
	type rp struct {
		bits int
		h    rsassapkcs1.HashType
		vs   []string
	}
	allV := []string{VTink, VCrunchy, VLegacy, VRaw}
	pv := map[string]rsassapkcs1.Variant{VTink: rsassapkcs1.VariantTink, VCrunchy: rsassapkcs1.VariantCrunchy, VLegacy: rsassapkcs1.VariantLegacy, VRaw: rsassapkcs1.VariantNoPrefix}
	for _, c := range []rp{
		{2048, rsassapkcs1.SHA256, allV}, {2048, rsassapkcs1.SHA384, []string{VTink}}, {2048, rsassapkcs1.SHA512, []string{VRaw}},
		{3072, rsassapkcs1.SHA256, allV}, {3072, rsassapkcs1.SHA384, []string{VRaw}}, {3072, rsassapkcs1.SHA512, []string{VTink}},
		{4096, rsassapkcs1.SHA512, allV}, {4096, rsassapkcs1.SHA256, []string{VTink}}, {4096, rsassapkcs1.SHA384, []string{VRaw}},
	} {
		for _, vn := range c.vs {
			p, err := rsassapkcs1.NewParameters(c.bits, c.h, 65537, pv[vn])
			b.add(Signature, "rsassapkcs1", fmt.Sprintf("n%d-%s-e65537", c.bits, c.h), vn, false, p, err)
		}
	}

	// rsassapss: salt lengths 0, the digest size, and one odd value. Signing is
	// randomized even for salt length 0: crypto/rsa reads SaltLength 0 as
	// PSSSaltLengthAuto and the signer then uses the longest salt that fits.
	type rs struct {
		bits int
		h    rsassapss.HashType
		salt int
		vs   []string
	}
	sv := map[string]rsassapss.Variant{VTink: rsassapss.VariantTink, VCrunchy: rsassapss.VariantCrunchy, VLegacy: rsassapss.VariantLegacy, VRaw: rsassapss.VariantNoPrefix}
	for _, c := range []rs{
		{2048, rsassapss.SHA256, 32, allV}, {2048, rsassapss.SHA256, 0, []string{VTink, VRaw}}, {2048, rsassapss.SHA384, 48, []string{VTink}}, {2048, rsassapss.SHA512, 64, []string{VRaw}}, {2048, rsassapss.SHA512, 20, []string{VTink}},
		{3072, rsassapss.SHA256, 32, allV}, {3072, rsassapss.SHA384, 0, []string{VTink}}, {3072, rsassapss.SHA512, 64, []string{VRaw}},
		{4096, rsassapss.SHA512, 64, allV}, {4096, rsassapss.SHA256, 32, []string{VTink}}, {4096, rsassapss.SHA384, 0, []string{VRaw}},
	} {
		for _, vn := range c.vs {
			p, err := rsassapss.NewParameters(rsassapss.ParametersValues{ModulusSizeBits: c.bits, SigHashType: c.h, MGF1HashType: c.h,
				PublicExponent: 65537, SaltLengthBytes: c.salt}, sv[vn])
			b.add(Signature, "rsassapss", fmt.Sprintf("n%d-%s-salt%d-e65537", c.bits, c.h, c.salt), vn, true, p, err)
		}
	}

	// mldsa
	for _, in := range []mldsa.Instance{mldsa.MLDSA44, mldsa.MLDSA65, mldsa.MLDSA87} {
		for _, v := range mldsaVariants {
			p, err := mldsa.NewParameters(in, v.v)
			b.add(Signature, "mldsa", in.String(), v.n, true, p, err)
		}
	}

	// slhdsa: all twelve parameter sets.
	for _, h := range []named[slhdsa.HashType]{{"SHA2", slhdsa.SHA2}, {"SHAKE", slhdsa.SHAKE}} {
		for _, ks := range []int{64, 96, 128} {
			for _, st := range []named[slhdsa.SignatureType]{{"s", slhdsa.SmallSignature}, {"f", slhdsa.FastSigning}} {
				for _, v := range []named[slhdsa.Variant]{{VTink, slhdsa.VariantTink}, {VRaw, slhdsa.VariantNoPrefix}} {
					p, err := slhdsa.NewParameters(h.v, ks, st.v, v.v)
					b.add(Signature, "slhdsa", fmt.Sprintf("%s-%d%s", h.n, ks*2, st.n), v.n, true, p, err)
				}
			}
		}
	}

	// compositemldsa: the eleven supported (classical, ML-DSA) pairs.
	type cm struct {
		n  string
		ca compositemldsa.ClassicalAlgorithm
		in compositemldsa.MLDSAInstance
	}
	for _, c := range []cm{
		{"MLDSA65-Ed25519", compositemldsa.Ed25519, compositemldsa.MLDSA65},
		{"MLDSA65-ECDSAP256", compositemldsa.ECDSAP256, compositemldsa.MLDSA65},
		{"MLDSA65-ECDSAP384", compositemldsa.ECDSAP384, compositemldsa.MLDSA65},
		{"MLDSA65-RSA3072PSS", compositemldsa.RSA3072PSS, compositemldsa.MLDSA65},
		{"MLDSA65-RSA4096PSS", compositemldsa.RSA4096PSS, compositemldsa.MLDSA65},
		{"MLDSA65-RSA3072PKCS1", compositemldsa.RSA3072PKCS1, compositemldsa.MLDSA65},
		{"MLDSA65-RSA4096PKCS1", compositemldsa.RSA4096PKCS1, compositemldsa.MLDSA65},
		{"MLDSA87-ECDSAP384", compositemldsa.ECDSAP384, compositemldsa.MLDSA87},
		{"MLDSA87-ECDSAP521", compositemldsa.ECDSAP521, compositemldsa.MLDSA87},
		{"MLDSA87-RSA3072PSS", compositemldsa.RSA3072PSS, compositemldsa.MLDSA87},
		{"MLDSA87-RSA4096PSS", compositemldsa.RSA4096PSS, compositemldsa.MLDSA87},
	} {
		for _, v := range []named[compositemldsa.Variant]{{VTink, compositemldsa.VariantTink}, {VRaw, compositemldsa.VariantNoPrefix}} {
			p, err := compositemldsa.NewParameters(c.ca, c.in, v.v)
			b.add(Signature, "compositemldsa", c.n, v.n, true, p, err)
		}
	}
}

// ---------------------------------------------------------------------------
// Hybrid

var hpkeKEMs = []named[hpke.KEMID]{
	{"P256", hpke.DHKEM_P256_HKDF_SHA256}, {"P384", hpke.DHKEM_P384_HKDF_SHA384}, {"P521", hpke.DHKEM_P521_HKDF_SHA512},
	{"X25519", hpke.DHKEM_X25519_HKDF_SHA256}, {"XWING", hpke.X_WING}, {"MLKEM768", hpke.ML_KEM768}, {"MLKEM1024", hpke.ML_KEM1024},
}

func (b *builder) buildHybrid() {
	kdfs := []named[hpke.KDFID]{{"HKDFSHA256", hpke.HKDFSHA256}, {"HKDFSHA384", hpke.HKDFSHA384}, {"HKDFSHA512", hpke.HKDFSHA512}}
	aeads := []named[hpke.AEADID]{{"A128GCM", hpke.AES128GCM}, {"A256GCM", hpke.AES256GCM}, {"CC20P1305", hpke.ChaCha20Poly1305}}
	// Every KEM × KDF × AEAD as TINK; CRUNCHY and RAW for every KEM × AEAD with
	// the KDF that goes with the KEM's own hash.
	natural := map[string]string{"P256": "HKDFSHA256", "P384": "HKDFSHA384", "P521": "HKDFSHA512", "X25519": "HKDFSHA256",
		"XWING": "HKDFSHA256", "MLKEM768": "HKDFSHA256", "MLKEM1024": "HKDFSHA384"}
	for _, kem := range hpkeKEMs {
		for _, kdf := range kdfs {
			for _, ad := range aeads {
				vs := []named[hpke.Variant]{{VTink, hpke.VariantTink}}
				if natural[kem.n] == kdf.n {
					vs = append(vs, named[hpke.Variant]{VCrunchy, hpke.VariantCrunchy}, named[hpke.Variant]{VRaw, hpke.VariantNoPrefix})
				}
				for _, v := range vs {
					p, err := hpke.NewParameters(hpke.ParametersOpts{KEMID: kem.v, KDFID: kdf.v, AEADID: ad.v, Variant: v.v})
					b.add(Hybrid, "hpke", kem.n+"-"+kdf.n+"-"+ad.n, v.n, true, p, err)
				}
			}
		}
	}

	// ecies
	dems := eciesDEMs()
	ev := []named[ecies.Variant]{{VTink, ecies.VariantTink}, {VCrunchy, ecies.VariantCrunchy}, {VRaw, ecies.VariantNoPrefix}}
	tinkOnly := ev[:1]
	salt := []byte("catalog-ecies-salt")
	type ec struct {
		curve ecies.CurveType
		hash  ecies.HashType
		pf    named[ecies.PointFormat]
		dem   int
		salt  bool
		vs    []named[ecies.Variant]
	}
	unc := named[ecies.PointFormat]{"UNCOMPRESSED", ecies.UncompressedPointFormat}
	cmp := named[ecies.PointFormat]{"COMPRESSED", ecies.CompressedPointFormat}
	leg := named[ecies.PointFormat]{"LEGACYUNCOMPRESSED", ecies.LegacyUncompressedPointFormat}
	const (
		dA128GCM = iota
		dA256GCM
		dA256SIV
		dXC20P
		dA128CTR
		dA256CTR
	)
	var list []ec
	// ecies.NewParameters also accepts curve X25519 and an XChaCha20-Poly1305
	// DEM, and keys can be generated for both, but hybrid.NewHybridEncrypt /
	// NewHybridDecrypt refuse them ("unsupported curve", "unsupported AEAD DEM
	// key type"), so they are not listed (TestLeftOut pins this down).
	//
	// P-256 / SHA256 / uncompressed: every usable DEM × every variant.
	for d := range dems {
		if d != dXC20P {
			list = append(list, ec{ecies.NISTP256, ecies.SHA256, unc, d, false, ev})
		}
	}
	// Every NIST curve × every point format.
	list = append(list,
		ec{ecies.NISTP256, ecies.SHA256, cmp, dA128GCM, false, ev},
		ec{ecies.NISTP256, ecies.SHA256, leg, dA128GCM, false, ev},
		ec{ecies.NISTP384, ecies.SHA384, unc, dA256GCM, false, ev},
		ec{ecies.NISTP384, ecies.SHA384, cmp, dA128CTR, false, tinkOnly},
		ec{ecies.NISTP384, ecies.SHA384, leg, dA256SIV, false, tinkOnly},
		ec{ecies.NISTP521, ecies.SHA512, unc, dA256GCM, false, ev},
		ec{ecies.NISTP521, ecies.SHA512, cmp, dA256SIV, false, tinkOnly},
		ec{ecies.NISTP521, ecies.SHA512, leg, dA256CTR, false, tinkOnly},
	)
	// Every hash on P-256 (SHA256 is above).
	for _, h := range []ecies.HashType{ecies.SHA1, ecies.SHA224, ecies.SHA384, ecies.SHA512} {
		list = append(list, ec{ecies.NISTP256, h, unc, dA128GCM, false, tinkOnly})
	}
	// With salt.
	list = append(list,
		ec{ecies.NISTP256, ecies.SHA256, unc, dA128GCM, true, ev},
		ec{ecies.NISTP256, ecies.SHA256, cmp, dA256SIV, true, tinkOnly},
		ec{ecies.NISTP384, ecies.SHA512, unc, dA128CTR, true, tinkOnly},
		ec{ecies.NISTP521, ecies.SHA512, leg, dA256GCM, true, ev},
	)
	for _, c := range list {
		for _, v := range c.vs {
			opts := ecies.ParametersOpts{CurveType: c.curve, HashType: c.hash, NISTCurvePointFormat: c.pf.v,
				DEMParameters: dems[c.dem].v, Variant: v.v}
			s := "nosalt"
			if c.salt {
				opts.Salt = append([]byte(nil), salt...)
				s = fmt.Sprintf("salt%d", len(salt))
			}
			p, err := ecies.NewParameters(opts)
			b.add(Hybrid, "ecies", fmt.Sprintf("%s-%s-%s-%s-%s", c.curve, c.hash, c.pf.n, dems[c.dem].n, s), v.n, true, p, err)
		}
	}
}

func must[P any](p P, err error) P {
	if err != nil {
		panic("catalog: " + err.Error())
	}
	return p
}

// eciesDEMs are the six DEM parameter sets ecies.NewParameters accepts.
func eciesDEMs() []named[key.Parameters] {
	return []named[key.Parameters]{
		{"A128GCM", must(aesgcm.NewParameters(aesgcm.ParametersOpts{KeySizeInBytes: 16, IVSizeInBytes: 12, TagSizeInBytes: 16, Variant: aesgcm.VariantNoPrefix}))},
		{"A256GCM", must(aesgcm.NewParameters(aesgcm.ParametersOpts{KeySizeInBytes: 32, IVSizeInBytes: 12, TagSizeInBytes: 16, Variant: aesgcm.VariantNoPrefix}))},
		{"A256SIV", must(aessiv.NewParameters(64, aessiv.VariantNoPrefix))},
		{"XC20P1305", must(xchacha20poly1305.NewParameters(xchacha20poly1305.VariantNoPrefix))},
		{"A128CTRHS256T16", must(aesctrhmac.NewParameters(aesctrhmac.ParametersOpts{AESKeySizeInBytes: 16, HMACKeySizeInBytes: 32, IVSizeInBytes: 16, TagSizeInBytes: 16, HashType: aesctrhmac.SHA256, Variant: aesctrhmac.VariantNoPrefix}))},
		{"A256CTRHS256T32", must(aesctrhmac.NewParameters(aesctrhmac.ParametersOpts{AESKeySizeInBytes: 32, HMACKeySizeInBytes: 32, IVSizeInBytes: 16, TagSizeInBytes: 32, HashType: aesctrhmac.SHA256, Variant: aesctrhmac.VariantNoPrefix}))},
	}
}

// ---------------------------------------------------------------------------
// JWT
//
// Every JWT key type also has a CustomKID strategy; its parameters construct
// fine but a key with a custom kid cannot be *generated* (the kid is a value
// the caller supplies to NewKey/NewPublicKey), so no catalog entry has it.

func (b *builder) buildJWT() {
	for _, a := range []named[jwthmac.Algorithm]{{"HS256", jwthmac.HS256}, {"HS384", jwthmac.HS384}, {"HS512", jwthmac.HS512}} {
		min := map[string]int{"HS256": 32, "HS384": 48, "HS512": 64}[a.n]
		for _, ks := range []int{min, min + 13} {
			for _, s := range []named[jwthmac.KIDStrategy]{{KIDBase64, jwthmac.Base64EncodedKeyIDAsKID}, {KIDIgnored, jwthmac.IgnoredKID}} {
				p, err := jwthmac.NewParameters(ks, s.v, a.v)
				b.add(JWTMAC, "jwthmac", fmt.Sprintf("%s-k%d", a.n, ks), s.n, false, p, err)
			}
		}
	}

	for _, a := range []named[jwtecdsa.Algorithm]{{"ES256", jwtecdsa.ES256}, {"ES384", jwtecdsa.ES384}, {"ES512", jwtecdsa.ES512}} {
		for _, s := range []named[jwtecdsa.KIDStrategy]{{KIDBase64, jwtecdsa.Base64EncodedKeyIDAsKID}, {KIDIgnored, jwtecdsa.IgnoredKID}} {
			p, err := jwtecdsa.NewParameters(s.v, a.v)
			b.add(JWTSignature, "jwtecdsa", a.n, s.n, true, p, err)
		}
	}

	type ra struct {
		bits int
		alg  int // 0: 256, 1: 384, 2: 512
	}
	rsaCombos := []ra{{2048, 0}, {2048, 1}, {2048, 2}, {3072, 0}, {3072, 2}, {4096, 2}}
	pk := []named[jwtrsassapkcs1.Algorithm]{{"RS256", jwtrsassapkcs1.RS256}, {"RS384", jwtrsassapkcs1.RS384}, {"RS512", jwtrsassapkcs1.RS512}}
	for _, c := range rsaCombos {
		for _, s := range []named[jwtrsassapkcs1.KIDStrategy]{{KIDBase64, jwtrsassapkcs1.Base64EncodedKeyIDAsKID}, {KIDIgnored, jwtrsassapkcs1.IgnoredKID}} {
			p, err := jwtrsassapkcs1.NewParameters(jwtrsassapkcs1.ParametersOpts{ModulusSizeInBits: c.bits, PublicExponent: 65537, Algorithm: pk[c.alg].v, KidStrategy: s.v})
			b.add(JWTSignature, "jwtrsassapkcs1", fmt.Sprintf("%s-n%d-e65537", pk[c.alg].n, c.bits), s.n, false, p, err)
		}
	}
	ps := []named[jwtrsassapss.Algorithm]{{"PS256", jwtrsassapss.PS256}, {"PS384", jwtrsassapss.PS384}, {"PS512", jwtrsassapss.PS512}}
	for _, c := range rsaCombos {
		for _, s := range []named[jwtrsassapss.KIDStrategy]{{KIDBase64, jwtrsassapss.Base64EncodedKeyIDAsKID}, {KIDIgnored, jwtrsassapss.IgnoredKID}} {
			p, err := jwtrsassapss.NewParameters(jwtrsassapss.ParametersOpts{ModulusSizeInBits: c.bits, PublicExponent: 65537, Algorithm: ps[c.alg].v, KidStrategy: s.v})
			b.add(JWTSignature, "jwtrsassapss", fmt.Sprintf("%s-n%d-e65537", ps[c.alg].n, c.bits), s.n, true, p, err)
		}
	}

	for _, a := range []named[jwtmldsa.Algorithm]{{"MLDSA44", jwtmldsa.MLDSA44}, {"MLDSA65", jwtmldsa.MLDSA65}, {"MLDSA87", jwtmldsa.MLDSA87}} {
		for _, s := range []named[jwtmldsa.KIDStrategy]{{KIDBase64, jwtmldsa.Base64EncodedKeyIDAsKID}, {KIDIgnored, jwtmldsa.IgnoredKID}} {
			p, err := jwtmldsa.NewParameters(s.v, a.v)
			b.add(JWTSignature, "jwtmldsa", a.n, s.n, true, p, err)
		}
	}
}

// ---------------------------------------------------------------------------
// Streaming AEAD

func (b *builder) buildStreaming() {
	type gh struct {
		ks, dk int
		h      aesgcmhkdf.HashType
		seg    int32
	}
	for _, c := range []gh{
		{16, 16, aesgcmhkdf.SHA256, 64},
		{16, 16, aesgcmhkdf.SHA256, 4096}, // AES128_GCM_HKDF_4KB template
		{32, 16, aesgcmhkdf.SHA1, 100},    // key longer than the derived key
		{32, 32, aesgcmhkdf.SHA256, 4096}, // AES256_GCM_HKDF_4KB template
		{32, 32, aesgcmhkdf.SHA256, 300},
		{32, 32, aesgcmhkdf.SHA512, 64},
		{32, 32, aesgcmhkdf.SHA512, 4096},
		{32, 32, aesgcmhkdf.SHA1, 4096},
		{32, 32, aesgcmhkdf.SHA256, 1 << 20}, // AES256_GCM_HKDF_1MB template
	} {
		p, err := aesgcmhkdf.NewParameters(aesgcmhkdf.ParametersOpts{KeySizeInBytes: c.ks, DerivedKeySizeInBytes: c.dk, HKDFHashType: c.h, SegmentSizeInBytes: c.seg})
		b.add(StreamingAEAD, "aesgcmhkdf", fmt.Sprintf("k%d-dk%d-%s-seg%d", c.ks, c.dk, c.h, c.seg), VNone, true, p, err)
	}

	type chh struct {
		ks, dk int
		hk, hm saesctrhmac.HashType
		tag    int
		seg    int32
	}
	for _, c := range []chh{
		{16, 16, saesctrhmac.SHA256, saesctrhmac.SHA256, 32, 4096}, // AES128_CTR_HMAC_SHA256_4KB template
		{16, 16, saesctrhmac.SHA256, saesctrhmac.SHA256, 16, 64},
		{16, 16, saesctrhmac.SHA256, saesctrhmac.SHA256, 10, 100},
		{32, 32, saesctrhmac.SHA256, saesctrhmac.SHA256, 32, 4096}, // AES256_CTR_HMAC_SHA256_4KB template
		{32, 32, saesctrhmac.SHA256, saesctrhmac.SHA256, 32, 128},
		{32, 32, saesctrhmac.SHA512, saesctrhmac.SHA512, 64, 300},
		{32, 16, saesctrhmac.SHA512, saesctrhmac.SHA256, 20, 4096}, // key longer than the derived key
		{32, 32, saesctrhmac.SHA256, saesctrhmac.SHA512, 32, 256},
		{32, 32, saesctrhmac.SHA256, saesctrhmac.SHA256, 32, 1 << 20}, // AES256_CTR_HMAC_SHA256_1MB template
	} {
		p, err := saesctrhmac.NewParameters(saesctrhmac.ParametersOpts{KeySizeInBytes: c.ks, DerivedKeySizeInBytes: c.dk,
			HkdfHashType: c.hk, HmacHashType: c.hm, HmacTagSizeInBytes: c.tag, SegmentSizeInBytes: c.seg})
		b.add(StreamingAEAD, "aesctrhmac", fmt.Sprintf("k%d-dk%d-hkdf%s-hmac%s-t%d-seg%d", c.ks, c.dk, c.hk, c.hm, c.tag, c.seg), VNone, true, p, err)
	}
}

// ---------------------------------------------------------------------------
// Key derivation
//
// prfbasedkeyderivation.NewParameters takes any of the three PRF parameter
// types, but key generation only supports an HKDF PRF key, and derivation is
// implemented for: aesgcm, xchacha20poly1305, aessiv, hmac, hkdfprf, hmacprf,
// ed25519 and streaming aesgcmhkdf. The entry's variant is the derived key's.

func (b *builder) buildKeyDerivation() {
	prfs := []named[key.Parameters]{
		{"HKDFSHA256k32nosalt", must(hkdfprf.NewParameters(32, hkdfprf.SHA256, nil))},
		{"HKDFSHA512k64salt7", must(hkdfprf.NewParameters(64, hkdfprf.SHA512, []byte("kd-salt")))},
	}
	type dk struct {
		n, variant string
		p          key.Parameters
	}
	ed := func(v ed25519.Variant) key.Parameters { p := must(ed25519.NewParameters(v)); return &p }
	derived := []dk{
		{"aesgcm-k16", VTink, must(aesgcm.NewParameters(aesgcm.ParametersOpts{KeySizeInBytes: 16, IVSizeInBytes: 12, TagSizeInBytes: 16, Variant: aesgcm.VariantTink}))},
		{"aesgcm-k32", VCrunchy, must(aesgcm.NewParameters(aesgcm.ParametersOpts{KeySizeInBytes: 32, IVSizeInBytes: 12, TagSizeInBytes: 16, Variant: aesgcm.VariantCrunchy}))},
		{"aesgcm-k32", VRaw, must(aesgcm.NewParameters(aesgcm.ParametersOpts{KeySizeInBytes: 32, IVSizeInBytes: 12, TagSizeInBytes: 16, Variant: aesgcm.VariantNoPrefix}))},
		{"xchacha20poly1305", VTink, must(xchacha20poly1305.NewParameters(xchacha20poly1305.VariantTink))},
		{"xchacha20poly1305", VRaw, must(xchacha20poly1305.NewParameters(xchacha20poly1305.VariantNoPrefix))},
		{"aessiv-k64", VTink, must(aessiv.NewParameters(64, aessiv.VariantTink))},
		{"hmac-k32-SHA256-t16", VTink, must(hmac.NewParameters(hmac.ParametersOpts{KeySizeInBytes: 32, TagSizeInBytes: 16, HashType: hmac.SHA256, Variant: hmac.VariantTink}))},
		{"hmac-k32-SHA512-t32", VLegacy, must(hmac.NewParameters(hmac.ParametersOpts{KeySizeInBytes: 32, TagSizeInBytes: 32, HashType: hmac.SHA512, Variant: hmac.VariantLegacy}))},
		{"hkdfprf-k32-SHA256", VNone, must(hkdfprf.NewParameters(32, hkdfprf.SHA256, nil))},
		{"hmacprf-k32-SHA256", VNone, must(hmacprf.NewParameters(32, hmacprf.SHA256))},
		{"ed25519", VTink, ed(ed25519.VariantTink)},
		{"ed25519", VRaw, ed(ed25519.VariantNoPrefix)},
		{"saesgcmhkdf-k32-dk32-SHA256-seg4096", VNone, must(aesgcmhkdf.NewParameters(aesgcmhkdf.ParametersOpts{KeySizeInBytes: 32, DerivedKeySizeInBytes: 32, HKDFHashType: aesgcmhkdf.SHA256, SegmentSizeInBytes: 4096}))},
	}
	for i, prf := range prfs {
		for _, d := range derived {
			if i == 1 && !(strings.HasPrefix(d.n, "aesgcm-k16") || strings.HasPrefix(d.n, "ed25519") || strings.HasPrefix(d.n, "hmac-k32-SHA256")) {
				continue // second PRF: a sample only
			}
			p, err := prfbasedkeyderivation.NewParameters(prf.v, d.p)
			b.add(KeyDerivation, "prfbasedkeyderivation", prf.n+"-to-"+d.n, d.variant, false, p, err)
		}
	}
}

// ---------------------------------------------------------------------------
// Tables trimmed to what the key-generation path accepts (each verified by
// TestNewKey; widening one of them makes that test fail with the library's
// own error).

var (
	// aessiv.NewParameters accepts 32/48/64; key generation only 64.
	daeadKeySizes = []int{64}
	// {key size, tag size}; aescmac.NewParameters accepts 16-byte keys, key generation only 32.
	aescmacCombos = [][2]int{{32, 10}, {32, 12}, {32, 16}}
	// hkdfprf.NewParameters accepts keys >= 16 and five hashes; key generation
	// wants >= 32 and SHA256/SHA512.
	hkdfprfKeySizes = []int{32, 64}
	hkdfprfHashes   = []hkdfprf.HashType{hkdfprf.SHA256, hkdfprf.SHA512}
	// aescmacprf.NewParameters accepts 16; key generation only 32.
	aescmacprfKeySizes = []int{32}

	mldsaVariants = []named[mldsa.Variant]{{VTink, mldsa.VariantTink}, {VRaw, mldsa.VariantNoPrefix}, {VRawPrehashID, mldsa.VariantNoPrefixWithPrehashID}}
)
