package catalog

import (
	"sync"
	"testing"
)

func TestExplore(t *testing.T) {
	es := All()
	t.Logf("entries: %d", len(es))
	for _, r := range Refused() {
		t.Logf("REFUSED %s", r)
	}
	var wg sync.WaitGroup
	sem := make(chan struct{}, 16)
	res := make([]string, len(es))
	for i, e := range es {
		if e.RSABased() {
			continue
		}
		wg.Add(1)
		go func() {
			defer wg.Done()
			sem <- struct{}{}
			defer func() { <-sem }()
			k, err := NewKey(e)
			if err != nil {
				res[i] = "KEYGEN-FAIL " + e.Name + ": " + err.Error()
				return
			}
			if !k.Parameters().Equal(e.Params) {
				res[i] = "PARAM-MISMATCH " + e.Name
			}
		}()
	}
	wg.Wait()
	for _, r := range res {
		if r != "" {
			t.Log(r)
		}
	}
}
