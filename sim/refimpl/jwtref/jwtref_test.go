package jwtref

import (
	"testing"
	"time"
)

func sp(s string) *string { return &s }

// The boundary semantics the model stands for, spelled out once:
// valid iff exp > now − skew, nbf ≤ now + skew, (ExpectIssuedInThePast) iat ≤ now + skew.
func TestBoundaries(t *testing.T) {
	base := time.Date(2000, 1, 1, 1, 0, 0, 0, time.UTC)
	s := float64(base.Unix())
	key := Key{Material: "m", Alg: "HS256", Rule: KIDIgnored, Enabled: true}
	tok := func(c map[string]any) Token {
		return Token{Compact: true, SignedBy: "m", SignedAlg: "HS256", Header: Header{AlgPresent: true, Alg: sp("HS256")}, Claims: c}
	}
	for _, skew := range []time.Duration{0, 1, time.Second, 10 * time.Minute} {
		cases := []struct {
			name   string
			claims map[string]any
			o      Opts
			at     time.Time
			want   bool
		}{
			{"exp-1ns", map[string]any{"exp": s}, Opts{}, base.Add(skew - 1), true},
			{"exp", map[string]any{"exp": s}, Opts{}, base.Add(skew), false},
			{"exp+1ns", map[string]any{"exp": s}, Opts{}, base.Add(skew + 1), false},
			{"nbf-1ns", map[string]any{"nbf": s}, Opts{AllowMissingExpiration: true}, base.Add(-skew - 1), false},
			{"nbf", map[string]any{"nbf": s}, Opts{AllowMissingExpiration: true}, base.Add(-skew), true},
			{"iat-1ns", map[string]any{"iat": s}, Opts{AllowMissingExpiration: true, ExpectIssuedInThePast: true}, base.Add(-skew - 1), false},
			{"iat", map[string]any{"iat": s}, Opts{AllowMissingExpiration: true, ExpectIssuedInThePast: true}, base.Add(-skew), true},
			{"iat-unchecked", map[string]any{"iat": s}, Opts{AllowMissingExpiration: true}, base.Add(-time.Hour), true},
			{"exp-missing", map[string]any{}, Opts{}, base, false},
		}
		for _, c := range cases {
			c.o.ClockSkew = skew
			if got := Decide(tok(c.claims), []Key{key}, c.o, c.at); got.Accept != c.want {
				t.Errorf("skew %v %s: accept=%v (%s), want %v", skew, c.name, got.Accept, got.Reason, c.want)
			}
		}
	}
	if d := Decide(tok(map[string]any{}), []Key{key}, Opts{AllowMissingExpiration: true, ExpectIssuedInThePast: true}, base); d.Accept || !d.Either {
		t.Errorf("absent iat with ExpectIssuedInThePast must be unsettled, got %+v", d)
	}
	re := tok(map[string]any{"exp": s})
	re.Compact, re.Reencoded = false, true
	if d := Decide(re, []Key{key}, Opts{}, base.Add(-1)); d.Accept || !d.Either {
		t.Errorf("re-encoded, otherwise valid: want either, got %+v", d)
	}
	if d := Decide(re, []Key{key}, Opts{}, base); d.Accept || d.Either {
		t.Errorf("re-encoded and expired: want reject, got %+v", d)
	}
}

func TestKeyRules(t *testing.T) {
	now := time.Date(2000, 1, 1, 0, 0, 0, 0, time.UTC)
	o := Opts{AllowMissingExpiration: true}
	hdr := func(alg string, kid *string, crit bool) Header {
		return Header{AlgPresent: true, Alg: &alg, KIDPresent: kid != nil, KID: kid, Crit: crit}
	}
	tink := Key{Material: "m", Alg: "ES256", Rule: KIDFromKeyID, KID: "AQIDBA", Enabled: true}
	custom := Key{Material: "m", Alg: "ES256", Rule: KIDCustom, KID: "c", Enabled: true}
	cases := []struct {
		name string
		tok  Token
		keys []Key
		want bool
	}{
		{"tink kid equal", Token{Compact: true, SignedBy: "m", SignedAlg: "ES256", Header: hdr("ES256", sp("AQIDBA"), false)}, []Key{tink}, true},
		{"tink kid missing", Token{Compact: true, SignedBy: "m", SignedAlg: "ES256", Header: hdr("ES256", nil, false)}, []Key{tink}, false},
		{"tink kid other", Token{Compact: true, SignedBy: "m", SignedAlg: "ES256", Header: hdr("ES256", sp("AQIDBQ"), false)}, []Key{tink}, false},
		{"custom kid missing", Token{Compact: true, SignedBy: "m", SignedAlg: "ES256", Header: hdr("ES256", nil, false)}, []Key{custom}, true},
		{"custom kid other", Token{Compact: true, SignedBy: "m", SignedAlg: "ES256", Header: hdr("ES256", sp("d"), false)}, []Key{custom}, false},
		{"second key accepts", Token{Compact: true, SignedBy: "m", SignedAlg: "ES256", Header: hdr("ES256", nil, false)}, []Key{tink, custom}, true},
		{"crit", Token{Compact: true, SignedBy: "m", SignedAlg: "ES256", Header: hdr("ES256", nil, true)}, []Key{custom}, false},
		{"alg none", Token{Compact: true, SignedBy: "m", SignedAlg: "ES256", Header: hdr("none", nil, false)}, []Key{custom}, false},
		{"other material", Token{Compact: true, SignedBy: "x", SignedAlg: "ES256", Header: hdr("ES256", nil, false)}, []Key{custom}, false},
		{"disabled", Token{Compact: true, SignedBy: "m", SignedAlg: "ES256", Header: hdr("ES256", nil, false)}, []Key{{Material: "m", Alg: "ES256", Rule: KIDCustom, KID: "c"}}, false},
	}
	for _, c := range cases {
		c.tok.Claims = map[string]any{}
		if got := Decide(c.tok, c.keys, o, now); got.Accept != c.want {
			t.Errorf("%s: accept=%v (%s), want %v", c.name, got.Accept, got.Reason, c.want)
		}
	}
}
