// Package jwtref is the reference decision procedure of property C09: given
// what the harness knows structurally about a compact JWT (which key material
// produced its signature and with which algorithm, whether the transmitted
// bytes are still the signed ones, the header members and the claims exactly
// as generated), the verifier's keyset, the validator options and the instant
// of verification, it says whether VerifyAndDecode / VerifyMACAndDecode has to
// return a verified token.
//
// It is written from the property statement ("accept iff the signature or MAC
// is valid under an enabled key of the keyset, the header names exactly that
// key's algorithm, has no crit, satisfies the key's kid rule, and the
// validator's typ, iss, aud, exp, nbf, iat and clock-skew rules hold"), from
// RFC 7515/7519 for what a compact JWS and a claims set are, and from the
// documented meaning of a clock skew (a tolerance that can only make more
// tokens acceptable). It parses nothing, touches no tink package and reads no
// clock. The generator is restricted to tokens the fields below describe
// completely; the answer is accept or reject, except for the two situations
// the property statement does not settle, where it is "either":
//   - a segment of the transmitted string is a re-encoding (padding, white
//     space, standard instead of URL alphabet) of base64url text whose bytes
//     are intact — the statement speaks of a valid signature, not of how
//     strictly base64url has to be parsed; such a token may be refused, but
//     if it is accepted every other rule must hold;
//   - the validator expects "issued in the past" and the token has no iat —
//     neither the statement nor tink's API documentation says whether an
//     absent iat fails that expectation.
package jwtref

import (
	"math"
	"time"
)

// KIDRule is the relation a key demands between itself and the header's kid.
type KIDRule int

const (
	// KIDIgnored: the key does not look at the kid header.
	KIDIgnored KIDRule = iota
	// KIDFromKeyID: the kid header is required and must equal the key's kid
	// (base64url of the big-endian key ID).
	KIDFromKeyID
	// KIDCustom: if a kid header is present it must equal the key's custom kid.
	KIDCustom
)

func (r KIDRule) String() string {
	switch r {
	case KIDFromKeyID:
		return "tinkkid"
	case KIDCustom:
		return "customkid"
	}
	return "nokid"
}

// Key is one key of the verifier's keyset.
type Key struct {
	Material string // identity of the key material; two keys with equal Material verify each other's signatures iff Alg is equal too
	Alg      string // the JWS algorithm the key is for ("HS256", "ES384", "PS512", "ML-DSA-65", …)
	Rule     KIDRule
	KID      string // the kid the rule compares with (unused for KIDIgnored)
	Enabled  bool
}

// Header holds the header members the decision depends on, as generated.
// Every other member is irrelevant (unknown members are ignored, RFC 7515 §4).
type Header struct {
	AlgPresent bool
	Alg        *string // nil when absent or not a JSON string
	KIDPresent bool
	KID        *string // nil when absent or not a JSON string
	TypPresent bool
	Typ        *string // nil when absent or not a JSON string
	Crit       bool    // a "crit" member is present, whatever its value
}

// Token is the harness's structural knowledge of a transmitted token.
type Token struct {
	// Compact: the string consists of exactly three dot-separated segments, each
	// made only of base64url alphabet characters without padding, the third is
	// non-empty, the first two decode to JSON objects (the header and the
	// claims set described below).
	Compact bool
	// Reencoded (only with Compact == false): the string differs from the
	// compact token described here only by characters outside the base64url
	// alphabet that a lenient base64 parser drops or maps (padding, CR/LF,
	// blanks, '+' '/' for '-' '_'), and the signature was computed over the
	// transmitted "header.payload" text. Rejection is allowed; acceptance is
	// allowed iff every other rule holds.
	Reencoded bool
	// SignedBy names the key material whose signature/MAC, computed with
	// algorithm SignedAlg over exactly the transmitted ASCII "header.payload",
	// the third segment decodes to. Empty when no such material exists (the
	// signature bytes or the signed segments were altered after signing, or
	// the "signature" was made up).
	SignedBy  string
	SignedAlg string
	Header    Header
	// Claims is the decoded claims set with encoding/json's types
	// (nil, bool, float64, string, []any, map[string]any).
	Claims map[string]any
}

// Opts mirrors the validator options the property talks about.
type Opts struct {
	ExpectedTyp, ExpectedIss, ExpectedAud *string
	IgnoreTyp, IgnoreIss, IgnoreAud       bool
	AllowMissingExpiration                bool
	ExpectIssuedInThePast                 bool
	ClockSkew                             time.Duration
}

// MaxClockSkew is the largest skew the generator uses (tink's current limit;
// the limit itself appears in no API documentation and is not asserted).
const MaxClockSkew = 10 * time.Minute

// MaxTimestamp is the largest NumericDate a token may carry (9999-12-31T23:59:59Z).
const MaxTimestamp = 253402300799

// Reason names the first rule (in the model's own order) that fails; it is for
// traces and signatures only — the property does not say which error wins.
type Reason string

// Decision is the model's answer.
type Decision struct {
	Accept bool
	// Either: the statement does not settle this case; both outcomes are
	// allowed (Accept is false, Reason names what is unsettled). When the
	// library accepts, the returned claims must still be the signed payload.
	Either bool
	Reason Reason // "" on accept
	// Time rules: for each time claim that is present and constrained by the
	// options, on which side of its boundary `now` lies and how far.
	Exp, Nbf, Iat TimeRel
}

// TimeRel describes one time rule at one instant.
type TimeRel struct {
	Checked bool
	Holds   bool
	// Dist is |now − boundary| in nanoseconds, saturated at math.MaxInt64.
	Dist int64
}

// Decide is the decision procedure.
func Decide(tok Token, keys []Key, o Opts, now time.Time) Decision {
	d := Decision{}
	reject := func(r Reason) Decision {
		if d.Reason == "" {
			d.Reason = r
		}
		d.Accept = false
		return d
	}
	if !tok.Compact && !tok.Reencoded {
		return reject("not-compact-jws")
	}
	// (1) some enabled key under which the signature is valid, whose algorithm
	// the header names, whose kid rule the header satisfies; no crit.
	keyOK := false
	var keyWhy Reason = "no-key-validates-signature"
	for _, k := range keys {
		if !k.Enabled {
			continue
		}
		if tok.SignedBy == "" || k.Material != tok.SignedBy || k.Alg != tok.SignedAlg {
			continue
		}
		// signature valid under k
		if tok.Header.Alg == nil || *tok.Header.Alg != k.Alg {
			keyWhy = "alg-header-mismatch"
			continue
		}
		if tok.Header.Crit {
			keyWhy = "crit-present"
			continue
		}
		if !kidOK(k, tok.Header) {
			keyWhy = "kid-rule"
			continue
		}
		keyOK = true
		break
	}
	if !keyOK {
		return reject(keyWhy)
	}
	// (2) the claims set is a JWT claims set: registered claims have their types.
	if r := claimsTyped(tok.Claims); r != "" {
		return reject(r)
	}
	// (3) the validator's rules. All of them are evaluated so that the time
	// relations are reported even when another rule already fails.
	var why Reason
	note := func(r Reason) {
		if why == "" {
			why = r
		}
	}
	if !o.IgnoreTyp {
		switch {
		case o.ExpectedTyp == nil && tok.Header.TypPresent:
			note("typ-unexpected")
		case o.ExpectedTyp != nil && !tok.Header.TypPresent:
			note("typ-missing")
		case o.ExpectedTyp != nil && (tok.Header.Typ == nil || *tok.Header.Typ != *o.ExpectedTyp):
			note("typ-differs")
		}
	} else if tok.Header.TypPresent && tok.Header.Typ == nil {
		// never generated; kept so the model is total
		note("typ-not-a-string")
	}
	iss, hasIss := tok.Claims["iss"]
	if !o.IgnoreIss {
		switch {
		case o.ExpectedIss == nil && hasIss:
			note("iss-unexpected")
		case o.ExpectedIss != nil && !hasIss:
			note("iss-missing")
		case o.ExpectedIss != nil && iss.(string) != *o.ExpectedIss:
			note("iss-differs")
		}
	}
	aud, hasAud := tok.Claims["aud"]
	if !o.IgnoreAud {
		switch {
		case o.ExpectedAud == nil && hasAud:
			note("aud-unexpected")
		case o.ExpectedAud != nil && !hasAud:
			note("aud-missing")
		case o.ExpectedAud != nil:
			found := false
			for _, a := range audiences(aud) {
				if a == *o.ExpectedAud {
					found = true
				}
			}
			if !found {
				note("aud-not-listed")
			}
		}
	}
	// time rules, in integer arithmetic on (seconds, nanoseconds)
	nowNs := now.UnixNano()
	lo := nowNs - int64(o.ClockSkew) // exp must be later than this
	hi := nowNs + int64(o.ClockSkew) // nbf and iat must not be later than this
	if exp, ok := tok.Claims["exp"]; ok {
		s := int64(exp.(float64))
		d.Exp = TimeRel{Checked: true, Holds: s > floorDiv(lo, 1e9), Dist: dist(s, lo)}
		if !d.Exp.Holds {
			note("expired")
		}
	} else if !o.AllowMissingExpiration {
		note("exp-missing")
	}
	if nbf, ok := tok.Claims["nbf"]; ok {
		s := int64(nbf.(float64))
		d.Nbf = TimeRel{Checked: true, Holds: s <= floorDiv(hi, 1e9), Dist: dist(s, hi)}
		if !d.Nbf.Holds {
			note("not-yet-valid")
		}
	}
	var unsettled Reason
	if o.ExpectIssuedInThePast {
		if iat, ok := tok.Claims["iat"]; ok {
			s := int64(iat.(float64))
			d.Iat = TimeRel{Checked: true, Holds: s <= floorDiv(hi, 1e9), Dist: dist(s, hi)}
			if !d.Iat.Holds {
				note("issued-in-the-future")
			}
		} else {
			unsettled = "iat-missing(unsettled)"
		}
	}
	if why != "" {
		return reject(why)
	}
	if !tok.Compact { // Reencoded
		unsettled = "reencoded-base64(unsettled)"
	}
	if unsettled != "" {
		d.Either, d.Reason = true, unsettled
		return d
	}
	d.Accept = true
	return d
}

func kidOK(k Key, h Header) bool {
	switch k.Rule {
	case KIDFromKeyID:
		return h.KIDPresent && h.KID != nil && *h.KID == k.KID
	case KIDCustom:
		return !h.KIDPresent || (h.KID != nil && *h.KID == k.KID)
	}
	return true
}

// claimsTyped checks RFC 7519 §4.1: iss, sub, jti are strings, aud is a string
// or a non-empty array of strings, exp/nbf/iat are NumericDates in the
// representable range. Times are generated as whole seconds, so a fractional
// value is reported as not generated.
func claimsTyped(c map[string]any) Reason {
	for _, n := range []string{"iss", "sub", "jti"} {
		if v, ok := c[n]; ok {
			if _, isStr := v.(string); !isStr {
				return Reason(n + "-not-a-string")
			}
		}
	}
	if v, ok := c["aud"]; ok {
		switch a := v.(type) {
		case string:
		case []any:
			if len(a) == 0 {
				return "aud-empty-list"
			}
			for _, e := range a {
				if _, isStr := e.(string); !isStr {
					return "aud-element-not-a-string"
				}
			}
		default:
			return "aud-wrong-type"
		}
	}
	for _, n := range []string{"exp", "nbf", "iat"} {
		if v, ok := c[n]; ok {
			f, isNum := v.(float64)
			if !isNum {
				return Reason(n + "-not-a-number")
			}
			if f != math.Trunc(f) {
				return Reason(n + "-fractional-not-generated")
			}
			if f < 0 || f > MaxTimestamp {
				return Reason(n + "-out-of-range")
			}
		}
	}
	return ""
}

func audiences(v any) []string {
	switch a := v.(type) {
	case string:
		return []string{a}
	case []any:
		out := make([]string, 0, len(a))
		for _, e := range a {
			out = append(out, e.(string))
		}
		return out
	}
	return nil
}

func floorDiv(a, b int64) int64 {
	q := a / b
	if a%b != 0 && (a < 0) != (b < 0) {
		q--
	}
	return q
}

// dist returns |sec·1e9 − ns| saturated.
func dist(sec, ns int64) int64 {
	const lim = math.MaxInt64 / 1_000_000_000
	if sec > lim-1 || sec < -lim+1 {
		return math.MaxInt64
	}
	d := sec*1_000_000_000 - ns
	if d < 0 {
		d = -d
	}
	if d < 0 {
		return math.MaxInt64
	}
	return d
}
