// Package streamref is an independent encoder/decoder of Tink's documented
// streaming-AEAD wire format (header ‖ segments), written from the format
// description in DESIGN.md Appendix B and built only on the standard library.
// It is an oracle: it shares no code with /repo.
package streamref

import (
	"crypto/aes"
	"crypto/cipher"
	"crypto/hmac"
	"crypto/sha1"
	"crypto/sha256"
	"crypto/sha512"
	"encoding/binary"
	"errors"
	"hash"
)

// Alg selects the segment cipher.
type Alg int

const (
	GCMHKDF Alg = iota
	CTRHMAC
)

// Params describes one streaming key as the format sees it.
type Params struct {
	Alg      Alg
	MainKey  []byte
	HKDFHash string // "SHA1" | "SHA256" | "SHA512"
	K        int    // derived AES key size, 16 or 32
	TagHash  string // CTR-HMAC only
	T        int    // tag size (GCM: 16)
	S        int    // ciphertext segment size
	Off      int    // first-segment offset (bytes reserved before the header in the first segment)
}

const noncePrefixLen = 7

func newHash(name string) func() hash.Hash {
	switch name {
	case "SHA1":
		return sha1.New
	case "SHA256":
		return sha256.New
	case "SHA512":
		return sha512.New
	}
	panic("streamref: unknown hash " + name)
}

// hkdf is RFC 5869 extract-and-expand.
func hkdf(h func() hash.Hash, ikm, salt, info []byte, n int) []byte {
	if len(salt) == 0 {
		salt = make([]byte, h().Size())
	}
	ext := hmac.New(h, salt)
	ext.Write(ikm)
	prk := ext.Sum(nil)
	var out, prev []byte
	for c := byte(1); len(out) < n; c++ {
		m := hmac.New(h, prk)
		m.Write(prev)
		m.Write(info)
		m.Write([]byte{c})
		prev = m.Sum(nil)
		out = append(out, prev...)
	}
	return out[:n]
}

// HeaderLen is 1 + K + 7.
func (p Params) HeaderLen() int { return 1 + p.K + noncePrefixLen }

// TagLen is the per-segment overhead.
func (p Params) TagLen() int {
	if p.Alg == GCMHKDF {
		return 16
	}
	return p.T
}

// FirstPlain is the plaintext capacity of segment 0; RestPlain of later ones.
func (p Params) FirstPlain() int { return p.S - p.HeaderLen() - p.Off - p.TagLen() }
func (p Params) RestPlain() int  { return p.S - p.TagLen() }

// NumSegments returns how many segments a plaintext of n bytes occupies.
// A plaintext that exactly fills its segments does not get an extra empty one;
// the empty plaintext has one (tag-only) segment.
func (p Params) NumSegments(n int) int {
	if n <= p.FirstPlain() {
		return 1
	}
	n -= p.FirstPlain()
	return 1 + (n+p.RestPlain()-1)/p.RestPlain()
}

// CiphertextLen is the total encoded length for n plaintext bytes.
func (p Params) CiphertextLen(n int) int {
	return p.HeaderLen() + n + p.NumSegments(n)*p.TagLen()
}

// Bounds returns the offsets at which header and segments start/end in a
// well-formed ciphertext of total length ctLen: [0, H, end(seg0), end(seg1), …, ctLen].
func (p Params) Bounds(ctLen int) []int {
	b := []int{0}
	h := p.HeaderLen()
	if ctLen < h {
		return append(b, ctLen)
	}
	b = append(b, h)
	pos := h
	segLen := p.S - h - p.Off
	for pos < ctLen {
		end := pos + segLen
		if end > ctLen {
			end = ctLen
		}
		b = append(b, end)
		pos = end
		segLen = p.S
	}
	return b
}

type segCipher struct {
	p    Params
	gcm  cipher.AEAD
	blk  cipher.Block
	hkey []byte
	np   []byte
}

func (p Params) newSegCipher(aad, salt, noncePrefix []byte) (*segCipher, error) {
	sc := &segCipher{p: p, np: noncePrefix}
	switch p.Alg {
	case GCMHKDF:
		key := hkdf(newHash(p.HKDFHash), p.MainKey, salt, aad, p.K)
		blk, err := aes.NewCipher(key)
		if err != nil {
			return nil, err
		}
		sc.gcm, err = cipher.NewGCM(blk)
		if err != nil {
			return nil, err
		}
	case CTRHMAC:
		km := hkdf(newHash(p.HKDFHash), p.MainKey, salt, aad, p.K+32)
		blk, err := aes.NewCipher(km[:p.K])
		if err != nil {
			return nil, err
		}
		sc.blk = blk
		sc.hkey = km[p.K:]
	}
	return sc, nil
}

func (sc *segCipher) nonce(i uint32, last bool) []byte {
	n := make([]byte, 0, 16)
	n = append(n, sc.np...)
	n = binary.BigEndian.AppendUint32(n, i)
	if last {
		n = append(n, 1)
	} else {
		n = append(n, 0)
	}
	if sc.p.Alg == CTRHMAC {
		n = append(n, 0, 0, 0, 0)
	}
	return n
}

func (sc *segCipher) seal(i uint32, last bool, pt []byte) []byte {
	n := sc.nonce(i, last)
	if sc.p.Alg == GCMHKDF {
		return sc.gcm.Seal(nil, n, pt, nil)
	}
	c := make([]byte, len(pt))
	cipher.NewCTR(sc.blk, n).XORKeyStream(c, pt)
	m := hmac.New(newHash(sc.p.TagHash), sc.hkey)
	m.Write(n)
	m.Write(c)
	return append(c, m.Sum(nil)[:sc.p.T]...)
}

var errAuth = errors.New("streamref: segment authentication failed")

func (sc *segCipher) open(i uint32, last bool, seg []byte) ([]byte, error) {
	n := sc.nonce(i, last)
	if sc.p.Alg == GCMHKDF {
		pt, err := sc.gcm.Open(nil, n, seg, nil)
		if err != nil {
			return nil, errAuth
		}
		return pt, nil
	}
	if len(seg) < sc.p.T {
		return nil, errAuth
	}
	c, tag := seg[:len(seg)-sc.p.T], seg[len(seg)-sc.p.T:]
	m := hmac.New(newHash(sc.p.TagHash), sc.hkey)
	m.Write(n)
	m.Write(c)
	if !hmac.Equal(m.Sum(nil)[:sc.p.T], tag) {
		return nil, errAuth
	}
	pt := make([]byte, len(c))
	cipher.NewCTR(sc.blk, n).XORKeyStream(pt, c)
	return pt, nil
}

// Encode produces header ‖ segments for pt with the given salt (K bytes) and
// nonce prefix (7 bytes).
func (p Params) Encode(aad, salt, noncePrefix, pt []byte) ([]byte, error) {
	if len(salt) != p.K || len(noncePrefix) != noncePrefixLen {
		return nil, errors.New("streamref: bad salt/prefix length")
	}
	sc, err := p.newSegCipher(aad, salt, noncePrefix)
	if err != nil {
		return nil, err
	}
	out := []byte{byte(p.HeaderLen())}
	out = append(out, salt...)
	out = append(out, noncePrefix...)
	segs := p.NumSegments(len(pt))
	capN := p.FirstPlain()
	for i := 0; i < segs; i++ {
		n := capN
		last := i == segs-1
		if last {
			n = len(pt)
		}
		out = append(out, sc.seal(uint32(i), last, pt[:n])...)
		pt = pt[n:]
		capN = p.RestPlain()
	}
	return out, nil
}

// Decode parses and authenticates a complete ciphertext.
func (p Params) Decode(aad, ct []byte) ([]byte, error) {
	h := p.HeaderLen()
	if len(ct) < h || int(ct[0]) != h {
		return nil, errors.New("streamref: bad header")
	}
	salt, np := ct[1:1+p.K], ct[1+p.K:h]
	sc, err := p.newSegCipher(aad, salt, np)
	if err != nil {
		return nil, err
	}
	body := ct[h:]
	segLen := p.S - h - p.Off
	var pt []byte
	for i := uint32(0); ; i++ {
		last := len(body) <= segLen
		n := segLen
		if last {
			n = len(body)
		}
		s, err := sc.open(i, last, body[:n])
		if err != nil {
			return nil, err
		}
		// a non-final segment must be full; a final one may be anything from tag-only up
		pt = append(pt, s...)
		body = body[n:]
		if last {
			return pt, nil
		}
		segLen = p.S
	}
}
