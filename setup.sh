#!/bin/sh
# Builds the orchestrator and the instrumenter from files on disk only (offline).
set -e
cd /verif/tools
export GOFLAGS=-mod=mod GOPROXY=off GOSUMDB=off GOTOOLCHAIN=local
mkdir -p /verif/bin /verif/evidence /verif/replays
go1.26.8 build -o /verif/bin/vsim ./vsim
if [ -d ./instr ]; then go1.26.8 build -o /verif/bin/instr ./instr; fi
# warm the build cache for the harness module (std + tink + rapid), plain and -race
cd /verif/sim
[ -f go.sum ] || cp /repo/go.sum go.sum
go1.26.8 test -vet=off -count=1 -run '^$' ./... >/dev/null 2>&1 || true
echo "vsim setup done"
