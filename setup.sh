#!/bin/sh
# Builds the orchestrator and the instrumenter from files on disk only (offline).
set -e
V=$(cd "$(dirname "$0")" && pwd)
cd $V/tools
export GOFLAGS=-mod=mod GOPROXY=off GOSUMDB=off GOTOOLCHAIN=local
mkdir -p $V/bin $V/evidence $V/replays
go1.26.8 build -o $V/bin/vsim ./vsim
if [ -d ./instr ]; then go1.26.8 build -o $V/bin/instr ./instr; fi
# warm the build cache for the harness module (std + tink + rapid), plain and -race
cd $V/sim
[ -f go.sum ] || cp /repo/go.sum go.sum
go1.26.8 test -vet=off -count=1 -run '^$' ./... >/dev/null 2>&1 || true
echo "vsim setup done"
