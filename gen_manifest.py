#!/usr/bin/env python3
"""Writes /verif/MANIFEST.json from the table below (single source of truth for the interface file)."""
import json

NA = {
 "C01": "AEAD round trip / wire format is a pure function of (key, plaintext, associated data, nonce bytes): no schedule, clock, I/O or fault in its quantifier; the nonce draw is decided under C20, concurrent use under C18, buffer hygiene under C19.",
 "C02": "AEAD rejection of foreign ciphertexts is a pure function of (key, byte string, associated data); enumerating mutations of a byte string is input generation, not a fault arriving at an instant of an execution.",
 "C03": "Classical signature verification is pure; signing is pure given the random draw, which C20 decides.",
 "C04": "MAC computation/verification is pure and deterministic.",
 "C06": "Hybrid encryption conformance is pure given the ephemeral draw (C20).",
 "C08": "AES-SIV / AES-KWP conformance is pure and deterministic.",
 "C10": "ML-DSA conformance is a pure function of seeds/messages; hedged-signing randomness is under C20.",
 "C12": "Serialization round trip: the only I/O is one io.ReadAll and one Write of a fully marshalled buffer; Tink keeps no state across partial I/O, so a simulated disk has nothing to interleave with; per-type field mappings are pure functions of the key.",
 "C13": "Secret-material classification and AEAD binding of encrypted keysets are pure functions of the keyset and writer arguments.",
 "C15": "PRFs are pure and deterministic.",
 "C16": "SLH-DSA conformance is pure; signing randomness is under C20.",
 "C17": "Keyset derivation is a deterministic function of (keyset, salt); it reads no RNG, clock or I/O.",
}

PENDING = {k: "claimed in DESIGN.md; its simulation world is still being built in this session (entry is removed when the check is registered)" for k in []}

CHECKS = {
 "C07": dict(engine="stream", design="§3 C07",
   technique="deterministic simulation: seeded I/O-fault injection (failing/short-reading devices, torn/cut/reordered stored bytes) over drawn write/read histories, reference-codec oracle, rapid-minimised replay",
   text="Seeded exploration of streaming-AEAD executions: real Tink writer and reader run between a simulated io.Writer device, a stored-bytes medium and a short-reading/failing io.Reader source; every run draws a key configuration, a plaintext length on a segment boundary class, write/read call histories and one fault family (persistent writer/reader error at a format-aware offset, cut at every segment/flush boundary, drop/dup/swap/splice of segments, appended bytes, bit flips, other associated data/key). Oracles: exact plaintext then sticky io.EOF; never a clean EOF on a manipulated stream and only plaintext prefixes before the error; a fired device error always surfaces; independent reference codec decodes Tink's bytes and Tink decodes the reference's. Sampling, not proof.",
   note="Trusts the harness's reference codec (cross-checked both ways every fault-free run), rapid's shrinker and the Go 1.26.8 toolchain; plaintext lengths up to 40 segments; injected errors are persistent sentinels."),
 "C11": dict(engine="manager", design="§3 C11",
   technique="deterministic simulation: seeded operation histories against a reference keyset model, key-ID collisions scripted through the RNG seam, rapid-minimised replay",
   text="Seeded exploration of keyset.Manager operation histories (up to 60 ops quick / 300 thorough, branching through NewManagerFromHandle of earlier handles, started empty or from a parsed keyset with DISABLED/DESTROYED keys). The RNG seam scripts the key-ID draws (live, deleted, burned, 0, 2^32-1) so the collision re-draw loop is exercised on every Add. After every operation the real keyset is compared with a reference model and the stated invariants are enforced: distinct IDs, exactly one ENABLED primary, errors leave the keyset unchanged, primary cannot be disabled/deleted, non-enabled cannot become primary, earlier handles keep their snapshot, ID requirements are kept. Sampling, not proof.",
   note="Trusts key.Equal of the key types used and the harness model; the property's silent cases (re-adding a deleted fixed ID, Enable of DESTROYED, ops on absent IDs) are allowed either way."),
 "C18": dict(engine="sched", design="§3 C18",
   technique="deterministic simulation: seeded baton scheduler over yield points inserted into tink's sources (go -overlay), sequential-equality oracle plus ThreadSanitizer run under the same deterministic schedules, rapid-minimised replay",
   text="Seeded exploration of interleavings: at check time every statement of every non-test source file of /repo gets a yield call (instrumented copies via -overlay, /repo untouched); 2..6 tasks use one shared factory primitive / handle / registry, only the baton holder runs, and a rapid-drawn plan decides every preemption, so one seed is one exact interleaving. Oracle 1: each concurrent call returns byte-for-byte what it returns alone (per-task RNG lanes make even Encrypt/Sign functions of their inputs; ML-KEM-style library-internal randomness is checked semantically), the shared read-only input arena is unchanged at every baton pass. Oracle 2: the same seeds run under -race with no harness-induced happens-before between tasks, so conflicting accesses are reported even when serialised, deterministically; TSan de-duplication is off so race findings shrink. Workload covers every catalogued key type of every class through the real factories, legacy adapters over a stub key manager, handle reads, primitive construction, registry lookups and key generation. Sampling, not proof.",
   note="Yield points exist in tink code only (stdlib/x-crypto/protobuf are atomic between them); TSan's bounded history; amd64 store ordering for the norace spin baton; registry writes are outside the property and the workload."),
 "C05": dict(engine="rotation", design="§3 C05",
   technique="deterministic simulation: seeded key-rotation rollout (administrator history, version skew, late/duplicated/reordered delivery, foreign keyset with RNG-scripted colliding key IDs) against a reference keyset-version model, rapid-minimised replay",
   text="Seeded exploration of rotation rollouts over all nine primitive classes and every catalogued key type/variant plus stub custom key types (legacy adapters): a real keyset.Manager publishes versions; producers and consumers on lagging versions exchange messages through a network that delays, duplicates and reorders; a foreign administrator's key IDs are scripted through the RNG seam to collide. Oracle: outputs carry exactly the primary's prefix (independently computed) and, for deterministic classes, equal a single-key primitive of the primary; a consumer at version v accepts a message iff v holds an ENABLED entry with the producing key identity (content equal), otherwise rejects (disabled, deleted, destroyed, never-present, foreign); PRF sets mirror enabled entries; monitoring events name the key that did the work. Sampling, not proof.",
   note="Manager correctness is C11's; error texts and order of trial decryption are not asserted; the RSA-PSS salt-length-0 serialization panic is a listed known finding (thorough tier)."),
 "C14": dict(engine="atrest", design="§3 C14",
   technique="deterministic simulation: seeded storage-fault injection (torn/cut/bit-rotted/duplicated/dropped/swapped/spliced stored bytes placed by walking the protobuf/JSON layout, short-reading and failing source) between the real keyset writers and readers, well-formedness and self-consistency oracles, rapid-minimised replay",
   text="Seeded exploration of what the keyset readers make of faulted storage: real handles of every catalogued key type are written by the real binary/JSON writers (cleartext, KEK-encrypted with associated data, public-only) to a simulated device; the stored image suffers 1..3 field-aware storage faults, an enumeration of cuts at every field boundary, torn writes, proto-level edits, or is a hand-built below-minimum-strength key; it is read back through a short-reading/failing source. Oracle exactly as C14 states: no panic anywhere; error or a handle with >=1 key, distinct IDs, one ENABLED primary, known enums; images that are empty / lack an enabled primary / repeat an ID / use unknown enums are rejected; every primitive the factories build from an accepted handle is self-consistent (SLH-DSA excepted); keys below the stated strengths never yield a usable primitive. Sampling over fault images, not over arbitrary in-memory Keyset mutations.",
   note="Reach is the fault images of really written keysets plus listed edits and garbage; a structure-aware fuzzer reaches more of the raw input space."),
 "C19": dict(engine="memory", design="§3 C19",
   technique="deterministic simulation: caller-owned memory as the faulty medium — arena canaries/spare-capacity patterns, address-overlap invariants and a twin-world (pristine vs byte-flipped) differential made exact by the RNG seam, over drawn operation histories; rapid-minimised replay",
   text="Seeded exploration of operation histories in which the simulator owns every byte slice crossing the API: inputs live in an arena with canaries and patterned spare capacity; after every call the arena is checked (no write within length, spare capacity or guards), every returned slice's address range is checked against all inputs and against slices returned by other calls on live objects, and in the faulted twin world previously passed inputs and previously returned values are flipped at drawn instants while all later observations (Equal, accessors, KeysetInfo, primitive outputs under identical RNG streams) must equal the pristine world's. Accessors are found by reflection over every catalogued key type; constructors, parse paths, handles, exports, factory primitives, legacy adapters (stub key managers x 4 prefix types) and subtle constructors are driven. 15 genuine aliasing defects were found this way and repaired (known_findings.json). Sampling, not proof.",
   note="Edge of the family (no schedule or clock): the in-family elements are the fault schedule over a history, invariants after every step and the RNG-seam twin world. Go's non-moving collector is assumed."),
 "C20": dict(engine="entropy", design="§3 C20 + Appendix A",
   technique="deterministic simulation: RNG seam with provenance logging, single-byte perturbation replays, legal short reads and scripted key-ID collisions over drawn call histories; rapid-minimised replay",
   text="With crypto/rand.Reader behind the simulator's seam, C20's distributional statement becomes exact dataflow statements checked over drawn, interleaved call histories on 1..4 keys of every randomized key type: each random field tink copies into an output (IV/nonce/salt/nonce prefix, generated key material, key IDs) equals a contiguous range the RNG issued during that very call, consumption windows are disjoint and advancing (nothing cached or reused), each output that is a function of the draw (encapsulations, ECDSA/PSS/ML-DSA/SLH-DSA signatures, generated asymmetric keys) changes when any consumed byte within the scheme's randomness length is flipped and consumes at least that length, ephemeral public values are recomputed independently with crypto/ecdh, repeated signing/encryption/keygen never repeats, and ML-KEM encapsulations are checked through SetGlobalRandom. Faults: legal short reads of the RNG, MaybeReadByte noise, scripted ID collisions with re-draw. Sampling, not proof.",
   note="Identity with the RNG's bytes gives freshness/uniformity for any sound RNG; the OS RNG itself is out of scope."),
 "C09": dict(engine="jwtclock", design="§3 C09",
   technique="deterministic simulation: simulated clock (testing/synctest bubble drives the production time.Now path), issuer clock error, network delay/duplication and in-flight tampering of known effect, reference decision procedure as oracle; rapid-minimised replay",
   text="Seeded exploration of JWT verification decisions with the simulator owning the clock: inside a synctest bubble an issuer writes exp/nbf/iat relative to simulated time, the network delivers tokens late/twice/tampered, and the real VerifyAndDecode / VerifyMACAndDecode run at instants placed on and around every boundary (exp+skew, nbf-skew, iat-skew at -1s, -1ns, 0, +1ns, +1s) for skews {0, 1ns, 1s, 10min,...}; each decision is taken through time.Now (bubble) and through FixedNow and compared with an independent decision procedure (refimpl/jwtref) written from the property statement: signature valid under an enabled key, alg equals the key's, no crit, kid rule, typ/iss/aud matrix, time rules; on accept the returned claims equal the signed payload. 61 manipulation kinds (alg none/HS-vs-RS, kid, crit, typ, payload/header substitution, signature damage, base64 variants, foreign/disabled keys); verifier keysets directly or through JWK export/import; JWK export refuses private keys. Sampling, not proof.",
   note="Tokens are built structurally so the model is certain of their meaning; the bubble clock's start and advance are asserted every run."),
}

def main():
    checks = []
    for pid in sorted(CHECKS):
        c = CHECKS[pid]
        checks.append({
            "property_id": pid,
            "quick_cmd": f"/verif/bin/vsim check {pid} --tier quick",
            "thorough_cmd": f"/verif/bin/vsim check {pid} --tier thorough",
            "evidence_file": f"/verif/evidence/{pid}.json",
            "replay_cmd_template": "/verif/bin/vsim replay {path}",
            "engine": c["engine"],
            "level_claimed": {"category": "exploration", "text": c["text"], "design_ref": c["design"]},
            "level_note": c["note"],
            "technique": c["technique"],
        })
    na = [{"property_id": k, "reason": v} for k, v in sorted({**NA, **PENDING}.items())]
    m = {
        "version": 1,
        "setup_cmd": "/verif/setup.sh",
        "hooks": {
            "guard": "verif",
            "enable": "no source hook is compiled into /repo: yield points are inserted into copies of the sources at check time and handed to the compiler with `go test -overlay` (C18); every other seam (crypto/rand.Reader, io.Reader/io.Writer arguments, testing/synctest clock, monitoring client, key-manager registry) already exists",
            "baseline_off_cmd": "for m in $(cat /w/out/gomods.txt); do MF=$(cd /repo/$m && . /w/out/goenv.sh && gomodflag); (cd /repo/$m && go test $MF -json -vet=off -count=1 -timeout 25m ./...); done",
            "source_commits": [],
            "add_only": True,
        },
        "engines": [
            {"name": "vsim", "path": "/verif/tools/vsim", "serves_properties": sorted(CHECKS), "kind_free_text": "orchestrator: builds each world's test binary from /repo's working tree, runs 16 seeded worker processes, merges coverage into evidence, writes replay files"},
            {"name": "stream", "path": "/verif/sim/worlds/stream", "serves_properties": ["C07"], "kind_free_text": "simulated device/medium/source around real streaming AEAD"},
            {"name": "instr", "path": "/verif/tools/instr", "serves_properties": ["C18"], "kind_free_text": "go/ast-based yield-point inserter producing a go build -overlay"},
            {"name": "sched", "path": "/verif/sim/worlds/sched", "serves_properties": ["C18"], "kind_free_text": "baton scheduler (simsched) + sequential oracle + race detector under deterministic schedules"},
            {"name": "rotation", "path": "/verif/sim/worlds/rotation", "serves_properties": ["C05"], "kind_free_text": "administrator/producers/consumers/network/foreign keyset around the real manager and factories"},
            {"name": "atrest", "path": "/verif/sim/worlds/atrest", "serves_properties": ["C14"], "kind_free_text": "real writers -> simulated device/medium with field-aware storage faults -> short-reading source -> real readers"},
            {"name": "memory", "path": "/verif/sim/worlds/memory", "serves_properties": ["C19"], "kind_free_text": "arena-backed buffers, address-overlap invariants, twin-world differential"},
            {"name": "entropy", "path": "/verif/sim/worlds/entropy", "serves_properties": ["C20"], "kind_free_text": "RNG provenance and byte-sensitivity over call histories"},
            {"name": "jwtclock", "path": "/verif/sim/worlds/jwtclock", "serves_properties": ["C09"], "kind_free_text": "issuer/network/verifier inside a synctest bubble, reference model refimpl/jwtref"},
            {"name": "manager", "path": "/verif/sim/worlds/manager", "serves_properties": ["C11"], "kind_free_text": "operation histories of the real keyset.Manager vs reference model, scripted RNG"},
        ],
        "checks": checks,
        "not_applicable": na,
        "notes": "Technique family: deterministic simulation with fault injection. One VERIF_SEED decides every worker seed; rapid (pgregory.net/rapid v1.3.0) is the only choice source inside a run and minimises failing runs; replay files embed the minimised rapid bit stream and the human-readable trace.",
    }
    json.dump(m, open("/verif/MANIFEST.json", "w"), indent=1)
    print("wrote MANIFEST.json with", len(checks), "checks and", len(na), "not_applicable")

if __name__ == "__main__":
    main()
